import AriVerif.Codec
