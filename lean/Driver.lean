import AriVerif.Hex
import AriVerif.Codec
import AriVerif.KeepAlive
import AriVerif.Gen.Version
import AriVerif.Gen.Exc
import AriVerif.Gen.Pool
import AriVerif.Proto
import AriVerif.Spec.Ari
import AriVerif.Init
import AriVerif.Conc.Data
import AriVerif.Framing
import AriVerif.Sender
import AriVerif.Dispatch
import AriVerif.Conc.MetaSrv
import AriVerif.Conc.AppClose
/-!
Line-protocol driver: one operation per input line, one answer line per operation.
Every string travels as lower-case hex of its UTF-8 bytes (`-` = empty).
Only model definitions are executed here; nothing is defaulted: an unknown or ill-formed
operation answers `bad-op`.
-/
open Ari Ari.Proto Ari.Conc

def showDec : Dec → String
  | .val none => "ok n"
  | .val (some s) => "ok s:" ++ Hex.ofStr s
  | .invalid => "invalid"

/-- `n` | `<int>/<nat>` -/
def parseRat? (t : String) : Option (Option Rat) :=
  if t = "n" then some none else
  match t.splitOn "/" with
  | [a, b] => match a.toInt?, b.toNat? with
    | some n, some d => if d = 0 then none else some (some (mkRat n d))
    | _, _ => none
  | _ => none

def showRat (r : Rat) : String := toString r.num ++ "/" ++ toString r.den

def parseOptInt? (t : String) : Option (Option Int) :=
  if t = "n" then some none else (t.toInt?).map some

def stepLine (line : String) : String :=
  match (line.splitOn " ").filter (· ≠ "") with
  | ["parse", l] =>
      match Hex.toStr? l with
      | some s => match parseRequest s with
        | none => "none"
        | some (id, m, data) => " ".intercalate ("ok" :: (id :: m :: data).map Hex.ofStr)
      | none => "bad-op"
  | "read" :: m :: toks =>
      match hexToks? toks with
      | some ts => match decodeRequest m ts with
        | none => "unknown"
        | some (.error e) => "err " ++ e.method
        | some (.ok a) => "ok " ++ showArgs a
      | none => "bad-op"
  | "meta" :: m :: n :: rest =>
      match n.toNat? with
      | some k =>
        match hexToks? (rest.take k), parseOutcomes (rest.drop k) [] with
        | some ts, some script => match metaHandle m ts script with
          | none => "unknown"
          | some (.error e) => "err " ++ e.method
          | some (.ok (calls, r)) => "ok " ++ " ".intercalate (calls.map showCall) ++ " ; " ++ showExec r
        | _, _ => "bad-op"
      | none => "bad-op"
  | "exc" :: m :: rest =>
      match parseExc rest with
      | some (e, []) => "ok " ++ Hex.ofStr (writeError m e)
      | _ => "bad-op"
  | "w" :: "ud3" :: rest =>
      match parseMany (rest.takeWhile (fun t => !(t.startsWith "E" && t.length ≤ 4))) [] with
      | some [item, rid, snap] =>
        match parseEv (rest.dropWhile (fun t => !(t.startsWith "E" && t.length ≤ 4))) with
        | some (ev, []) => showW (writeUpdateMap item rid snap ev)
        | _ => "bad-op"
      | _ => "bad-op"
  | "w" :: "eos" :: rest =>
      match parseMany rest [] with
      | some [a, b] => showW (writeEos a b)
      | _ => "bad-op"
  | "w" :: "cls" :: rest =>
      match parseMany rest [] with
      | some [a, b] => showW (writeCls a b)
      | _ => "bad-op"
  | ["w", "fal", msg] =>
      match Hex.toStr? msg with
      | some m => "ok " ++ Hex.ofStr (writeFailure m)
      | none => "bad-op"
  | "w" :: "names" :: m :: rest =>
      match parseMany rest [] with
      | some [v] => showW (writeNames m v)
      | _ => "bad-op"
  | "w" :: "itemdata" :: m :: rest =>
      match (parseMany rest []).bind triples with
      | some ds => showW (writeItemData m ds)
      | none => "bad-op"
  | "w" :: "nu" :: m :: rest =>
      match parseMany rest [] with
      | some [a, b] => showW (writeNotifyUser m a b)
      | _ => "bad-op"
  | ["w", "void", m] => "ok " ++ Hex.ofStr (writeVoid m)
  | ["w", "initok", m, v] =>
      match parseOptStr? v with
      | some ov => "ok " ++ Hex.ofStr (writeInitOk m ov)
      | none => "bad-op"
  | ["w", "rac", u, p] =>
      match parseOptStr? u, parseOptStr? p with
      | some a, some b => "ok " ++ Hex.ofStr (writeCredentials a b)
      | _, _ => "bad-op"
  | "w" :: "encstr" :: rest =>
      match parseMany rest [] with
      | some [v] => showW (encStr v)
      | _ => "bad-op"
  | "w" :: "encval" :: rest =>
      match parseMany rest [] with
      | some [v] => showW (encodeValue v)
      | _ => "bad-op"
  | ["hint", cfg, h] =>
      match parseRat? cfg, parseRat? h with
      | some c, some h => let e := effective c h; "ok " ++ showRat e.1 ++ " " ++ showRat e.2
      | _, _ => "bad-op"
  | "init" :: kind :: close :: ka :: hv :: cfgf :: rest =>
      let k? : Option Kind := if kind = "data" then some .dataK else if kind = "meta" then some .metaK else none
      let parseVal (t : String) : Option Val := (parseOptStr? t).map Val.str
      let rec pairs (n : Nat) (ts : List String) (acc : PDict) : Option (PDict × List String) :=
        match n, ts with
        | 0, ts => some (acc.reverse, ts)
        | n + 1, a :: b :: r => match parseVal a, parseVal b with
          | some x, some y => pairs n r ((x, y) :: acc)
          | _, _ => none
        | _, _ => none
      let loc? : Option (Option PDict × List String) := match rest with
        | "n" :: r => some (none, r)
        | n :: r => match n.toNat? with
          | some k => (pairs k r []).map fun (d, r') => (some d, r')
          | none => none
        | [] => none
      match k?, parseRat? ka, parseRat? hv, parseOptStr? cfgf, loc? with
      | some k, some kav, some hvv, some cf, some (loc, nt :: r2) =>
        match nt.toNat? with
        | some n =>
          match hexToks? (r2.take n), parseOutcomes (r2.drop n) [] with
          | some toks, some [o1, o2] =>
            match decodeRequest k.method toks with
            | some (.ok ⟨_, .map prs⟩) =>
              let o := onInit ⟨k, prs, loc, cf, close == "t", kav, hvv, o1, o2⟩
              let showD (d : PDict) : String := "d{ " ++ " ".intercalate (d.flatMap fun (a, b) => [showVal a, showVal b]) ++ " }"
              "ok reply " ++ Hex.ofStr o.reply ++ " close " ++ (if o.closeExpected then "t" else "f") ++
                " init " ++ (match o.initArgs with | none => "none" | some (d, f) => showD d ++ " " ++ showOptStr f) ++
                " listener " ++ (if o.listenerCalled then "t" else "f") ++
                " ka " ++ showRat o.keepAlive.1 ++ " " ++ showRat o.keepAlive.2
            | some (.error e) => "err " ++ e.method
            | _ => "bad-op"
          | _, _ => "bad-op"
        | none => "bad-op"
      | _, _, _, _, _ => "bad-op"
  | "dispatch" :: kind :: exh :: ka :: hv :: rest =>
      let k? : Option Kind := if kind = "data" then some .dataK else if kind = "meta" then some .metaK else none
      let hb (t : String) : Option Bool := if t = "t" then some true else if t = "f" then some false else none
      match k?, parseRat? ka, parseRat? hv with
      | some k, some kav, some hvv =>
        -- rest: <initOutcome tokens> "--" hexlines
        let outToks := rest.takeWhile (· ≠ "--")
        let lineToks := (rest.dropWhile (· ≠ "--")).drop 1
        match parseOutcomes outToks [], hexToks? lineToks with
        | some [o1, o2], some lines =>
          let cfg : SrvCfg := { kind := k, excHandler := hb exh, ioHandler := none, keepAlive := kav }
          let env : InitEnv := { initOutcome := o1, listenerOutcome := o2, hintValue := hvv }
          let st0 : RState := { keepAlive := (Gen.initialKeepAlive kav, Gen.initialKeepAlive kav) }
          let (st, acts) := dispatchAll cfg env st0 lines
          let showD (d : PDict) : String := "d{" ++ ",".intercalate (d.flatMap fun (a, b) => [showVal a, showVal b]) ++ "}"
          let showA : RAct → Option String
            | .discard => none
            | .handlerExc => some "handler"
            | .fal => some "fal"
            | .initialize a f => some ("init:" ++ showD a ++ ":" ++ showOptStr f)
            | .setListener => some "listener"
            | .reply l => some ("reply:" ++ Hex.ofStr l)
            | .submit m id _ => some ("submit:" ++ m ++ ":" ++ Hex.ofStr id)
            | .dataReq b id item => some ("data:" ++ (if b then "SUB" else "USB") ++ ":" ++ Hex.ofStr id ++ ":" ++ showVal item)
            | .quit => some "quit"
            | .poolShutdown => some "poolshutdown"
            | .sockClose => some "sockclose"
          "ok " ++ " | ".intercalate (acts.map fun as => ",".intercalate (as.filterMap showA)) ++
            " ; init=" ++ (if st.initExpected then "t" else "f") ++ " close=" ++ (if st.closeExpected then "t" else "f") ++
            " closed=" ++ (if st.closed then "t" else "f") ++ " ka=" ++ showRat st.keepAlive.1
        | _, _ => "bad-op"
      | _, _, _ => "bad-op"
  | ["iofault", ioh, closed, who] =>
      let hb (t : String) : Option Bool := if t = "t" then some true else if t = "f" then some false else none
      let cfg : SrvCfg := { kind := .dataK, excHandler := none, ioHandler := hb ioh }
      let st : RState := { keepAlive := (0, 0), closed := closed == "t" }
      let acts := if who = "reader" then readerFault cfg st else writerFault cfg
      "ok " ++ " ".intercalate (acts.map fun a => match a with | .handlerIo => "iohandler" | .exit => "exit")
  | "sender" :: tie :: k0 :: hz :: evs =>
      let parseEv (t : String) : Option (Nat × SAct) :=
        match t.splitOn ":" with
        | [tm, "p", m] => match tm.toNat?, Hex.toStr? m with
          | some n, some s => some (n, .put s)
          | _, _ => none
        | [tm, "pill"] => tm.toNat?.map fun n => (n, .pill)
        | [tm, "stop"] => tm.toNat?.map fun n => (n, .stop)
        | [tm, "k", k] => match tm.toNat?, k.toNat? with
          | some n, some kk => some (n, .setK kk)
          | _, _ => none
        | _ => none
      match k0.toNat?, hz.toNat?, evs.mapM parseEv with
      | some k, some h, some es =>
        let out := senderRun (tie == "t") k es h
        "ok " ++ " ".intercalate (out.map fun w => toString w.time ++ ":" ++ Hex.ofStr w.line)
      | _, _, _ => "bad-op"
  | "frame" :: chunks =>
      match hexToks? chunks with
      | some cs =>
        let (ls, b) := feedAllL [] (cs.map String.toList)
        "ok " ++ " ".intercalate (ls.map fun l => Hex.ofStr (String.ofList l)) ++ " ; " ++ Hex.ofStr (String.ofList b)
      | none => "bad-op"
  | ["appclose", hnd, fail, closes, pf, inb, acts] =>
      -- trace acceptance for Conc/AppClose: `hnd` a|y|n, `fail` k|-, `closes`, `pf` 0|1, `inb` chunks `it,t,-` (i init, t task, - empty
      -- chunk; `.` = no chunk at all), `acts` one letter per action (a app, r rd, f rfal, w wr, e tenq, d tfin)
      let h? : Option AppClose.Hnd := match hnd with | "a" => some .absent | "y" => some .yes | "n" => some .no | _ => none
      let f? : Option (Option Nat) := if fail = "-" then some none else fail.toNat?.map some
      let chunk? (c : String) : Option (List AppClose.Req) :=
        if c = "-" then some [] else c.toList.mapM fun ch => match ch with | 'i' => some AppClose.Req.init | 't' => some .task | _ => none
      let inb? : Option (List (List AppClose.Req)) := if inb = "." then some [] else (inb.splitOn ",").mapM chunk?
      let acts? : Option (List AppClose.Act) := acts.toList.mapM fun ch => match ch with
        | 'a' => some AppClose.Act.app | 'r' => some .rd | 'f' => some .rfal | 'w' => some .wr | 'e' => some .tenq | 'd' => some .tfin
        | _ => none
      let showR : AppClose.RPc → String | .test => "test" | .recv => "recv" | .proc _ => "proc" | .exc => "exc" | .done => "done"
      let showW : AppClose.WPc → String | .get => "get" | .send _ => "send" | .done => "done"
      let obs (s : AppClose.St) : String :=
        " ".intercalate [toString s.app, showR s.r, showW s.w, toString s.stop, toString s.poolShut, toString s.sockClosed,
          toString s.tasks, toString s.fin, toString s.acc, toString s.q.length, toString s.excRep, toString s.exited,
          "rep=" ++ String.join (s.ioRep.map fun r => match r.who with | .reader => "R" | .writer => "W"),
          "wrote=" ++ ",".intercalate (s.wrote.map toString), "next=" ++ toString s.next]
      match h?, f?, closes.toNat?, (if pf = "0" then some false else if pf = "1" then some true else none), inb?, acts? with
      | some h, some f, some c, some p, some ib, some as =>
        let rec go (s : AppClose.St) (i : Nat) : List AppClose.Act → String
          | [] => "ok " ++ obs s
          | a :: rest => match AppClose.step s a with
            | some s' => go s' (i + 1) rest
            | none => "rejected " ++ toString i ++ " " ++ obs s
        go (AppClose.init h f c ib p) 0 as
      | _, _, _, _, _, _ => "bad-op"
  | ["pool", sz, cpu] =>
      match parseOptInt? sz, parseOptInt? cpu with
      | some s, some c => "ok " ++ toString (Gen.poolSize s c)
      | _, _ => "bad-op"
  | ["enc", "n"] => "ok " ++ Hex.ofStr (encodeString none)
  | ["enc", v] =>
      if v.startsWith "s:" then
        match Hex.toStr? (v.drop 2).toString with
        | some s => "ok " ++ Hex.ofStr (encodeString (some s))
        | none => "bad-op"
      else "bad-op"
  | ["dec", t] =>
      match Hex.toStr? t with
      | some s => showDec (decodeString s)
      | none => "bad-op"
  | _ => "bad-op"

structure DriverState where
  data : Option DState := none
  metaS : Option MState := none

def showGEff : GEff → String
  | .enqueue l => "enq:" ++ Hex.ofStr l
  | .submit n => "sub:" ++ toString n
  | .adapterBegin m x => "ab:" ++ (match m with | .snap => "snap" | .sub => "sub" | .usb => "usb") ++ ":" ++ Hex.ofStr x
  | .adapterEnd m x => "ae:" ++ (match m with | .snap => "snap" | .sub => "sub" | .usb => "usb") ++ ":" ++ Hex.ofStr x
  | .sent b => "sent:" ++ Hex.ofStr b
  | .enqueuePill => "enq:" ++ Hex.ofStr stopPill
  | .sockClose => "sockclose"
  | .ioHandler => "iohandler"
  | .exit => "exit"

def parseLKind (ts : List String) : Option LKind :=
  match ts with
  | ["eos"] => some .eos
  | ["cls"] => some .cls
  | "upd" :: rest =>
    match parsePy rest with
    | some (snap, r) => match parseEv r with
      | some (ev, []) => some (.update snap ev)
      | _ => none
    | none => none
  | _ => none

def parseOp (ts : List String) : Option (OpClass × String) :=
  match ts with
  | ["start"] => some (.taskStart, "")
  | ["tstart"] => some (.threadStart, "")
  | ["ilock"] => some (.itemLock, "")
  | ["mlock"] => some (.mgrLock, "")
  | ["put"] => some (.put, "")
  | ["lput", x] => (Hex.toStr? x).map fun i => (.lsnPutOp, i)
  | ["fput", m] => (Hex.toStr? m).map fun x => (.failurePut x, "")
  | ["xput", m] => (Hex.toStr? m).map fun x => (.excFailurePut x, "")
  | ["abegin"] => some (.adapterBegin, "")
  | ["aend", "R", f] => some (.adapterEnd (.ret (f == "t")), "")
  | "aend" :: "E" :: rest => match parseExc rest with
    | some (e, []) => some (.adapterEnd (.raise e), "")
    | _ => none
  | ["recv"] => some (.recv, "")
  | ["get", t] => some (.get (t == "t"), "")
  | ["send"] => some (.send, "")
  | ["deliver", c] => (Hex.toStr? c).map fun x => (.deliver x, "")
  | ["join"] => some (.join, "")
  | ["poolwait"] => some (.poolWait, "")
  | ["eoi"] => some (.endOfInput, "")
  | ["sendfail"] => some (.sendFail, "")
  | "llock" :: x :: rest => match Hex.toStr? x, parseLKind rest with
    | some i, some k => some (.lsnLock k, i)
    | _, _ => none
  | _ => none

/-- one co-simulation chunk: `k <tid> <op…> ; <effects…> ; <enabled,…> ; <snapshot hex>` -/
def cosimChunk (st : DState) (toks : List String) : DState × String :=
  let parts := (toks.foldl (fun (acc : List (List String)) t =>
    if t = ";" then [] :: acc else match acc with
      | cur :: rest => (t :: cur) :: rest
      | [] => [[t]]) [[]]).reverse.map List.reverse
  match parts with
  | [(tid :: opToks), effs, en, [snap]] =>
    match parseOp opToks with
    | none => (st, "bad-op")
    | some (op, lsnItem) =>
      match gstep st tid op lsnItem with
      | none => (st, "mismatch step-not-enabled-in-model tid=" ++ tid ++ " op=" ++ " ".intercalate opToks)
      | some (st', geffs) =>
        let me := geffs.map showGEff
        let men := ",".intercalate (genabled st')
        let msnap := Hex.ofStr (gsnap st')
        let ien := match en with | [e] => e | _ => ""
        if me != effs then (st', "mismatch effects model=" ++ " ".intercalate me ++ " impl=" ++ " ".intercalate effs)
        else if men != ien then (st', "mismatch enabled model=" ++ men ++ " impl=" ++ ien)
        else if msnap != snap then (st', "mismatch snapshot model=" ++ gsnap st' ++ " impl=" ++ (Hex.toStr? snap).getD "?")
        else match ginvFail st' with
          | some c => (st', "mismatch invariant-clause-false " ++ c)
          | none => (st', "ok")
  | _ => (st, "bad-op")

def showMEff : MEff → String
  | .enqueue l => "enq:" ++ Hex.ofStr l
  | .submit n => "sub:" ++ toString n
  | .adapterBegin c => "ab:" ++ Hex.ofStr (" ".intercalate ((c.splitOn " ").filter (· ≠ "")))
  | .adapterEnd c => "ae:" ++ c
  | .handlerExc => "handler"
  | .sent b => "sent:" ++ Hex.ofStr b
  | .enqueuePill => "enq:" ++ Hex.ofStr stopPill
  | .sockClose => "sockclose"
  | .ioHandler => "iohandler"
  | .exit => "exit"

def parseMOp (ts : List String) : Option MOp :=
  match ts with
  | ["tstart"] => some .threadStart
  | ["deliver", c] => (Hex.toStr? c).map .deliver
  | ["recv"] => some .recv
  | ["put"] => some .put
  | ["get"] => some .get
  | ["send"] => some .send
  | ["eoi"] => some .endOfInput
  | ["sendfail"] => some .sendFail
  | ["join"] => some .join
  | ["poolwait"] => some .poolWait
  | ["start"] => some .taskStart
  | ["abegin"] => some .adapterBegin
  | "aend" :: rest => match parseOutcomes rest [] with
    | some [o] => some (.adapterEnd o)
    | _ => none
  | _ => none

def metaChunk (st : MState) (toks : List String) : MState × String :=
  let parts := (toks.foldl (fun (acc : List (List String)) t =>
    if t = ";" then [] :: acc else match acc with
      | cur :: rest => (t :: cur) :: rest
      | [] => [[t]]) [[]]).reverse.map List.reverse
  match parts with
  | [(tid :: opToks), effs, en, [snap]] =>
    match parseMOp opToks with
    | none => (st, "bad-op")
    | some op =>
      match mstep st {} tid op with
      | none => (st, "mismatch step-not-enabled-in-model tid=" ++ tid ++ " op=" ++ " ".intercalate opToks)
      | some (st', meffs) =>
        let me := meffs.map showMEff
        let men := ",".intercalate (menabled st')
        let ien := match en with | [e] => e | _ => ""
        if me != effs then (st', "mismatch effects model=" ++ " ".intercalate me ++ " impl=" ++ " ".intercalate effs)
        else if men != ien then (st', "mismatch enabled model=" ++ men ++ " impl=" ++ ien)
        else if Hex.ofStr (msnap st') != snap then (st', "mismatch snapshot model=" ++ msnap st' ++ " impl=" ++ (Hex.toStr? snap).getD "?")
        else (st', "ok")
  | _ => (st, "bad-op")

def stepState (ds : DriverState) (line : String) : DriverState × String :=
  match (line.splitOn " ").filter (· ≠ "") with
  | ["cosim", "meta", n, exh] =>
    let hb (t : String) : Option Bool := if t = "t" then some true else if t = "f" then some false else none
    match n.toNat? with
    | some k =>
      let cfg : SrvCfg := { kind := .metaK, excHandler := hb exh, ioHandler := none, keepAlive := some 0 }
      ({ ds with metaS := some { cfg := cfg, pool := { n := k }, rst := { keepAlive := (0, 0) } } }, "ok")
    | none => (ds, "bad-op")
  | ["cosim", "meta", n, exh, ioh] =>
    let hb (t : String) : Option Bool := if t = "t" then some true else if t = "f" then some false else none
    match n.toNat? with
    | some k =>
      let cfg : SrvCfg := { kind := .metaK, excHandler := hb exh, ioHandler := hb ioh, keepAlive := some 0 }
      ({ ds with metaS := some { cfg := cfg, pool := { n := k }, rst := { keepAlive := (0, 0) } } }, "ok")
    | none => (ds, "bad-op")
  | "km" :: rest =>
    match ds.metaS with
    | some st => let (st', ans) := metaChunk st rest; ({ ds with metaS := some st' }, ans)
    | none => (ds, "bad-op")
  | ["cosim", "data", n] =>
    match n.toNat? with
    | some k => ({ ds with data := some { poolN := k } }, "ok")
    | none => (ds, "bad-op")
  | ["cosim", "data", n, u, p] =>
    match n.toNat?, parseOptStr? u, parseOptStr? p with
    | some k, some uu, some pp => ({ ds with data := some { poolN := k, user := uu, password := pp } }, "ok")
    | _, _, _ => (ds, "bad-op")
  | ["cosim", "data", n, u, p, ioh] =>
    let hb (t : String) : Option Bool := if t = "t" then some true else if t = "f" then some false else none
    match n.toNat?, parseOptStr? u, parseOptStr? p with
    | some k, some uu, some pp => ({ ds with data := some { poolN := k, user := uu, password := pp, ioHandler := hb ioh } }, "ok")
    | _, _, _ => (ds, "bad-op")
  | "k" :: rest =>
    match ds.data with
    | some st => let (st', ans) := cosimChunk st rest; ({ ds with data := some st' }, ans)
    | none => (ds, "bad-op")
  | _ => (ds, stepLine line)

partial def loop (h : IO.FS.Stream) (out : IO.FS.Stream) (ds : DriverState) : IO Unit := do
  let line ← h.getLine
  if line.isEmpty then return ()
  let l := String.ofList (line.toList.filter (fun c => c != '\n' && c != '\r'))
  let (ds', ans) := stepState ds l
  out.putStrLn ans
  loop h out ds'

def main : IO Unit := do
  let stdin ← IO.getStdin
  let stdout ← IO.getStdout
  loop stdin stdout {}
