import AriVerif.Hex
import AriVerif.Codec
/-!
Line-protocol driver: one operation per input line, one answer line per operation.
Every string travels as lower-case hex of its UTF-8 bytes (`-` = empty).
Only model definitions are executed here; nothing is defaulted: an unknown or ill-formed
operation answers `bad-op`.
-/
open Ari

def showDec : Dec → String
  | .val none => "ok n"
  | .val (some s) => "ok s:" ++ Hex.ofStr s
  | .invalid => "invalid"

def stepLine (line : String) : String :=
  match line.splitOn " " with
  | ["enc", "n"] => "ok " ++ Hex.ofStr (encodeString none)
  | ["enc", v] =>
      if v.startsWith "s:" then
        match Hex.toStr? (v.drop 2).toString with
        | some s => "ok " ++ Hex.ofStr (encodeString (some s))
        | none => "bad-op"
      else "bad-op"
  | ["dec", t] =>
      match Hex.toStr? t with
      | some s => showDec (decodeString s)
      | none => "bad-op"
  | _ => "bad-op"

partial def loop (h : IO.FS.Stream) (out : IO.FS.Stream) : IO Unit := do
  let line ← h.getLine
  if line.isEmpty then return ()
  let l := String.ofList (line.toList.filter (fun c => c != '\n' && c != '\r'))
  out.putStrLn (stepLine l)
  loop h out

def main : IO Unit := do
  let stdin ← IO.getStdin
  let stdout ← IO.getStdout
  loop stdin stdout
