import AriVerif.Hex
import AriVerif.Codec
import AriVerif.KeepAlive
import AriVerif.Gen.Version
import AriVerif.Gen.Exc
import AriVerif.Gen.Pool
import AriVerif.Proto
import AriVerif.Spec.Ari
/-!
Line-protocol driver: one operation per input line, one answer line per operation.
Every string travels as lower-case hex of its UTF-8 bytes (`-` = empty).
Only model definitions are executed here; nothing is defaulted: an unknown or ill-formed
operation answers `bad-op`.
-/
open Ari Ari.Proto

def showDec : Dec → String
  | .val none => "ok n"
  | .val (some s) => "ok s:" ++ Hex.ofStr s
  | .invalid => "invalid"

/-- `n` | `<int>/<nat>` -/
def parseRat? (t : String) : Option (Option Rat) :=
  if t = "n" then some none else
  match t.splitOn "/" with
  | [a, b] => match a.toInt?, b.toNat? with
    | some n, some d => if d = 0 then none else some (some (mkRat n d))
    | _, _ => none
  | _ => none

def showRat (r : Rat) : String := toString r.num ++ "/" ++ toString r.den

def parseOptInt? (t : String) : Option (Option Int) :=
  if t = "n" then some none else (t.toInt?).map some

def stepLine (line : String) : String :=
  match (line.splitOn " ").filter (· ≠ "") with
  | ["parse", l] =>
      match Hex.toStr? l with
      | some s => match parseRequest s with
        | none => "none"
        | some (id, m, data) => " ".intercalate ("ok" :: (id :: m :: data).map Hex.ofStr)
      | none => "bad-op"
  | "read" :: m :: toks =>
      match hexToks? toks with
      | some ts => match decodeRequest m ts with
        | none => "unknown"
        | some (.error e) => "err " ++ e.method
        | some (.ok a) => "ok " ++ showArgs a
      | none => "bad-op"
  | "meta" :: m :: n :: rest =>
      match n.toNat? with
      | some k =>
        match hexToks? (rest.take k), parseOutcomes (rest.drop k) [] with
        | some ts, some script => match metaHandle m ts script with
          | none => "unknown"
          | some (.error e) => "err " ++ e.method
          | some (.ok (calls, r)) => "ok " ++ " ".intercalate (calls.map showCall) ++ " ; " ++ showExec r
        | _, _ => "bad-op"
      | none => "bad-op"
  | "exc" :: m :: rest =>
      match parseExc rest with
      | some (e, []) => "ok " ++ Hex.ofStr (writeError m e)
      | _ => "bad-op"
  | "w" :: "ud3" :: rest =>
      match parseMany (rest.takeWhile (fun t => !(t.startsWith "E" && t.length ≤ 4))) [] with
      | some [item, rid, snap] =>
        match parseEv (rest.dropWhile (fun t => !(t.startsWith "E" && t.length ≤ 4))) with
        | some (ev, []) => showW (writeUpdateMap item rid snap ev)
        | _ => "bad-op"
      | _ => "bad-op"
  | "w" :: "eos" :: rest =>
      match parseMany rest [] with
      | some [a, b] => showW (writeEos a b)
      | _ => "bad-op"
  | "w" :: "cls" :: rest =>
      match parseMany rest [] with
      | some [a, b] => showW (writeCls a b)
      | _ => "bad-op"
  | ["w", "fal", msg] =>
      match Hex.toStr? msg with
      | some m => "ok " ++ Hex.ofStr (writeFailure m)
      | none => "bad-op"
  | "w" :: "names" :: m :: rest =>
      match parseMany rest [] with
      | some [v] => showW (writeNames m v)
      | _ => "bad-op"
  | "w" :: "itemdata" :: m :: rest =>
      match (parseMany rest []).bind triples with
      | some ds => showW (writeItemData m ds)
      | none => "bad-op"
  | "w" :: "nu" :: m :: rest =>
      match parseMany rest [] with
      | some [a, b] => showW (writeNotifyUser m a b)
      | _ => "bad-op"
  | ["w", "void", m] => "ok " ++ Hex.ofStr (writeVoid m)
  | ["w", "initok", m, v] =>
      match parseOptStr? v with
      | some ov => "ok " ++ Hex.ofStr (writeInitOk m ov)
      | none => "bad-op"
  | ["w", "rac", u, p] =>
      match parseOptStr? u, parseOptStr? p with
      | some a, some b => "ok " ++ Hex.ofStr (writeCredentials a b)
      | _, _ => "bad-op"
  | "w" :: "encstr" :: rest =>
      match parseMany rest [] with
      | some [v] => showW (encStr v)
      | _ => "bad-op"
  | "w" :: "encval" :: rest =>
      match parseMany rest [] with
      | some [v] => showW (encodeValue v)
      | _ => "bad-op"
  | ["hint", cfg, h] =>
      match parseRat? cfg, parseRat? h with
      | some c, some h => let e := effective c h; "ok " ++ showRat e.1 ++ " " ++ showRat e.2
      | _, _ => "bad-op"
  | ["pool", sz, cpu] =>
      match parseOptInt? sz, parseOptInt? cpu with
      | some s, some c => "ok " ++ toString (Gen.poolSize s c)
      | _, _ => "bad-op"
  | ["enc", "n"] => "ok " ++ Hex.ofStr (encodeString none)
  | ["enc", v] =>
      if v.startsWith "s:" then
        match Hex.toStr? (v.drop 2).toString with
        | some s => "ok " ++ Hex.ofStr (encodeString (some s))
        | none => "bad-op"
      else "bad-op"
  | ["dec", t] =>
      match Hex.toStr? t with
      | some s => showDec (decodeString s)
      | none => "bad-op"
  | _ => "bad-op"

partial def loop (h : IO.FS.Stream) (out : IO.FS.Stream) : IO Unit := do
  let line ← h.getLine
  if line.isEmpty then return ()
  let l := String.ofList (line.toList.filter (fun c => c != '\n' && c != '\r'))
  out.putStrLn (stepLine l)
  loop h out

def main : IO Unit := do
  let stdin ← IO.getStdin
  let stdout ← IO.getStdout
  loop stdin stdout
