import AriVerif.Gen.KeepAlive
/-
  Keepalive negotiation, composed from the *generated* pieces (Gen.KeepAlive is re-translated from
  server.py on every run).
-/
namespace Ari

/-- keepalive interval (seconds) in force after the init request: what `server.keep_alive`
    shows (`.1`) and what the writer thread waits on (`.2`).
    `keepAlive` = constructor argument (seconds, `none` = not configured),
    `hint` = numeric value of the Proxy Adapter's `keepalive_hint.millis` (`none` = absent). -/
def effective (keepAlive : Option Rat) (hint : Option Rat) : Rat × Rat :=
  match Gen.useHint (Gen.configuredMs keepAlive) hint with
  | none => (Gen.initialKeepAlive keepAlive, Gen.initialKeepAlive keepAlive)
  | some ms => Gen.changeKeepAlive ms

end Ari
