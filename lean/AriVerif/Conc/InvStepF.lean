import AriVerif.Conc.InvTac
/-
  Conc/InvStepF.lean — preservation of `Inv` by `pop` (the item-lock section at the head of the dequeuer loop).
-/
namespace Ari.Conc
open Ari
set_option linter.unusedSimpArgs false

/-- empty queue: the dequeuer leaves the loop. -/
theorem inv_pop_empty {s : IState} {k : Nat} {ok : Bool} (h : Inv s) (hk : k < s.ninst)
    (hpc : (s.insts k).pc = .atLoop)
    (hok : ok = if (s.insts k).deq = 0 then (s.mgrs (s.insts k).gen).lastOk else (s.insts k).ok)
    (hq : (s.mgrs (s.insts k).gen).q = []) :
    Inv (setInst (setMgr s (s.insts k).gen
          { s.mgrs (s.insts k).gen with running := false, lastOk := ok, loop := none }) k
          { s.insts k with ok := ok, pc := .dec }) := by
  obtain ⟨hact, hloop, hcur⟩ := h.loopCur hk (by rw [hpc]; rfl)
  have hg := h.genLt k hk
  have hdeq : (s.insts k).deq ≠ 0 := fun hd => h.firstPop _ hg k hloop hd hq
  have hok' : ok = (s.insts k).ok := by rw [hok, if_neg hdeq]
  subst hok'
  inv_refine
  case counter =>
    intro g' hg'
    have hc := h.counter g' hg'
    rw [decOf_eq] at hc ⊢
    simp only [setInst, setMgr, upd_apply] at hc ⊢
    have hs := sumDec_upd s.insts k s.ninst g' { s.insts k with pc := .dec } hk
    simp only [upd_apply] at hs
    have h0 : decI (s.insts k) g' = 0 := by simp [decI, hpc]
    rw [h0] at hs
    by_cases hgg : g' = (s.insts k).gen
    · subst hgg
      have h1 : decI { s.insts k with pc := .dec } (s.insts k).gen = (s.insts k).deq := by simp [decI]
      rw [h1] at hs
      simp only [if_true, hloop, hq] at hc ⊢
      omega
    · have h1 : decI { s.insts k with pc := .dec } g' = 0 := by
        simp only [decI]; rw [if_neg (fun hh => hgg hh.symm)]
      rw [h1] at hs
      simp only [hgg, if_false] at hc ⊢
      cases hl : (s.mgrs g').loop with
      | none => simp only [hl] at hc ⊢; omega
      | some k' =>
        have hk' := (h.loopInst g' hg' k' hl).2.1
        have : ¬ k' = k := fun hh => hgg (by rw [← hk', hh])
        simp only [hl, this, if_false] at hc ⊢; omega
  all_goals inv_default [hact, hloop, hpc, hq, hdeq]

/-- what is known when the looping instance pops `t`. -/
structure PopFacts (s : IState) (t : Task) (rest : List Task) (ok : Bool) : Prop where
  harr : s.arr = s.fin ++ t :: (rest ++ rheldL s)
  hnid : ¬ hasId s.fin t.id
  hlastk : ∀ p, s.fin.getLast? = some p → p.isSub = !t.isSub
  husb : t.isSub = false → ∃ p, s.fin.getLast? = some p ∧ p.isSub = true
  hli : ∀ m b, s.lastInv ≠ some (m, t.id, b)
  hlatefin : ∀ p, p ∈ s.late → p ∈ s.fin
  hexecd : ∀ r, r ∈ s.execd → hasId s.fin r
  hrepl : ∀ r, r ∈ s.repl → hasId s.fin r
  hnotlast : rest ≠ [] → s.arr.getLast? ≠ some t
  heff : effOk s = ok
  hbt : betweenTasks s = true

theorem Inv.popFacts {s : IState} (h : Inv s) (hwf : WF s.arr) {k : Nat} {t : Task} {rest : List Task} {ok : Bool}
    (hk : k < s.ninst) (hpc : (s.insts k).pc = .atLoop) (hq : (s.mgrs (s.insts k).gen).q = t :: rest)
    (hok : ok = if (s.insts k).deq = 0 then (s.mgrs (s.insts k).gen).lastOk else (s.insts k).ok) :
    PopFacts s t rest ok := by
  obtain ⟨hact, hloop, hcur⟩ := h.loopCur hk (by rw [hpc]; rfl)
  have harr : s.arr = s.fin ++ t :: (rest ++ rheldL s) := by
    have := h.seq
    simpa [heldL, qL, hcur, hpc, hact, hq, Pc.held] using this
  have hnid : ¬ hasId s.fin t.id := by
    have := hwf.1; rw [harr] at this
    exact not_hasId_of_nodup this (List.mem_cons_self ..)
  refine ⟨harr, hnid, ?_, ?_, ?_, ?_, ?_, ?_, ?_, ?_, ?_⟩
  · intro p hp
    have := hwf.2; rw [harr] at this
    exact alt_last this hp
  · intro ht
    have := hwf.2; rw [harr] at this
    exact alt_first this ht
  · intro m b hh
    rcases h.lastInvId _ _ _ hh with hf | ⟨k', hk', ha, _⟩
    · exact hnid hf
    · rw [hcur] at hk'; cases hk'; rw [hpc] at ha; cases ha
  · intro p hp
    rcases h.lateFin p hp with hf | ⟨k', l, hk', hp'⟩
    · exact hf
    · rw [hcur] at hk'; cases hk'; rw [hpc] at hp'; cases hp'
  · intro r hr
    rcases h.execdHeld r hr with hf | hf
    · exact hf
    · simp [heldL, hcur, hpc, Pc.held, hasId] at hf
  · intro r hr
    rcases h.replOnly r hr with hf | ⟨k', t', hk', hp', _⟩
    · exact hf
    · rw [hcur] at hk'; cases hk'; rw [hpc] at hp'; cases hp'
  · intro hrest hlast
    have hnd := hwf.1
    rw [harr] at hlast hnd
    -- the last element of `arr` lies in `rest ++ rheldL s`, which is disjoint (by id) from `fin ++ [t]`
    have hne : rest ++ rheldL s ≠ [] := by simp [hrest]
    have hl2 : (rest ++ rheldL s).getLast? = some t := by
      have : s.fin ++ t :: (rest ++ rheldL s) = (s.fin ++ [t]) ++ (rest ++ rheldL s) := by simp
      rw [this, getLast?_append_ne_nil hne] at hlast
      exact hlast
    have hm := List.mem_of_getLast? hl2
    have : s.fin ++ t :: (rest ++ rheldL s) = (s.fin ++ [t]) ++ (rest ++ rheldL s) := by simp
    rw [this] at hnd
    exact nodup_id_disj hnd (a := t) (b := t) (by simp) hm rfl
  · simp [effOk, hact, hloop, hok]
  · simp [betweenTasks, hcur, hpc, Pc.between]

end Ari.Conc
