import AriVerif.Conc.MetaClose
/-
  Conc/MetaFault.lean — I/O failures on the whole-Metadata-server model: the peer closes or resets the connection at any
  point of the inbound stream (`recv` fails once the delivered bytes are consumed), or any write of the writer thread
  fails.  C20's failure clauses at thread level, for every schedule, pool size and adapter outcome.
-/
namespace Ari.Conc
open Ari

/-- the report is exactly `on_ioexception`'s: the handler, if installed, is told once; the process exits iff no handler is
    installed or it returns a true value. -/
theorem ioEffects_spec (cfg : SrvCfg) :
    ioEffects cfg = (match cfg.ioHandler with
      | none => [MEff.exit]
      | some r => MEff.ioHandler :: (if r then [MEff.exit] else [])) := by
  simp only [ioEffects, onIoException]
  cases cfg.ioHandler with
  | none => rfl
  | some r => cases r <;> rfl

/-! ### which steps report -/

theorem runLocal_no_io (s : MState) (acts : List RAct) :
    MEff.ioHandler ∉ (runLocal s acts).2 ∧ MEff.exit ∉ (runLocal s acts).2 := by
  induction acts generalizing s with
  | nil => simp [runLocal]
  | cons a rest ih =>
    cases a with
    | reply l => simp [runLocal]
    | quit => simp [runLocal]
    | poolShutdown => simp [runLocal]
    | submit m id toks =>
      simp only [runLocal]
      cases hd : decodeRequest m toks with
      | none => exact ih s
      | some r =>
        cases r with
        | error e => exact ih s
        | ok a =>
          simp only [pstep_submit]
          simpa using ih { s with pool := { s.pool with tasks := s.pool.tasks ++ [{ rid := id, method := m, args := a }], workQ := s.pool.workQ ++ [s.pool.tasks.length] } }
    | handlerExc =>
      simp only [runLocal]
      simpa using ih s
    | _ =>
      simp only [runLocal]
      exact ih s

theorem runLocal_no_io' {s s' : MState} {acts : List RAct} {e : List MEff} (h : runLocal s acts = (s', e)) :
    MEff.ioHandler ∉ e ∧ MEff.exit ∉ e := by
  have := runLocal_no_io s acts
  rw [h] at this
  exact this

theorem liftF_no_io (b : Bool) (effs : List PEff) (acc : MState × List MEff)
    (h : MEff.ioHandler ∉ acc.2 ∧ MEff.exit ∉ acc.2) :
    MEff.ioHandler ∉ (effs.foldl (liftF b) acc).2 ∧ MEff.exit ∉ (effs.foldl (liftF b) acc).2 := by
  induction effs generalizing acc with
  | nil => exact h
  | cons e effs ih =>
    rw [List.foldl_cons]
    apply ih
    cases e with
    | enqueue l => simpa [liftF] using h
    | adapterBegin c => simpa [liftF] using h
    | adapterEnd c => simpa [liftF] using h
    | handlerExc => cases b <;> simpa [liftF] using h

theorem liftPool_no_io {s s' : MState} {r : Option (PState × List PEff)} {effs : List MEff}
    (h : liftPool s r = some (s', effs)) : MEff.ioHandler ∉ effs ∧ MEff.exit ∉ effs := by
  rw [liftPool_eq] at h
  cases r with
  | none => simp at h
  | some x =>
    simp only [Option.map_some, Option.some.injEq] at h
    have := liftF_no_io s.cfg.excHandler.isSome x.2 ({ s with pool := x.1 }, []) (by simp)
    rw [h] at this
    exact this

/-- a step is a failing read, a failing write (both with their exact successor state and effects), or carries no I/O
    report at all. -/
theorem mstep_fault_cases {s s' : MState} {env : InitEnv} {tid : String} {op : MOp} {effs : List MEff}
    (h : mstep s env tid op = some (s', effs)) :
    (MEff.ioHandler ∉ effs ∧ MEff.exit ∉ effs) ∨
    (tid = "R" ∧ op = .recv ∧ s.rq = [] ∧ s.inbound = [] ∧ s.inEnd = true ∧
      s' = ioReport { s with rthr := 4 } ∧ effs = ioEffects s.cfg) ∨
    (tid = "W" ∧ op = .sendFail ∧ s' = ioReport { s with wsend := none, wthr := 4 } ∧ effs = ioEffects s.cfg) := by
  unfold mstep at h
  repeat' split at h
  all_goals first
    | contradiction
    | (simp only [Option.some.injEq, Prod.mk.injEq] at h; obtain ⟨rfl, rfl⟩ := h
       first
         | exact .inr (.inl ⟨by assumption, rfl, by assumption, by assumption, by assumption, rfl, rfl⟩)
         | exact .inr (.inr ⟨by assumption, rfl, rfl, rfl⟩)
         | (left; simp; done)
         | (left
            have g := runLocal_no_io' (by assumption)
            simp only [List.mem_cons, reduceCtorEq, false_or]
            exact g))
    | exact .inl (liftPool_no_io h)
    | (simp only [Option.some.injEq] at h
       exact .inl (runLocal_no_io' h))

/-- **only a failing read or a failing write is reported.** -/
theorem mstep_io_only_on_fault {s s' : MState} {env : InitEnv} {tid : String} {op : MOp} {effs : List MEff}
    (h : mstep s env tid op = some (s', effs)) (hio : MEff.ioHandler ∈ effs ∨ MEff.exit ∈ effs) :
    (tid = "R" ∧ op = .recv ∧ s.rq = [] ∧ s.inbound = [] ∧ s.inEnd = true) ∨ (tid = "W" ∧ op = .sendFail) := by
  rcases mstep_fault_cases h with ⟨h1, h2⟩ | ⟨h1, h2, h3, h4, h5, -⟩ | ⟨h1, h2, -⟩
  · exact (hio.elim h1 h2).elim
  · exact .inl ⟨h1, h2, h3, h4, h5⟩
  · exact .inr ⟨h1, h2⟩

/-- **a failing read**: reported exactly as `on_ioexception` prescribes, the reader ends, nothing else is touched. -/
theorem mstep_read_fault (s : MState) (env : InitEnv) (hr : s.rthr = 2) (hq : s.rq = []) (hi : s.inbound = [])
    (he : s.inEnd = true) (hx : s.exited = false) :
    ∃ s', mstep s env "R" .recv = some (s', ioEffects s.cfg) ∧ s'.rthr = 4 ∧
      s'.nio = s.nio + (if s.cfg.ioHandler.isSome then 1 else 0) ∧
      s'.exited = (match s.cfg.ioHandler with | none => true | some r => r) ∧
      s'.pool = s.pool ∧ s'.sendQ = s.sendQ ∧ s'.wthr = s.wthr ∧ s'.wsend = s.wsend ∧ s'.written = s.written :=
  ⟨ioReport { s with rthr := 4 }, by simp [mstep, hx, hr, hq, hi, he], rfl, rfl, rfl, rfl, rfl, rfl, rfl, rfl⟩

/-- **a failing write**: reported the same way, the message in hand is lost, the writer ends, nothing else is touched. -/
theorem mstep_write_fault (s : MState) (env : InitEnv) (m : String) (hw : s.wthr = 2) (hm : s.wsend = some m)
    (hx : s.exited = false) :
    ∃ s', mstep s env "W" .sendFail = some (s', ioEffects s.cfg) ∧ s'.wthr = 4 ∧ s'.wsend = none ∧
      s'.nio = s.nio + (if s.cfg.ioHandler.isSome then 1 else 0) ∧
      s'.exited = (match s.cfg.ioHandler with | none => true | some r => r) ∧
      s'.pool = s.pool ∧ s'.sendQ = s.sendQ ∧ s'.rthr = s.rthr ∧ s'.written = s.written :=
  ⟨ioReport { s with wsend := none, wthr := 4 }, by simp [mstep, hx, hw, hm], rfl, rfl, rfl, rfl, rfl, rfl, rfl, rfl⟩

/-- after the default reaction (process exit) nothing runs any more. -/
theorem mstep_exited (s : MState) (env : InitEnv) (tid : String) (op : MOp) (h : s.exited = true) :
    mstep s env tid op = none := by
  simp [mstep, h]

/-- … so a state that steps has not exited. -/
theorem mstep_not_exited {s s' : MState} {env : InitEnv} {tid : String} {op : MOp} {effs : List MEff}
    (h : mstep s env tid op = some (s', effs)) : s.exited = false := by
  cases hx : s.exited with
  | false => rfl
  | true => rw [mstep_exited s env tid op hx] at h; cases h

/-- a thread that died on a failure takes no further step — hence reports at most once. -/
theorem mstep_dead_reader (s : MState) (env : InitEnv) (op : MOp) (h : s.rthr = 4) : mstep s env "R" op = none := by
  simp [mstep, h]

theorem mstep_dead_writer (s : MState) (env : InitEnv) (op : MOp) (h : s.wthr = 4) : mstep s env "W" op = none := by
  simp [mstep, h]

/-! ### the ghost count -/

theorem runLocal_ioframe (s : MState) (acts : List RAct) :
    (runLocal s acts).1.cfg = s.cfg ∧ (runLocal s acts).1.nio = s.nio ∧ (runLocal s acts).1.exited = s.exited ∧
    (runLocal s acts).1.rthr = s.rthr ∧ (runLocal s acts).1.wthr = s.wthr := by
  rw [runLocal_eq s acts]
  exact ⟨rfl, rfl, rfl, rfl, rfl⟩

/-- **exactly one notification per failing thread, none without a failure** (ghost count), in every reachable state. -/
theorem mreach_nio {cfg : SrvCfg} {n : Nat} {s : MState} {log : List String} (h : MReach cfg n s log) :
    s.cfg = cfg ∧
    s.nio = (if cfg.ioHandler.isSome then (if s.rthr = 4 then 1 else 0) + (if s.wthr = 4 then 1 else 0) else 0) := by
  induction h with
  | init => exact ⟨rfl, by simp [MInit]⟩
  | @step s s' log env tid op effs hr hs ih =>
    obtain ⟨hcfg, hnio⟩ := ih
    have hR := (mreach_closeInv hr).rStarted
    have hW := (mreach_pending_lost hr).1
    cases mstep_kind hs with
    | deliver | endOfInput | wGet | wSend | rQuit | rJoin | pool => exact ⟨hcfg, hnio⟩
    | mStart hm => exact ⟨hcfg, by dsimp only; have := hW hm; grind⟩
    | mPut hm => exact ⟨hcfg, by dsimp only; grind⟩
    | rStart h1 => exact ⟨hcfg, by dsimp only; grind⟩
    | wStart h1 => exact ⟨hcfg, by dsimp only; grind⟩
    | rPoolWait h2 h3 h4 => exact ⟨hcfg, by dsimp only; grind⟩
    | wPill h2 h3 h4 => exact ⟨hcfg, by dsimp only; grind⟩
    | rRecv h2 h3 h4 hrq c rest hin =>
      obtain ⟨g1, g2, -, g4, g5⟩ := runLocal_ioframe (recvState s env c rest) (recvActs s env c)
      rw [g1, g2, g4, g5]
      exact ⟨hcfg, hnio⟩
    | rPut h2 h3 h4 l rest hrq =>
      obtain ⟨g1, g2, -, g4, g5⟩ := runLocal_ioframe { s with sendQ := s.sendQ ++ [some l] } rest
      rw [g1, g2, g4, g5]
      exact ⟨hcfg, hnio⟩
    | rFail h2 h3 h4 => exact ⟨hcfg, by dsimp only [ioReport]; rw [hcfg]; grind⟩
    | wFail h2 h3 h4 => exact ⟨hcfg, by dsimp only [ioReport]; rw [hcfg]; grind⟩

/-- **the process exits only as the default reaction to a reported failure.** -/
theorem mreach_exited {cfg : SrvCfg} {n : Nat} {s : MState} {log : List String} (h : MReach cfg n s log)
    (hx : s.exited = true) : (s.rthr = 4 ∨ s.wthr = 4) ∧ (cfg.ioHandler = none ∨ cfg.ioHandler = some true) := by
  cases h with
  | init => simp [MInit] at hx
  | @step s _ log env tid op effs hr hs =>
    have hx0 := mstep_not_exited hs
    have hcfg := (mreach_nio hr).1
    have key : (match s.cfg.ioHandler with | none => true | some r => r) = true →
        (cfg.ioHandler = none ∨ cfg.ioHandler = some true) := by
      rw [hcfg]
      cases cfg.ioHandler with
      | none => exact fun _ => .inl rfl
      | some r => intro h; simp only at h; subst h; exact .inr rfl
    cases mstep_kind hs with
    | rFail h2 h3 h4 => exact ⟨.inl rfl, key hx⟩
    | wFail h2 h3 h4 => exact ⟨.inr rfl, key hx⟩
    | rRecv h2 h3 h4 hrq c rest hin =>
      rw [(runLocal_ioframe (recvState s env c rest) (recvActs s env c)).2.2.1] at hx
      exact absurd (hx0.symm.trans hx) (by simp)
    | rPut h2 h3 h4 l rest hrq =>
      rw [(runLocal_ioframe { s with sendQ := s.sendQ ++ [some l] } rest).2.2.1] at hx
      exact absurd (hx0.symm.trans hx) (by simp)
    | _ => exact absurd (hx0.symm.trans hx) (by simp)

/-! ### a handled failure leaves the rest of the server running -/

theorem liftPool_isSome_eq (s : MState) (r : Option (PState × List PEff)) : (liftPool s r).isSome = r.isSome := by
  rw [liftPool_eq]
  cases r <;> rfl

/-- what the enabledness of a step depends on. -/
theorem mstep_isSome_congr {s s' : MState} (env : InitEnv) (tid : String) (op : MOp)
    (hx : s'.exited = s.exited) (hm : s'.mpc = s.mpc) (hpool : s'.pool = s.pool) (hq : s'.sendQ = s.sendQ)
    (hin : s'.inEnd = s.inEnd) (hib : s'.inbound = s.inbound) (hrq : s'.rq = s.rq) (hcpc : s'.cpc = s.cpc)
    (hR : tid = "R" → s'.rthr = s.rthr ∧ (op = .join → s'.wthr = s.wthr))
    (hW : tid = "W" → s'.wthr = s.wthr ∧ s'.wsend = s.wsend) :
    (mstep s' env tid op).isSome = (mstep s env tid op).isSome := by
  obtain ⟨cfg, pool, inbound, rbuf, rq, rst, sendQ, rthr, wthr, mpc, wsend, written, cpc, sock, inEnd, exited, nio⟩ := s
  obtain ⟨cfg', pool', inbound', rbuf', rq', rst', sendQ', rthr', wthr', mpc', wsend', written', cpc', sock', inEnd', exited', nio'⟩ := s'
  dsimp only at hx hm hpool hq hin hib hrq hcpc hR hW
  subst hx hm hpool hq hin hib hrq hcpc
  unfold mstep
  dsimp only
  by_cases hx : exited' = true
  · rw [if_pos hx, if_pos hx]
  rw [if_neg hx, if_neg hx]
  by_cases hP : tid = "P"
  · rw [if_pos hP, if_pos hP]
    (repeat' split) <;> rfl
  rw [if_neg hP, if_neg hP]
  by_cases hM : tid = "M"
  · rw [if_pos hM, if_pos hM]
    (repeat' split) <;> rfl
  rw [if_neg hM, if_neg hM]
  by_cases hR' : tid = "R"
  · rw [if_pos hR', if_pos hR']
    obtain ⟨h1, h2⟩ := hR hR'
    subst h1
    by_cases hj : op = .join
    · have := h2 hj
      subst this
      (repeat' split) <;> rfl
    · (repeat' split) <;> first | rfl | contradiction
  rw [if_neg hR', if_neg hR']
  by_cases hW' : tid = "W"
  · rw [if_pos hW', if_pos hW']
    obtain ⟨h1, h2⟩ := hW hW'
    subst h1 h2
    (repeat' split) <;> rfl
  rw [if_neg hW', if_neg hW']
  (repeat' split) <;> first | rfl | (simp only [liftPool_isSome_eq]; done)

/-- the reader's `join()` of the writer returns only when the writer has ended. -/
theorem mstep_join_writer_ended {s : MState} {env : InitEnv} (h : (mstep s env "R" .join).isSome = true) :
    s.wthr = 3 ∨ s.wthr = 4 := by
  unfold mstep at h
  simp only [String.reduceEq, ↓reduceIte] at h
  repeat' split at h
  all_goals first
    | contradiction
    | (simp at h; done)
    | (rename_i hc; exact hc.2)

/-- a writer that steps has not ended. -/
theorem mstep_writer_alive {s : MState} {env : InitEnv} {op : MOp} (h : (mstep s env "W" op).isSome = true) :
    s.wthr ≠ 3 ∧ s.wthr ≠ 4 := by
  refine ⟨fun h3 => ?_, fun h4 => ?_⟩
  · simp [mstep, h3] at h
  · simp [mstep, h4] at h

/-- a failure handled by the application (handler returns a false value) leaves the rest of the server running: the pool
    threads', the starting thread's, the environment's and the other I/O thread's steps are exactly as enabled as before —
    except the reader's `join()` of the writer, which a writer dead on a failed write lets through (see
    `mstep_fault_isolated_mono`: no step is ever disabled). -/
theorem mstep_fault_isolated {s s' : MState} {env : InitEnv} {tid : String} {op : MOp} {effs : List MEff}
    (h : mstep s env tid op = some (s', effs)) (hio : MEff.ioHandler ∈ effs) (hx : s'.exited = false)
    (tid' : String) (op' : MOp) (hne : tid' ≠ tid) (hj : op' ≠ .join) :
    (mstep s' env tid' op').isSome = (mstep s env tid' op').isSome := by
  have hx0 := mstep_not_exited h
  rcases mstep_fault_cases h with ⟨h1, -⟩ | ⟨rfl, -, -, -, -, rfl, -⟩ | ⟨rfl, -, rfl, -⟩
  · exact absurd hio h1
  · exact mstep_isSome_congr env tid' op' (hx.trans hx0.symm) rfl rfl rfl rfl rfl rfl rfl (fun h => absurd h hne)
      (fun _ => ⟨rfl, rfl⟩)
  · exact mstep_isSome_congr env tid' op' (hx.trans hx0.symm) rfl rfl rfl rfl rfl rfl rfl
      (fun _ => ⟨rfl, fun h => absurd h hj⟩) (fun h => absurd h hne)

/-- … and no step of another thread, `join()` included, is disabled by a handled failure. -/
theorem mstep_fault_isolated_mono {s s' : MState} {env : InitEnv} {tid : String} {op : MOp} {effs : List MEff}
    (h : mstep s env tid op = some (s', effs)) (hio : MEff.ioHandler ∈ effs) (hx : s'.exited = false)
    (tid' : String) (op' : MOp) (hne : tid' ≠ tid) (hen : (mstep s env tid' op').isSome = true) :
    (mstep s' env tid' op').isSome = true := by
  by_cases hj : op' = .join
  · have hx0 := mstep_not_exited h
    rcases mstep_fault_cases h with ⟨h1, -⟩ | ⟨rfl, -, -, -, -, rfl, -⟩ | ⟨rfl, -, rfl, -⟩
    · exact absurd hio h1
    · rw [mstep_isSome_congr env tid' op' (hx.trans hx0.symm) rfl rfl rfl rfl rfl rfl rfl (fun h => absurd h hne)
        (fun _ => ⟨rfl, rfl⟩)]
      exact hen
    · by_cases hR : tid' = "R"
      · -- the reader's `join()` was not enabled: the writer, which has just stepped, had not ended
        subst hj hR
        have h1 := mstep_join_writer_ended hen
        have h2 := mstep_writer_alive (env := env) (op := op) (by rw [h]; rfl)
        omega
      · rw [mstep_isSome_congr env tid' op' (hx.trans hx0.symm) rfl rfl rfl rfl rfl rfl rfl
          (fun h => absurd h hR) (fun h => absurd h hne)]
        exact hen
  · rw [mstep_fault_isolated h hio hx tid' op' hne hj]
    exact hen

/-- the exception is real: a writer holding a message while the reader is joining it (`close()` under way); before the
    failing write the reader's `join()` is not enabled, after it (handler installed, returns a false value) it is. -/
example :
    let cfg : SrvCfg := { kind := .metaK, excHandler := none, ioHandler := some false, keepAlive := some 0 }
    let s : MState :=
      { cfg := cfg, pool := { n := 1 }, rst := { keepAlive := (0, 0) }, rthr := 2, wthr := 2, mpc := 2, wsend := some "x",
        cpc := 1, rq := [RAct.poolShutdown, RAct.sockClose], sendQ := [none] }
    (mstep s {} "R" .join).isSome = false ∧
    ((mstep s {} "W" .sendFail).map fun r => (r.1.exited, r.2.length, (mstep r.1 {} "R" .join).isSome)) =
      some (false, 1, true) := by
  decide +kernel

end Ari.Conc
