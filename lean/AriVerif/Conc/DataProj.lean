import AriVerif.Conc.Data
import AriVerif.Conc.InvProof
/-
  Conc/DataProj.lean — the whole-server model used in the co-simulation (`Conc/Data.lean`) is the
  item-indexed product of `Conc.Item` machines: every step of the global model changes at most one item's
  state, and changes it by one step of that item's machine.  Hence every item state of every globally
  reachable state is `Reach`able in the item machine, and the per-item theorems (Props/C01, C02, C03, C17,
  C19) apply to the model the real server is compared with chunk by chunk.
-/
namespace Ari.Conc
open Ari

/-- items the global state knows about carry their own name. -/
def ItemsNamed (s : DState) : Prop := ∀ x i, (x, i) ∈ s.items → i.item = x


/-! ### `getItem` / `putItem` -/

theorem getItem_congr {s s' : DState} (h : s'.items = s.items) (x : String) :
    getItem s' x = getItem s x := by
  unfold getItem; rw [h]

/-- list-level lookup underlying `getItem`. -/
def lk (l : List (String × IState)) (x : String) : IState :=
  match l.find? (·.1 = x) with
  | some (_, i) => i
  | none => IState.init x

theorem getItem_eq_lk (s : DState) (x : String) : getItem s x = lk s.items x := rfl

theorem lk_nil (x : String) : lk [] x = IState.init x := rfl

theorem lk_cons_eq (a : String) (b : IState) (l : List (String × IState)) :
    lk ((a, b) :: l) a = b := by
  simp [lk, List.find?]

theorem lk_cons_ne (a : String) (b : IState) (l : List (String × IState)) (x : String) (h : a ≠ x) :
    lk ((a, b) :: l) x = lk l x := by
  simp [lk, List.find?, h]

theorem putItem_items (s : DState) (x : String) (i : IState) :
    (putItem s x i).items =
      if s.items.any (·.1 = x) then s.items.map fun (y, j) => if y = x then (y, i) else (y, j)
      else s.items ++ [(x, i)] := by
  unfold putItem; split <;> rfl

theorem lk_map_same (l : List (String × IState)) (x : String) (i : IState)
    (h : l.any (·.1 = x) = true) :
    lk (l.map fun (y, j) => if y = x then (y, i) else (y, j)) x = i := by
  induction l with
  | nil => simp at h
  | cons p l ih =>
    obtain ⟨a, b⟩ := p
    by_cases hp : a = x
    · subst hp; simp [lk_cons_eq]
    · have : l.any (·.1 = x) = true := by simpa [hp] using h
      simp only [List.map_cons, hp, if_false]
      rw [lk_cons_ne _ _ _ _ hp]; exact ih this

theorem lk_map_other (l : List (String × IState)) (x y : String) (i : IState) (hxy : y ≠ x) :
    lk (l.map fun (y, j) => if y = x then (y, i) else (y, j)) y = lk l y := by
  induction l with
  | nil => rfl
  | cons p l ih =>
    obtain ⟨a, b⟩ := p
    by_cases hp : a = x
    · subst hp
      simp only [List.map_cons, if_true]
      rw [lk_cons_ne _ _ _ _ (Ne.symm hxy), lk_cons_ne _ _ _ _ (Ne.symm hxy)]; exact ih
    · simp only [List.map_cons, hp, if_false]
      by_cases hpy : a = y
      · subst hpy; rw [lk_cons_eq, lk_cons_eq]
      · rw [lk_cons_ne _ _ _ _ hpy, lk_cons_ne _ _ _ _ hpy]; exact ih

theorem lk_append_same (l : List (String × IState)) (x : String) (i : IState)
    (h : ¬ l.any (·.1 = x) = true) : lk (l ++ [(x, i)]) x = i := by
  induction l with
  | nil => exact lk_cons_eq _ _ _
  | cons p l ih =>
    obtain ⟨a, b⟩ := p
    by_cases hp : a = x
    · simp [hp] at h
    · have : ¬ l.any (·.1 = x) = true := by simpa [hp] using h
      rw [List.cons_append, lk_cons_ne _ _ _ _ hp]; exact ih this

theorem lk_append_other (l : List (String × IState)) (x y : String) (i : IState) (hxy : y ≠ x) :
    lk (l ++ [(x, i)]) y = lk l y := by
  induction l with
  | nil => rw [List.nil_append, lk_cons_ne _ _ _ _ (Ne.symm hxy)]
  | cons p l ih =>
    obtain ⟨a, b⟩ := p
    rw [List.cons_append]
    by_cases hpy : a = y
    · subst hpy; rw [lk_cons_eq, lk_cons_eq]
    · rw [lk_cons_ne _ _ _ _ hpy, lk_cons_ne _ _ _ _ hpy]; exact ih

theorem getItem_putItem_same (s : DState) (x : String) (i : IState) :
    getItem (putItem s x i) x = i := by
  rw [getItem_eq_lk, putItem_items]
  by_cases h : s.items.any (·.1 = x) = true
  · rw [if_pos h]; exact lk_map_same _ _ _ h
  · rw [if_neg h]; exact lk_append_same _ _ _ h

theorem getItem_putItem_other (s : DState) (x y : String) (i : IState) (hxy : y ≠ x) :
    getItem (putItem s x i) y = getItem s y := by
  rw [getItem_eq_lk, getItem_eq_lk, putItem_items]
  by_cases h : s.items.any (·.1 = x) = true
  · rw [if_pos h]; exact lk_map_other _ _ _ _ hxy
  · rw [if_neg h]; exact lk_append_other _ _ _ _ hxy

/-! ### `liftItem` -/

theorem foldl_items {α : Type} (f : DState × List GEff → α → DState × List GEff)
    (hf : ∀ acc e, (f acc e).1.items = acc.1.items) (effs : List α) (init : DState × List GEff) :
    (effs.foldl f init).1.items = init.1.items := by
  induction effs generalizing init with
  | nil => rfl
  | cons e effs ih => rw [List.foldl_cons, ih, hf]

theorem liftItem_items (s : DState) (x : String) (a : IAct) (s' : DState) (e : List GEff)
    (h : liftItem s x a = some (s', e)) :
    ∃ i' effs, istep (getItem s x) a = some (i', effs) ∧ s'.items = (putItem s x i').items := by
  unfold liftItem at h
  split at h
  · exact absurd h (by simp)
  · rename_i i' effs hi
    refine ⟨i', effs, hi, ?_⟩
    simp only at h
    generalize hr : List.foldl _ _ _ = r at h
    obtain ⟨s2, g⟩ := r
    simp only [Option.some.injEq, Prod.mk.injEq] at h
    obtain ⟨rfl, rfl⟩ := h
    have key : ∀ (f : DState × List GEff → Eff → DState × List GEff) (init : DState × List GEff),
        List.foldl f init effs = (s2, g) → (∀ acc e, (f acc e).1.items = acc.1.items) →
        s2.items = init.1.items := by
      intro f init hr hf
      have := foldl_items f hf effs init
      rw [hr] at this; exact this
    exact key _ _ hr (by intro acc e; cases e <;> rfl)

/-- the projection statement for one `liftItem` from a state with the same items. -/
theorem liftItem_projects (s s₁ : DState) (y : String) (a : IAct) (s' : DState) (e : List GEff)
    (hs : s₁.items = s.items) (h : liftItem s₁ y a = some (s', e)) (x : String) :
    getItem s' x = getItem s x ∨ ∃ a e', istep (getItem s x) a = some (getItem s' x, e') := by
  obtain ⟨i', effs, hi, hit⟩ := liftItem_items _ _ _ _ _ h
  rw [getItem_congr hs] at hi
  by_cases hxy : x = y
  · subst hxy
    right
    refine ⟨a, effs, ?_⟩
    rw [getItem_congr hit, getItem_putItem_same]; exact hi
  · left
    rw [getItem_congr hit, getItem_putItem_other _ _ _ _ hxy, getItem_congr hs]

/-- same, the result post-processed by an update that leaves `items` alone. -/
theorem liftItem_projects' (s s₁ : DState) (y : String) (a : IAct) (s' s'' : DState) (e : List GEff)
    (hs : s₁.items = s.items) (h : liftItem s₁ y a = some (s', e)) (hs' : s''.items = s'.items) (x : String) :
    getItem s'' x = getItem s x ∨ ∃ a e', istep (getItem s x) a = some (getItem s'' x, e') := by
  rw [getItem_congr hs']; exact liftItem_projects s s₁ y a s' e hs h x

/-- same, the result post-processed under `Option.map`. -/
theorem map_liftItem_projects (s s₁ : DState) (y : String) (a : IAct)
    (f : DState × List GEff → DState × List GEff) (s'' : DState) (e : List GEff)
    (hs : s₁.items = s.items) (hf : ∀ p, (f p).1.items = p.1.items)
    (h : (liftItem s₁ y a).map f = some (s'', e)) (x : String) :
    getItem s'' x = getItem s x ∨ ∃ a e', istep (getItem s x) a = some (getItem s'' x, e') := by
  cases hl : liftItem s₁ y a with
  | none => rw [hl] at h; exact absurd h (by simp)
  | some p =>
    obtain ⟨s', e0⟩ := p
    rw [hl] at h
    simp only [Option.map, Option.some.injEq] at h
    have h2 := hf (s', e0)
    rw [h] at h2
    exact liftItem_projects' s s₁ y a s' s'' e0 hs hl h2 x

theorem markFal_items (s : DState) (tid item : String) (kind : LKind) :
    (markFal s tid item kind).items = s.items := by
  unfold markFal; split <;> (try split) <;> rfl

/-- after `os._exit` nothing steps: a state that steps has not exited. -/
theorem gstep_not_exited {s s' : DState} {tid : String} {op : OpClass} {x : String} {e : List GEff}
    (h : gstep s tid op x = some (s', e)) : s.exited = false := by
  cases hx : s.exited with
  | false => rfl
  | true => unfold gstep at h; rw [if_pos hx] at h; cases h

theorem gioReport_items (s : DState) : (gioReport s).items = s.items := rfl

/-- one global step = at most one item step. -/
theorem gstep_projects (s s' : DState) (tid : String) (op : OpClass) (lsnItem : String) (e : List GEff)
    (h : gstep s tid op lsnItem = some (s', e)) :
    ∀ x, getItem s' x = getItem s x ∨ ∃ a e', istep (getItem s x) a = some (getItem s' x, e') := by
  intro x
  have hx := gstep_not_exited h
  unfold gstep at h
  rw [if_neg (by simp [hx])] at h
  repeat' split at h
  all_goals try simp only at h
  all_goals repeat' split at h
  all_goals first
    | contradiction
    | (simp only [Option.some.injEq, Prod.mk.injEq] at h; obtain ⟨rfl, rfl⟩ := h; exact Or.inl rfl)
    | (refine liftItem_projects s _ _ _ _ _ ?_ h x; first | rfl | exact markFal_items _ _ _ _)
    | (simp only [Option.some.injEq, Prod.mk.injEq] at h; obtain ⟨rfl, rfl⟩ := h
       have hl := (by assumption : liftItem _ _ _ = some _)
       exact liftItem_projects' s s _ _ _ _ _ rfl hl rfl x)
    | (refine map_liftItem_projects s _ _ _ _ _ _ ?_ ?_ h x
       · rfl
       · intro p; rfl)

/-- every item state of a globally reachable state is reachable in the item machine. -/
def GReach (n : Nat) (s : DState) : Prop :=
  ∃ steps : List (String × OpClass × String), ∃ s0 : DState, s0 = { poolN := n } ∧
    (steps.foldlM (fun (st : DState) (x : String × OpClass × String) => (gstep st x.1 x.2.1 x.2.2).map (·.1)) s0) = some s

/-! ### runs -/

theorem irun_append (s0 : IState) (acts : List IAct) (a : IAct) (i i' : IState) (e : List Eff)
    (h : irun s0 acts = some i) (ha : istep i a = some (i', e)) : irun s0 (acts ++ [a]) = some i' := by
  induction acts generalizing s0 with
  | nil =>
    simp only [irun, Option.some.injEq] at h
    subst h
    simp [irun, ha]
  | cons b acts ih =>
    simp only [List.cons_append, irun] at h ⊢
    split at h
    · rename_i s1 e1 hb
      exact ih s1 h
    · exact absurd h (by simp)

theorem reach_step (x : String) (i i' : IState) (a : IAct) (e : List Eff)
    (h : Reach x i) (ha : istep i a = some (i', e)) : Reach x i' := by
  obtain ⟨acts, hacts⟩ := h
  exact ⟨acts ++ [a], irun_append _ _ _ _ _ _ hacts ha⟩

theorem foldlM_gstep_reach (steps : List (String × OpClass × String)) (st s : DState)
    (hst : ∀ x, Reach x (getItem st x))
    (h : (steps.foldlM (fun (st : DState) (x : String × OpClass × String) =>
            (gstep st x.1 x.2.1 x.2.2).map (·.1)) st) = some s) :
    ∀ x, Reach x (getItem s x) := by
  induction steps generalizing st with
  | nil =>
    simp only [List.foldlM_nil, pure, Option.some.injEq] at h
    subst h; exact hst
  | cons p steps ih =>
    rw [List.foldlM_cons] at h
    cases hg : gstep st p.1 p.2.1 p.2.2 with
    | none => simp [hg, bind, Option.bind] at h
    | some r =>
      obtain ⟨s1, e1⟩ := r
      simp only [hg, Option.map, bind, Option.bind] at h
      refine ih s1 ?_ h
      intro x
      rcases gstep_projects _ _ _ _ _ _ hg x with heq | ⟨a, e', ha⟩
      · rw [heq]; exact hst x
      · exact reach_step x _ _ a e' (hst x) ha

theorem greach_items_reach (n : Nat) (s : DState) (h : GReach n s) (x : String) : Reach x (getItem s x) := by
  obtain ⟨steps, s0, hs0, hrun⟩ := h
  subst hs0
  exact foldlM_gstep_reach steps _ s (fun x => ⟨[], rfl⟩) hrun x

end Ari.Conc
