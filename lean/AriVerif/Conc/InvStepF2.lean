import AriVerif.Conc.InvStepF
/-
  Conc/InvStepF2.lean — preservation of `Inv` by `pop` when a task is taken from the queue.
-/
namespace Ari.Conc
open Ari
set_option linter.unusedSimpArgs false

theorem inv_pop_late {s : IState} {k : Nat} {ok : Bool} {t : Task} {rest : List Task} (h : Inv s)
    (hk : k < s.ninst) (hpc : (s.insts k).pc = .atLoop) (hwf : WF s.arr)
    (hok : ok = if (s.insts k).deq = 0 then (s.mgrs (s.insts k).gen).lastOk else (s.insts k).ok)
    (hq : (s.mgrs (s.insts k).gen).q = t :: rest) (ht : t.isSub = true) (hrest : rest ≠ []) (line : String) :
    Inv ({ setInst (setMgr s (s.insts k).gen { s.mgrs (s.insts k).gen with q := rest }) k { s.insts k with ok := false, deq := (s.insts k).deq + 1, pc := .put t line .atLoop } with late := s.late ++ [t] }) := by
  obtain ⟨hact, hloop, hcur⟩ := h.loopCur hk (by rw [hpc]; rfl)
  have hg := h.genLt k hk
  have hF := h.popFacts hwf hk hpc hq hok
  inv_refine
  case counter =>
    intro g' hg'
    have hc := h.counter g' hg'
    rw [decOf_eq] at hc ⊢
    simp only [setInst, setMgr, upd_apply] at hc ⊢
    have hs := sumDec_same s.insts k s.ninst g' { s.insts k with ok := false, deq := (s.insts k).deq + 1, pc := .put t line .atLoop } (by simp [decI, hpc])
    simp only [upd_apply] at hs
    rw [hs]
    by_cases hgg : g' = (s.insts k).gen
    · subst hgg
      simp only [if_true, hloop, hq, List.length_cons] at hc ⊢
      grind
    · simp only [hgg, if_false] at hc ⊢
      cases hl : (s.mgrs g').loop with
      | none => simp only [hl] at hc ⊢; omega
      | some k' =>
        have hk' := (h.loopInst g' hg' k' hl).2.1
        have : ¬ k' = k := fun hh => hgg (by rw [← hk', hh])
        simp only [hl, this, if_false] at hc ⊢; omega
  case loopInst =>
    intro g' hg' k' hl
    simp only [setInst, setMgr, upd_apply] at hl ⊢
    by_cases hgg : g' = (s.insts k).gen
    · subst hgg; simp only [if_true] at hl; rw [hloop] at hl; cases hl; simp [hk, Pc.looping]
    · simp only [hgg, if_false] at hl
      obtain ⟨h1, h2, h3⟩ := h.loopInst g' hg' k' hl
      have : ¬ k' = k := fun hh => hgg (by rw [← h2, hh])
      simp [this, h1, h2, h3]
  all_goals inv_default_with hF [hact, hloop, hpc, hq]

theorem inv_pop_sub {s : IState} {k : Nat} {ok : Bool} {t : Task} {rest : List Task} (h : Inv s)
    (hk : k < s.ninst) (hpc : (s.insts k).pc = .atLoop) (hwf : WF s.arr)
    (hok : ok = if (s.insts k).deq = 0 then (s.mgrs (s.insts k).gen).lastOk else (s.insts k).ok)
    (hq : (s.mgrs (s.insts k).gen).q = t :: rest) (ht : t.isSub = true) (_hrest : rest = []) :
    Inv (setInst (setMgr s (s.insts k).gen { s.mgrs (s.insts k).gen with q := rest }) k { s.insts k with ok := ok, deq := (s.insts k).deq + 1, pc := .setCode t }) := by
  obtain ⟨hact, hloop, hcur⟩ := h.loopCur hk (by rw [hpc]; rfl)
  have hg := h.genLt k hk
  have hF := h.popFacts hwf hk hpc hq hok
  inv_refine
  case counter =>
    intro g' hg'
    have hc := h.counter g' hg'
    rw [decOf_eq] at hc ⊢
    simp only [setInst, setMgr, upd_apply] at hc ⊢
    have hs := sumDec_same s.insts k s.ninst g' { s.insts k with ok := ok, deq := (s.insts k).deq + 1, pc := .setCode t } (by simp [decI, hpc])
    simp only [upd_apply] at hs
    rw [hs]
    by_cases hgg : g' = (s.insts k).gen
    · subst hgg
      simp only [if_true, hloop, hq, List.length_cons] at hc ⊢
      grind
    · simp only [hgg, if_false] at hc ⊢
      cases hl : (s.mgrs g').loop with
      | none => simp only [hl] at hc ⊢; omega
      | some k' =>
        have hk' := (h.loopInst g' hg' k' hl).2.1
        have : ¬ k' = k := fun hh => hgg (by rw [← hk', hh])
        simp only [hl, this, if_false] at hc ⊢; omega
  case loopInst =>
    intro g' hg' k' hl
    simp only [setInst, setMgr, upd_apply] at hl ⊢
    by_cases hgg : g' = (s.insts k).gen
    · subst hgg; simp only [if_true] at hl; rw [hloop] at hl; cases hl; simp [hk, Pc.looping]
    · simp only [hgg, if_false] at hl
      obtain ⟨h1, h2, h3⟩ := h.loopInst g' hg' k' hl
      have : ¬ k' = k := fun hh => hgg (by rw [← h2, hh])
      simp [this, h1, h2, h3]
  all_goals inv_default_with hF [hact, hloop, hpc, hq]

theorem inv_pop_usb {s : IState} {k : Nat} {ok : Bool} {t : Task} {rest : List Task} (h : Inv s)
    (hk : k < s.ninst) (hpc : (s.insts k).pc = .atLoop) (hwf : WF s.arr)
    (hok : ok = if (s.insts k).deq = 0 then (s.mgrs (s.insts k).gen).lastOk else (s.insts k).ok)
    (hq : (s.mgrs (s.insts k).gen).q = t :: rest) (ht : t.isSub = false) (hokt : ok = true) :
    Inv (setInst (setMgr s (s.insts k).gen { s.mgrs (s.insts k).gen with q := rest }) k { s.insts k with ok := ok, deq := (s.insts k).deq + 1, pc := .callBegin .usb t }) := by
  obtain ⟨hact, hloop, hcur⟩ := h.loopCur hk (by rw [hpc]; rfl)
  have hg := h.genLt k hk
  have hF := h.popFacts hwf hk hpc hq hok
  inv_refine
  case counter =>
    intro g' hg'
    have hc := h.counter g' hg'
    rw [decOf_eq] at hc ⊢
    simp only [setInst, setMgr, upd_apply] at hc ⊢
    have hs := sumDec_same s.insts k s.ninst g' { s.insts k with ok := ok, deq := (s.insts k).deq + 1, pc := .callBegin .usb t } (by simp [decI, hpc])
    simp only [upd_apply] at hs
    rw [hs]
    by_cases hgg : g' = (s.insts k).gen
    · subst hgg
      simp only [if_true, hloop, hq, List.length_cons] at hc ⊢
      grind
    · simp only [hgg, if_false] at hc ⊢
      cases hl : (s.mgrs g').loop with
      | none => simp only [hl] at hc ⊢; omega
      | some k' =>
        have hk' := (h.loopInst g' hg' k' hl).2.1
        have : ¬ k' = k := fun hh => hgg (by rw [← hk', hh])
        simp only [hl, this, if_false] at hc ⊢; omega
  case loopInst =>
    intro g' hg' k' hl
    simp only [setInst, setMgr, upd_apply] at hl ⊢
    by_cases hgg : g' = (s.insts k).gen
    · subst hgg; simp only [if_true] at hl; rw [hloop] at hl; cases hl; simp [hk, Pc.looping]
    · simp only [hgg, if_false] at hl
      obtain ⟨h1, h2, h3⟩ := h.loopInst g' hg' k' hl
      have : ¬ k' = k := fun hh => hgg (by rw [← h2, hh])
      simp [this, h1, h2, h3]
  case usbPaired =>
    obtain ⟨p, hp, hps⟩ := hF.husb ht
    have hli := (h.outBetween hF.hbt p hp hps).mp (by rw [hF.heff, hokt])
    intro k' _ t' _
    exact ⟨p, hp, hps, hli⟩
  case codeUsb =>
    obtain ⟨p, hp, hps⟩ := hF.husb ht
    have hli := (h.outBetween hF.hbt p hp hps).mp (by rw [hF.heff, hokt])
    have hnl : p ∉ s.late := fun hl => h.lastInvNotLate _ _ _ hli p hl rfl
    have hrc := h.codeExec hF.hbt p hp hps hnl
    intro k' _ t' _ p' hp'
    have hp'' : s.fin.getLast? = some p' := hp'
    rw [hp] at hp''; cases hp''
    simpa [readCode, setInst, setMgr, hact, upd] using hrc
  all_goals inv_default_with hF [hact, hloop, hpc, hq]

theorem inv_pop_usb_skip {s : IState} {k : Nat} {ok : Bool} {t : Task} {rest : List Task} (h : Inv s)
    (hk : k < s.ninst) (hpc : (s.insts k).pc = .atLoop) (hwf : WF s.arr)
    (hok : ok = if (s.insts k).deq = 0 then (s.mgrs (s.insts k).gen).lastOk else (s.insts k).ok)
    (hq : (s.mgrs (s.insts k).gen).q = t :: rest) (ht : t.isSub = false) (hokt : ok = false) (line : String) :
    Inv (setInst (setMgr s (s.insts k).gen { s.mgrs (s.insts k).gen with q := rest }) k { s.insts k with ok := ok, deq := (s.insts k).deq + 1, pc := .put t line (.clearCode t) }) := by
  obtain ⟨hact, hloop, hcur⟩ := h.loopCur hk (by rw [hpc]; rfl)
  have hg := h.genLt k hk
  have hF := h.popFacts hwf hk hpc hq hok
  inv_refine
  case counter =>
    intro g' hg'
    have hc := h.counter g' hg'
    rw [decOf_eq] at hc ⊢
    simp only [setInst, setMgr, upd_apply] at hc ⊢
    have hs := sumDec_same s.insts k s.ninst g' { s.insts k with ok := ok, deq := (s.insts k).deq + 1, pc := .put t line (.clearCode t) } (by simp [decI, hpc])
    simp only [upd_apply] at hs
    rw [hs]
    by_cases hgg : g' = (s.insts k).gen
    · subst hgg
      simp only [if_true, hloop, hq, List.length_cons] at hc ⊢
      grind
    · simp only [hgg, if_false] at hc ⊢
      cases hl : (s.mgrs g').loop with
      | none => simp only [hl] at hc ⊢; omega
      | some k' =>
        have hk' := (h.loopInst g' hg' k' hl).2.1
        have : ¬ k' = k := fun hh => hgg (by rw [← hk', hh])
        simp only [hl, this, if_false] at hc ⊢; omega
  case loopInst =>
    intro g' hg' k' hl
    simp only [setInst, setMgr, upd_apply] at hl ⊢
    by_cases hgg : g' = (s.insts k).gen
    · subst hgg; simp only [if_true] at hl; rw [hloop] at hl; cases hl; simp [hk, Pc.looping]
    · simp only [hgg, if_false] at hl
      obtain ⟨h1, h2, h3⟩ := h.loopInst g' hg' k' hl
      have : ¬ k' = k := fun hh => hgg (by rw [← h2, hh])
      simp [this, h1, h2, h3]
  all_goals inv_default_with hF [hact, hloop, hpc, hq]

end Ari.Conc
