import AriVerif.Conc.MetaProj
import AriVerif.Conc.DataFifo
/-
  Conc/SrvGate.lean — C10 and C18 on the two whole-server models of the co-simulation:
  * initialization gates everything: no pool task exists (Metadata), no subscription request has been handed
    to the subscription manager (Data) while the init request is still expected;
  * adapter calls are made by pool threads only — never by the reader, the writer, the starting thread;
  * the reader and the writer are never blocked by the pool: their steps are enabled whatever the pool tasks
    are doing (e.g. all blocked inside adapter calls).
-/
namespace Ari.Conc
open Ari

/-! ### Metadata server -/

theorem onException_no_submit (cfg : SrvCfg) (m id : String) (toks : List String) :
    RAct.submit m id toks ∉ onException cfg := by
  unfold onException
  cases cfg.kind <;> cases cfg.excHandler <;> simp
  all_goals (split <;> simp)

theorem act_init_mono (cfg : SrvCfg) (env : InitEnv) (st : RState) (c : LineClass)
    (h : st.initExpected = false) : (act cfg env st c).1.initExpected = false := by
  cases c with
  | own m id toks item => cases item <;> simp [act, h]
  | _ => simp [act, h]

theorem act_submit_gate (cfg : SrvCfg) (env : InitEnv) (st : RState) (c : LineClass)
    (m id : String) (toks : List String) (h : RAct.submit m id toks ∈ (act cfg env st c).2) :
    (act cfg env st c).1.initExpected = false := by
  have hx := onException_no_submit cfg m id toks
  cases c with
  | garbage => simp [act] at h
  | closeOk => simp [act] at h
  | closeBad => exact absurd h hx
  | ownBad => exact absurd h hx
  | unknown =>
    simp only [act] at h
    split at h
    · exact absurd h hx
    · simp at h
  | initReq id' prs =>
    simp only [act]
    split
    · next hi => simpa using hi
    · split <;> rfl
  | own m' id' toks' item =>
    simp only [act] at h ⊢
    split at h
    · exact absurd h hx
    · next hi =>
      cases item <;> simp_all

/-- the init flag never goes back to "expected". -/
theorem dispatchAll_init_mono (cfg : SrvCfg) (env : InitEnv) (st : RState) (lines : List String)
    (h : st.initExpected = false) : (dispatchAll cfg env st lines).1.initExpected = false := by
  induction lines generalizing st with
  | nil => exact h
  | cons l rest ih =>
    simp only [dispatchAll]
    exact ih _ (act_init_mono cfg env st _ h)

/-- a request is handed to the pool only when the init request has been consumed. -/
theorem dispatchAll_submit_gate (cfg : SrvCfg) (env : InitEnv) (st : RState) (lines : List String)
    (m id : String) (toks : List String)
    (h : RAct.submit m id toks ∈ (dispatchAll cfg env st lines).2.flatten) :
    (dispatchAll cfg env st lines).1.initExpected = false := by
  induction lines generalizing st with
  | nil => simp [dispatchAll] at h
  | cons l rest ih =>
    simp only [dispatchAll, List.flatten_cons, List.mem_append] at h ⊢
    rcases h with h | h
    · exact dispatchAll_init_mono cfg env _ rest (act_submit_gate cfg env st _ m id toks h)
    · exact ih _ h

theorem runLocal_gate (s : MState) (acts : List RAct) :
    (runLocal s acts).1.rst = s.rst ∧
    (∀ a ∈ (runLocal s acts).1.rq, a ∈ acts) ∧
    ((runLocal s acts).1.pool.tasks ≠ [] →
      s.pool.tasks ≠ [] ∨ ∃ m id toks, RAct.submit m id toks ∈ acts) ∧
    (∀ c, MEff.adapterBegin c ∉ (runLocal s acts).2 ∧ MEff.adapterEnd c ∉ (runLocal s acts).2) := by
  induction acts generalizing s with
  | nil => simp [runLocal]
  | cons a rest ih =>
    cases a with
    | reply l => simp [runLocal]; exact fun h => .inl h
    | quit => simp [runLocal]; exact fun h => .inl h
    | poolShutdown => simp [runLocal]; exact fun h => .inl h
    | submit m id toks =>
      simp only [runLocal]
      cases hd : decodeRequest m toks with
      | none =>
        obtain ⟨h1, h2, h3, h4⟩ := ih s
        refine ⟨h1, fun a ha => List.mem_cons_of_mem _ (h2 a ha), fun h => .inr ⟨m, id, toks, List.mem_cons_self⟩, h4⟩
      | some r =>
        cases r with
        | error e =>
          obtain ⟨h1, h2, h3, h4⟩ := ih s
          refine ⟨h1, fun a ha => List.mem_cons_of_mem _ (h2 a ha), fun h => .inr ⟨m, id, toks, List.mem_cons_self⟩, h4⟩
        | ok a =>
          simp only [pstep_submit]
          obtain ⟨h1, h2, h3, h4⟩ := ih { s with pool := { s.pool with tasks := s.pool.tasks ++ [{ rid := id, method := m, args := a }], workQ := s.pool.workQ ++ [s.pool.tasks.length] } }
          refine ⟨h1, fun a ha => List.mem_cons_of_mem _ (h2 a ha), fun h => .inr ⟨m, id, toks, List.mem_cons_self⟩, ?_⟩
          intro c
          simpa using h4 c
    | handlerExc =>
      simp only [runLocal]
      obtain ⟨h1, h2, h3, h4⟩ := ih s
      refine ⟨h1, fun a ha => List.mem_cons_of_mem _ (h2 a ha), ?_, ?_⟩
      · intro h
        rcases h3 h with h | ⟨m, id, toks, h⟩
        · exact .inl h
        · exact .inr ⟨m, id, toks, List.mem_cons_of_mem _ h⟩
      · intro c
        simpa using h4 c
    | _ =>
      simp only [runLocal]
      obtain ⟨h1, h2, h3, h4⟩ := ih s
      refine ⟨h1, fun a ha => List.mem_cons_of_mem _ (h2 a ha), ?_, h4⟩
      intro h
      rcases h3 h with h | ⟨m, id, toks, h⟩
      · exact .inl h
      · exact .inr ⟨m, id, toks, List.mem_cons_of_mem _ h⟩

theorem mstep_rst {s s' : MState} {env : InitEnv} {tid : String} {op : MOp} {effs : List MEff}
    (h : mstep s env tid op = some (s', effs)) :
    s'.rst = s.rst ∨ (tid = "R" ∧ 2 ≤ s.rthr) := by
  unfold mstep at h
  repeat' split at h
  all_goals first
    | contradiction
    | (simp only [Option.some.injEq, Prod.mk.injEq] at h; obtain ⟨rfl, rfl⟩ := h; exact .inl rfl)
    | (obtain ⟨p, pe, hp, rfl, he⟩ := liftPool_spec h; exact .inl rfl)
    | exact .inr ⟨by assumption, by omega⟩

theorem owed_submit {s : MState} (h : owed s ≠ []) : ∃ m id toks, RAct.submit m id toks ∈ s.rq := by
  unfold owed at h
  obtain ⟨t, ht⟩ := List.exists_mem_of_ne_nil _ h
  obtain ⟨a, ha, hat⟩ := List.mem_filterMap.1 ht
  cases a with
  | submit m id toks => exact ⟨m, id, toks, ha⟩
  | _ => simp [submitTask] at hat

theorem mreach_gate_inv {cfg : SrvCfg} {n : Nat} {s : MState} {log : List String} (h : MReach cfg n s log) :
    (s.pool.tasks ≠ [] ∨ ∃ m id toks, RAct.submit m id toks ∈ s.rq) → s.rst.initExpected = false := by
  induction h with
  | init => simp [MInit]
  | @step s s' log env tid op effs _ hs ih =>
    have hrst := mstep_rst hs
    rcases mstep_cases hs with ⟨hp, hq, -, hne⟩ | ⟨hR, h2, rfl, hrq, c, rest, hin, he⟩ | ⟨-, l, rest, hrq, rfl, -⟩ |
      ⟨hR, a, p, pe, hns, hp, rfl, -⟩ |
      ⟨-, -, -, -, rest, hrq, rfl, -⟩ | ⟨-, -, -, -, -, -, -, rfl, -⟩ | ⟨-, -, -, -, -, -, -, -, rfl, -⟩ |
      ⟨-, -, -, -, -, -, -, -, rfl, -⟩ | ⟨-, -, -, -, -, m, -, rfl, -⟩
    · have hr : s'.rst = s.rst := by
        rcases hrst with h | ⟨h1, h2⟩
        · exact h
        · rcases hne with h | h
          · exact absurd h1 h
          · omega
      rw [hr, hp, hq]; exact ih
    · obtain ⟨g1, g2, g3, -⟩ := runLocal_gate (recvState s env c rest) (recvActs s env c)
      rw [← he] at g1 g2 g3
      simp only at g1 g2 g3
      intro hpre
      rw [g1]
      have key : (s.pool.tasks ≠ [] ∨ ∃ m id toks, RAct.submit m id toks ∈ recvActs s env c) →
          (recvState s env c rest).rst.initExpected = false := by
        rintro (h | ⟨m, id, toks, h⟩)
        · exact dispatchAll_init_mono _ _ _ _ (ih (.inl h))
        · exact dispatchAll_submit_gate _ _ _ _ m id toks h
      rcases hpre with h | ⟨m, id, toks, h⟩
      · exact key (g3 h)
      · exact key (.inr ⟨m, id, toks, g2 _ h⟩)
    · obtain ⟨g1, g2, g3, -⟩ := runLocal_gate { s with sendQ := s.sendQ ++ [some l] } rest
      intro hpre
      rw [g1]
      apply ih
      rcases hpre with h | ⟨m, id, toks, h⟩
      · rcases g3 h with h | ⟨m, id, toks, h⟩
        · exact .inl h
        · exact .inr ⟨m, id, toks, by rw [hrq]; exact List.mem_cons_of_mem _ h⟩
      · exact .inr ⟨m, id, toks, by rw [hrq]; exact List.mem_cons_of_mem _ (g2 _ h)⟩
    · intro hpre
      apply ih
      rcases hpre with h | h
      · left
        intro h0
        have := (pstep_proj hp hns).1
        rw [h0] at this
        simp at this
        exact h this
      · exact .inr h
    · intro hpre
      apply ih
      rcases hpre with h | ⟨m, id, toks, h⟩
      · exact .inl h
      · exact .inr ⟨m, id, toks, by rw [hrq]; exact List.mem_cons_of_mem _ h⟩
    · exact ih
    · intro hpre
      apply ih
      rcases hpre with h | ⟨m, id, toks, h⟩
      · exact .inl h
      · simp at h
    · exact ih
    · exact ih

/-- **C10 on the Metadata server model.** In every reachable state, if any pool task exists or is owed by the
    reader, the init request has been received (and, the reader being sequential, `initialize` has returned). -/
theorem mreach_init_gate {cfg : SrvCfg} {n : Nat} {s : MState} {log : List String} (h : MReach cfg n s log) :
    (s.pool.tasks ≠ [] ∨ owed s ≠ []) → s.rst.initExpected = false := by
  rintro (h1 | h1)
  · exact mreach_gate_inv h (.inl h1)
  · exact mreach_gate_inv h (.inr (owed_submit h1))

theorem runLocal_no_adapter {s s' : MState} {acts : List RAct} {e : List MEff}
    (h : runLocal s acts = (s', e)) (c : String) : MEff.adapterBegin c ∉ e ∧ MEff.adapterEnd c ∉ e := by
  have := (runLocal_gate s acts).2.2.2 c
  rw [h] at this
  exact this

/-- **C18 on the Metadata server model: adapter methods run on pool threads only.** -/
theorem mstep_adapter_thread {s s' : MState} {env : InitEnv} {tid : String} {op : MOp} {effs : List MEff}
    (h : mstep s env tid op = some (s', effs))
    (hc : ∃ c, MEff.adapterBegin c ∈ effs ∨ MEff.adapterEnd c ∈ effs) :
    tid ≠ "R" ∧ tid ≠ "W" ∧ tid ≠ "M" ∧ tid ≠ "P" ∧ tid.startsWith "T" = true := by
  obtain ⟨c, hc⟩ := hc
  unfold mstep at h
  repeat' split at h
  all_goals first
    | contradiction
    | exact ⟨by assumption, by assumption, by assumption, by assumption, by assumption⟩
    | (exfalso
       simp only [Option.some.injEq, Prod.mk.injEq] at h; obtain ⟨rfl, rfl⟩ := h
       simp at hc; done)
    | (exfalso
       simp only [Option.some.injEq, Prod.mk.injEq] at h; obtain ⟨rfl, rfl⟩ := h
       rcases hc with hc | hc <;> rcases mem_ioEffects hc with h | h <;> cases h)
    | (exfalso
       simp only [Option.some.injEq] at h
       have g := runLocal_no_adapter h c
       exact hc.elim g.1 g.2)
    | (exfalso
       simp only [Option.some.injEq, Prod.mk.injEq] at h; obtain ⟨rfl, rfl⟩ := h
       have g := runLocal_no_adapter (by assumption) c
       simp only [List.mem_cons, reduceCtorEq, false_or] at hc
       exact hc.elim g.1 g.2)

/-- **C18 on the Metadata server model: the reader is never blocked by the pool.** Whatever the pool tasks are
    doing, a running reader can take the next chunk of bytes, or enqueue the reply it is holding. -/
theorem mstep_reader_enabled (s : MState) (env : InitEnv) (hr : s.rthr = 2) (hx : s.exited = false) :
    (s.rq = [] → (s.inbound ≠ [] ∨ s.inEnd = true) → (mstep s env "R" .recv).isSome) ∧
    (∀ l rest, s.rq = .reply l :: rest → (mstep s env "R" .put).isSome) := by
  refine ⟨?_, ?_⟩
  · intro h1 h2
    cases hin : s.inbound with
    | nil =>
      rcases h2 with h2 | h2
      · exact absurd hin h2
      · simp [mstep, hx, hr, h1, hin, h2]
    | cons c rest => simp [mstep, hx, hr, h1, hin]
  · intro l rest h1
    simp [mstep, hx, hr, h1]

/-- **… nor is the writer.** -/
theorem mstep_writer_enabled (s : MState) (env : InitEnv) (hw : s.wthr = 2) (hx : s.exited = false) :
    (s.wsend = none → s.sendQ ≠ [] → (mstep s env "W" .get).isSome) ∧
    (∀ m, s.wsend = some m → (mstep s env "W" .send).isSome) := by
  refine ⟨?_, ?_⟩
  · intro h1 h2
    cases hq : s.sendQ with
    | nil => exact absurd hq h2
    | cons c rest => cases c <;> simp [mstep, hx, hw, h1, hq]
  · intro m h1
    simp [mstep, hx, hw, h1]

/-! ### Data server -/

theorem istep_effs (s s' : IState) (a : IAct) (e : List Eff) (h : istep s a = some (s', e)) :
    (∀ k, Eff.submit k ∈ e → a = .addTask) ∧
    (∀ m, Eff.adapterBegin m ∈ e ∨ Eff.adapterEnd m ∈ e → (∃ k, a = .callBegin k) ∨ ∃ k o, a = .callEnd k o) := by
  cases a <;> simp only [istep] at h <;> (repeat' split at h) <;>
    first
    | (cases h; done)
    | (simp only [Option.some.injEq, Prod.mk.injEq] at h
       obtain ⟨rfl, rfl⟩ := h
       simp)

theorem foldl_gliftF_gate (x : String) (effs : List Eff) (acc : DState × List GEff) :
    (effs.foldl (gliftF x) acc).1.initExpected = acc.1.initExpected ∧
    (effs.foldl (gliftF x) acc).1.rmid = acc.1.rmid ∧
    (effs.foldl (gliftF x) acc).1.rq = acc.1.rq ∧
    ((∀ k, Eff.submit k ∉ effs) → (effs.foldl (gliftF x) acc).1.tasks = acc.1.tasks) ∧
    (∀ m y, GEff.adapterBegin m y ∈ (effs.foldl (gliftF x) acc).2 →
      GEff.adapterBegin m y ∈ acc.2 ∨ Eff.adapterBegin m ∈ effs) ∧
    (∀ m y, GEff.adapterEnd m y ∈ (effs.foldl (gliftF x) acc).2 →
      GEff.adapterEnd m y ∈ acc.2 ∨ Eff.adapterEnd m ∈ effs) := by
  induction effs generalizing acc with
  | nil => simp
  | cons e effs ih =>
    rw [List.foldl_cons]
    obtain ⟨h1, h2, h3, h4, h5, h6⟩ := ih (gliftF x acc e)
    rw [h1, h2, h3]
    refine ⟨?_, ?_, ?_, ?_, ?_, ?_⟩
    · cases e <;> rfl
    · cases e <;> rfl
    · cases e <;> rfl
    · intro hn
      rw [h4 (fun k hk => hn k (List.mem_cons_of_mem _ hk))]
      cases e with
      | submit k => exact absurd List.mem_cons_self (hn k)
      | _ => rfl
    · intro m y hm
      rcases h5 m y hm with h | h
      · cases e <;> simp [gliftF] at h ⊢ <;> grind
      · exact .inr (List.mem_cons_of_mem _ h)
    · intro m y hm
      rcases h6 m y hm with h | h
      · cases e <;> simp [gliftF] at h ⊢ <;> grind
      · exact .inr (List.mem_cons_of_mem _ h)

theorem putItem_frame3 (s : DState) (x : String) (i : IState) :
    (putItem s x i).initExpected = s.initExpected ∧ (putItem s x i).rmid = s.rmid ∧
    (putItem s x i).rq = s.rq ∧ (putItem s x i).tasks = s.tasks := by
  unfold putItem; split <;> exact ⟨rfl, rfl, rfl, rfl⟩

theorem liftItem_gate (s : DState) (x : String) (a : IAct) (s' : DState) (ge : List GEff)
    (h : liftItem s x a = some (s', ge)) :
    s'.initExpected = s.initExpected ∧ s'.rmid = s.rmid ∧ s'.rq = s.rq ∧
    (a ≠ .addTask → s'.tasks = s.tasks) ∧
    ((∀ k, a ≠ .callBegin k) → (∀ k o, a ≠ .callEnd k o) →
      ∀ m y, GEff.adapterBegin m y ∉ ge ∧ GEff.adapterEnd m y ∉ ge) := by
  rw [liftItem_eq] at h
  cases hi : istep (getItem s x) a with
  | none => rw [hi] at h; cases h
  | some p =>
    obtain ⟨i', e⟩ := p
    rw [hi] at h
    simp only [Option.some.injEq] at h
    obtain ⟨h1, h2, h3, h4, h5, h6⟩ := foldl_gliftF_gate x e (putItem s x i', [])
    obtain ⟨p1, p2, p3, p4⟩ := putItem_frame3 s x i'
    obtain ⟨e1, e2⟩ := istep_effs _ _ _ _ hi
    rw [h] at h1 h2 h3 h4 h5 h6
    simp only [p1, p2, p3, p4] at h1 h2 h3 h4
    refine ⟨h1, h2, h3, ?_, ?_⟩
    · intro ha
      exact h4 (fun k hk => ha (e1 k hk))
    · intro c1 c2 m y
      refine ⟨fun hm => ?_, fun hm => ?_⟩
      · rcases h5 m y hm with h | h
        · simp at h
        · rcases e2 m (.inl h) with ⟨k, hk⟩ | ⟨k, o, hk⟩
          · exact c1 k hk
          · exact c2 k o hk
      · rcases h6 m y hm with h | h
        · simp at h
        · rcases e2 m (.inr h) with ⟨k, hk⟩ | ⟨k, o, hk⟩
          · exact c1 k hk
          · exact c2 k o hk

theorem liftItem_no_adapter {s : DState} {x : String} {a : IAct} {s' : DState} {ge : List GEff}
    (h : liftItem s x a = some (s', ge)) (h1 : ∀ k, a ≠ .callBegin k) (h2 : ∀ k o, a ≠ .callEnd k o)
    {m : AMethod} {y : String} (hc : GEff.adapterBegin m y ∈ ge ∨ GEff.adapterEnd m y ∈ ge) : False :=
  have g := (liftItem_gate s x a s' ge h).2.2.2.2 h1 h2 m y
  hc.elim g.1 g.2

/-- **C18 on the Data server model: adapter methods run on pool threads only.** -/
theorem gstep_adapter_thread {s s' : DState} {tid : String} {op : OpClass} {x : String} {effs : List GEff}
    (h : gstep s tid op x = some (s', effs))
    (hc : ∃ m y, GEff.adapterBegin m y ∈ effs ∨ GEff.adapterEnd m y ∈ effs) :
    tid ≠ "R" ∧ tid ≠ "W" ∧ tid ≠ "M" ∧ tid ≠ "P" ∧ tid.startsWith "T" = true := by
  obtain ⟨m, y, hc⟩ := hc
  have hx := gstep_not_exited h
  unfold gstep at h
  rw [if_neg (by simp [hx])] at h
  repeat' split at h
  all_goals try simp only at h
  all_goals repeat' split at h
  all_goals first
    | contradiction
    | exact ⟨by assumption, by assumption, by assumption, by assumption, by assumption⟩
    | (exfalso
       simp only [Option.some.injEq, Prod.mk.injEq] at h; obtain ⟨rfl, rfl⟩ := h
       simp at hc; done)
    | (exfalso
       simp only [Option.some.injEq, Prod.mk.injEq] at h; obtain ⟨rfl, rfl⟩ := h
       rcases hc with hc | hc <;> rcases mem_gioEffects hc with h | h <;> cases h)
    | (exfalso
       refine liftItem_no_adapter h ?_ ?_ hc <;> (intros; intro hh; cases hh))
    | (exfalso
       simp only [Option.some.injEq, Prod.mk.injEq] at h; obtain ⟨rfl, rfl⟩ := h
       have hl := (by assumption : liftItem _ _ _ = some _)
       refine liftItem_no_adapter hl ?_ ?_ hc <;> (intros; intro hh; cases hh))

/-- **C18 on the Data server model: the reader can always take the next bytes, and the writer the next message**,
    whatever the pool tasks are doing (as long as the process has not exited — the default reaction to an I/O failure; the
    reader's `recv` is also enabled when the peer has closed the connection: it is then the failing read of
    Conc/DataFault.lean). -/
theorem gstep_reader_writer_enabled (s : DState) (x : String) (hx : s.exited = false) :
    (s.rst = 2 → s.rmid = none → s.rq = [] → (s.inbound ≠ [] ∨ s.inEnd = true) → (gstep s "R" .recv x).isSome) ∧
    (s.rst = 2 → s.rmid = none → ∀ l rest, s.rq = .reply l :: rest → (gstep s "R" .put x).isSome) ∧
    (s.wst = 2 → s.wpc = .get → s.sendQ ≠ [] → ∀ b, (gstep s "W" (.get b) x).isSome) ∧
    (s.wst = 2 → ∀ m, s.wpc = .send m → (gstep s "W" .send x).isSome) := by
  refine ⟨?_, ?_, ?_, ?_⟩
  · intro h0 h1 h2 h3
    cases hin : s.inbound with
    | nil =>
      rcases h3 with h3 | h3
      · exact absurd hin h3
      · simp [gstep, hx, h0, h1, h2, hin, h3]
    | cons c rest => simp [gstep, hx, h0, h1, h2, hin]
  · intro h0 h1 l rest h2
    simp [gstep, hx, h0, h1, h2]
  · intro h0 h1 h2 b
    cases hq : s.sendQ with
    | nil => exact absurd hq h2
    | cons c rest => cases c <;> simp [gstep, hx, h0, h1, hq]
  · intro h0 m h1
    simp [gstep, hx, h0, h1]

theorem lineOps_gate (s : DState) (l : String) :
    (s.initExpected = false → (lineOps s l).2 = false) ∧
    (∀ x t, ROp.req x t ∈ (lineOps s l).1 → (lineOps s l).2 = false) := by
  unfold lineOps
  split
  · exact ⟨id, fun x t h => by simp at h⟩
  · split
    · generalize decodeRequest _ _ = d
      split
      · simp only
        exact ⟨fun _ => trivial, fun _ _ _ => trivial⟩
      · simp only
        exact ⟨fun _ => trivial, fun _ _ _ => trivial⟩
    · split
      · exact ⟨id, fun x t h => by simp at h⟩
      · split
        · generalize decodeRequest _ _ = d
          split
          · simp only
            exact ⟨fun _ => trivial, fun _ _ _ => trivial⟩
          · simp only
            exact ⟨fun _ => trivial, fun _ _ _ => trivial⟩
        · exact ⟨id, fun x t h => by simp at h⟩

/-- the function the reader folds over the lines of a chunk. -/
def lineF (s : DState) (acc : List ROp × Bool) (l : String) : List ROp × Bool :=
  let (o, ie) := lineOps { s with initExpected := acc.2 } l
  (acc.1 ++ o, ie)

theorem lineF_eq (s : DState) (acc : List ROp × Bool) (l : String) :
    lineF s acc l = (acc.1 ++ (lineOps { s with initExpected := acc.2 } l).1,
      (lineOps { s with initExpected := acc.2 } l).2) := by
  unfold lineF
  generalize lineOps _ _ = p
  obtain ⟨o, ie⟩ := p
  rfl

theorem lineF_fold (s : DState) (lines : List String) (acc : List ROp × Bool) :
    (acc.2 = false → (lines.foldl (lineF s) acc).2 = false) ∧
    (∀ x t, ROp.req x t ∈ (lines.foldl (lineF s) acc).1 →
      ROp.req x t ∈ acc.1 ∨ (lines.foldl (lineF s) acc).2 = false) := by
  induction lines generalizing acc with
  | nil => exact ⟨id, fun x t h => .inl h⟩
  | cons l lines ih =>
    rw [List.foldl_cons]
    obtain ⟨h1, h2⟩ := ih (lineF s acc l)
    obtain ⟨g1, g2⟩ := lineOps_gate { s with initExpected := acc.2 } l
    have e0 := lineF_eq s acc l
    have e1 : (lineF s acc l).1 = acc.1 ++ (lineOps { s with initExpected := acc.2 } l).1 := by rw [e0]
    have e2 : (lineF s acc l).2 = (lineOps { s with initExpected := acc.2 } l).2 := by rw [e0]
    refine ⟨fun h => h1 (by rw [e2]; exact g1 h), fun x t h => ?_⟩
    rcases h2 x t h with h | h
    · rw [e1, List.mem_append] at h
      rcases h with h | h
      · exact .inl h
      · exact .inr (h1 (by rw [e2]; exact g2 x t h))
    · exact .inr h

/-- the part of the state the init gate talks about is left alone (the reader's list may shrink). -/
def GFrame (s s' : DState) : Prop :=
  s'.initExpected = s.initExpected ∧ s'.tasks = s.tasks ∧ s'.rmid = s.rmid ∧ ∀ a ∈ s'.rq, a ∈ s.rq

theorem liftItem_gframe (s s₁ : DState) (y : String) (a : IAct) (s' : DState) (e : List GEff)
    (hs : s₁.initExpected = s.initExpected ∧ s₁.tasks = s.tasks ∧ s₁.rmid = s.rmid ∧ s₁.rq = s.rq)
    (h : liftItem s₁ y a = some (s', e)) (ha : a ≠ .addTask) : GFrame s s' := by
  obtain ⟨h1, h2, h3, h4, -⟩ := liftItem_gate _ _ _ _ _ h
  obtain ⟨g1, g2, g3, g4⟩ := hs
  exact ⟨h1.trans g1, (h4 ha).trans g2, h2.trans g3, fun a ha => by rw [h3, g4] at ha; exact ha⟩

theorem markFal_gframe (s : DState) (tid item : String) (kind : LKind) :
    (markFal s tid item kind).initExpected = s.initExpected ∧ (markFal s tid item kind).tasks = s.tasks ∧
    (markFal s tid item kind).rmid = s.rmid ∧ (markFal s tid item kind).rq = s.rq := by
  unfold markFal; split <;> (try split) <;> exact ⟨rfl, rfl, rfl, rfl⟩

theorem map_liftItem_gframe (s s₁ : DState) (y : String) (a : IAct)
    (f : DState × List GEff → DState × List GEff) (s'' : DState) (e : List GEff)
    (hs : s₁.initExpected = s.initExpected ∧ s₁.tasks = s.tasks ∧ s₁.rmid = s.rmid ∧ s₁.rq = s.rq)
    (hf : ∀ p, (f p).1.initExpected = p.1.initExpected ∧ (f p).1.tasks = p.1.tasks ∧
      (f p).1.rmid = p.1.rmid ∧ (f p).1.rq = p.1.rq)
    (h : (liftItem s₁ y a).map f = some (s'', e)) (ha : a ≠ .addTask) : GFrame s s'' := by
  cases hl : liftItem s₁ y a with
  | none => rw [hl] at h; exact absurd h (by simp)
  | some p =>
    obtain ⟨s', e0⟩ := p
    rw [hl] at h
    simp only [Option.map, Option.some.injEq] at h
    obtain ⟨f1, f2, f3, f4⟩ := hf (s', e0)
    rw [h] at f1 f2 f3 f4
    simp only at f1 f2 f3 f4
    obtain ⟨h1, h2, h3, h4⟩ := liftItem_gframe s s₁ y a s' e0 hs hl ha
    exact ⟨f1.trans h1, f2.trans h2, f3.trans h3, fun a ha => h4 a (by rw [← f4]; exact ha)⟩

theorem gstep_gate_cases {s s' : DState} {tid : String} {op : OpClass} {x : String} {effs : List GEff}
    (h : gstep s tid op x = some (s', effs)) :
    GFrame s s' ∨
    (∃ lines : List String, s.rmid = none ∧ s.rq = [] ∧ s'.tasks = s.tasks ∧ s'.rmid = s.rmid ∧
      lines.foldl (lineF s) ([], s.initExpected) = (s'.rq, s'.initExpected)) ∨
    (s'.initExpected = s.initExpected ∧ (s.rmid.isSome = true ∨ ∃ x t, ROp.req x t ∈ s.rq)) := by
  have hx := gstep_not_exited h
  unfold gstep at h
  rw [if_neg (by simp [hx])] at h
  repeat' split at h
  all_goals try simp only at h
  all_goals repeat' split at h
  all_goals first
    | contradiction
    | (simp only [Option.some.injEq, Prod.mk.injEq] at h; obtain ⟨rfl, rfl⟩ := h
       exact .inl ⟨rfl, rfl, rfl, fun a ha => ha⟩)
    | (simp only [Option.some.injEq, Prod.mk.injEq] at h; obtain ⟨rfl, rfl⟩ := h
       refine .inl ⟨rfl, rfl, rfl, fun a ha => ?_⟩
       exact absurd ha List.not_mem_nil)
    | (simp only [Option.some.injEq, Prod.mk.injEq] at h; obtain ⟨rfl, rfl⟩ := h
       refine .inl ⟨rfl, rfl, rfl, fun a ha => ?_⟩
       rw [(by assumption : s.rq = _)]
       exact List.mem_cons_of_mem _ ha)
    | (refine .inl (liftItem_gframe s _ _ _ _ _ ?_ h ?_)
       · first | exact ⟨rfl, rfl, rfl, rfl⟩ | exact markFal_gframe _ _ _ _
       · intro hh; cases hh)
    | (refine .inl (map_liftItem_gframe s _ _ _ _ _ _ ?_ ?_ h ?_)
       · exact ⟨rfl, rfl, rfl, rfl⟩
       · intro p; exact ⟨rfl, rfl, rfl, rfl⟩
       · intro hh; cases hh)
    | (simp only [Option.some.injEq, Prod.mk.injEq] at h; obtain ⟨rfl, rfl⟩ := h
       have hl := (by assumption : liftItem _ _ _ = some _)
       refine .inr (.inr ⟨(liftItem_gate _ _ _ _ _ hl).1, ?_⟩)
       first
         | (left; simp only [*]; rfl)
         | (right; rw [(by assumption : s.rq = _)]; exact ⟨_, _, List.mem_cons_self⟩))
    | (simp only [Option.some.injEq, Prod.mk.injEq] at h; obtain ⟨rfl, rfl⟩ := h
       exact .inr (.inl ⟨_, by assumption, by assumption, rfl, by simp only [*], by assumption⟩))

/-- **C10 on the Data server model.** In every reachable state, if a subscription request has been dispatched
    (a pool task exists, the reader is between its two lock sections, or a request is waiting in the reader's
    list), the init request has been received. -/
theorem greachL_init_gate {n : Nat} {u p : Option String} {s : DState} {log : List String}
    (h : GReachL n u p s log) :
    (s.tasks ≠ [] ∨ s.rmid.isSome = true ∨ ∃ x t, ROp.req x t ∈ s.rq) → s.initExpected = false := by
  induction h with
  | init => simp
  | @step s s' log tid op x effs _ hg _ ih =>
    rcases gstep_gate_cases hg with ⟨h1, h2, h3, h4⟩ | ⟨lines, h1, h2, h3, h4, h5⟩ | ⟨h1, h2⟩
    · intro hpre
      rw [h1]
      apply ih
      rcases hpre with h | h | ⟨y, t, h⟩
      · exact .inl (h2 ▸ h)
      · exact .inr (.inl (h3 ▸ h))
      · exact .inr (.inr ⟨y, t, h4 _ h⟩)
    · obtain ⟨g1, g2⟩ := lineF_fold s lines ([], s.initExpected)
      rw [h5] at g1 g2
      simp only at g1 g2
      intro hpre
      rcases hpre with h | h | ⟨y, t, h⟩
      · exact g1 (ih (.inl (h3 ▸ h)))
      · rw [h4, h1] at h; cases h
      · rcases g2 y t h with h | h
        · simp at h
        · exact h
    · intro _
      rw [h1]
      exact ih (.inr h2)

end Ari.Conc
