import AriVerif.Conc.MetaFault
import AriVerif.Conc.DataFault
/-
  Conc/Progress.lean — no deadlock in the whole-server models: as long as the process has not exited, outstanding work
  always has an enabled library step, unless it is waiting for the adapter (a task inside an adapter call: the adapter
  decides when to return) — for every reachable state, i.e. every schedule.  This is the safety half of "every request is
  answered" (C01 / C04) and of "a blocked adapter call does not stop the library" (C18): under any fair scheduler the work
  gets done.
-/
namespace Ari.Conc
open Ari

/-! ### Metadata server -/

/-- outstanding work in the Metadata server: an unfinished pool task, an action the reader still has to perform, unread
    bytes (with a reader that is still there), a message the writer still has to take or write. -/
def MWork (s : MState) : Prop :=
  (∃ t ∈ s.pool.tasks, t.pc.isDone = false) ∨
  (s.rthr = 2 ∧ (s.rq ≠ [] ∨ s.inbound ≠ [])) ∨
  (s.wthr = 2 ∧ (s.wsend.isSome = true ∨ s.sendQ ≠ []))

/-- the reader parks only where it is about to enqueue (a reply, the stop pill) or to wait (writer join / pool shutdown):
    every other action is local and `runLocal` runs through it. -/
def RqHead : List RAct → Prop
  | [] => True
  | .reply _ :: _ => True
  | .quit :: _ => True
  | .poolShutdown :: _ => True
  | _ :: _ => False

theorem runLocal_rqHead (s : MState) (acts : List RAct) : RqHead (runLocal s acts).1.rq := by
  induction acts generalizing s with
  | nil => simp [runLocal, RqHead]
  | cons a rest ih =>
    cases a with
    | reply l => simp [runLocal, RqHead]
    | quit => simp [runLocal, RqHead]
    | poolShutdown => simp [runLocal, RqHead]
    | submit m id toks =>
      simp only [runLocal]
      cases hd : decodeRequest m toks with
      | none => exact ih s
      | some r =>
        cases r with
        | error e => exact ih s
        | ok a =>
          simp only [pstep_submit]
          exact ih _
    | handlerExc => simp only [runLocal]; exact ih s
    | _ => simp only [runLocal]; exact ih s

/-- in every reachable state the reader's list is empty or begins with an action the reader parks at. -/
theorem mreach_rqHead {cfg : SrvCfg} {n : Nat} {s : MState} {log : List String} (h : MReach cfg n s log) :
    RqHead s.rq := by
  induction h with
  | init => simp [MInit, RqHead]
  | @step s s' log env tid op effs hr hs ih =>
    have inv' := mreach_closeInv (hr.step hs)
    cases mstep_kind hs with
    | rRecv => exact runLocal_rqHead _ _
    | rPut => exact runLocal_rqHead _ _
    | rQuit h2 h3 h4 rest hrq =>
      obtain ⟨r, hr'⟩ := inv'.rqShape.2.1 (.inl rfl)
      rw [hr']; trivial
    | rPoolWait => trivial
    | _ => exact ih

/-- the pool machine does not deadlock: with at least one worker, an unfinished task means that some task can be started,
    can begin its adapter call or can enqueue its reply — or that some task is inside an adapter call. -/
theorem pool_progress {p : PState} (inv : PInv p) (hn : 1 ≤ p.n) (hw : ∃ t ∈ p.tasks, pcDone t.pc = false) :
    (∃ k, (pstep p (.start k)).isSome = true ∨ (pstep p (.callBegin k)).isSome = true ∨
      (pstep p (.put k)).isSome = true) ∨
    (∃ (k : Nat) (t : PTask) (c : Call), p.tasks[k]? = some t ∧ t.pc = .inCall c) := by
  by_cases hrun : p.running = 0
  · -- nothing running: the unfinished task is waiting, so the queue is not empty and a free worker takes its head
    obtain ⟨t, htm, hnd⟩ := hw
    obtain ⟨j, hj⟩ := List.mem_iff_getElem?.mp htm
    have hjlt : j < p.tasks.length := (List.getElem?_eq_some_iff.mp hj).1
    have hact : pcActive t.pc = false := by
      cases hh : pcActive t.pc with
      | false => rfl
      | true =>
        have := filter_length_pos_of_getElem? (fun t => pcActive t.pc) p.tasks j t hj hh
        have := inv.running
        omega
    have hpool : pcInPool t.pc = true := by
      cases hp : t.pc <;> simp [hp, pcActive, pcInPool, pcDone] at hact hnd ⊢
    have hle := (inv.pool j t hj).1 hpool
    have hklt : p.started.length < p.tasks.length := by omega
    have hk : p.workQ.head? = some p.started.length := by
      rw [inv.workQ, List.head?_drop, List.getElem?_range hklt]
    obtain ⟨tk, htk⟩ : ∃ tk, p.tasks[p.started.length]? = some tk := ⟨_, List.getElem?_eq_getElem hklt⟩
    have hpc : tk.pc = .inPool := by
      have := (inv.pool _ tk htk).2 (Nat.le_refl _)
      cases hp : tk.pc <;> simp [hp, pcInPool] at this ⊢
    refine .inl ⟨p.started.length, .inl ?_⟩
    simp only [pstep, htk, hpc, hk]
    rw [if_pos ⟨trivial, by omega⟩]
    rfl
  · -- some task is running
    have hpos : 0 < (p.tasks.filter (fun t => pcActive t.pc)).length := by
      have := inv.running; omega
    obtain ⟨t, htm⟩ := List.exists_mem_of_length_pos hpos
    obtain ⟨htm, hact⟩ := List.mem_filter.1 htm
    obtain ⟨k, ht⟩ := List.mem_iff_getElem?.mp htm
    cases hp : t.pc with
    | inPool => simp [hp, pcActive] at hact
    | done => simp [hp, pcActive] at hact
    | inCall c => exact .inr ⟨k, t, c, ht, hp⟩
    | callBegin c => exact .inl ⟨k, .inr (.inl (by simp [pstep, ht, hp]))⟩
    | put line => exact .inl ⟨k, .inr (.inr (by simp [pstep, ht, hp]))⟩

/-- a running writer with a message in hand or in the queue has an enabled step. -/
theorem mstep_writer_live (s : MState) (env : InitEnv) (hx : s.exited = false) (hw : s.wthr = 2)
    (h : s.wsend.isSome = true ∨ s.sendQ ≠ []) : ∃ op, (mstep s env "W" op).isSome = true := by
  cases hws : s.wsend with
  | some m => exact ⟨.send, (mstep_writer_enabled s env hw hx).2 m hws⟩
  | none =>
    rcases h with h | h
    · rw [hws] at h; simp at h
    · exact ⟨.get, (mstep_writer_enabled s env hw hx).1 hws h⟩

/-- a running reader with something to read or to do that is not parked at the pool shutdown has an enabled step. -/
theorem mstep_reader_live (s : MState) (env : InitEnv) (hx : s.exited = false) (hr : s.rthr = 2) (hh : RqHead s.rq)
    (h : s.rq ≠ [] ∨ s.inbound ≠ []) (hps : ∀ rest, s.rq ≠ .poolShutdown :: rest) :
    ∃ op, (mstep s env "R" op).isSome = true := by
  cases hrq : s.rq with
  | nil =>
    have hin : s.inbound ≠ [] := h.resolve_left (fun h' => h' hrq)
    exact ⟨.recv, (mstep_reader_enabled s env hr hx).1 hrq (.inl hin)⟩
  | cons a rest =>
    rw [hrq] at hh
    cases a with
    | reply l => exact ⟨.put, (mstep_reader_enabled s env hr hx).2 l rest hrq⟩
    | quit => exact ⟨.put, by simp [mstep, hx, hr, hrq]⟩
    | poolShutdown => exact absurd hrq (hps rest)
    | _ => exact hh.elim

/-- **no deadlock (Metadata).** In every reachable state of a server with at least one pool worker that has not exited:
    if work is outstanding, some step of a library thread (reader, writer, a pool thread) is enabled, or some pool task is
    inside an adapter call. -/
theorem mreach_progress {cfg : SrvCfg} {n : Nat} {s : MState} {log : List String} (h : MReach cfg n s log)
    (hn : 1 ≤ n) (hx : s.exited = false) (hw : MWork s) (env : InitEnv) :
    (∃ tid op, (mstep s env tid op).isSome ∧ (tid = "R" ∨ tid = "W" ∨ tid.startsWith "T" = true)) ∨
    (∃ (k : Nat) (t : PTask) (c : Call), s.pool.tasks[k]? = some t ∧ t.pc = .inCall c) := by
  have inv := mreach_closeInv h
  have pinv := mreach_pinv h
  rcases hw with hw | ⟨hr, hw⟩ | ⟨hwt, hw⟩
  · -- an unfinished pool task
    obtain ⟨acts, hacts⟩ := mreach_pool h
    have hnn : s.pool.n = n := prun_n acts _ _ hacts
    rw [PPc.isDone_eq] at hw
    rcases pool_progress pinv (by omega) hw with ⟨k, hk⟩ | hk
    · obtain ⟨m1, m2, m3⟩ := mstep_tname s env k hx
      rcases hk with hk | hk | hk
      · exact .inl ⟨tname k, .taskStart, by rw [m1]; exact liftPool_isSome s _ hk, .inr (.inr (tname_startsWith k))⟩
      · exact .inl ⟨tname k, .adapterBegin, by rw [m2]; exact liftPool_isSome s _ hk, .inr (.inr (tname_startsWith k))⟩
      · exact .inl ⟨tname k, .put, by rw [m3]; exact liftPool_isSome s _ hk, .inr (.inr (tname_startsWith k))⟩
    · exact .inr hk
  · -- the reader has something to do
    by_cases hc : s.cpc = 1 ∨ s.cpc = 2
    · exact c20s_close_progress h hn hc hx env
    · have hps : ∀ rest, s.rq ≠ .poolShutdown :: rest := by
        intro rest hrq
        have hle := inv.cpcLe
        rcases Nat.lt_or_ge s.cpc 1 with h0 | h0
        · have := inv.rqShape.1 (by omega)
          rw [hrq] at this
          exact this
        · have := inv.rqShape.2.2 (by omega)
          rw [hrq] at this
          cases this
      obtain ⟨op, hop⟩ := mstep_reader_live s env hx hr (mreach_rqHead h) hw hps
      exact .inl ⟨"R", op, hop, .inl rfl⟩
  · -- the writer has something to do
    obtain ⟨op, hop⟩ := mstep_writer_live s env hx hwt hw
    exact .inl ⟨"W", op, hop, .inr (.inl rfl)⟩

/-- **a blocked adapter call does not stop the reader or the writer (Metadata).** Whatever the pool tasks are doing: a
    running reader with something to read or to do has an enabled step, unless it is waiting inside `close()`; a running
    writer with something to take or to write has an enabled step. -/
theorem mreach_io_threads_live {cfg : SrvCfg} {n : Nat} {s : MState} {log : List String} (h : MReach cfg n s log)
    (hx : s.exited = false) (env : InitEnv) :
    (s.rthr = 2 → (s.rq ≠ [] ∨ s.inbound ≠ []) → s.cpc = 0 → ∃ op, (mstep s env "R" op).isSome) ∧
    (s.wthr = 2 → (s.wsend.isSome = true ∨ s.sendQ ≠ []) → ∃ op, (mstep s env "W" op).isSome) := by
  refine ⟨fun hr hw hc => ?_, fun hwt hw => mstep_writer_live s env hx hwt hw⟩
  refine mstep_reader_live s env hx hr (mreach_rqHead h) hw ?_
  intro rest hrq
  have := (mreach_closeInv h).rqShape.1 hc
  rw [hrq] at this
  exact this

/-! ### Data server -/

/-- outstanding work in the Data server (pool side): a pool task whose dequeuer instance has not finished. -/
def DWork (s : DState) : Prop := ∃ t ∈ s.tasks, ((getItem s t.1).insts t.2).pc ≠ .done

/-- the pool size never changes. -/
theorem gstep_poolN {s s' : DState} {tid : String} {op : OpClass} {x : String} {effs : List GEff}
    (h : gstep s tid op x = some (s', effs)) : s'.poolN = s.poolN := by
  cases gstep_kind h with
  | tStart tid hT n y k ht hq hrun s' e hl => obtain ⟨i', e', -, rfl, -, -⟩ := liftItem_spec hl; rfl
  | tDec tid hT n y k ht s1 e hl => obtain ⟨i', e', -, rfl, -, -⟩ := liftItem_spec hl; rfl
  | neutral tid op hT s0 hs0 y a ha s' e hl =>
    obtain ⟨i', e', -, rfl, -, -⟩ := liftItem_spec hl
    rcases hs0 with rfl | rfl <;> rfl
  | rLock h1 h0 hmid y t rest hrq s1 e hl m hm => obtain ⟨i', e', -, rfl, -, -⟩ := liftItem_spec hl; rfl
  | rAdd h1 h0 y hmid s1 e hl => obtain ⟨i', e', -, rfl, -, -⟩ := liftItem_spec hl; rfl
  | _ => rfl

theorem greach_poolN {n : Nat} {u p : Option String} {hd : Option Bool} {s : DState} {log : List String}
    (h : GReachH n u p hd s log) : s.poolN = n := by
  induction h with
  | init => rfl
  | step _ hs _ ih => rw [gstep_poolN hs]; exact ih

/-! #### the work queue holds exactly the unstarted tasks (converse of `DPoolInv.queued`) -/

/-- every entry of the work queue is the number of an existing pool task that no worker has taken yet, and no task is
    queued twice. -/
structure DQInv (s : DState) : Prop where
  nodup : s.workQ.Nodup
  unstarted : ∀ m ∈ s.workQ, ∃ t, s.tasks[m - 1]? = some t ∧ tcls s t = 0

theorem dqInv_init (n : Nat) (u p : Option String) (h : Option Bool) :
    DQInv { poolN := n, user := u, password := p, ioHandler := h } := by
  refine ⟨?_, ?_⟩ <;> simp

theorem DQInv.frame {s s' : DState} (hi : DQInv s) (hcls : ∀ t, tcls s' t = tcls s t) (ht : s'.tasks = s.tasks)
    (hq : s'.workQ = s.workQ) : DQInv s' := by
  refine ⟨by rw [hq]; exact hi.nodup, ?_⟩
  intro m hm
  rw [hq] at hm
  obtain ⟨t, h1, h2⟩ := hi.unstarted m hm
  exact ⟨t, by rw [ht]; exact h1, by rw [hcls]; exact h2⟩

theorem DQInv.frame_items {s s' : DState} (hi : DQInv s) (h : s'.items = s.items) (ht : s'.tasks = s.tasks)
    (hq : s'.workQ = s.workQ) : DQInv s' := hi.frame (tcls_congr h) ht hq

theorem DQInv.lift_neutral {s0 s' : DState} {y : String} {a : IAct} {ge : List GEff} (hi : DQInv s0) (hp : DPoolInv s0)
    (ha : a.neutral = true) (hl : liftItem s0 y a = some (s', ge)) : DQInv s' := by
  obtain ⟨i', e, his, hy, ho, ht, hq, hr⟩ := liftItem_pool hl
  obtain ⟨n1, n2, n3⟩ := istep_neutral (hp.good y) ha his
  rw [n3] at ht hq
  refine hi.frame ?_ (by simpa using ht) (by simpa using hq)
  intro t
  unfold tcls
  exact getItem_update hy ho (fun i j => ipcCls (j.insts t.2).pc = ipcCls (i.insts t.2).pc) (n2 t.2) (fun _ => rfl) t.1

theorem DQInv.lift_addTask {s s' : DState} {y : String} {ge : List GEff} (hi : DQInv s) (hp : DPoolInv s)
    (hl : liftItem s y .addTask = some (s', ge)) : DQInv s' := by
  obtain ⟨i', e, his, hy, ho, ht, hq, hr⟩ := liftItem_pool hl
  rcases istep_addTask his with ⟨n1, n2, n3⟩ | ⟨n1, n2, n3, n4⟩
  · rw [n3] at ht hq
    refine hi.frame ?_ (by simpa using ht) (by simpa using hq)
    intro t
    unfold tcls
    exact getItem_update hy ho (fun i j => ipcCls (j.insts t.2).pc = ipcCls (i.insts t.2).pc) (by rw [n2]) (fun _ => rfl) t.1
  · rw [n1] at ht hq
    simp only [List.map_cons, List.map_nil, List.length_cons, List.length_nil, List.range'_one, Nat.zero_add] at ht hq
    have hnew : (y, (getItem s y).ninst) ∉ s.tasks := fun h => Nat.lt_irrefl _ (hp.tasksLt _ h)
    have hcls : ∀ t, t ≠ (y, (getItem s y).ninst) → tcls s' t = tcls s t := by
      intro t htne
      unfold tcls
      by_cases hx : t.1 = y
      · have h2 : t.2 ≠ (getItem s y).ninst := fun h => htne (Prod.ext hx h)
        rw [hx, hy, n4 t.2 h2]
      · rw [ho t.1 hx]
    have hcnew : tcls s' (y, (getItem s y).ninst) = 0 := by
      unfold tcls
      simp only
      rw [hy]; exact n3
    have hold : ∀ m ∈ s.workQ, m ≤ s.tasks.length := by
      intro m hm
      obtain ⟨t, h1, -⟩ := hi.unstarted m hm
      have := (List.getElem?_eq_some_iff.mp h1).1
      have := hp.workQPos m hm
      omega
    refine ⟨?_, ?_⟩
    · rw [hq]
      refine List.nodup_append.2 ⟨hi.nodup, by simp, ?_⟩
      intro a ha b hb
      simp only [List.mem_singleton] at hb
      have := hold a ha
      omega
    · intro m hm
      rw [hq] at hm
      rcases List.mem_append.1 hm with h | h
      · obtain ⟨t, h1, h2⟩ := hi.unstarted m h
        refine ⟨t, ?_, ?_⟩
        · rw [ht, List.getElem?_append_left (List.getElem?_eq_some_iff.mp h1).1]; exact h1
        · rw [hcls t (fun he => hnew (he ▸ List.mem_of_getElem? h1))]; exact h2
      · simp only [List.mem_singleton] at h
        subst h
        refine ⟨(y, (getItem s y).ninst), ?_, hcnew⟩
        rw [ht]; simp

theorem DQInv.lift_start {s s' : DState} {y : String} {k n : Nat} {ge : List GEff} (hi : DQInv s) (hp : DPoolInv s)
    (ht : s.tasks[n - 1]? = some (y, k)) (hq : s.workQ.head? = some n)
    (hl : liftItem { s with workQ := s.workQ.tail, running := s.running + 1 } y (.start k) = some (s', ge)) :
    DQInv s' := by
  obtain ⟨i', e, his, hy, ho, htk, hwq, hr⟩ := liftItem_pool hl
  change istep (getItem s y) (.start k) = some (i', e) at his
  change ∀ x, x ≠ y → getItem s' x = getItem s x at ho
  obtain ⟨m1, m2, m3, m4, m5, m6⟩ := istep_start his
  rw [m6] at htk hwq
  simp only [List.map_nil, List.append_nil, List.length_nil, List.range'_zero] at htk hwq
  have hcls : ∀ t, t ≠ (y, k) → tcls s' t = tcls s t := by
    intro t htne
    unfold tcls
    by_cases hx : t.1 = y
    · have h2 : t.2 ≠ k := fun h => htne (Prod.ext hx h)
      rw [hx, hy, m4 t.2 h2]
    · rw [ho t.1 hx]
  cases hw : s.workQ with
  | nil => rw [hw] at hq; cases hq
  | cons a tl =>
    rw [hw] at hq hwq
    simp only [List.head?_cons, Option.some.injEq] at hq
    subst hq
    simp only [List.tail_cons] at hwq
    have hnd := hi.nodup
    rw [hw, List.nodup_cons] at hnd
    refine ⟨by rw [hwq]; exact hnd.2, ?_⟩
    intro m hm
    rw [hwq] at hm
    have hmw : m ∈ s.workQ := by rw [hw]; exact List.mem_cons_of_mem _ hm
    obtain ⟨t, h1, h2⟩ := hi.unstarted m hmw
    refine ⟨t, by rw [htk]; exact h1, ?_⟩
    rw [hcls t ?_]; exact h2
    intro he
    subst he
    have hma : m ≠ a := fun h => hnd.1 (h ▸ hm)
    have h1m := hp.workQPos m hmw
    have h1a := hp.workQPos a (by rw [hw]; exact List.mem_cons_self)
    have hlt := (List.getElem?_eq_some_iff.mp h1).1
    have := (List.getElem?_inj hlt hp.nodup).1 (h1.trans ht.symm)
    omega

theorem DQInv.lift_dec {s s1 : DState} {y : String} {k : Nat} {ge : List GEff} (hi : DQInv s)
    (hl : liftItem s y (.dec k) = some (s1, ge)) :
    DQInv { s1 with running := s1.running - 1 } := by
  obtain ⟨i', e, his, hy, ho, htk, hwq, hr⟩ := liftItem_pool hl
  obtain ⟨m1, m2, m3, m4, m5, m6⟩ := istep_dec his
  rw [m6] at htk hwq
  simp only [List.map_nil, List.append_nil, List.length_nil, List.range'_zero] at htk hwq
  have hc : tcls s (y, k) = 1 := m2
  refine ⟨by show s1.workQ.Nodup; rw [hwq]; exact hi.nodup, ?_⟩
  intro m hm
  have hm' : m ∈ s.workQ := by
    have : m ∈ s1.workQ := hm
    rw [hwq] at this; exact this
  obtain ⟨t, h1, h2⟩ := hi.unstarted m hm'
  refine ⟨t, by show s1.tasks[m - 1]? = _; rw [htk]; exact h1, ?_⟩
  have hne : t ≠ (y, k) := fun he => by rw [he, hc] at h2; cases h2
  show ipcCls ((getItem s1 t.1).insts t.2).pc = 0
  by_cases hx : t.1 = y
  · have h2' : t.2 ≠ k := fun h => hne (Prod.ext hx h)
    rw [hx, hy, m4 t.2 h2', ← hx]; exact h2
  · rw [ho t.1 hx]; exact h2

theorem dqInv_step {s s' : DState} {tid : String} {op : OpClass} {x : String} {effs : List GEff}
    (hi : DQInv s) (hp : DPoolInv s) (h : gstep s tid op x = some (s', effs)) : DQInv s' := by
  cases gstep_kind h with
  | deliver | endOfInput | mStart | mPut | rStart | rRecv | rFail | rPut | rQuit | rJoin | rPoolWait | wStart | wGet
  | wPill | wSend | wFail | failurePut | excFailurePut => exact hi.frame_items rfl rfl rfl
  | tStart tid hT n y k ht hq hrun s' e hl => exact hi.lift_start hp ht hq hl
  | tDec tid hT n y k ht s1 e hl => exact hi.lift_dec hl
  | neutral tid op hT s0 hs0 y a ha s' e hl =>
    rcases hs0 with rfl | rfl
    · exact hi.lift_neutral hp ha hl
    · exact (hi.frame_items (s' := { s with pendFal := s.pendFal ++ [tid] }) rfl rfl rfl).lift_neutral
        (hp.frame_items rfl rfl rfl rfl) ha hl
  | rLock h1 h0 hmid y t rest hrq s1 e hl m hm => exact (hi.lift_neutral hp rfl hl).frame_items rfl rfl rfl
  | rAdd h1 h0 y hmid s1 e hl => exact (hi.lift_addTask hp hl).frame_items rfl rfl rfl

theorem greach_dqInv {n : Nat} {u p : Option String} {ioh : Option Bool} {s : DState} {log : List String}
    (h : GReachH n u p ioh s log) : DQInv s := by
  induction h with
  | init => exact dqInv_init n u p ioh
  | step hr hs _ ih => exact dqInv_step ih (greach_dpoolInv hr) hs

/-! #### pool threads -/

/-- a pool task that a worker has taken and that has not finished: its thread has an enabled step, unless it is inside an
    adapter call. -/
theorem gstep_running_live {s : DState} (pinv : DPoolInv s) (hx : s.exited = false) {idx : Nat} {x : String} {k : Nat}
    (ht : s.tasks[idx]? = some (x, k)) (hc : tcls s (x, k) = 1) :
    (∃ op z, (gstep s (tname idx) op z).isSome = true) ∨ ∃ m tk, ((getItem s x).insts k).pc = .inCall m tk := by
  have hk : k < (getItem s x).ninst := pinv.tasksLt (x, k) (List.mem_of_getElem? ht)
  obtain ⟨h1, h2, h3, h4⟩ := tname_ne idx
  unfold tcls at hc
  simp only at hc
  cases hpc : ((getItem s x).insts k).pc with
  | inPool => simp [hpc, ipcCls] at hc
  | done => simp [hpc, ipcCls] at hc
  | inCall m tk => exact .inr ⟨m, tk, rfl⟩
  | atLoop =>
    refine .inl ⟨.itemLock, "", ?_⟩
    simp only [gstep, hx, Bool.false_eq_true, h1, h2, h3, h4, if_false, tname_startsWith, if_true, tname_drop,
      Nat.add_sub_cancel, ht, hpc]
    rw [liftItem_isSome]
    simp only [istep, hk, if_true, hpc]
    (repeat' split) <;> rfl
  | put t line next =>
    refine .inl ⟨.put, "", ?_⟩
    simp only [gstep, hx, Bool.false_eq_true, h1, h2, h3, h4, if_false, tname_startsWith, if_true, tname_drop,
      Nat.add_sub_cancel, ht, hpc]
    rw [liftItem_isSome]
    simp only [istep, hk, if_true, hpc]
    (repeat' split) <;> rfl
  | setCode t =>
    refine .inl ⟨.mgrLock, "", ?_⟩
    simp only [gstep, hx, Bool.false_eq_true, h1, h2, h3, h4, if_false, tname_startsWith, if_true, tname_drop,
      Nat.add_sub_cancel, ht, hpc]
    rw [liftItem_isSome]
    simp only [istep, hk, if_true, hpc]
    rfl
  | callBegin m t =>
    refine .inl ⟨.adapterBegin, "", ?_⟩
    simp only [gstep, hx, Bool.false_eq_true, h1, h2, h3, h4, if_false, tname_startsWith, if_true, tname_drop,
      Nat.add_sub_cancel, ht, hpc]
    rw [liftItem_isSome]
    simp only [istep, hk, if_true, hpc]
    rfl
  | eosRead t =>
    refine .inl ⟨.mgrLock, "", ?_⟩
    simp only [gstep, hx, Bool.false_eq_true, h1, h2, h3, h4, if_false, tname_startsWith, if_true, tname_drop,
      Nat.add_sub_cancel, ht, hpc]
    rw [liftItem_isSome]
    simp only [istep, hk, if_true, hpc]
    (repeat' split) <;> rfl
  | clearCode t =>
    refine .inl ⟨.mgrLock, "", ?_⟩
    simp only [gstep, hx, Bool.false_eq_true, h1, h2, h3, h4, if_false, tname_startsWith, if_true, tname_drop,
      Nat.add_sub_cancel, ht, hpc]
    rw [liftItem_isSome]
    simp only [istep, hk, if_true, hpc]
    rfl
  | dec =>
    refine .inl ⟨.mgrLock, "", ?_⟩
    simp only [gstep, hx, Bool.false_eq_true, h1, h2, h3, h4, if_false, tname_startsWith, if_true, tname_drop,
      Nat.add_sub_cancel, ht, hpc]
    rw [Option.isSome_map, liftItem_isSome]
    simp only [istep, hk, if_true, hpc]
    (repeat' split) <;> rfl

/-- **no deadlock (Data, pool side).** In every reachable state (any I/O-handler configuration) of a server with at least
    one pool worker that has not exited: if some pool task is unfinished, then some pool thread has an enabled step, or
    some dequeuer instance is inside an adapter call (`pc = .inCall …`), possibly with a listener enqueue of its own still
    pending. -/
theorem greach_pool_progress {n : Nat} {u p : Option String} {hd : Option Bool} {s : DState} {log : List String}
    (h : GReachH n u p hd s log) (hn : 1 ≤ n) (hx : s.exited = false) (hw : DWork s) :
    (∃ tid op x, (gstep s tid op x).isSome ∧ tid.startsWith "T" = true) ∨
    (∃ t ∈ s.tasks, ∃ m tk, ((getItem s t.1).insts t.2).pc = .inCall m tk) := by
  have pinv := greach_dpoolInv h
  have qinv := greach_dqInv h
  have hN := greach_poolN h
  by_cases hrun : s.running = 0
  · -- nothing running: the unfinished task is waiting in the queue, and a free worker takes the head of the queue
    obtain ⟨t, htm, hnd⟩ := hw
    obtain ⟨j, hj⟩ := List.mem_iff_getElem?.mp htm
    have h1 : tcls s t ≠ 1 := fun h => by have := pinv.running_pos htm h; omega
    have h2 : tcls s t ≠ 2 := fun h => hnd (ipcCls_two h)
    have h0 : tcls s t = 0 := by
      have : tcls s t ≤ 2 := by unfold tcls ipcCls; split <;> omega
      omega
    have hq := pinv.queued j t hj h0
    cases hwq : s.workQ with
    | nil => rw [hwq] at hq; cases hq
    | cons m tl =>
      have hmw : m ∈ s.workQ := by rw [hwq]; exact List.mem_cons_self
      obtain ⟨⟨x, k⟩, ht', hc'⟩ := qinv.unstarted m hmw
      have hm1 := pinv.workQPos m hmw
      obtain ⟨m', rfl⟩ : ∃ m', m = m' + 1 := ⟨m - 1, by omega⟩
      simp only [Nat.add_sub_cancel] at ht'
      have hk : k < (getItem s x).ninst := pinv.tasksLt (x, k) (List.mem_of_getElem? ht')
      have hpc : ((getItem s x).insts k).pc = .inPool := by
        unfold tcls at hc'
        simp only at hc'
        cases hp : ((getItem s x).insts k).pc <;> simp [hp, ipcCls] at hc' ⊢
      obtain ⟨e1, e2, e3, e4⟩ := tname_ne m'
      refine .inl ⟨tname m', .taskStart, "", ?_, tname_startsWith m'⟩
      simp only [gstep, hx, Bool.false_eq_true, e1, e2, e3, e4, if_false, tname_startsWith, if_true, tname_drop,
        Nat.add_sub_cancel, ht', hpc]
      rw [if_pos ⟨by rw [hwq]; rfl, by omega⟩, liftItem_isSome]
      show (istep (getItem s x) (.start k)).isSome = true
      simp only [istep, hk, if_true, hpc]
      rfl
  · -- some task is running
    have hpos : 0 < (s.tasks.filter (fun t => tcls s t == 1)).length := by
      have := pinv.running; omega
    obtain ⟨t, htm⟩ := List.exists_mem_of_length_pos hpos
    obtain ⟨htm, hact⟩ := List.mem_filter.1 htm
    obtain ⟨idx, ht⟩ := List.mem_iff_getElem?.mp htm
    obtain ⟨x, k⟩ := t
    rcases gstep_running_live pinv hx ht (by simpa using hact) with ⟨op, z, hs⟩ | ⟨m, tk, hc⟩
    · exact .inl ⟨tname idx, op, z, hs, tname_startsWith idx⟩
    · exact .inr ⟨(x, k), htm, m, tk, hc⟩

/-! #### the reader's two lock sections -/

/-- the two item actions of the reader. -/
def IAct.isReader : IAct → Bool
  | .lockMgr _ => true
  | .addTask => true
  | _ => false

/-- only the reader's own actions touch `rheld` (the request it holds between its two lock sections). -/
theorem istep_rheld {i i' : IState} {a : IAct} {e : List Eff} (ha : a.isReader = false) (h : istep i a = some (i', e)) :
    i'.rheld = i.rheld := by
  cases a <;> simp only [IAct.isReader, Bool.true_eq_false] at ha <;> simp only [istep] at h <;>
    (repeat' split at h) <;>
    first
    | (cases h; done)
    | (simp only [Option.some.injEq, Prod.mk.injEq] at h
       obtain ⟨rfl, rfl⟩ := h
       rfl)

/-- the first lock section is enabled exactly when the reader holds nothing. -/
theorem istep_lockMgr_isSome (i : IState) (t : Task) (h : i.rheld = none) : (istep i (.lockMgr t)).isSome = true := by
  simp only [istep, h, Option.isSome_none, Bool.false_eq_true, if_false]
  (repeat' split) <;> rfl

/-- the second lock section is enabled when the reader holds a request, and releases it. -/
theorem istep_addTask_isSome (i : IState) (h : i.rheld.isSome = true) : (istep i .addTask).isSome = true := by
  cases hr : i.rheld with
  | none => rw [hr] at h; cases h
  | some p =>
    obtain ⟨t, g⟩ := p
    simp only [istep, hr]
    (repeat' split) <;> rfl

theorem istep_addTask_rheld {i i' : IState} {e : List Eff} (h : istep i .addTask = some (i', e)) : i'.rheld = none := by
  simp only [istep] at h
  repeat' split at h
  all_goals first
    | (cases h; done)
    | (simp only [Option.some.injEq, Prod.mk.injEq] at h
       obtain ⟨rfl, rfl⟩ := h
       rfl)

/-- the reader is between the two lock sections of a request for item `x` exactly when item `x` records a held request. -/
def RHeldInv (s : DState) : Prop := ∀ x, ((getItem s x).rheld.isSome = true ↔ s.rmid = some x)

/-- a step that leaves `rmid` and every item's `rheld` alone. -/
def RFrame (s s' : DState) : Prop := s'.rmid = s.rmid ∧ ∀ y, (getItem s' y).rheld = (getItem s y).rheld

theorem liftItem_rframe (s : DState) {s0 s' : DState} {y : String} {a : IAct} {ge : List GEff}
    (hs : s0.rmid = s.rmid ∧ s0.items = s.items) (ha : a.isReader = false) (hl : liftItem s0 y a = some (s', ge)) :
    RFrame s s' := by
  obtain ⟨i', e, his, hy, ho, -⟩ := liftItem_pool hl
  refine ⟨(liftItem_cframe hl).2.2.2.2.2.2.2.2.trans hs.1, fun z => ?_⟩
  rw [← getItem_congr hs.2 z]
  by_cases hz : z = y
  · subst hz; rw [hy]; exact istep_rheld ha his
  · rw [ho z hz]

theorem map_liftItem_rframe (s : DState) {s0 s'' : DState} {y : String} {a : IAct} {ge : List GEff}
    (f : DState × List GEff → DState × List GEff)
    (hs : s0.rmid = s.rmid ∧ s0.items = s.items) (hf : ∀ p, (f p).1.rmid = p.1.rmid ∧ (f p).1.items = p.1.items)
    (ha : a.isReader = false) (h : (liftItem s0 y a).map f = some (s'', ge)) : RFrame s s'' := by
  cases hl : liftItem s0 y a with
  | none => rw [hl] at h; exact absurd h (by simp)
  | some p =>
    obtain ⟨s', e0⟩ := p
    rw [hl] at h
    simp only [Option.map, Option.some.injEq] at h
    obtain ⟨f1, f2⟩ := hf (s', e0)
    rw [h] at f1 f2
    simp only at f1 f2
    obtain ⟨h1, h2⟩ := liftItem_rframe s hs ha hl
    exact ⟨f1.trans h1, fun z => by rw [getItem_congr f2 z]; exact h2 z⟩

/-- what a step of the Data server model does to the reader's "between the lock sections" marker. -/
theorem gstep_rheld_cases {s s' : DState} {tid : String} {op : OpClass} {x : String} {effs : List GEff}
    (h : gstep s tid op x = some (s', effs)) :
    RFrame s s' ∨
    (s.rmid = none ∧ ∃ y t s1 e, liftItem s y (.lockMgr t) = some (s1, e) ∧ s'.items = s1.items ∧
      (((getItem s1 y).rheld.isSome = true ∧ s'.rmid = some y) ∨
       ((getItem s1 y).rheld.isSome = false ∧ s'.rmid = none))) ∨
    (∃ y s1 e, s.rmid = some y ∧ liftItem s y .addTask = some (s1, e) ∧ s'.items = s1.items ∧ s'.rmid = none) := by
  have hx := gstep_not_exited h
  unfold gstep at h
  rw [if_neg (by simp [hx])] at h
  repeat' split at h
  all_goals try simp only at h
  all_goals repeat' split at h
  all_goals first
    | contradiction
    | (simp only [Option.some.injEq, Prod.mk.injEq] at h; obtain ⟨rfl, rfl⟩ := h
       exact .inl ⟨rfl, fun _ => rfl⟩)
    | (refine .inl (liftItem_rframe s ?_ rfl h)
       first | exact ⟨rfl, rfl⟩ | exact ⟨(markFal_gframe _ _ _ _).2.2.1, markFal_items _ _ _ _⟩)
    | (refine .inl (map_liftItem_rframe s _ ?_ ?_ rfl h)
       · exact ⟨rfl, rfl⟩
       · intro p; exact ⟨rfl, rfl⟩)
    | (simp only [Option.some.injEq, Prod.mk.injEq] at h; obtain ⟨rfl, rfl⟩ := h
       have hl := (by assumption : liftItem _ _ (.lockMgr _) = some _)
       refine .inr (.inl ⟨by assumption, _, _, _, _, hl, rfl, ?_⟩)
       first
         | exact .inl ⟨by assumption, rfl⟩
         | (have hns := (by assumption : ¬ (getItem _ _).rheld.isSome = true)
            have hm0 := (by assumption : s.rmid = none)
            exact .inr ⟨by simpa using hns, (liftItem_cframe hl).2.2.2.2.2.2.2.2.trans hm0⟩))
    | (simp only [Option.some.injEq, Prod.mk.injEq] at h; obtain ⟨rfl, rfl⟩ := h
       have hl := (by assumption : liftItem _ _ .addTask = some _)
       exact .inr (.inr ⟨_, _, _, by assumption, hl, rfl, rfl⟩))

theorem rheldInv_init (n : Nat) (u p : Option String) (h : Option Bool) :
    RHeldInv { poolN := n, user := u, password := p, ioHandler := h } := by
  intro x
  simp [getItem, IState.init]

theorem rheldInv_step {s s' : DState} {tid : String} {op : OpClass} {x : String} {effs : List GEff}
    (hi : RHeldInv s) (h : gstep s tid op x = some (s', effs)) : RHeldInv s' := by
  rcases gstep_rheld_cases h with ⟨h1, h2⟩ | ⟨hmid, y, t, s1, e, hl, hit, hcase⟩ | ⟨y, s1, e, hmid, hl, hit, hm'⟩
  · intro z; rw [h2 z, h1]; exact hi z
  · obtain ⟨i', e', his, hy, ho, -⟩ := liftItem_pool hl
    intro z
    rw [getItem_congr hit z]
    by_cases hz : z = y
    · subst hz
      rcases hcase with ⟨c1, c2⟩ | ⟨c1, c2⟩
      · rw [c2, c1]; simp
      · rw [c2, c1]; simp
    · rw [ho z hz]
      have hn : (getItem s z).rheld.isSome = false := by
        have := hi z
        rw [hmid] at this
        simpa using this
      rcases hcase with ⟨c1, c2⟩ | ⟨c1, c2⟩ <;> rw [c2, hn] <;> simp [Ne.symm hz]
  · obtain ⟨i', e', his, hy, ho, -⟩ := liftItem_pool hl
    intro z
    rw [getItem_congr hit z, hm']
    by_cases hz : z = y
    · subst hz
      rw [hy, istep_addTask_rheld his]; simp
    · rw [ho z hz]
      have := hi z
      rw [hmid] at this
      have hn : (getItem s z).rheld.isSome = false := by
        cases hh : (getItem s z).rheld.isSome with
        | false => rfl
        | true => exact absurd (Option.some.inj (this.1 hh)) (Ne.symm hz)
      rw [hn]; simp

theorem greach_rheldInv {n : Nat} {u p : Option String} {ioh : Option Bool} {s : DState} {log : List String}
    (h : GReachH n u p ioh s log) : RHeldInv s := by
  induction h with
  | init => exact rheldInv_init n u p ioh
  | step _ hs _ ih => exact rheldInv_step ih hs

/-- **a blocked adapter call does not stop the reader or the writer (Data).** -/
theorem greach_io_threads_live {n : Nat} {u p : Option String} {hd : Option Bool} {s : DState} {log : List String}
    (h : GReachH n u p hd s log) (hx : s.exited = false) (x : String) :
    (s.rst = 2 → (s.rmid.isSome = true ∨ s.rq ≠ [] ∨ s.inbound ≠ []) → s.cpc = 0 → ∃ op y, (gstep s "R" op y).isSome) ∧
    (s.wst = 2 → (s.wpc ≠ .get ∨ s.sendQ ≠ []) → s.wpc ≠ .stopped → s.wpc ≠ .failed → ∃ op, (gstep s "W" op x).isSome) := by
  have rinv := greach_rheldInv h
  have cinv := greach_dcloseInv h
  refine ⟨fun hr hw hc => ?_, fun hwt hw hs hf => ?_⟩
  · cases hmid : s.rmid with
    | some y =>
      refine ⟨.itemLock, "", ?_⟩
      have hl : (liftItem s y .addTask).isSome = true := by
        rw [liftItem_isSome]; exact istep_addTask_isSome _ ((rinv y).2 hmid)
      cases hl' : liftItem s y .addTask with
      | none => rw [hl'] at hl; cases hl
      | some r => simp [gstep, hx, hr, hmid, hl']
    | none =>
      cases hrq : s.rq with
      | nil =>
        have hin : s.inbound ≠ [] := by
          rcases hw with hw | hw | hw
          · rw [hmid] at hw; cases hw
          · exact absurd hrq hw
          · exact hw
        exact ⟨.recv, "", (gstep_reader_writer_enabled s "" hx).1 hr hmid hrq (.inl hin)⟩
      | cons a rest =>
        cases a with
        | reply l => exact ⟨.put, "", (gstep_reader_writer_enabled s "" hx).2.1 hr hmid l rest hrq⟩
        | quit => exact ⟨.put, "", by simp [gstep, hx, hr, hmid, hrq]⟩
        | poolShutdown =>
          have := cinv.rqShape.1 hc
          rw [hrq] at this
          exact this.elim
        | req y t =>
          refine ⟨.mgrLock, "", ?_⟩
          have hn : (getItem s y).rheld = none := by
            cases hh : (getItem s y).rheld with
            | none => rfl
            | some v =>
              have := (rinv y).1 (by rw [hh]; rfl)
              rw [hmid] at this; cases this
          have hl : (liftItem s y (.lockMgr t)).isSome = true := by
            rw [liftItem_isSome]; exact istep_lockMgr_isSome _ t hn
          cases hl' : liftItem s y (.lockMgr t) with
          | none => rw [hl'] at hl; cases hl
          | some r =>
            simp only [gstep, hx, hr, hmid, hrq, hl']
            simp
            split <;> rfl
  · cases hwpc : s.wpc with
    | get =>
      have hq : s.sendQ ≠ [] := hw.resolve_left (fun h' => h' hwpc)
      exact ⟨.get false, (gstep_reader_writer_enabled s x hx).2.2.1 hwt hwpc hq false⟩
    | send m => exact ⟨.send, (gstep_reader_writer_enabled s x hx).2.2.2 hwt m hwpc⟩
    | stopped => exact absurd hwpc hs
    | failed => exact absurd hwpc hf

end Ari.Conc
