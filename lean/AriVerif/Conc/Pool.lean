import AriVerif.Meta
/-
  Conc/Pool.lean — small-step model of the Metadata server's worker pool: the pool tasks
  (`execute_and_reply` closures submitted by `MetadataProviderServer._handle_request`), their adapter calls
  (each a begin / end pair with arbitrary other steps in between) and what each task finally does: one reply,
  or — when a returned value has an unsupported type — one exception-handler notification and no reply.

  The adapter calls of a task are those of `metaExec` (Meta.lean, tied by the pure differential): the task keeps
  the outcomes received so far (`got`) and re-runs `metaExec` on them; if the run wanted more outcomes than
  available, the first call beyond `got` is the call to make next.
-/
namespace Ari.Conc
open Ari

inductive PPc
  | inPool                       -- submitted, waiting for a worker
  | callBegin (c : Call)         -- about to invoke the adapter
  | inCall (c : Call)            -- inside the adapter call
  | put (line : String)          -- about to enqueue the reply
  | done
deriving Repr

structure PTask where
  rid : String
  method : String
  args : Args
  got : List Outcome := []
  pc : PPc := .inPool
  /-- ghost: calls begun so far -/
  calls : List Call := []
  /-- ghost -/
  replied : Nat := 0
  /-- ghost: exception-handler notifications caused by this task -/
  notified : Nat := 0
deriving Repr

/-- run the closure on the outcomes received so far: either the next adapter call to make, or the result. -/
def taskNext (t : PTask) : Sum Call ExecResult :=
  let (res, (_, calls)) := (metaExec t.method t.args).run (t.got, [])
  match calls[t.got.length]? with
  | some c => .inl c
  | none => .inr res

structure PState where
  n : Nat
  tasks : List PTask := []
  /-- FIFO of submitted, not yet started tasks (indices into `tasks`) -/
  workQ : List Nat := []
  running : Nat := 0
  out : List String := []
  /-- ghost: order in which tasks were started -/
  started : List Nat := []

inductive PEff
  | enqueue (line : String)
  | adapterBegin (c : Call)
  | adapterEnd (c : Call)
  | handlerExc
deriving Repr

inductive PAct
  | submit (rid method : String) (args : Args)     -- the reader hands a decoded request to the pool
  | start (k : Nat)
  | callBegin (k : Nat)
  | callEnd (k : Nat) (o : Outcome)
  | put (k : Nat)

def setTask (s : PState) (k : Nat) (t : PTask) : PState := { s with tasks := s.tasks.set k t }

/-- what a task does once the closure's local code has run up to its next yield point. -/
def advance (s : PState) (k : Nat) (t : PTask) : PState × List PEff :=
  match taskNext t with
  | .inl c => (setTask s k { t with pc := .callBegin c }, [])
  | .inr (.reply line) => (setTask s k { t with pc := .put (t.rid ++ "|" ++ line) }, [])
  | .inr _ =>
    -- RemotingException (or, since the repair of F4, any other exception) out of the closure:
    -- exception handler notified, no reply, the task ends
    let s1 := setTask s k { t with pc := .done, notified := t.notified + 1 }
    ({ s1 with running := s1.running - 1 }, [.handlerExc])

def pstep (s : PState) : PAct → Option (PState × List PEff)
  | .submit rid m a =>
    let k := s.tasks.length
    some ({ s with tasks := s.tasks ++ [{ rid := rid, method := m, args := a }], workQ := s.workQ ++ [k] }, [])
  | .start k =>
    match s.tasks[k]? with
    | some t =>
      match t.pc with
      | .inPool =>
        if s.workQ.head? = some k ∧ s.running < s.n then
          let s1 : PState := { s with workQ := s.workQ.tail, running := s.running + 1, started := s.started ++ [k] }
          some (advance s1 k t)
        else none
      | _ => none
    | none => none
  | .callBegin k =>
    match s.tasks[k]? with
    | some t =>
      match t.pc with
      | .callBegin c => some (setTask s k { t with pc := .inCall c, calls := t.calls ++ [c] }, [.adapterBegin c])
      | _ => none
    | none => none
  | .callEnd k o =>
    match s.tasks[k]? with
    | some t =>
      match t.pc with
      | .inCall c =>
        let (s1, effs) := advance s k { t with got := t.got ++ [o] }
        some (s1, .adapterEnd c :: effs)
      | _ => none
    | none => none
  | .put k =>
    match s.tasks[k]? with
    | some t =>
      match t.pc with
      | .put line =>
        let s1 := setTask s k { t with pc := .done, replied := t.replied + 1 }
        some ({ s1 with running := s1.running - 1, out := s1.out ++ [line] }, [.enqueue line])
      | _ => none
    | none => none

def prun (s : PState) : List PAct → Option PState
  | [] => some s
  | a :: rest => match pstep s a with
    | some (s', _) => prun s' rest
    | none => none

end Ari.Conc
