/-
  Conc/AppClose.lean — the application's own `Server.close()`, called from an application thread (any number of
  times), running concurrently with the reader, the writer and the pool threads of one connection.

  `Server.close()` is        `_RequestManager.quit()`  = `_stop_request.set()`; `_Sender.quit()` = put STOP pill; join writer
                             `_executor.shutdown()`    = refuse further tasks; wait for the accepted ones
                             `_server_sock.close()`
  i.e. six atomic steps per call (`appPhase`).  The reader is `_RequestManager._do_run`: test the stop flag, `recv`, dispatch
  the requests of the chunk (the init request is answered on the reader thread, any other request submits one pool task —
  `submit` after `shutdown` raises and the reader reports it through `on_exception` and ends), and on a failing `recv`
  (EOF, error, or the socket closed under it) tests the stop flag again: set = leave silently, clear = `on_ioexception`.
  The writer is `_Sender._do_run` without keepalives (time lives in `Sender.lean`).

  Core-only (the driver links it).  Ghost fields: `enq` (everything ever enqueued), `ioRep` (one record per
  `on_ioexception` call with the flags at that moment), `next` (line numbering).
-/
namespace Ari.AppClose

inductive Msg where
  | line (n : Nat)
  | pill
  deriving DecidableEq, Repr

inductive Req where
  | init    -- answered on the reader thread (enqueues its reply)
  | task    -- submits one pool task
  deriving DecidableEq, Repr

inductive RPc where
  | test                      -- about to evaluate `while not stop`
  | recv                      -- inside / about to call `sock.recv`
  | proc (rs : List Req)      -- dispatching the requests of the chunk read (`rs` non-empty)
  | exc                       -- `submit` raised: inside `on_exception`
  | done
  deriving DecidableEq, Repr

inductive WPc where
  | get
  | send (n : Nat)            -- line `n` in hand
  | done
  deriving DecidableEq, Repr

/-- the application's I/O exception handler: none installed / returns True / returns False or None. -/
inductive Hnd where
  | absent | yes | no
  deriving DecidableEq, Repr

inductive Who where
  | reader | writer
  deriving DecidableEq, Repr

/-- ghost record of one `on_ioexception` call: who reported and what held at that moment. -/
structure Rep where
  who : Who
  stop : Bool
  sockClosed : Bool
  peerFault : Bool
  deriving DecidableEq, Repr

structure St where
  hnd : Hnd
  failAt : Option Nat          -- the k-th write (1-based) fails
  closes : Nat                 -- how many times the application calls `close()`
  inbound : List (List Req)    -- the reads still to be delivered, each a list of complete requests
  peerFault : Bool             -- once `inbound` is consumed `recv` fails (EOF / reset) instead of blocking
  stop : Bool
  q : List Msg
  w : WPc
  nw : Nat
  wrote : List Nat
  r : RPc
  sockClosed : Bool
  poolShut : Bool
  tasks : Nat                  -- accepted, unfinished pool tasks
  fin : Nat                    -- finished pool tasks
  acc : Nat                    -- ghost: pool tasks ever accepted by `submit`
  app : Nat                    -- 6 steps per `close()` call
  next : Nat
  enq : List Msg
  ioRep : List Rep
  excRep : Nat
  exited : Bool
  deriving DecidableEq, Repr

/-- the connection right after `start()` enqueued the credentials line (line 0) and started the reader. -/
def init (hnd : Hnd) (failAt : Option Nat) (closes : Nat) (inbound : List (List Req)) (peerFault : Bool) : St :=
  { hnd, failAt, closes, inbound, peerFault, stop := false, q := [.line 0], w := .get, nw := 0, wrote := [], r := .test,
    sockClosed := false, poolShut := false, tasks := 0, fin := 0, acc := 0, app := 0, next := 1, enq := [.line 0], ioRep := [],
    excRep := 0, exited := false }

inductive Act where
  | app        -- the application thread's next step of `close()`
  | rd         -- the reader thread's next step
  | rfal       -- the reader enqueues the failure notification inside `on_exception` (Data server, default handling)
  | wr         -- the writer thread's next step
  | tenq       -- a running pool task enqueues a line
  | tfin       -- a pool task finishes
  deriving DecidableEq, Repr

def put (s : St) : St :=
  { s with q := s.q ++ [.line s.next], enq := s.enq ++ [.line s.next], next := s.next + 1 }

/-- `Server.on_ioexception`: the handler (if any) is told; the default reaction (process exit) unless it returns False. -/
def report (s : St) (who : Who) : St :=
  let s := { s with ioRep := s.ioRep ++ [Rep.mk who s.stop s.sockClosed s.peerFault] }
  match s.hnd with
  | .no => s
  | _ => { s with exited := true }

def afterReq (s : St) (rs : List Req) : St :=
  match rs with
  | [] => { s with r := .test }
  | _ => { s with r := .proc rs }

/-- a failing `recv`: `if self._stop_request.is_set(): break` else `on_ioexception`. -/
def recvFail (s : St) : St :=
  if s.stop then { s with r := .done } else { report s .reader with r := .done }

def appStep (s : St) : Option St :=
  if s.app < 6 * s.closes then
    match s.app % 6 with
    | 0 => some { s with stop := true, app := s.app + 1 }
    | 1 => some { s with q := s.q ++ [.pill], enq := s.enq ++ [.pill], app := s.app + 1 }
    | 2 => if s.w = .done then some { s with app := s.app + 1 } else none
    | 3 => some { s with poolShut := true, app := s.app + 1 }
    | 4 => if s.tasks = 0 then some { s with app := s.app + 1 } else none
    | _ => some { s with sockClosed := true, app := s.app + 1 }
  else none

def rdStep (s : St) : Option St :=
  match s.r with
  | .test => some (if s.stop then { s with r := .done } else { s with r := .recv })
  | .recv =>
    if s.sockClosed then some (recvFail s)
    else match s.inbound with
      | c :: rest => some (afterReq { s with inbound := rest } c)
      | [] => if s.peerFault then some (recvFail s) else none
  | .proc [] => some { s with r := .test }
  | .proc (.init :: rs) => some (afterReq (put s) rs)
  | .proc (.task :: rs) =>
    if s.poolShut then some { s with excRep := s.excRep + 1, r := .exc }
    else some (afterReq { s with tasks := s.tasks + 1, acc := s.acc + 1 } rs)
  | .exc => some { s with r := .done }
  | .done => none

def wrStep (s : St) : Option St :=
  match s.w with
  | .get =>
    match s.q with
    | [] => none
    | .pill :: rest => some { s with q := rest, w := .done }
    | .line n :: rest => some { s with q := rest, w := .send n }
  | .send n =>
    if s.failAt = some (s.nw + 1) then some { report { s with nw := s.nw + 1 } .writer with w := .done }
    else some { s with nw := s.nw + 1, wrote := s.wrote ++ [n], w := .get }
  | .done => none

def step (s : St) (a : Act) : Option St :=
  if s.exited then none else
  match a with
  | .app => appStep s
  | .rd => rdStep s
  | .rfal => if s.r = .exc then some (put s) else none
  | .wr => wrStep s
  | .tenq => if s.tasks > 0 then some (put s) else none
  | .tfin => if s.tasks > 0 then some { s with tasks := s.tasks - 1, fin := s.fin + 1 } else none

/-- run a trace; `none` if some action was not enabled. -/
def run : St → List Act → Option St
  | s, [] => some s
  | s, a :: as => match step s a with
    | some s' => run s' as
    | none => none

inductive Reach (s0 : St) : St → Prop where
  | refl : Reach s0 s0
  | step {s s' : St} (a : Act) : Reach s0 s → step s a = some s' → Reach s0 s'

end Ari.AppClose
