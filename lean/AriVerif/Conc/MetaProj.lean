import AriVerif.Conc.MetaSrv
import AriVerif.Conc.PoolLemmas
/-
  Conc/MetaProj.lean — the whole-Metadata-server model of the co-simulation (`Conc/MetaSrv.lean`) projects
  onto the worker-pool machine (`Conc/Pool.lean`): every step of `mstep` changes the pool component by a
  (possibly empty) run of `pstep` actions, so the pool of every reachable server state is pool-reachable and
  the C04 / C18 theorems (stated over `prun`) apply to the model the real server is compared with chunk by
  chunk.  On top: the send queue is FIFO without loss or duplication (`pending` grows exactly by the lines
  enqueued) — except that a failing write loses exactly the one message the writer holds (`mstep_fifo_sendFail`,
  `mreach_pending_lost`) —, every reply of the pool is in it, and the reader hands each decodable request to the pool once.
-/
namespace Ari.Conc
open Ari

/-- the state the driver starts a Metadata co-simulation in. -/
def MInit (cfg : SrvCfg) (n : Nat) : MState := { cfg := cfg, pool := { n := n }, rst := { keepAlive := (0, 0) } }

def enqs (effs : List MEff) : List String :=
  effs.filterMap fun e => match e with | .enqueue l => some l | _ => none

/-- reachability, with the ghost log of every line any thread enqueued so far (in enqueue order). -/
inductive MReach (cfg : SrvCfg) (n : Nat) : MState → List String → Prop
  | init : MReach cfg n (MInit cfg n) []
  | step {s s' : MState} {log : List String} {env : InitEnv} {tid : String} {op : MOp} {effs : List MEff} :
      MReach cfg n s log → mstep s env tid op = some (s', effs) → MReach cfg n s' (log ++ enqs effs)

/-- what the writer has written, holds, or will take, in order. -/
def pending (s : MState) : List String := s.written ++ s.wsend.toList ++ s.sendQ.filterMap id

/-- the pool task the reader creates for a `.submit` action (none if the arguments do not decode). -/
def submitTask : RAct → Option PTask
  | .submit m id toks =>
    match decodeRequest m toks with
    | some (.ok a) => some { rid := id, method := m, args := a }
    | _ => none
  | _ => none

/-- tasks the reader still owes the pool (actions parked behind a reply it is about to enqueue). -/
def owed (s : MState) : List PTask := s.rq.filterMap submitTask

theorem prun_append (s : PState) (a b : List PAct) :
    prun s (a ++ b) = (prun s a).bind fun s' => prun s' b := by
  induction a generalizing s with
  | nil => simp [prun]
  | cons x a ih =>
    cases h : pstep s x with
    | none => simp [prun, h]
    | some r => obtain ⟨s', e⟩ := r; simp [prun, h, ih]

theorem pstep_submit (p : PState) (rid m : String) (a : Args) :
    pstep p (.submit rid m a) =
      some ({ p with tasks := p.tasks ++ [{ rid := rid, method := m, args := a }],
                     workQ := p.workQ ++ [p.tasks.length] }, []) := rfl

/-- `runLocal` only submits: its pool is reached by a run of `submit` actions, and the tasks created are
    exactly those of the actions before the next reply; the others stay owed. -/
theorem runLocal_pool (s : MState) (acts : List RAct) :
    (∃ pa, prun s.pool pa = some (runLocal s acts).1.pool) ∧
    (runLocal s acts).1.pool.tasks ++ owed (runLocal s acts).1 = s.pool.tasks ++ acts.filterMap submitTask ∧
    (runLocal s acts).1.pool.out = s.pool.out ∧
    pending (runLocal s acts).1 = pending s ∧
    enqs (runLocal s acts).2 = [] := by
  induction acts generalizing s with
  | nil => exact ⟨⟨[], rfl⟩, by simp [runLocal, owed], rfl, rfl, rfl⟩
  | cons a rest ih =>
    cases a with
    | reply l => exact ⟨⟨[], rfl⟩, by simp [runLocal, owed], rfl, rfl, rfl⟩
    | submit m id toks =>
      simp only [runLocal]
      cases hd : decodeRequest m toks with
      | none =>
        simp only [List.filterMap_cons, submitTask, hd]
        exact ih s
      | some r =>
        cases r with
        | error e =>
          simp only [List.filterMap_cons, submitTask, hd]
          exact ih s
        | ok a =>
          simp only [List.filterMap_cons, submitTask, hd, pstep_submit]
          obtain ⟨⟨pa, h1⟩, h2, h3, h4, h5⟩ := ih { s with pool := { s.pool with tasks := s.pool.tasks ++ [{ rid := id, method := m, args := a }], workQ := s.pool.workQ ++ [s.pool.tasks.length] } }
          refine ⟨⟨.submit id m a :: pa, ?_⟩, ?_, h3, h4, ?_⟩
          · simp only [prun, pstep_submit]; exact h1
          · rw [h2]; simp
          · simpa [enqs] using h5
    | handlerExc =>
      simp only [runLocal, List.filterMap_cons, submitTask]
      obtain ⟨h1, h2, h3, h4, h5⟩ := ih s
      exact ⟨h1, h2, h3, h4, by simpa [enqs] using h5⟩
    | quit => exact ⟨⟨[], rfl⟩, by simp [runLocal, owed], rfl, rfl, rfl⟩
    | poolShutdown => exact ⟨⟨[], rfl⟩, by simp [runLocal, owed], rfl, rfl, rfl⟩
    | _ =>
      simp only [runLocal, List.filterMap_cons, submitTask]
      exact ih s

/-- the lines a list of pool effects enqueues. -/
def peffLines (effs : List PEff) : List String :=
  effs.filterMap fun e => match e with | .enqueue l => some l | _ => none

/-- the fold function of `liftPool`. -/
def liftF (b : Bool) (acc : MState × List MEff) (e : PEff) : MState × List MEff :=
  match e with
  | .enqueue l => ({ acc.1 with sendQ := acc.1.sendQ ++ [some l] }, acc.2 ++ [.enqueue l])
  | .adapterBegin c => (acc.1, acc.2 ++ [.adapterBegin (Proto.showCall c)])
  | .adapterEnd c => (acc.1, acc.2 ++ [.adapterEnd c.name])
  | .handlerExc => (acc.1, if b then acc.2 ++ [.handlerExc] else acc.2)

theorem liftPool_eq (s : MState) (r : Option (PState × List PEff)) :
    liftPool s r = r.map fun x => x.2.foldl (liftF s.cfg.excHandler.isSome) ({ s with pool := x.1 }, []) := rfl

theorem liftF_foldl (b : Bool) (effs : List PEff) (acc : MState × List MEff) :
    (effs.foldl (liftF b) acc).1 = { acc.1 with sendQ := acc.1.sendQ ++ (peffLines effs).map some } ∧
    enqs (effs.foldl (liftF b) acc).2 = enqs acc.2 ++ peffLines effs := by
  induction effs generalizing acc with
  | nil => simp [peffLines]
  | cons e effs ih =>
    rw [List.foldl_cons]
    obtain ⟨h1, h2⟩ := ih (liftF b acc e)
    rw [h1, h2]
    cases e with
    | enqueue l => simp [peffLines, enqs, liftF]
    | adapterBegin c => simp [peffLines, enqs, liftF]
    | adapterEnd c => simp [peffLines, enqs, liftF]
    | handlerExc => cases b <;> simp [peffLines, enqs, liftF]

theorem liftPool_spec {s s' : MState} {r : Option (PState × List PEff)} {effs : List MEff}
    (h : liftPool s r = some (s', effs)) :
    ∃ p pe, r = some (p, pe) ∧ s' = { s with pool := p, sendQ := s.sendQ ++ (peffLines pe).map some } ∧
      enqs effs = peffLines pe := by
  rw [liftPool_eq] at h
  cases r with
  | none => simp at h
  | some x =>
    obtain ⟨p, pe⟩ := x
    refine ⟨p, pe, rfl, ?_⟩
    simp only [Option.map_some, Option.some.injEq] at h
    obtain ⟨h1, h2⟩ := liftF_foldl s.cfg.excHandler.isSome pe ({ s with pool := p }, [])
    rw [h] at h1 h2
    exact ⟨h1, by simpa [enqs] using h2⟩


theorem map_set_same {α β : Type} (f : α → β) : ∀ (l : List α) (k : Nat) (a b : α), l[k]? = some a → f b = f a →
    (l.set k b).map f = l.map f
  | [], k, a, b, h, _ => by simp at h
  | x :: l, 0, a, b, h, hf => by simp at h; subst h; simp [hf]
  | x :: l, k+1, a, b, h, hf => by
    simp only [List.set_cons_succ, List.map_cons]
    rw [map_set_same f l k a b (by simpa using h) hf]

theorem advance_proj (s : PState) (k : Nat) (t : PTask) :
    ∃ t1, (advance s k t).1.tasks = s.tasks.set k t1 ∧
      (t1.rid, t1.method, t1.args) = (t.rid, t.method, t.args) ∧
      (advance s k t).1.out = s.out ∧ peffLines (advance s k t).2 = [] := by
  rcases advance_cases s k t with ⟨c, -, he⟩ | ⟨line, -, he⟩ | ⟨-, -, he⟩ <;> rw [he]
  · exact ⟨_, rfl, rfl, rfl, rfl⟩
  · exact ⟨_, rfl, rfl, rfl, rfl⟩
  · exact ⟨_, rfl, rfl, rfl, rfl⟩

theorem pstep_proj {p p' : PState} {a : PAct} {pe : List PEff} (h : pstep p a = some (p', pe))
    (hns : ∀ r m ar, a ≠ .submit r m ar) :
    p'.tasks.map (fun t => (t.rid, t.method, t.args)) = p.tasks.map (fun t => (t.rid, t.method, t.args)) ∧
    ((p'.out = p.out ∧ peffLines pe = []) ∨ ∃ l, p'.out = p.out ++ [l] ∧ peffLines pe = [l]) := by
  cases a with
  | submit rid m args => exact absurd rfl (hns rid m args)
  | start k =>
    simp only [pstep] at h
    split at h
    · next t ht =>
      split at h
      · split at h
        · simp only [Option.some.injEq] at h
          obtain ⟨t1, h1, h2, h3, h4⟩ := advance_proj
            { p with workQ := p.workQ.tail, running := p.running + 1, started := p.started ++ [k] } k t
          rw [h] at h1 h3 h4
          simp only at h1 h3 h4
          exact ⟨by rw [h1]; exact map_set_same _ _ _ _ _ ht h2, .inl ⟨h3, h4⟩⟩
        · cases h
      · cases h
    · cases h
  | callBegin k =>
    simp only [pstep] at h
    split at h
    · next t ht =>
      split at h
      · next c hp =>
        simp only [Option.some.injEq, Prod.mk.injEq] at h
        obtain ⟨h, h'⟩ := h
        subst h h'
        exact ⟨map_set_same _ _ _ _ _ ht rfl, .inl ⟨rfl, rfl⟩⟩
      · cases h
    · cases h
  | callEnd k o =>
    simp only [pstep] at h
    split at h
    · next t ht =>
      split at h
      · next c hp =>
        simp only [Option.some.injEq, Prod.mk.injEq] at h
        obtain ⟨h, h'⟩ := h
        obtain ⟨t1, h1, h2, h3, h4⟩ := advance_proj p k { t with got := t.got ++ [o] }
        rw [h] at h1 h3
        subst h'
        exact ⟨by rw [h1]; exact map_set_same _ _ _ _ _ ht h2, .inl ⟨h3, by simpa [peffLines] using h4⟩⟩
      · cases h
    · cases h
  | put k =>
    simp only [pstep] at h
    split at h
    · next t ht =>
      split at h
      · next line hp =>
        simp only [Option.some.injEq, Prod.mk.injEq] at h
        obtain ⟨h, h'⟩ := h
        subst h h'
        exact ⟨map_set_same _ _ _ _ _ ht rfl, .inr ⟨line, rfl, rfl⟩⟩
      · cases h
    · cases h

/-- a reported I/O failure enqueues nothing. -/
theorem enqs_ioEffects (cfg : SrvCfg) : enqs (ioEffects cfg) = [] := by
  simp only [ioEffects, onIoException]
  cases cfg.ioHandler with
  | none => rfl
  | some r => cases r <;> rfl

/-- a reported I/O failure carries the handler notification and the exit, nothing else. -/
theorem mem_ioEffects {cfg : SrvCfg} {e : MEff} (h : e ∈ ioEffects cfg) : e = .ioHandler ∨ e = .exit := by
  simp only [ioEffects, onIoException] at h
  cases hh : cfg.ioHandler with
  | none => rw [hh] at h; simp at h; exact .inr h
  | some r => rw [hh] at h; cases r <;> simp at h <;> grind

/-- `runLocal` changes the pool and the reader's list, nothing else. -/
theorem runLocal_eq (s : MState) (acts : List RAct) :
    (runLocal s acts).1 = { s with pool := (runLocal s acts).1.pool, rq := (runLocal s acts).1.rq } := by
  induction acts generalizing s with
  | nil => rfl
  | cons a rest ih =>
    cases a with
    | reply l => rfl
    | quit => rfl
    | poolShutdown => rfl
    | submit m id toks =>
      simp only [runLocal]
      cases hd : decodeRequest m toks with
      | none => exact ih s
      | some r =>
        cases r with
        | error e => exact ih s
        | ok a =>
          simp only [pstep_submit]
          exact ih _
    | handlerExc => simp only [runLocal]; exact ih s
    | _ => simp only [runLocal]; exact ih s

/-- the state the reader runs its local actions from after receiving chunk `c`. -/
def recvState (s : MState) (env : InitEnv) (c : String) (rest : List String) : MState :=
  { s with inbound := rest, rbuf := (feed s.rbuf c).2, rst := (dispatchAll s.cfg env s.rst (feed s.rbuf c).1).1 }

/-- the reader actions of the lines completed by chunk `c`. -/
def recvActs (s : MState) (env : InitEnv) (c : String) : List RAct :=
  (dispatchAll s.cfg env s.rst (feed s.rbuf c).1).2.flatten

theorem mstep_cases {s s' : MState} {env : InitEnv} {tid : String} {op : MOp} {effs : List MEff}
    (h : mstep s env tid op = some (s', effs)) :
    (s'.pool = s.pool ∧ s'.rq = s.rq ∧ pending s' = pending s ++ enqs effs ∧ (tid ≠ "R" ∨ s.rthr = 1)) ∨
    (tid = "R" ∧ 2 ≤ s.rthr ∧ op = .recv ∧ s.rq = [] ∧ ∃ c rest, s.inbound = c :: rest ∧
      (s', effs) = runLocal (recvState s env c rest) (recvActs s env c)) ∨
    (tid = "R" ∧ ∃ l rest, s.rq = .reply l :: rest ∧
      s' = (runLocal { s with sendQ := s.sendQ ++ [some l] } rest).1 ∧
      effs = .enqueue l :: (runLocal { s with sendQ := s.sendQ ++ [some l] } rest).2) ∨
    (tid ≠ "R" ∧ ∃ a p pe, (∀ r m ar, a ≠ .submit r m ar) ∧ pstep s.pool a = some (p, pe) ∧
      s' = { s with pool := p, sendQ := s.sendQ ++ (peffLines pe).map some } ∧ enqs effs = peffLines pe) ∨
    (tid = "R" ∧ 2 ≤ s.rthr ∧ s.rthr ≠ 3 ∧ op = .put ∧ ∃ rest, s.rq = .quit :: rest ∧
      s' = { s with sendQ := s.sendQ ++ [none], rq := rest, cpc := 1 } ∧ effs = [.enqueuePill]) ∨
    (tid = "R" ∧ 2 ≤ s.rthr ∧ s.rthr ≠ 3 ∧ op = .join ∧ (∃ rest, s.rq = .poolShutdown :: rest) ∧ s.cpc = 1 ∧
      (s.wthr = 3 ∨ s.wthr = 4) ∧ s' = { s with cpc := 2 } ∧ effs = []) ∨
    (tid = "R" ∧ 2 ≤ s.rthr ∧ s.rthr ≠ 3 ∧ op = .poolWait ∧ (∃ rest, s.rq = .poolShutdown :: .sockClose :: rest) ∧
      s.cpc = 2 ∧ s.pool.running = 0 ∧ s.pool.workQ = [] ∧
      s' = { s with cpc := 3, sockClosed := true, rq := [], rthr := 3 } ∧ effs = [.sockClose]) ∨
    -- the failing read (EOF / reset once the delivered bytes are consumed)
    (tid = "R" ∧ 2 ≤ s.rthr ∧ s.rthr ≠ 3 ∧ s.rthr ≠ 4 ∧ op = .recv ∧ s.rq = [] ∧ s.inbound = [] ∧ s.inEnd = true ∧
      s' = ioReport { s with rthr := 4 } ∧ effs = ioEffects s.cfg) ∨
    -- the failing write: the message in hand is lost
    (tid = "W" ∧ 2 ≤ s.wthr ∧ s.wthr ≠ 3 ∧ s.wthr ≠ 4 ∧ op = .sendFail ∧ ∃ m, s.wsend = some m ∧
      s' = ioReport { s with wsend := none, wthr := 4 } ∧ effs = ioEffects s.cfg) := by
  unfold mstep at h
  split at h
  · cases h
  split at h
  · next hP =>
    have hne : tid ≠ "R" := by rw [hP]; simp
    split at h
    · split at h
      · cases h
      · simp only [Option.some.injEq, Prod.mk.injEq] at h
        obtain ⟨rfl, rfl⟩ := h
        exact .inl ⟨rfl, rfl, by simp [pending, enqs], .inl hne⟩
    · simp only [Option.some.injEq, Prod.mk.injEq] at h
      obtain ⟨rfl, rfl⟩ := h
      exact .inl ⟨rfl, rfl, by simp [pending, enqs], .inl hne⟩
    · cases h
  · split at h
    · next hM =>
      have hne : tid ≠ "R" := by rw [hM]; simp
      split at h
      · simp only [Option.some.injEq, Prod.mk.injEq] at h
        obtain ⟨rfl, rfl⟩ := h
        exact .inl ⟨rfl, rfl, by simp [pending, enqs], .inl hne⟩
      · simp only [Option.some.injEq, Prod.mk.injEq] at h
        obtain ⟨rfl, rfl⟩ := h
        exact .inl ⟨rfl, rfl, by simp [pending, enqs], .inl hne⟩
      · cases h
    · split at h
      · next hR =>
        split at h
        · next h1 =>
          split at h
          · simp only [Option.some.injEq, Prod.mk.injEq] at h
            obtain ⟨rfl, rfl⟩ := h
            exact .inl ⟨rfl, rfl, by simp [pending, enqs], .inr h1⟩
          · cases h
        · next h1 =>
          split at h
          · cases h
          · next h0 =>
            have h2 : 2 ≤ s.rthr := by omega
            have h3 : s.rthr ≠ 3 := by omega
            have h4 : s.rthr ≠ 4 := by omega
            split at h
            · next hrq =>
              split at h
              · next hin =>
                split at h
                · next hend =>
                  simp only [Option.some.injEq, Prod.mk.injEq] at h
                  obtain ⟨rfl, rfl⟩ := h
                  exact .inr (.inr (.inr (.inr (.inr (.inr (.inr (.inl ⟨hR, h2, h3, h4, rfl, hrq, hin, hend, rfl, rfl⟩)))))))
                · cases h
              · next c rest hin =>
                simp only [Option.some.injEq] at h
                exact .inr (.inl ⟨hR, h2, rfl, hrq, c, rest, hin, h.symm⟩)
            · next l rest hrq =>
              simp only [Option.some.injEq, Prod.mk.injEq] at h
              obtain ⟨rfl, rfl⟩ := h
              exact .inr (.inr (.inl ⟨hR, l, rest, hrq, rfl, rfl⟩))
            · next rest hrq =>
              simp only [Option.some.injEq, Prod.mk.injEq] at h
              obtain ⟨rfl, rfl⟩ := h
              exact .inr (.inr (.inr (.inr (.inl ⟨hR, h2, h3, rfl, rest, hrq, rfl, rfl⟩))))
            · next rest hrq =>
              split at h
              · next hc =>
                simp only [Option.some.injEq, Prod.mk.injEq] at h
                obtain ⟨rfl, rfl⟩ := h
                exact .inr (.inr (.inr (.inr (.inr (.inl ⟨hR, h2, h3, rfl, ⟨rest, hrq⟩, hc.1, hc.2, rfl, rfl⟩)))))
              · cases h
            · next rest hrq =>
              split at h
              · next hc =>
                simp only [Option.some.injEq, Prod.mk.injEq] at h
                obtain ⟨rfl, rfl⟩ := h
                exact .inr (.inr (.inr (.inr (.inr (.inr (.inl ⟨hR, h2, h3, rfl, ⟨rest, hrq⟩, hc.1, hc.2.1, hc.2.2, rfl, rfl⟩))))))
              · cases h
            · cases h
      · next hR =>
        split at h
        · next hW =>
          split at h
          · split at h
            · simp only [Option.some.injEq, Prod.mk.injEq] at h
              obtain ⟨rfl, rfl⟩ := h
              exact .inl ⟨rfl, rfl, by simp [pending, enqs], .inl hR⟩
            · cases h
          · next h1 =>
            split at h
            · cases h
            · next h0 =>
              have h2 : 2 ≤ s.wthr := by omega
              have h3 : s.wthr ≠ 3 := by omega
              have h4 : s.wthr ≠ 4 := by omega
              split at h
              · next m hws =>
                simp only [Option.some.injEq, Prod.mk.injEq] at h
                obtain ⟨rfl, rfl⟩ := h
                exact .inr (.inr (.inr (.inr (.inr (.inr (.inr (.inr ⟨hW, h2, h3, h4, rfl, m, hws, rfl, rfl⟩)))))))
              · next hws =>
                split at h
                · next m rest hq =>
                  simp only [Option.some.injEq, Prod.mk.injEq] at h
                  obtain ⟨rfl, rfl⟩ := h
                  exact .inl ⟨rfl, rfl, by simp [pending, enqs, hws, hq], .inl hR⟩
                · next rest hq =>
                  simp only [Option.some.injEq, Prod.mk.injEq] at h
                  obtain ⟨rfl, rfl⟩ := h
                  exact .inl ⟨rfl, rfl, by simp [pending, enqs, hws, hq], .inl hR⟩
                · cases h
              · next m hws =>
                simp only [Option.some.injEq, Prod.mk.injEq] at h
                obtain ⟨rfl, rfl⟩ := h
                exact .inl ⟨rfl, rfl, by simp [pending, enqs, hws], .inl hR⟩
              · cases h
        · split at h
          · split at h
            · cases h
            · split at h
              all_goals first
                | cases h
                | (obtain ⟨p, pe, hp, rfl, he⟩ := liftPool_spec h
                   refine .inr (.inr (.inr (.inl ⟨hR, _, p, pe, ?_, hp, rfl, he⟩)))
                   intro r m ar hh; cases hh)
          · cases h

/-- **projection.** One step of the server model moves the pool by a run of pool actions. -/
theorem mstep_pool {s s' : MState} {env : InitEnv} {tid : String} {op : MOp} {effs : List MEff}
    (h : mstep s env tid op = some (s', effs)) : ∃ pa, prun s.pool pa = some s'.pool := by
  rcases mstep_cases h with ⟨hp, -⟩ | ⟨-, -, -, -, c, rest, -, he⟩ | ⟨-, l, rest, -, rfl, -⟩ | ⟨-, a, p, pe, -, hp, rfl, -⟩ |
    ⟨-, -, -, -, rest, -, rfl, -⟩ | ⟨-, -, -, -, -, -, -, rfl, -⟩ | ⟨-, -, -, -, -, -, -, -, rfl, -⟩ |
    ⟨-, -, -, -, -, -, -, -, rfl, -⟩ | ⟨-, -, -, -, -, m, -, rfl, -⟩
  · exact ⟨[], by rw [hp]; rfl⟩
  · have h1 := (runLocal_pool (recvState s env c rest) (recvActs s env c)).1
    rw [← he] at h1
    exact h1
  · exact (runLocal_pool { s with sendQ := s.sendQ ++ [some l] } rest).1
  · exact ⟨[a], by simp [prun, hp]⟩
  · exact ⟨[], rfl⟩
  · exact ⟨[], rfl⟩
  · exact ⟨[], rfl⟩
  · exact ⟨[], rfl⟩
  · exact ⟨[], rfl⟩

/-- the pool of every reachable server state is reachable in the pool machine (same pool size). -/
theorem mreach_pool {cfg : SrvCfg} {n : Nat} {s : MState} {log : List String} (h : MReach cfg n s log) :
    ∃ acts, prun { n := n } acts = some s.pool := by
  induction h with
  | init => exact ⟨[], rfl⟩
  | step _ hs ih =>
    obtain ⟨acts, ha⟩ := ih
    obtain ⟨pa, hpa⟩ := mstep_pool hs
    exact ⟨acts ++ pa, by rw [prun_append, ha]; exact hpa⟩

/-- hence the pool invariant (and with it every Props/C04 statement) holds of it. -/
theorem mreach_pinv {cfg : SrvCfg} {n : Nat} {s : MState} {log : List String} (h : MReach cfg n s log) : PInv s.pool :=
  PInv.reach (mreach_pool h)

/-- a step appends exactly the lines it enqueues, in order, to written ++ held ++ queued — unless it is the failing write,
    which loses exactly the message the writer holds (and enqueues nothing). -/
theorem mstep_fifo_cases {s s' : MState} {env : InitEnv} {tid : String} {op : MOp} {effs : List MEff}
    (h : mstep s env tid op = some (s', effs)) :
    pending s' = pending s ++ enqs effs ∨
    (tid = "W" ∧ op = .sendFail ∧ s.wthr ≠ 4 ∧ s'.wthr = 4 ∧ enqs effs = [] ∧ ∃ m, s.wsend = some m ∧ s'.wsend = none ∧
      s'.written = s.written ∧ s'.sendQ = s.sendQ) := by
  rcases mstep_cases h with ⟨-, -, hp, -⟩ | ⟨-, -, -, -, c, rest, -, he⟩ | ⟨-, l, rest, -, rfl, rfl⟩ |
    ⟨-, a, p, pe, -, -, rfl, he⟩ |
    ⟨-, -, -, -, rest, -, rfl, rfl⟩ | ⟨-, -, -, -, -, -, -, rfl, rfl⟩ | ⟨-, -, -, -, -, -, -, -, rfl, rfl⟩ |
    ⟨-, -, -, -, -, -, -, -, rfl, rfl⟩ | ⟨hW, -, -, h4, hop, m, hm, rfl, rfl⟩
  · exact .inl hp
  · left
    obtain ⟨-, -, -, h4, h5⟩ := runLocal_pool (recvState s env c rest) (recvActs s env c)
    rw [← he] at h4 h5
    rw [h4, h5, List.append_nil]
    rfl
  · left
    obtain ⟨-, -, -, h4, h5⟩ := runLocal_pool { s with sendQ := s.sendQ ++ [some l] } rest
    rw [h4]
    simp [pending, enqs] at h5 ⊢
    exact h5
  · left
    rw [he]
    simp [pending]
  · left; simp [pending, enqs]
  · left; simp [pending, enqs]
  · left; simp [pending, enqs]
  · left; rw [enqs_ioEffects]; simp [pending, ioReport]
  · exact .inr ⟨hW, hop, h4, rfl, enqs_ioEffects _, m, hm, rfl, rfl, rfl⟩

/-- **send queue is FIFO, lossless, duplicate-free.** A step — other than a failing write, see `mstep_fifo_sendFail` —
    appends exactly the lines it enqueues, in order, to written ++ held ++ queued; the writer moves lines along without
    reordering. -/
theorem mstep_fifo {s s' : MState} {env : InitEnv} {tid : String} {op : MOp} {effs : List MEff}
    (h : mstep s env tid op = some (s', effs)) (hop : op ≠ .sendFail) : pending s' = pending s ++ enqs effs := by
  rcases mstep_fifo_cases h with h | ⟨-, h, -⟩
  · exact h
  · exact absurd h hop

/-- **a failing write loses exactly the message in the writer's hand**, nothing else: what was written and what is queued
    stay as they are (and nothing is enqueued). -/
theorem mstep_fifo_sendFail {s s' : MState} {env : InitEnv} {effs : List MEff}
    (h : mstep s env "W" .sendFail = some (s', effs)) :
    ∃ m, s.wsend = some m ∧ pending s = s.written ++ m :: s.sendQ.filterMap id ∧
      pending s' = s.written ++ s.sendQ.filterMap id ∧ enqs effs = [] := by
  unfold mstep at h
  split at h
  · cases h
  simp only [String.reduceEq, ↓reduceIte] at h
  repeat' split at h
  all_goals first
    | contradiction
    | (simp only [Option.some.injEq, Prod.mk.injEq] at h
       obtain ⟨rfl, rfl⟩ := h
       exact ⟨_, by assumption, by simp [pending, *], by simp [pending, ioReport], enqs_ioEffects _⟩)

/-- every line the pool put out was enqueued by that very step (and only pool-thread steps extend
    `pool.out`). -/
theorem mstep_pool_out {s s' : MState} {env : InitEnv} {tid : String} {op : MOp} {effs : List MEff}
    (h : mstep s env tid op = some (s', effs)) :
    s'.pool.out = s.pool.out ∨ ∃ l, s'.pool.out = s.pool.out ++ [l] ∧ enqs effs = [l] := by
  rcases mstep_cases h with ⟨hp, -⟩ | ⟨-, -, -, -, c, rest, -, he⟩ | ⟨-, l, rest, -, rfl, -⟩ | ⟨-, a, p, pe, hns, hp, rfl, he⟩ |
    ⟨-, -, -, -, rest, -, rfl, -⟩ | ⟨-, -, -, -, -, -, -, rfl, -⟩ | ⟨-, -, -, -, -, -, -, -, rfl, -⟩ |
    ⟨-, -, -, -, -, -, -, -, rfl, -⟩ | ⟨-, -, -, -, -, m, -, rfl, -⟩
  · exact .inl (by rw [hp])
  · have h3 := (runLocal_pool (recvState s env c rest) (recvActs s env c)).2.2.1
    rw [← he] at h3
    exact .inl h3
  · exact .inl (runLocal_pool { s with sendQ := s.sendQ ++ [some l] } rest).2.2.1
  · rw [he]
    rcases (pstep_proj hp hns).2 with ⟨h1, h2⟩ | ⟨l, h1, h2⟩
    · exact .inl h1
    · exact .inr ⟨l, h1, h2⟩
  · exact .inl rfl
  · exact .inl rfl
  · exact .inl rfl
  · exact .inl rfl
  · exact .inl rfl

theorem runLocal_wframe {s s' : MState} {acts : List RAct} {e : List MEff} (h : runLocal s acts = (s', e)) :
    s'.written = s.written ∧ s'.wsend = s.wsend ∧ s'.wthr = s.wthr ∧ s'.mpc = s.mpc ∧ s'.sendQ = s.sendQ := by
  have := runLocal_eq s acts
  rw [h] at this
  have this : s' = { s with pool := s'.pool, rq := s'.rq } := this
  rw [this]
  exact ⟨rfl, rfl, rfl, rfl, rfl⟩

/-- the writer's variables are the writer's: a step of another thread leaves `written`, `wsend` and `wthr` alone — except the
    starting thread's first step, which creates the writer thread; and a writer that steps exists and has not died. -/
theorem mstep_wframe {s s' : MState} {env : InitEnv} {tid : String} {op : MOp} {effs : List MEff}
    (h : mstep s env tid op = some (s', effs)) :
    (tid = "W" ∧ s.wthr ≠ 0 ∧ s.wthr ≠ 4 ∧ s'.mpc = s.mpc) ∨
    (s'.written = s.written ∧ s'.wsend = s.wsend ∧
      ((s'.wthr = s.wthr ∧ (s'.mpc = s.mpc ∨ s'.mpc = 2)) ∨ (s.mpc = 0 ∧ s'.mpc = 1))) := by
  unfold mstep at h
  repeat' split at h
  all_goals first
    | contradiction
    | (simp only [Option.some.injEq, Prod.mk.injEq] at h; obtain ⟨rfl, rfl⟩ := h
       first
         | exact .inr ⟨rfl, rfl, .inl ⟨rfl, .inl rfl⟩⟩
         | exact .inr ⟨rfl, rfl, .inl ⟨rfl, .inr rfl⟩⟩
         | exact .inr ⟨rfl, rfl, .inr ⟨by assumption, rfl⟩⟩
         | exact .inl ⟨by assumption, by omega, by omega, rfl⟩)
    | (obtain ⟨p, pe, hp, rfl, he⟩ := liftPool_spec h; exact .inr ⟨rfl, rfl, .inl ⟨rfl, .inl rfl⟩⟩)
    | (simp only [Option.some.injEq, Prod.mk.injEq] at h; obtain ⟨rfl, rfl⟩ := h
       obtain ⟨g1, g2, g3, g4, -⟩ := runLocal_wframe (by assumption)
       exact .inr ⟨g1, g2, .inl ⟨g3, .inl g4⟩⟩)
    | (simp only [Option.some.injEq] at h
       obtain ⟨g1, g2, g3, g4, -⟩ := runLocal_wframe h
       exact .inr ⟨g1, g2, .inl ⟨g3, .inl g4⟩⟩)

/-- **the send queue neither duplicates nor reorders, and loses at most the one message a failed write had in hand**: the
    log of everything enqueued so far is written ++ lost ++ held ++ queued, where `lost` is empty unless a write has failed
    (`wthr = 4`), and then has at most one element.  (Also: the writer thread does not exist before the starting thread
    created it.) -/
theorem mreach_pending_lost {cfg : SrvCfg} {n : Nat} {s : MState} {log : List String} (h : MReach cfg n s log) :
    (s.mpc = 0 → s.wthr = 0) ∧
    ∃ lost : List String, lost.length ≤ 1 ∧ (s.wthr ≠ 4 → lost = []) ∧
      log = s.written ++ lost ++ s.wsend.toList ++ s.sendQ.filterMap id := by
  induction h with
  | init => exact ⟨fun _ => rfl, [], by simp, fun _ => rfl, rfl⟩
  | @step s s' log env tid op effs _ hs ih =>
    obtain ⟨hm, lost, hl, hne, hlog⟩ := ih
    have hf := mstep_wframe hs
    refine ⟨?_, ?_⟩
    · rcases hf with ⟨-, h0, -, hmp⟩ | ⟨-, -, ⟨hw, hmp⟩ | ⟨-, hmp⟩⟩
      · intro h; rw [hmp] at h; exact absurd (hm h) h0
      · intro h; rw [hw]; apply hm; omega
      · intro h; omega
    · rcases mstep_fifo_cases hs with hp | ⟨hW, hop, h4, h4', he, m, hm1, hm2, hwr, hq⟩
      · by_cases hw4 : s.wthr = 4
        · -- the writer is dead: the other threads only append to the queue
          rcases hf with ⟨-, -, h, -⟩ | ⟨hwr, hws, hw⟩
          · exact absurd hw4 h
          · have hw' : s'.wthr = 4 := by
              rcases hw with ⟨h, -⟩ | ⟨h, -⟩
              · rw [h]; exact hw4
              · have := hm h; omega
            refine ⟨lost, hl, fun h => absurd hw' h, ?_⟩
            have hq : s'.sendQ.filterMap id = s.sendQ.filterMap id ++ enqs effs := by
              simp only [pending, hwr, hws, List.append_assoc] at hp
              exact List.append_cancel_left (List.append_cancel_left hp)
            rw [hlog, hwr, hws, hq]
            simp
        · have := hne hw4
          subst this
          refine ⟨[], by simp, fun _ => rfl, ?_⟩
          have : pending s = log := by rw [hlog]; simp [pending]
          rw [← this, ← hp]
          simp [pending]
      · -- the failing write
        have := hne h4
        subst this
        refine ⟨[m], by simp, fun h => absurd h4' h, ?_⟩
        rw [hlog, he, hm1, hm2, hwr, hq]
        simp

/-- **the send queue neither loses, duplicates nor reorders** as long as no write has failed: written ++ held ++ queued is
    exactly the log of everything enqueued so far.  (After a failed write exactly the message the writer held is missing:
    `mstep_fifo_sendFail`, `mreach_pending_lost`.) -/
theorem mreach_pending {cfg : SrvCfg} {n : Nat} {s : MState} {log : List String} (h : MReach cfg n s log)
    (hw : s.wthr ≠ 4) : pending s = log := by
  obtain ⟨-, lost, -, hne, hlog⟩ := mreach_pending_lost h
  rw [hlog, hne hw]
  simp [pending]

/-- **what is written is a prefix of what was enqueued, in enqueue order** (failed write or not). -/
theorem mreach_written_prefix {cfg : SrvCfg} {n : Nat} {s : MState} {log : List String} (h : MReach cfg n s log) :
    s.written <+: log := by
  obtain ⟨-, lost, -, -, hlog⟩ := mreach_pending_lost h
  exact ⟨lost ++ s.wsend.toList ++ s.sendQ.filterMap id, by rw [hlog]; simp⟩

/-- **every reply the pool produced was enqueued, in the pool's order.** -/
theorem mreach_out_sublist {cfg : SrvCfg} {n : Nat} {s : MState} {log : List String} (h : MReach cfg n s log) :
    s.pool.out.Sublist log := by
  induction h with
  | init => exact List.nil_sublist _
  | step _ hs ih =>
    rcases mstep_pool_out hs with h1 | ⟨l, h1, h2⟩
    · rw [h1]; exact ih.trans (List.sublist_append_left _ _)
    · rw [h1, h2]; exact List.Sublist.append ih (List.Sublist.refl _)

/-- once the writer has drained the queue — no write having failed — every pool reply is on the wire. -/
theorem mreach_drained {cfg : SrvCfg} {n : Nat} {s : MState} {log : List String} (h : MReach cfg n s log)
    (hw4 : s.wthr ≠ 4) (hq : s.sendQ = []) (hw : s.wsend = none) : s.pool.out.Sublist s.written := by
  have h1 := mreach_out_sublist h
  rw [← mreach_pending h hw4] at h1
  simpa [pending, hq, hw] using h1

/-- **the reader hands every decodable request to the pool exactly once, in line order**: after a step the
    tasks created plus those still owed are the previous ones plus the step's newly dispatched requests.
    (The one exception is the last step of `close()`, `.poolWait`, after which the reader has left its loop: whatever
    followed the honoured close request in the same read is dropped — see `mstep_tasks_closed`.) -/
theorem mstep_tasks {s s' : MState} {env : InitEnv} {tid : String} {op : MOp} {effs : List MEff}
    (h : mstep s env tid op = some (s', effs)) (hop : op ≠ .poolWait) :
    (s'.pool.tasks.map (fun t => (t.rid, t.method, t.args)) ++ (owed s').map (fun t => (t.rid, t.method, t.args)) =
      s.pool.tasks.map (fun t => (t.rid, t.method, t.args)) ++ (owed s).map (fun t => (t.rid, t.method, t.args)) ++
        (if tid = "R" ∧ 2 ≤ s.rthr ∧ s.rq = [] then
          match op, s.inbound with
          | .recv, c :: _ =>
            ((dispatchAll s.cfg env s.rst (feed s.rbuf c).1).2.flatten.filterMap submitTask).map
              (fun t => (t.rid, t.method, t.args))
          | _, _ => []
         else [])) := by
  rcases mstep_cases h with ⟨hp, hq, -, hne⟩ | ⟨hR, h2, rfl, hrq, c, rest, hin, he⟩ | ⟨-, l, rest, hrq, rfl, -⟩ |
    ⟨hR, a, p, pe, hns, hp, rfl, -⟩ |
    ⟨-, -, -, -, rest, hrq, rfl, -⟩ | ⟨-, -, -, -, ⟨rest, hrq⟩, -, -, rfl, -⟩ | ⟨-, -, -, rfl, -⟩ |
    ⟨hR, h2, -, -, rfl, hrq, hin, -, rfl, -⟩ | ⟨hW, -, -, -, -, m, -, rfl, -⟩
  · have hg : ¬ (tid = "R" ∧ 2 ≤ s.rthr ∧ s.rq = []) := by
      rintro ⟨h1, h2, -⟩
      rcases hne with h | h
      · exact h h1
      · omega
    rw [if_neg hg]
    simp only [owed, hp, hq, List.append_nil]
  · rw [if_pos ⟨hR, h2, hrq⟩, hin]
    have h2 := (runLocal_pool (recvState s env c rest) (recvActs s env c)).2.1
    rw [← he] at h2
    have h3 := congrArg (List.map fun t : PTask => (t.rid, t.method, t.args)) h2
    simp only [List.map_append] at h3
    rw [h3]
    simp only [owed, hrq, List.filterMap_nil, List.map_nil, List.append_nil]
    rfl
  · rw [if_neg (by rintro ⟨-, -, h3⟩; rw [hrq] at h3; cases h3), List.append_nil]
    have h2 := (runLocal_pool { s with sendQ := s.sendQ ++ [some l] } rest).2.1
    have h3 := congrArg (List.map fun t : PTask => (t.rid, t.method, t.args)) h2
    simp only [List.map_append] at h3
    rw [h3]
    simp only [owed, hrq]
    rfl
  · rw [if_neg (fun h => hR h.1), List.append_nil]
    simp only [owed]
    rw [(pstep_proj hp hns).1]
  · rw [if_neg (by rintro ⟨-, -, h3⟩; rw [hrq] at h3; cases h3), List.append_nil]
    simp only [owed, hrq]
    rfl
  · rw [if_neg (by rintro ⟨-, -, h3⟩; rw [hrq] at h3; cases h3), List.append_nil]
    simp [owed]
  · exact absurd rfl hop
  · rw [if_pos ⟨hR, h2, hrq⟩, hin]
    simp only [List.append_nil]
    rfl
  · rw [if_neg (fun h => by rw [hW] at h; simp at h), List.append_nil]
    rfl

/-- the last step of `close()`: the pool keeps its tasks; whatever the reader still owed is dropped (it has left its
    loop). -/
theorem mstep_tasks_closed {s s' : MState} {env : InitEnv} {tid : String} {effs : List MEff}
    (h : mstep s env tid .poolWait = some (s', effs)) : s'.pool = s.pool ∧ owed s' = [] := by
  unfold mstep at h
  repeat' split at h
  all_goals first
    | contradiction
    | (simp only [Option.some.injEq, Prod.mk.injEq] at h; obtain ⟨rfl, rfl⟩ := h; exact ⟨rfl, rfl⟩)

end Ari.Conc
