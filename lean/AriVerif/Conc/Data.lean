import AriVerif.Conc.Item
import AriVerif.Conc.InvCheck
import AriVerif.Framing
import AriVerif.Requests
import AriVerif.Init
/-
  Conc/Data.lean — the whole Data server as the co-simulation sees it: the item-indexed product of
  `Conc.Item` machines + the reader's framing and dispatch + the pool's FIFO + the send queue and the
  writer.  Executable only (used by the driver to follow the real server chunk by chunk); the theorems
  are about the components (`Conc.Item`, `Framing`, `Sender`).
-/
namespace Ari.Conc
open Ari

/-- what the reader still has to do with the lines of the last `recv`. -/
inductive ROp
  | req (item : String) (t : Task)        -- SUB / USB: lock section, then add section
  | reply (line : String)                 -- init reply to enqueue
  | quit                                  -- honoured close request: `_RequestManager.quit()` (stop flag, stop pill, join the writer)
  | poolShutdown                          -- then `executor.shutdown()` and the socket is closed
deriving Repr

inductive WPc
  | get
  | send (msg : String)
  | stopped                               -- took the stop pill
  | failed                                -- a write raised: reported, the writer left its loop
deriving Repr, DecidableEq

structure DState where
  poolN : Nat
  user : Option String := none
  password : Option String := none
  items : List (String × IState) := []
  /-- pool task number (1-based, submission order) -> (item, instance index within the item) -/
  tasks : List (String × Nat) := []
  workQ : List Nat := []
  running : Nat := 0
  inbound : List String := []
  rbuf : String := ""
  rq : List ROp := []
  /-- reader is between the two lock sections for this item -/
  rmid : Option String := none
  initExpected : Bool := true
  /-- the send queue; `none` is the stop pill of `_Sender.quit()` -/
  sendQ : List (Option String) := []
  /-- threads whose listener call read a live id but whose payload cannot be encoded: `on_exception` runs, and with
      the default handling a failure notification is about to be enqueued by that thread -/
  pendFal : List String := []
  /-- 0 = thread does not exist, 1 = created (Thread.start called), 2 = running -/
  rst : Nat := 0
  wst : Nat := 0
  /-- Server.start() on the application's thread: 0 = not begun, 1 = writer created, about to enqueue RAC, 2 = done -/
  mpc : Nat := 0
  wpc : WPc := .get
  written : List String := []
  /-- `ExceptionHandler.handle_ioexception`: `none` = no handler installed, `some r` = installed and returns truthiness `r` -/
  ioHandler : Option Bool := none
  /-- progress of `Server.close()` on the reader thread (0 = not called, 1 = stop pill enqueued / joining the writer,
      2 = writer joined / waiting for the pool, 3 = pool shut down, socket closed, reader gone) -/
  cpc : Nat := 0
  sockClosed : Bool := false
  /-- the peer has closed / reset the connection: `recv` fails once the delivered bytes are consumed -/
  inEnd : Bool := false
  /-- `os._exit` ran -/
  exited : Bool := false
  /-- ghost: I/O-handler notifications -/
  nio : Nat := 0

def getItem (s : DState) (x : String) : IState :=
  match s.items.find? (·.1 = x) with
  | some (_, i) => i
  | none => IState.init x

def putItem (s : DState) (x : String) (i : IState) : DState :=
  if s.items.any (·.1 = x) then { s with items := s.items.map fun (y, j) => if y = x then (y, i) else (y, j) }
  else { s with items := s.items ++ [(x, i)] }

/-- effects in the global vocabulary. -/
inductive GEff
  | enqueue (line : String)
  | submit (task : Nat)
  | adapterBegin (m : AMethod) (item : String)
  | adapterEnd (m : AMethod) (item : String)
  | sent (bytes : String)
  | enqueuePill
  | sockClose
  | ioHandler
  | exit
deriving Repr

/-- apply an item step and lift its effects. -/
def liftItem (s : DState) (x : String) (a : IAct) : Option (DState × List GEff) :=
  match istep (getItem s x) a with
  | none => none
  | some (i', effs) =>
    let s1 := putItem s x i'
    let (s2, geffs) := effs.foldl (fun (acc : DState × List GEff) e =>
      match e with
      | .enqueue l => ({ acc.1 with sendQ := acc.1.sendQ ++ [some l] }, acc.2 ++ [.enqueue l])
      | .submit k =>
        let n := acc.1.tasks.length + 1
        ({ acc.1 with tasks := acc.1.tasks ++ [(x, k)], workQ := acc.1.workQ ++ [n] }, acc.2 ++ [.submit n])
      | .adapterBegin m => (acc.1, acc.2 ++ [.adapterBegin m x])
      | .adapterEnd m => (acc.1, acc.2 ++ [.adapterEnd m x])) (s1, [])
    some (s2, geffs)

/-- reader ops for one dispatched line (valid DPI / SUB / USB lines; anything else: nothing in this layer). -/
def lineOps (s : DState) (line : String) : List ROp × Bool :=
  match parseRequest line with
  | none => ([], s.initExpected)
  | some (id, m, toks) =>
    if m = "DPI" ∧ s.initExpected then
      match decodeRequest "DPI" toks with
      | some (.ok ⟨_, .map prs⟩) =>
        let o := onInit ⟨.dataK, prs, none, none, true, none, none, .ret .none, .ret .none⟩
        ([.reply (id ++ "|" ++ o.reply)], false)
      | _ => ([], false)
    else if m = "CLOSE" ∧ id = "0" then
      -- an honoured close request (close packets are expected until a version without them has been agreed, hence also
      -- BEFORE the init request; the Data scenarios agree 1.8.3; the request is the last line sent, with a well-formed map)
      ([.quit, .poolShutdown], s.initExpected)
    else if (m = "SUB" ∨ m = "USB") ∧ !s.initExpected then
      match decodeRequest m toks with
      | some (.ok ⟨[.str (some item)], _⟩) => ([.req item ⟨id, m = "SUB"⟩], false)
      | _ => ([], false)
    else ([], s.initExpected)

/-- operation classes the shim reports for a chunk. -/
inductive OpClass
  | taskStart | itemLock | mgrLock | put | adapterBegin | adapterEnd (o : CallOut)
  | recv | get (timeout : Bool) | send | deliver (chunk : String) | threadStart
  | lsnLock (kind : LKind)         -- manager lock taken by a listener method
  | lsnPutOp                       -- enqueue made by a listener method
  | failurePut (msg : String)      -- `listener.failure(exc)`: the FAL notification is enqueued (no lock, no item)
  | excFailurePut (msg : String)   -- default exception handling after an ill-typed listener payload: FAL enqueued
  | join                           -- the reader's `join()` of the writer thread returns
  | poolWait                       -- the reader's `executor.shutdown()` returns
  | endOfInput                     -- the peer closes / resets the connection (environment)
  | sendFail                       -- the writer's `sendall` raises (environment decides which write)
deriving Inhabited

/-- a listener call that reads a live id but whose payload has a value of an unsupported type: no event line;
    `on_exception` → default handling → a failure notification will be enqueued by the same thread. -/
def markFal (s : DState) (tid item : String) (kind : LKind) : DState :=
  match readCode (getItem s item) with
  | some id => if (eventLine item id kind).isNone then { s with pendFal := s.pendFal ++ [tid] } else s
  | none => s

/-- `on_ioexception` on the failing thread. -/
def gioEffects (s : DState) : List GEff :=
  match s.ioHandler with
  | none => [.exit]
  | some r => .ioHandler :: (if r then [.exit] else [])

def gioReport (s : DState) : DState :=
  { s with nio := s.nio + (if s.ioHandler.isSome then 1 else 0),
           exited := (match s.ioHandler with | none => true | some r => r) }

/-- one chunk of thread `tid` (`R`, `W`, `P`, `T<n>`, `E<n>`), `item` given for listener calls of E threads. -/
def gstep (s : DState) (tid : String) (op : OpClass) (lsnItem : String) : Option (DState × List GEff) :=
  if s.exited then none else
  if tid = "P" then
    match op with
    | .deliver c => if s.inEnd then none else some ({ s with inbound := s.inbound ++ [c] }, [])
    | .endOfInput => some ({ s with inEnd := true }, [])
    | _ => none
  else if tid = "M" then
    -- Server.start(): the credentials message is enqueued before the reader thread exists
    match op, s.mpc with
    | .threadStart, 0 => some ({ s with mpc := 1, wst := 1 }, [])
    | .put, 1 =>
      let l := "1|" ++ writeCredentials s.user s.password
      some ({ s with sendQ := s.sendQ ++ [some l], mpc := 2, rst := 1 }, [.enqueue l])
    | _, _ => none
  else if tid = "R" then
    if s.rst = 1 then (match op with | .threadStart => some ({ s with rst := 2 }, []) | _ => none) else
    if s.rst = 0 ∨ s.rst = 3 ∨ s.rst = 4 then none else
    match op, s.rmid, s.rq with
    | .recv, none, [] =>
      match s.inbound with
      | [] =>
        -- EOF / reset: reported through `on_ioexception`; the reader leaves its loop (`rst = 4`)
        if s.inEnd then some (gioReport { s with rst := 4 }, gioEffects s) else none
      | c :: rest =>
        let (lines, b) := feed s.rbuf c
        let (ops, ie) := lines.foldl (fun (acc : List ROp × Bool) l =>
          let (o, ie) := lineOps { s with initExpected := acc.2 } l
          (acc.1 ++ o, ie)) ([], s.initExpected)
        some ({ s with inbound := rest, rbuf := b, rq := ops, initExpected := ie }, [])
    | .put, none, .reply l :: rest => some ({ s with rq := rest, sendQ := s.sendQ ++ [some l] }, [.enqueue l])
    | .put, none, .quit :: rest =>
      some ({ s with rq := rest, sendQ := s.sendQ ++ [none], cpc := 1 }, [.enqueuePill])
    | .join, none, .poolShutdown :: _ =>
      if s.cpc = 1 ∧ (s.wpc = .stopped ∨ s.wpc = .failed) then some ({ s with cpc := 2 }, []) else none
    | .poolWait, none, .poolShutdown :: _ =>
      -- `executor.shutdown()` returns when nothing is queued or running; the socket is closed; the reader, its stop flag
      -- set, leaves its loop (the close request is the last line the Proxy Adapter sends)
      if s.cpc = 2 ∧ s.running = 0 ∧ s.workQ = [] then
        some ({ s with cpc := 3, sockClosed := true, rq := [], rst := 3 }, [.sockClose])
      else none
    | .mgrLock, none, .req x t :: rest =>
      match liftItem s x (.lockMgr t) with
      | some (s1, e) =>
        -- a USB without manager ends here; otherwise the add section follows
        if (getItem s1 x).rheld.isSome then some ({ s1 with rq := rest, rmid := some x }, e)
        else some ({ s1 with rq := rest }, e)
      | none => none
    | .itemLock, some x, _ =>
      match liftItem s x .addTask with
      | some (s1, e) => some ({ s1 with rmid := none }, e)
      | none => none
    | _, _, _ => none
  else if tid = "W" then
    if s.wst = 1 then (match op with | .threadStart => some ({ s with wst := 2 }, []) | _ => none) else
    if s.wst = 0 then none else
    match op, s.wpc with
    | .get _, .get =>
      match s.sendQ with
      | some m :: rest => some ({ s with sendQ := rest, wpc := .send m }, [])
      | none :: rest => some ({ s with sendQ := rest, wpc := .stopped }, [])      -- the stop pill
      | [] => none
    | .send, .send m => some ({ s with wpc := .get, written := s.written ++ [m] }, [.sent (m ++ "\r\n")])
    | .sendFail, .send _ => some (gioReport { s with wpc := .failed }, gioEffects s)   -- the message in hand is lost
    | _, _ => none
  else if (match op with | .failurePut _ => true | .excFailurePut _ => true | _ => false) then
    match op with
    | .failurePut msg => let l := writeFailure msg; some ({ s with sendQ := s.sendQ ++ [some l] }, [.enqueue l])
    | .excFailurePut msg =>
      if s.pendFal.contains tid then
        let l := writeFailure msg
        some ({ s with sendQ := s.sendQ ++ [some l], pendFal := s.pendFal.erase tid }, [.enqueue l])
      else none
    | _ => none
  else if tid.startsWith "T" then
    match (tid.drop 1).toString.toNat? with
    | none => none
    | some n =>
      match s.tasks[n - 1]? with
      | none => none
      | some (x, k) =>
        let i := (getItem s x).insts k
        match op, i.pc with
        | .taskStart, .inPool =>
          if s.workQ.head? = some n ∧ s.running < s.poolN then
            (liftItem { s with workQ := s.workQ.tail, running := s.running + 1 } x (.start k))
          else none
        | .itemLock, .atLoop => liftItem s x (.pop k)
        | .put, .put _ _ _ => liftItem s x (.put k)
        | .lsnPutOp, .inCall _ _ =>
          if lsnItem = x then liftItem s x (.lsnPut (.inst k)) else liftItem s lsnItem (.lsnPut (.ext (1000 + n)))
        | .mgrLock, .setCode _ => liftItem s x (.setCode k)
        | .mgrLock, .eosRead _ => liftItem s x (.eosRead k)
        | .mgrLock, .clearCode _ => liftItem s x (.clearCode k)
        | .mgrLock, .dec =>
          (liftItem s x (.dec k)).map fun (s1, e) => ({ s1 with running := s1.running - 1 }, e)
        | .lsnLock kind, .inCall _ _ =>
          let s0 := markFal s tid lsnItem kind
          if lsnItem = x then liftItem s0 x (.lsnRead (.inst k) kind)
          else liftItem s0 lsnItem (.lsnRead (.ext (1000 + n)) kind)
        | .adapterBegin, .callBegin _ _ => liftItem s x (.callBegin k)
        | .adapterEnd o, .inCall _ _ => liftItem s x (.callEnd k o)
        | _, _ => none
  else if tid.startsWith "E" then
    match (tid.drop 1).toString.toNat? with
    | none => none
    | some e =>
      match op with
      | .lsnLock kind => liftItem (markFal s tid lsnItem kind) lsnItem (.lsnRead (.ext e) kind)
      | .lsnPutOp => liftItem s lsnItem (.lsnPut (.ext e))
      | _ => none
  else none

/-- library threads that have an enabled step (R, W, T*), sorted as the harness sorts them. -/
def genabled (s : DState) : List String :=
  if s.exited then [] else
  let rgo : Bool := s.rmid.isSome || (match s.rq with
    | [] => !s.inbound.isEmpty || s.inEnd
    | .poolShutdown :: _ => (s.cpc = 1 ∧ (s.wpc = .stopped ∨ s.wpc = .failed)) ∨ (s.cpc = 2 ∧ s.running = 0 ∧ s.workQ = [])
    | _ => true)
  let r := if s.rst = 1 ∨ (s.rst = 2 ∧ rgo) then ["R"] else []
  let w := if s.wst = 0 then [] else if s.wst = 1 then ["W"] else match s.wpc with
    | .get => if s.sendQ.isEmpty then [] else ["W"]
    | .send _ => ["W"]
    | .stopped => []
    | .failed => []
  let ts := (List.range s.tasks.length).filterMap fun idx =>
    match s.tasks[idx]? with
    | none => none
    | some (x, k) =>
      let n := idx + 1
      match ((getItem s x).insts k).pc with
      | .done => none
      | .inPool => if s.workQ.head? = some n ∧ s.running < s.poolN then some ("T" ++ toString n) else none
      | _ => some ("T" ++ toString n)
  r ++ ts ++ w

def showOpt (o : Option String) : String := match o with | some x => x | none => "-"
def showB (b : Bool) : String := if b then "t" else "f"

/-- first (item, clause) on which the candidate invariant fails among items whose history is well-formed. -/
def ginvFail (s : DState) : Option String :=
  s.items.findSome? fun (x, i) =>
    if wfB i.arr then (invFail i).map fun c => x ++ ":" ++ c else none

/-- canonical snapshot (the harness prints the real objects in exactly this form). -/
def gsnap (s : DState) : String :=
  let its := (s.items.filter fun (_, i) => i.nmgr > 0).map fun (x, i) =>
    let gens := (List.range i.nmgr).map fun g =>
      let m := i.mgrs g
      "(q=" ++ ",".intercalate (m.q.map (·.id)) ++ ";code=" ++ showOpt m.code ++ ";run=" ++ showB m.running ++
        ";queued=" ++ toString m.queued ++ ";last=" ++ showB m.lastOk ++ ")"
    x ++ "[act=" ++ (match i.active with | some g => toString g | none => "-") ++
      ",held=" ++ (match i.rheld with | some (t, g) => t.id ++ ":" ++ toString g | none => "-") ++
      ",gens=" ++ "".intercalate gens ++ "]"
  let sorted := its.toArray.qsort (· < ·) |>.toList
  "items:" ++ " ".intercalate sorted ++ "|pool:q=" ++ ",".intercalate (s.workQ.map fun n => "T" ++ toString n) ++
    ";run=" ++ toString s.running ++ "|sendq=" ++ toString s.sendQ.length ++ "|init=" ++ showB s.initExpected ++
    "|sock=" ++ (if s.sockClosed then "closed" else "open")

end Ari.Conc
