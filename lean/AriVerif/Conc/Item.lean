import AriVerif.Replies
/-
  Conc/Item.lean — small-step model of everything the Data server does for ONE item:
  SubscriptionManager.do_subscription / do_unsubscription (reader thread), _ItemTaskManager.add_task /
  _deque / _dec_queued (pool tasks), DataProviderServer._on_sub / _on_usb closures, and the listener
  methods update / end_of_snapshot / clear_snapshot (any thread).

  One step = one atomic chunk of one thread: a lock-protected section, one enqueue, or the begin / end
  of an adapter call (DESIGN §2.5, §3).  Items interact only through the manager lock (atomicity), the
  pool and the send queue, so the server is the item-indexed product of these machines (Conc/Data.lean);
  that the real code's per-item projection follows this machine is what the co-simulation checks after
  every chunk.
-/
namespace Ari.Conc
open Ari

structure Task where
  id : String
  isSub : Bool
deriving DecidableEq, Repr

/-- `_ItemTaskManager` object (one *generation* of an item's bookkeeping). -/
structure Mgr where
  q : List Task := []
  code : Option String := none
  running : Bool := false
  queued : Int := 0
  lastOk : Bool := false
  /-- ghost: index of the dequeuer instance currently looping for this generation -/
  loop : Option Nat := none
deriving Repr

inductive AMethod | snap | sub | usb
deriving DecidableEq, Repr

/-- outcome of an adapter call, chosen by the environment. -/
inductive CallOut
  | ret (isFalse : Bool)        -- returned normally; `isFalse`: the value `is False`
  | raise (e : Exc)
deriving Repr

/-- program counter of a dequeuer instance (`_ItemTaskManager._deque` submitted to the pool). -/
inductive Pc
  | inPool                                  -- submitted, not yet taken by a worker
  | atLoop                                  -- about to take the item lock at the loop head
  | put (t : Task) (line : String) (next : Pc)   -- about to enqueue `line` while processing `t`
  | setCode (t : Task)                      -- about to publish the id under the manager lock
  | callBegin (m : AMethod) (t : Task)      -- about to invoke the adapter
  | inCall (m : AMethod) (t : Task)         -- inside the adapter call
  | eosRead (t : Task)                      -- library EOS: about to read the id under the manager lock
  | clearCode (t : Task)                    -- about to clear the id under the manager lock (after USB `t`)
  | dec                                     -- about to run _dec_queued under the manager lock
  | done
deriving Repr

structure Inst where
  gen : Nat
  deq : Nat := 0
  ok : Bool := true
  pc : Pc := .inPool
  /-- listener call made from inside the adapter call: line read and not yet enqueued -/
  lsn : Option String := none
deriving Repr

/-- who performs a listener call -/
inductive Who
  | inst (k : Nat)      -- a pool task, from inside an adapter call
  | ext (e : Nat)       -- an adapter-owned thread
deriving DecidableEq, Repr

inductive LKind
  | update (snap : PyVal) (ev : EvMap)
  | eos
  | cls

/-- ghost history (no step reads it). -/
inductive Ev
  | arrive (t : Task)                         -- reader entered do_(un)subscription for t
  | noMgr (t : Task)                          -- USB found no manager: error logged, nothing else
  | submit (k : Nat) (g : Nat)
  | pop (k : Nat) (t : Task) (islast : Bool)
  | skip (k : Nat) (t : Task)                 -- late branch taken for t
  | setCode (k : Nat) (r : String)
  | clearCode (k : Nat)
  | begin_ (k : Nat) (m : AMethod) (t : Task)
  | end_ (k : Nat) (m : AMethod) (t : Task) (ok : Bool)
  | reply (k : Nat) (t : Task) (line : String)
  | libEos (k : Nat) (t : Task) (id : String)
  | lsnRead (w : Who) (id : Option String)
  | lsnEnq (w : Who) (line : String)
  | remove (g : Nat)
  | exit_ (k : Nat)
deriving Repr

structure IState where
  item : String
  mgrs : Nat → Mgr := fun _ => {}
  nmgr : Nat := 0
  /-- generation registered in `_active_items` -/
  active : Option Nat := none
  /-- reader between the two lock sections of do_(un)subscription -/
  rheld : Option (Task × Nat) := none
  insts : Nat → Inst := fun _ => { gen := 0 }
  ninst : Nat := 0
  ext : Nat → Option String := fun _ => none
  out : List String := []
  log : List Ev := []
  /-- ghost: requests in the order the reader dispatched them -/
  arr : List Task := []
  /-- ghost: requests whose processing is complete, in completion order -/
  fin : List Task := []
  /-- ghost: ids for which a reply has been enqueued, in order -/
  repl : List String := []
  /-- ghost: ids published with `setCode`, in order -/
  execd : List String := []
  /-- ghost: last subscribe/unsubscribe invocation that ended: (method, request id, returned normally) -/
  lastInv : Option (AMethod × String × Bool) := none
  /-- ghost: id of the subscription whose forwarding window is open (subscribe() begun, and either still
      running or returned normally with the matching unsubscribe() not yet begun) -/
  fwd : Option String := none
  /-- ghost: an unsubscription has been fully processed (id cleared) and no later subscription published -/
  cleared : Bool := false
  /-- ghost: an unsubscription found no manager (the request is dropped unanswered) -/
  lost : List Task := []
  /-- ghost: subscription requests that were skipped (late branch) -/
  late : List Task := []

/-- observable effects of a step (compared with what the shim saw in the real chunk). -/
inductive Eff
  | enqueue (line : String)
  | submit (k : Nat)
  | adapterBegin (m : AMethod)
  | adapterEnd (m : AMethod)
deriving Repr

inductive IAct
  | lockMgr (t : Task)            -- reader: lookup-or-create + inc_queued
  | addTask                       -- reader: append, maybe submit a dequeuer
  | start (k : Nat)               -- a worker takes instance k
  | pop (k : Nat)                 -- item lock at the loop head
  | put (k : Nat)
  | setCode (k : Nat)
  | callBegin (k : Nat)
  | callEnd (k : Nat) (o : CallOut)
  | eosRead (k : Nat)
  | clearCode (k : Nat)
  | dec (k : Nat)
  | lsnRead (w : Who) (kind : LKind)
  | lsnPut (w : Who)

def upd {α} (f : Nat → α) (i : Nat) (v : α) : Nat → α := fun j => if j = i then v else f j

def subscribeLate : Exc :=
  { mro := ["SubscribeError", "DataError", "Exception"], msg := "Subscribe request come too late" }

def replyLine (t : Task) (body : String) : String := t.id ++ "|" ++ body

def methodOf (t : Task) : String := if t.isSub then "SUB" else "USB"

/-- the line of a listener call for the id that was read. -/
def eventLine (item : String) (id : String) : LKind → Option String
  | .update snap ev => (writeUpdateMap (.str item) (.str id) snap ev).toOption
  | .eos => (writeEos (.str item) (.str id)).toOption
  | .cls => (writeCls (.str item) (.str id)).toOption

/-- `get_active_item(item)` -/
def readCode (s : IState) : Option String :=
  match s.active with
  | some g => (s.mgrs g).code
  | none => none

def setInst (s : IState) (k : Nat) (i : Inst) : IState := { s with insts := upd s.insts k i }
def setMgr (s : IState) (g : Nat) (m : Mgr) : IState := { s with mgrs := upd s.mgrs g m }

def addLog (s : IState) (evs : List Ev) : IState := { s with log := s.log ++ evs }
def addOut (s : IState) (line : String) : IState := { s with out := s.out ++ [line] }

/-- the task finished: ghost `fin`. -/
def finish (s : IState) (t : Task) : IState := { s with fin := s.fin ++ [t] }

/-- a reply for `t` is enqueued: ghost `repl`. -/
def replied (s : IState) (t : Task) : IState := { s with repl := s.repl ++ [t.id] }

def istep (s : IState) : IAct → Option (IState × List Eff)
  | .lockMgr t =>
    if s.rheld.isSome then none else
    match s.active with
    | some g =>
      let m := s.mgrs g
      let s1 := setMgr s g { m with queued := m.queued + 1 }
      let s2 : IState := { s1 with rheld := some (t, g), arr := s.arr ++ [t] }
      some (addLog s2 [.arrive t], [])
    | none =>
      if t.isSub then
        let g := s.nmgr
        let fresh : Mgr := { queued := 1 }
        let s1 : IState := { s with mgrs := upd s.mgrs g fresh, nmgr := g + 1, active := some g, rheld := some (t, g), arr := s.arr ++ [t] }
        some (addLog s1 [.arrive t], [])
      else
        -- do_unsubscription: "Task list expected for item": error logged, request dropped unanswered
        let s1 : IState := { s with arr := s.arr ++ [t], fin := s.fin ++ [t], lost := s.lost ++ [t] }
        some (addLog s1 [.arrive t, .noMgr t], [])
  | .addTask =>
    match s.rheld with
    | none => none
    | some (t, g) =>
      let m := s.mgrs g
      if m.running then
        let s1 := setMgr s g { m with q := m.q ++ [t] }
        some ({ s1 with rheld := none }, [])
      else
        let k := s.ninst
        let s1 := setMgr s g { m with q := m.q ++ [t], running := true, loop := some k }
        let fresh : Inst := { gen := g }
        let s2 : IState := { s1 with rheld := none, insts := upd s.insts k fresh, ninst := k + 1 }
        some (addLog s2 [.submit k g], [.submit k])
  | .start k =>
    if k < s.ninst then
      match (s.insts k).pc with
      | .inPool => some (setInst s k { s.insts k with pc := .atLoop }, [])
      | _ => none
    else none
  | .pop k =>
    if k < s.ninst then
      let i := s.insts k
      match i.pc with
      | .atLoop =>
        let m := s.mgrs i.gen
        let ok := if i.deq = 0 then m.lastOk else i.ok
        match m.q with
        | [] =>
          let s1 := setMgr s i.gen { m with running := false, lastOk := ok, loop := none }
          some (addLog (setInst s1 k { i with ok := ok, pc := .dec }) [.exit_ k], [])
        | t :: rest =>
          let islast := rest.isEmpty
          let s1 := setMgr s i.gen { m with q := rest }
          let i1 : Inst := { i with ok := ok, deq := i.deq + 1 }
          let ev := Ev.pop k t islast
          if t.isSub then
            if !islast then
              -- do_late_task: "too late" reply, outcome := False
              let s2 := setInst s1 k { i1 with ok := false, pc := .put t (replyLine t (writeError "SUB" subscribeLate)) .atLoop }
              let s3 : IState := { s2 with late := s.late ++ [t] }
              some (addLog s3 [ev, .skip k t], [])
            else
              some (addLog (setInst s1 k { i1 with pc := .setCode t }) [ev], [])
          else
            if ok then
              some (addLog (setInst s1 k { i1 with pc := .callBegin .usb t }) [ev], [])
            else
              some (addLog (setInst s1 k { i1 with pc := .put t (replyLine t (writeVoid "USB")) (.clearCode t) }) [ev, .skip k t], [])
      | _ => none
    else none
  | .put k =>
    if k < s.ninst then
      let i := s.insts k
      match i.pc with
      | .put t line next =>
        let s1 := addLog (addOut (setInst s k { i with pc := next }) line) [.lsnEnq (.inst k) line]
        -- ghost: a put that leads back to the loop head or to clearCode is the reply of `t`
        match next with
        | .atLoop => some (finish (replied s1 t) t, [.enqueue line])
        | .clearCode _ => some (replied s1 t, [.enqueue line])
        | _ => some (s1, [.enqueue line])
      | _ => none
    else none
  | .setCode k =>
    if k < s.ninst then
      let i := s.insts k
      match i.pc with
      | .setCode t =>
        let m := s.mgrs i.gen
        let s1 := setInst (setMgr s i.gen { m with code := some t.id }) k { i with pc := .callBegin .snap t }
        let s2 : IState := { s1 with execd := s.execd ++ [t.id], cleared := false }
        some (addLog s2 [.setCode k t.id], [])
      | _ => none
    else none
  | .callBegin k =>
    if k < s.ninst then
      let i := s.insts k
      match i.pc with
      | .callBegin m t =>
        let s1 := setInst s k { i with pc := .inCall m t }
        let s2 : IState := { s1 with fwd := match m with | .sub => some t.id | .usb => none | .snap => s.fwd }
        some (addLog s2 [.begin_ k m t], [.adapterBegin m])
      | _ => none
    else none
  | .callEnd k o =>
    if k < s.ninst then
      let i := s.insts k
      match i.pc, i.lsn with
      | .inCall m t, none =>
        let okc := match o with | .ret _ => true | .raise _ => false
        let s0 := addLog s [.end_ k m t okc]
        let s1 : IState := { s0 with lastInv := match m with | .snap => s.lastInv | _ => some (m, t.id, okc), fwd := match m, o with | .sub, .raise _ => none | _, _ => s.fwd }
        match m, o with
        | .snap, .ret isF =>
          some (setInst s1 k { i with pc := if isF then .eosRead t else .callBegin .sub t }, [.adapterEnd m])
        | .snap, .raise e =>
          some (setInst s1 k { i with ok := false, pc := .put t (replyLine t (writeError "SUB" e)) .atLoop }, [.adapterEnd m])
        | .sub, .ret _ =>
          some (setInst s1 k { i with ok := true, pc := .put t (replyLine t (writeVoid "SUB")) .atLoop }, [.adapterEnd m])
        | .sub, .raise e =>
          some (setInst s1 k { i with ok := false, pc := .put t (replyLine t (writeError "SUB" e)) .atLoop }, [.adapterEnd m])
        | .usb, .ret _ =>
          some (setInst s1 k { i with pc := .put t (replyLine t (writeVoid "USB")) (.clearCode t) }, [.adapterEnd m])
        | .usb, .raise e =>
          some (setInst s1 k { i with pc := .put t (replyLine t (writeError "USB" e)) (.clearCode t) }, [.adapterEnd m])
      | _, _ => none
    else none
  | .eosRead k =>
    if k < s.ninst then
      let i := s.insts k
      match i.pc with
      | .eosRead t =>
        match readCode s, (readCode s).bind (fun id => eventLine s.item id .eos) with
        | some id, some line =>
          some (addLog (setInst s k { i with pc := .put t line (.callBegin .sub t) }) [.libEos k t id], [])
        | _, _ => some (setInst s k { i with pc := .callBegin .sub t }, [])
      | _ => none
    else none
  | .clearCode k =>
    if k < s.ninst then
      let i := s.insts k
      match i.pc with
      | .clearCode t =>
        let m := s.mgrs i.gen
        let s1 := setInst (setMgr s i.gen { m with code := none }) k { i with pc := .atLoop }
        let s2 : IState := { s1 with cleared := true }
        some (addLog (finish s2 t) [.clearCode k], [])
      | _ => none
    else none
  | .dec k =>
    if k < s.ninst then
      let i := s.insts k
      match i.pc with
      | .dec =>
        let m := s.mgrs i.gen
        let q' := m.queued - i.deq
        let s1 := setInst (setMgr s i.gen { m with queued := q' }) k { i with pc := .done }
        if m.code.isNone ∧ q' = 0 ∧ s.active = some i.gen then
          let s2 : IState := { s1 with active := none }
          some (addLog s2 [.remove i.gen], [])
        else some (s1, [])
      | _ => none
    else none
  | .lsnRead w kind =>
    let id := readCode s
    let line := id.bind (fun r => eventLine s.item r kind)
    let s1 := addLog s [.lsnRead w id]
    match w with
    | .inst k =>
      if k < s.ninst then
        let i := s.insts k
        match i.pc, i.lsn with
        | .inCall _ _, none => some (setInst s1 k { i with lsn := line }, [])
        | _, _ => none
      else none
    | .ext e =>
      match s.ext e with
      | none => some ({ s1 with ext := upd s1.ext e line }, [])
      | some _ => none
  | .lsnPut w =>
    match w with
    | .inst k =>
      if k < s.ninst then
        let i := s.insts k
        match i.lsn with
        | some line => some (addLog (addOut (setInst s k { i with lsn := none }) line) [.lsnEnq w line], [.enqueue line])
        | none => none
      else none
    | .ext e =>
      match s.ext e with
      | some line =>
        let s1 : IState := { s with ext := upd s.ext e none }
        some (addLog (addOut s1 line) [.lsnEnq w line], [.enqueue line])
      | none => none

/-- run a list of actions from a state (`none` = some action was not enabled). -/
def irun (s : IState) : List IAct → Option IState
  | [] => some s
  | a :: rest => match istep s a with
    | some (s', _) => irun s' rest
    | none => none

def IState.init (item : String) : IState := { item := item }

end Ari.Conc
