import AriVerif.Conc.DataClose
/-
  Conc/DataFault.lean — I/O failures on the whole-Data-server model: the peer closes or resets the connection at any point of
  the inbound stream (`recv` fails once the delivered bytes are consumed), or any write of the writer thread fails.  C20's
  failure clauses at thread level for the Data server, for every schedule, pool size, adapter outcome and I/O-handler
  configuration (`GReachH`, Conc/DataClose.lean).
-/
namespace Ari.Conc
open Ari


/-- the report is exactly `on_ioexception`'s: the handler, if installed, is told once; the process exits iff no handler is
    installed or it returns a true value. -/
theorem gioEffects_spec (s : DState) :
    gioEffects s = (match s.ioHandler with
      | none => [GEff.exit]
      | some r => GEff.ioHandler :: (if r then [GEff.exit] else [])) := rfl

/-! ### which steps report -/

/-- a lifted item step reports nothing. -/
theorem liftItem_no_io {s0 s' : DState} {y : String} {a : IAct} {ge : List GEff}
    (hl : liftItem s0 y a = some (s', ge)) : GEff.ioHandler ∉ ge ∧ GEff.exit ∉ ge := by
  obtain ⟨i', e, -, -, -, h⟩ := liftItem_spec hl
  exact ⟨fun hm => by have := h _ hm; simp [GEff.isItem] at this,
    fun hm => by have := h _ hm; simp [GEff.isItem] at this⟩

/-- a step is a failing read, a failing write (both with their exact successor state and effects), or carries no I/O
    report at all. -/
theorem gstep_fault_cases {s s' : DState} {tid : String} {op : OpClass} {x : String} {effs : List GEff}
    (h : gstep s tid op x = some (s', effs)) :
    (GEff.ioHandler ∉ effs ∧ GEff.exit ∉ effs) ∨
    (tid = "R" ∧ op = .recv ∧ s.rst ≠ 4 ∧ s.rmid = none ∧ s.rq = [] ∧ s.inbound = [] ∧ s.inEnd = true ∧
      s' = gioReport { s with rst := 4 } ∧ effs = gioEffects s) ∨
    (tid = "W" ∧ op = .sendFail ∧ (∃ m, s.wpc = .send m) ∧ s' = gioReport { s with wpc := .failed } ∧
      effs = gioEffects s) := by
  cases gstep_kind h with
  | rFail h1 h0 hmid hrq hin he => exact .inr (.inl ⟨rfl, rfl, by omega, hmid, hrq, hin, he, rfl, rfl⟩)
  | wFail h1 h0 m hw => exact .inr (.inr ⟨rfl, rfl, ⟨m, hw⟩, rfl, rfl⟩)
  | deliver | endOfInput | mStart | mPut | rStart | rRecv | rPut | rQuit | rJoin | rPoolWait | wStart | wGet | wPill
  | wSend | failurePut | excFailurePut => exact .inl ⟨by simp, by simp⟩
  | rLock h1 h0 hmid y t rest hrq s1 e hl => exact .inl (liftItem_no_io hl)
  | rAdd h1 h0 y hmid s1 e hl => exact .inl (liftItem_no_io hl)
  | tStart tid hT n y k ht hq hrun s' e hl => exact .inl (liftItem_no_io hl)
  | tDec tid hT n y k ht s1 e hl => exact .inl (liftItem_no_io hl)
  | neutral tid op hT s0 hs0 y a ha s' e hl => exact .inl (liftItem_no_io hl)

/-- **only a failing read or a failing write is reported.** -/
theorem gstep_io_only_on_fault {s s' : DState} {tid : String} {op : OpClass} {x : String} {effs : List GEff}
    (h : gstep s tid op x = some (s', effs)) (hio : GEff.ioHandler ∈ effs ∨ GEff.exit ∈ effs) :
    (tid = "R" ∧ op = .recv ∧ s.rmid = none ∧ s.rq = [] ∧ s.inbound = [] ∧ s.inEnd = true) ∨
    (tid = "W" ∧ op = .sendFail) := by
  rcases gstep_fault_cases h with ⟨h1, h2⟩ | ⟨h1, h2, -, h3, h4, h5, h6, -⟩ | ⟨h1, h2, -⟩
  · exact (hio.elim h1 h2).elim
  · exact .inl ⟨h1, h2, h3, h4, h5, h6⟩
  · exact .inr ⟨h1, h2⟩

/-- **a failing read**: reported exactly as `on_ioexception` prescribes, the reader ends, nothing else is touched. -/
theorem gstep_read_fault (s : DState) (x : String) (hr : s.rst = 2) (hm : s.rmid = none) (hq : s.rq = [])
    (hi : s.inbound = []) (he : s.inEnd = true) (hx : s.exited = false) :
    ∃ s', gstep s "R" .recv x = some (s', gioEffects s) ∧ s'.rst = 4 ∧
      s'.nio = s.nio + (if s.ioHandler.isSome then 1 else 0) ∧
      s'.exited = (match s.ioHandler with | none => true | some r => r) ∧
      s'.items = s.items ∧ s'.tasks = s.tasks ∧ s'.workQ = s.workQ ∧ s'.running = s.running ∧
      s'.sendQ = s.sendQ ∧ s'.wst = s.wst ∧ s'.wpc = s.wpc ∧ s'.written = s.written ∧ s'.cpc = s.cpc :=
  ⟨gioReport { s with rst := 4 }, by simp [gstep, hx, hr, hm, hq, hi, he], rfl, rfl, rfl, rfl, rfl, rfl, rfl, rfl, rfl,
    rfl, rfl, rfl⟩

/-- **a failing write**: reported the same way, the message in hand is lost, the writer ends, nothing else is touched. -/
theorem gstep_write_fault (s : DState) (x : String) (m : String) (hw : s.wst = 2) (hm : s.wpc = .send m)
    (hx : s.exited = false) :
    ∃ s', gstep s "W" .sendFail x = some (s', gioEffects s) ∧ s'.wpc = .failed ∧ gholding s' = [] ∧
      s'.nio = s.nio + (if s.ioHandler.isSome then 1 else 0) ∧
      s'.exited = (match s.ioHandler with | none => true | some r => r) ∧
      s'.items = s.items ∧ s'.tasks = s.tasks ∧ s'.workQ = s.workQ ∧ s'.running = s.running ∧
      s'.sendQ = s.sendQ ∧ s'.rst = s.rst ∧ s'.written = s.written ∧ s'.cpc = s.cpc :=
  ⟨gioReport { s with wpc := .failed }, by simp [gstep, hx, hw, hm], rfl, rfl, rfl, rfl, rfl, rfl, rfl, rfl, rfl, rfl,
    rfl, rfl⟩

/-- after the default reaction (process exit) nothing runs any more. -/
theorem gstep_exited (s : DState) (tid : String) (op : OpClass) (x : String) (h : s.exited = true) :
    gstep s tid op x = none := by
  unfold gstep; rw [if_pos h]

/-- a thread that died on a failure takes no further step — hence reports at most once. -/
theorem gstep_dead_reader (s : DState) (op : OpClass) (x : String) (h : s.rst = 4) : gstep s "R" op x = none := by
  unfold gstep
  by_cases hx : s.exited = true
  · rw [if_pos hx]
  rw [if_neg hx]
  simp only [String.reduceEq, ↓reduceIte, h]
  simp

/-- (the writer's thread state `wst` and its loop state `wpc` are separate variables in the Data model: at step level the
    hypothesis that the thread runs is needed — a writer *created but not yet running* with `wpc = .failed`, which no
    reachable state has, could still take its `threadStart` step; see `greach_dead_writer`.) -/
theorem gstep_dead_writer (s : DState) (op : OpClass) (x : String) (h : s.wpc = .failed) (hw : s.wst ≠ 1) :
    gstep s "W" op x = none := by
  unfold gstep
  by_cases hx : s.exited = true
  · rw [if_pos hx]
  rw [if_neg hx]
  simp only [String.reduceEq, ↓reduceIte, hw, h]
  repeat' split
  all_goals first | rfl | contradiction

/-- in every reachable state a writer dead on a failed write takes no further step. -/
theorem greach_dead_writer {n : Nat} {u p : Option String} {ioh : Option Bool} {s : DState} {log : List String}
    (h : GReachH n u p ioh s log) (op : OpClass) (x : String) (hw : s.wpc = .failed) : gstep s "W" op x = none := by
  have := (greach_dcloseInv h).wRunning (by rw [hw]; simp)
  exact gstep_dead_writer s op x hw (by omega)


/-! ### the ghost count -/

/-- a lifted item step leaves the failure bookkeeping and the two I/O threads' states alone. -/
theorem liftItem_ioframe {s0 s' : DState} {y : String} {a : IAct} {ge : List GEff}
    (hl : liftItem s0 y a = some (s', ge)) :
    s'.ioHandler = s0.ioHandler ∧ s'.nio = s0.nio ∧ s'.exited = s0.exited ∧ s'.rst = s0.rst ∧ s'.wpc = s0.wpc := by
  obtain ⟨i', e, -, rfl, -, -⟩ := liftItem_spec hl
  exact ⟨rfl, rfl, rfl, rfl, rfl⟩

/-- **exactly one notification per failing thread, none without a failure** (ghost count), in every reachable state; the
    handler configuration never changes. -/
theorem greach_nio {n : Nat} {u p : Option String} {ioh : Option Bool} {s : DState} {log : List String}
    (h : GReachH n u p ioh s log) :
    s.ioHandler = ioh ∧
    s.nio = (if ioh.isSome then (if s.rst = 4 then 1 else 0) + (if s.wpc = .failed then 1 else 0) else 0) := by
  induction h with
  | init => exact ⟨rfl, by simp⟩
  | @step s s' log tid op x effs hr hs _ ih =>
    obtain ⟨hcfg, hnio⟩ := ih
    have hR := (greach_dcloseInv hr).rStarted
    cases gstep_kind hs with
    | deliver | endOfInput | rQuit | rJoin | failurePut | excFailurePut | mStart | rRecv | rPut =>
      exact ⟨hcfg, hnio⟩
    | mPut hm => exact ⟨hcfg, by dsimp only; grind⟩
    | rStart h1 => exact ⟨hcfg, by dsimp only; grind⟩
    | wStart h1 => exact ⟨hcfg, hnio⟩
    | rPoolWait h1 h0 => exact ⟨hcfg, by dsimp only; grind⟩
    | wGet h1 h0 b hw => exact ⟨hcfg, by dsimp only; grind⟩
    | wPill h1 h0 b hw => exact ⟨hcfg, by dsimp only; grind⟩
    | wSend h1 h0 m hw => exact ⟨hcfg, by dsimp only; grind⟩
    | rFail h1 h0 => exact ⟨hcfg, by dsimp only [gioReport]; rw [hcfg]; grind⟩
    | wFail h1 h0 m hw => exact ⟨hcfg, by dsimp only [gioReport]; rw [hcfg]; grind⟩
    | rLock h1 h0 hmid y t rest hrq s1 e hl =>
      obtain ⟨g1, g2, -, g4, g5⟩ := liftItem_ioframe hl
      exact ⟨g1.trans hcfg, by dsimp only; rw [g2, g4, g5]; exact hnio⟩
    | rAdd h1 h0 y hmid s1 e hl =>
      obtain ⟨g1, g2, -, g4, g5⟩ := liftItem_ioframe hl
      exact ⟨g1.trans hcfg, by dsimp only; rw [g2, g4, g5]; exact hnio⟩
    | tStart tid hT n y k ht hq hrun s' e hl =>
      obtain ⟨g1, g2, -, g4, g5⟩ := liftItem_ioframe hl
      exact ⟨g1.trans hcfg, by rw [g2, g4, g5]; exact hnio⟩
    | tDec tid hT n y k ht s1 e hl =>
      obtain ⟨g1, g2, -, g4, g5⟩ := liftItem_ioframe hl
      exact ⟨g1.trans hcfg, by dsimp only; rw [g2, g4, g5]; exact hnio⟩
    | neutral tid op hT s0 hs0 y a ha s' e hl =>
      obtain ⟨g1, g2, -, g4, g5⟩ := liftItem_ioframe hl
      rcases hs0 with rfl | rfl
      · exact ⟨g1.trans hcfg, by rw [g2, g4, g5]; exact hnio⟩
      · exact ⟨g1.trans hcfg, by rw [g2, g4, g5]; exact hnio⟩

/-- **the process exits only as the default reaction to a reported failure.** -/
theorem greach_exited {n : Nat} {u p : Option String} {ioh : Option Bool} {s : DState} {log : List String}
    (h : GReachH n u p ioh s log) (hx : s.exited = true) :
    (s.rst = 4 ∨ s.wpc = .failed) ∧ (ioh = none ∨ ioh = some true) := by
  cases h with
  | init => simp at hx
  | @step s _ log tid op x effs hr hs =>
    have hx0 := gstep_not_exited hs
    have hcfg := (greach_nio hr).1
    have key : (match s.ioHandler with | none => true | some r => r) = true → (ioh = none ∨ ioh = some true) := by
      rw [hcfg]
      cases ioh with
      | none => exact fun _ => .inl rfl
      | some r => intro h; simp only at h; subst h; exact .inr rfl
    cases gstep_kind hs with
    | rFail h1 h0 => exact ⟨.inl rfl, key hx⟩
    | wFail h1 h0 => exact ⟨.inr rfl, key hx⟩
    | rLock h1 h0 hmid y t rest hrq s1 e hl =>
      have := (liftItem_ioframe hl).2.2.1
      exact absurd (hx0.symm.trans (this.symm.trans hx)) (by simp)
    | rAdd h1 h0 y hmid s1 e hl =>
      have := (liftItem_ioframe hl).2.2.1
      exact absurd (hx0.symm.trans (this.symm.trans hx)) (by simp)
    | tStart tid hT n y k ht hq hrun s' e hl =>
      have := (liftItem_ioframe hl).2.2.1
      exact absurd (hx0.symm.trans (this.symm.trans hx)) (by simp)
    | tDec tid hT n y k ht s1 e hl =>
      have := (liftItem_ioframe hl).2.2.1
      exact absurd (hx0.symm.trans (this.symm.trans hx)) (by simp)
    | neutral tid op hT s0 hs0 y a ha s' e hl =>
      have := (liftItem_ioframe hl).2.2.1
      rcases hs0 with rfl | rfl <;> exact absurd (hx0.symm.trans (this.symm.trans hx)) (by simp)
    | _ => exact absurd (hx0.symm.trans hx) (by simp)


/-! ### what the enabledness of a step depends on -/

/-- whether an item step can be lifted depends on the item only. -/
theorem liftItem_isSome (s : DState) (x : String) (a : IAct) :
    (liftItem s x a).isSome = (istep (getItem s x) a).isSome := by
  rw [liftItem_eq]
  cases istep (getItem s x) a with
  | none => rfl
  | some p => rfl

theorem getItem_markFal (s : DState) (t i : String) (k : LKind) (x : String) :
    getItem (markFal s t i k) x = getItem s x := getItem_congr (markFal_items s t i k) x

/-- what the enabledness of a step depends on: not on the ghost count, not — for a thread other than the reader — on the
    reader's thread state, and not — for a thread other than the writer, the reader's `join()` excepted — on the writer's. -/
theorem gstep_isSome_congr (s : DState) (r' : Nat) (w' : WPc) (n' : Nat) (tid : String) (op : OpClass) (x : String)
    (hR : tid = "R" → r' = s.rst ∧ (op = .join → w' = s.wpc)) (hW : tid = "W" → w' = s.wpc) :
    (gstep { s with rst := r', wpc := w', nio := n' } tid op x).isSome = (gstep s tid op x).isSome := by
  have hgi : ∀ y, getItem { s with rst := r', wpc := w', nio := n' } y = getItem s y := fun y => rfl
  unfold gstep
  dsimp only
  by_cases hx : s.exited = true
  · rw [if_pos hx, if_pos hx]
  rw [if_neg hx, if_neg hx]
  by_cases hP : tid = "P"
  · rw [if_pos hP, if_pos hP]
    (repeat' split) <;> rfl
  rw [if_neg hP, if_neg hP]
  by_cases hM : tid = "M"
  · rw [if_pos hM, if_pos hM]
    (repeat' split) <;> rfl
  rw [if_neg hM, if_neg hM]
  by_cases hR' : tid = "R"
  · rw [if_pos hR', if_pos hR']
    obtain ⟨h1, h2⟩ := hR hR'
    subst h1
    by_cases hj : op = .join
    · have := h2 hj
      subst this
      (repeat' split) <;> first | rfl | contradiction
    · (repeat' split) <;> first
        | rfl
        | contradiction
        | (exfalso
           have e1 := congrArg Option.isSome (by assumption : liftItem _ _ _ = none)
           have e2 := congrArg Option.isSome (by assumption : liftItem _ _ _ = some _)
           rw [liftItem_isSome] at e1 e2
           exact absurd (e1.symm.trans e2) (by simp))
  rw [if_neg hR', if_neg hR']
  by_cases hW' : tid = "W"
  · rw [if_pos hW', if_pos hW']
    have := hW hW'
    subst this
    (repeat' split) <;> rfl
  rw [if_neg hW', if_neg hW']
  simp only [hgi]
  (repeat' split) <;> first
    | rfl
    | contradiction
    | (simp only [liftItem_isSome, getItem_markFal, Option.isSome_map]; first | done | rfl)

/-! ### a handled failure leaves the rest of the server running -/

/-- the reader's `join()` of the writer returns only when the writer has ended. -/
theorem gstep_join_writer_ended {s : DState} {tid x : String} (h : (gstep s tid .join x).isSome = true) :
    s.wpc = .stopped ∨ s.wpc = .failed := by
  cases hg : gstep s tid .join x with
  | none => rw [hg] at h; cases h
  | some r =>
    obtain ⟨s', e⟩ := r
    cases gstep_kind hg with
    | rJoin h1 h0 hmid rest hrq hc hw => exact hw
    | neutral tid op hT s0 hs0 y a ha s' e hl =>
      -- no pool or application thread performs this operation
      exfalso
      have hx := gstep_not_exited hg
      obtain ⟨h1, h2, h3, h4⟩ := hT
      simp [gstep, hx, h1, h2, h3, h4] at hg
      repeat' split at hg
      all_goals simp at hg

/-- the bookkeeping of a report that does not end the process changes the ghost count only. -/
theorem gioReport_alive {t : DState} (hx : (gioReport t).exited = false) (hx0 : t.exited = false) :
    gioReport t = { t with nio := t.nio + (if t.ioHandler.isSome then 1 else 0) } := by
  have he : (gioReport t).exited = t.exited := hx.trans hx0.symm
  unfold gioReport at he ⊢
  dsimp only at he
  rw [he]

/-- a failure handled by the application (handler returns a false value) leaves the rest of the server running: the pool
    threads', the application threads', the starting thread's, the environment's and the other I/O thread's steps are exactly
    as enabled as before — except the reader's `join()` of the writer, which a writer dead on a failed write lets through (see
    `gstep_fault_isolated_mono`: no step is ever disabled). -/
theorem gstep_fault_isolated {s s' : DState} {tid : String} {op : OpClass} {x : String} {effs : List GEff}
    (h : gstep s tid op x = some (s', effs)) (hio : GEff.ioHandler ∈ effs) (hx : s'.exited = false)
    (tid' : String) (op' : OpClass) (x' : String) (hne : tid' ≠ tid) (hj : op' ≠ .join) :
    (gstep s' tid' op' x').isSome = (gstep s tid' op' x').isSome := by
  have hx0 := gstep_not_exited h
  rcases gstep_fault_cases h with ⟨h1, -⟩ | ⟨rfl, -, -, -, -, -, -, rfl, -⟩ | ⟨rfl, -, -, rfl, -⟩
  · exact absurd hio h1
  · rw [gioReport_alive hx hx0]
    exact gstep_isSome_congr s 4 s.wpc _ tid' op' x' (fun h => absurd h hne) (fun _ => rfl)
  · rw [gioReport_alive hx hx0]
    exact gstep_isSome_congr s s.rst .failed _ tid' op' x' (fun _ => ⟨rfl, fun h => absurd h hj⟩) (fun h => absurd h hne)

/-- … and no step of another thread, `join()` included, is disabled by a handled failure. -/
theorem gstep_fault_isolated_mono {s s' : DState} {tid : String} {op : OpClass} {x : String} {effs : List GEff}
    (h : gstep s tid op x = some (s', effs)) (hio : GEff.ioHandler ∈ effs) (hx : s'.exited = false)
    (tid' : String) (op' : OpClass) (x' : String) (hne : tid' ≠ tid) (hen : (gstep s tid' op' x').isSome = true) :
    (gstep s' tid' op' x').isSome = true := by
  by_cases hj : op' = .join
  · have hx0 := gstep_not_exited h
    rcases gstep_fault_cases h with ⟨h1, -⟩ | ⟨rfl, -, -, -, -, -, -, rfl, -⟩ | ⟨rfl, -, ⟨m, hm⟩, rfl, -⟩
    · exact absurd hio h1
    · rw [gioReport_alive hx hx0, gstep_isSome_congr s 4 s.wpc _ tid' op' x' (fun h => absurd h hne) (fun _ => rfl)]
      exact hen
    · -- `join()` was not enabled: the writer, which has just stepped, had not ended
      subst hj
      have h1 := gstep_join_writer_ended hen
      rw [hm] at h1
      rcases h1 with h1 | h1 <;> cases h1
  · rw [gstep_fault_isolated h hio hx tid' op' x' hne hj]
    exact hen

/-- the exception is real: a writer holding a message while the reader is joining it (`close()` under way); before the
    failing write the reader's `join()` is not enabled, after it (handler installed, returns a false value) it is. -/
example :
    let s : DState :=
      { poolN := 1, ioHandler := some false, rst := 2, wst := 2, mpc := 2, wpc := .send "x", cpc := 1,
        rq := [ROp.poolShutdown], sendQ := [none], initExpected := false }
    (gstep s "R" .join "").isSome = false ∧
    ((gstep s "W" .sendFail "").map fun r => (r.1.exited, r.2.length, (gstep r.1 "R" .join "").isSome)) =
      some (false, 1, true) := by
  decide +kernel

/-- non-vacuity: the peer closes the connection of a started Data server whose handler returns a false value: the reader
    reports once and ends, the process goes on. -/
example : ∃ s log, GReachH 1 none none (some false) s log ∧ s.rst = 4 ∧ s.nio = 1 ∧ s.exited = false ∧ s.wst = 2 := by
  let steps : List (String × OpClass × String) :=
    [("M", .threadStart, ""), ("M", .put, ""), ("R", .threadStart, ""), ("W", .threadStart, ""),
     ("P", .endOfInput, ""), ("R", .recv, "")]
  have hrun : ∃ s', (steps.foldlM (fun (st : DState) (x : String × OpClass × String) => (gstep st x.1 x.2.1 x.2.2).map (·.1))
      { poolN := 1, user := none, password := none, ioHandler := some false }) = some s' ∧
      s'.rst = 4 ∧ s'.nio = 1 ∧ s'.exited = false ∧ s'.wst = 2 := by
    decide +kernel
  obtain ⟨s', hs', h1⟩ := hrun
  obtain ⟨log', hr⟩ := greachH_run steps _ _ (GReachH.init (n := 1))
    (by intro x hx msg; simp only [steps, List.mem_cons, List.mem_nil_iff, or_false] at hx
        rcases hx with rfl | rfl | rfl | rfl | rfl | rfl <;> simp) s' hs'
  exact ⟨s', log', hr, h1⟩

end Ari.Conc
