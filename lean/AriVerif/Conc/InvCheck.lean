import AriVerif.Conc.Inv
/-
  Conc/InvCheck.lean — executable mirror of `Inv` (clause by clause, bounded quantifiers), evaluated by the
  driver on every state the REAL server reaches in the co-simulation.  It is a sanity check of the
  candidate invariant and of the model's ghost state, not part of any proof.
-/
namespace Ari.Conc
open Ari

def altB : Bool → List Task → Bool
  | _, [] => true
  | b, t :: r => t.isSub == b && altB (!b) r

def nodupB (l : List String) : Bool :=
  match l with
  | [] => true
  | x :: r => !r.contains x && nodupB r

def wfB (l : List Task) : Bool := nodupB (l.map (·.id)) && altB true l

def hasIdB (l : List Task) (r : String) : Bool := l.any (·.id == r)

def allLt (n : Nat) (p : Nat → Bool) : Bool := (List.range n).all p

def isPutLoop : Pc → Option (Task × String)
  | .put t l .atLoop => some (t, l)
  | _ => none

/-- name of the first clause of `Inv` that fails on `s` (`none` = all hold). -/
def invFail (s : IState) : Option String :=
  let I := s.insts
  let M := s.mgrs
  let chk (name : String) (b : Bool) : Option String := if b then none else some name
  let c := cur s
  let lastFin := s.fin.getLast?
  let clauses : List (String × Bool) := [
    ("genLt", allLt s.ninst fun k => (I k).gen < s.nmgr),
    ("loopOf", allLt s.ninst fun k => !(I k).pc.looping || (M (I k).gen).loop == some k),
    ("loopInst", allLt s.nmgr fun g => match (M g).loop with
        | some k => k < s.ninst && (I k).gen == g && (I k).pc.looping
        | none => true),
    ("running", allLt s.nmgr fun g => (M g).running == (M g).loop.isSome),
    ("firstPop", allLt s.nmgr fun g => match (M g).loop with
        | some k => !((I k).deq == 0) || !(M g).q.isEmpty
        | none => true),
    ("heldDeq", allLt s.ninst fun k => !((I k).pc.looping && !(I k).pc.between) || 1 ≤ (I k).deq),
    ("noLostWake", allLt s.nmgr fun g => (M g).q.isEmpty || (M g).running),
    ("activeLt", match s.active with | some g => g < s.nmgr | none => true),
    ("rheldActive", match s.rheld with | some (_, g) => s.active == some g | none => true),
    ("lsnInCall", allLt s.ninst fun k => (I k).lsn.isNone || (match (I k).pc with | .inCall _ _ => true | _ => false)),
    ("counter", allLt s.nmgr fun g => (M g).queued ==
        ((M g).q.length : Int) + (match (M g).loop with | some k => ((I k).deq : Int) | none => 0)
          + (sumUpto (decOf s g) s.ninst : Int) + (match s.rheld with | some (_, g') => if g' = g then 1 else 0 | none => 0)),
    ("dead", allLt s.nmgr fun g => s.active == some g ||
        ((M g).q.isEmpty && (M g).loop.isNone && (M g).code.isNone && (M g).queued == 0)),
    ("registered", match s.active with | some g => (M g).code.isSome || 0 < (M g).queued | none => true),
    ("seq", s.arr == s.fin ++ heldL s ++ qL s ++ rheldL s),
    ("lateSucc", s.late.all fun p => s.arr.getLast? != some p),
    ("lateFin", s.late.all fun p => s.fin.contains p || (match c with
        | some k => (match isPutLoop (I k).pc with | some (t, _) => t == p | none => false)
        | none => false)),
    ("noneLastUsb", s.active.isSome || (match lastFin with | some p => !p.isSub | none => true)),
    ("outBetween", !betweenTasks s || (match lastFin with
        | some t => !t.isSub || (effOk s == (s.lastInv == some (.sub, t.id, true)))
        | none => true)),
    ("outReply", match c with
        | some k => (match isPutLoop (I k).pc with
          | some (t, _) => !t.isSub || ((I k).ok == (s.lastInv == some (.sub, t.id, true)))
          | none => true)
        | none => true),
    ("lastInvId", match s.lastInv with
        | some (_, r, _) => hasIdB s.fin r || (match c with
          | some k => (I k).pc.afterCall && (match (I k).pc.held with | some t => t.id == r | none => false)
          | none => false)
        | none => true),
    ("usbPaired", match c with
        | some k => (match (I k).pc with
          | .callBegin .usb _ => (match lastFin with
            | some p => p.isSub && s.lastInv == some (.sub, p.id, true)
            | none => false)
          | _ => true)
        | none => true),
    ("codeLast", allLt s.nmgr fun g => match (M g).code with
        | some r => s.execd.getLast? == some r
        | none => true),
    ("execdArr", s.execd.all fun r => s.arr.any fun t => t.id == r && t.isSub && !s.late.contains t),
    ("codeAfterUsb", !betweenTasks s || (match lastFin with
        | some t => t.isSub || (readCode s).isNone
        | none => true)),
    ("codeNever", !s.execd.isEmpty || (readCode s).isNone),
    ("codeExec", !betweenTasks s || (match lastFin with
        | some t => !t.isSub || s.late.contains t || readCode s == some t.id
        | none => true)),
    ("codePublished", match c with
        | some k => (match (I k).pc.held with
          | some t => !(I k).pc.published t || readCode s == some t.id
          | none => true)
        | none => true),
    ("codeReply", match c with
        | some k => (match isPutLoop (I k).pc with
          | some (t, _) => !t.isSub || s.late.contains t || readCode s == some t.id
          | none => true)
        | none => true),
    ("codeUsb", match c with
        | some k => (match (I k).pc with
          | .callBegin .usb _ => (match lastFin with | some p => readCode s == some p.id | none => true)
          | _ => true)
        | none => true),
    ("clearedNone", !s.cleared || (readCode s).isNone),
    ("fwdShape", match s.fwd with
        | none => true
        | some r =>
          (match c with
           | some k => (match (I k).pc with
             | .inCall .sub t => t.id == r
             | .put t _ .atLoop => t.isSub && !s.late.contains t && (I k).ok && t.id == r
             | .callBegin .usb _ => (match lastFin with | some t => t.id == r | none => false)
             | _ => false)
           | none => false) ||
          (betweenTasks s && effOk s && (match lastFin with
            | some t => t.isSub && !s.late.contains t && t.id == r
            | none => false))),
    ("replNodup", nodupB s.repl),
    ("replFin", s.fin.all fun t => s.lost.contains t || s.repl.contains t.id),
    ("replOnly", s.repl.all fun r => hasIdB s.fin r || (match c with
        | some k => (match (I k).pc with | .clearCode t => t.id == r | _ => false)
        | none => false)),
    ("lostNone", s.lost.isEmpty),
    -- clauses added for inductiveness (see Inv.lean)
    ("pcWf", allLt s.ninst fun k => (I k).pc.wf),
    ("execdHeld", s.execd.all fun r => hasIdB s.fin r || hasIdB (heldL s) r),
    ("lastInvNotLate", match s.lastInv with
        | some (_, r, _) => s.late.all fun p => p.id != r
        | none => true),
    ("replClear", match c with
        | some k => (match (I k).pc with | .clearCode t => s.repl.contains t.id | _ => true)
        | none => true)]
  clauses.findSome? fun (n, b) => chk n b

end Ari.Conc
