import AriVerif.Conc.InvTac
/-
  Conc/InvStepE.lean — preservation of `Inv` by the reader's two lock sections (lockMgr, addTask).
-/
namespace Ari.Conc
open Ari
set_option linter.unusedSimpArgs false

/-- without a registered generation everything that arrived is finished. -/
theorem Inv.arr_of_none {s : IState} (h : Inv s) (hact : s.active = none) (hr : s.rheld = none) :
    s.arr = s.fin := by
  have := h.seq
  simpa [heldL, qL, rheldL, cur, hact, hr] using this

/-- an unsubscription never finds the item without manager (the history is well-formed). -/
theorem lockMgr_noMgr_absurd {s : IState} {t : Task} (h : Inv s) (hact : s.active = none) (hr : s.rheld = none)
    (ht : t.isSub = false) (hwf : WF (s.arr ++ [t])) : False := by
  obtain ⟨p, hp, hps⟩ := alt_first hwf.2 ht
  rw [h.arr_of_none hact hr] at hp
  have := h.noneLastUsb hact p hp
  rw [this] at hps; cases hps

theorem inv_lockMgr_some {s : IState} {t : Task} {g : Nat} (h : Inv s) (hact : s.active = some g)
    (hr : s.rheld = none) (hwf : WF (s.arr ++ [t])) :
    Inv { setMgr s g { s.mgrs g with queued := (s.mgrs g).queued + 1 } with
          rheld := some (t, g), arr := s.arr ++ [t] } := by
  have hg := h.activeLt g hact
  have hq := (h.queued_ge hg).1
  inv_refine
  case counter =>
    intro g' hg'
    have hc := h.counter g' hg'
    rw [decOf_eq] at hc ⊢
    simp only [setMgr, hr, upd_apply] at hc ⊢
    by_cases hgg : g' = g
    · subst hgg; simp only [if_true]; omega
    · have : ¬ g = g' := fun hh => hgg hh.symm
      simp only [hgg, this, if_false]; omega
  case lateSucc =>
    intro p hp
    have h1 := h.late_mem_arr hp
    have h2 := nodup_id_disj hwf.1 h1 (List.mem_singleton.mpr rfl)
    simp only [List.getLast?_append, List.getLast?_singleton, Option.some_or]
    intro hh; cases hh; exact h2 rfl
  all_goals inv_default [hact, hr]

theorem inv_lockMgr_fresh {s : IState} {t : Task} (h : Inv s) (hact : s.active = none)
    (hr : s.rheld = none) (_ht : t.isSub = true) (hwf : WF (s.arr ++ [t])) :
    Inv { s with mgrs := upd s.mgrs s.nmgr { queued := 1 }, nmgr := s.nmgr + 1, active := some s.nmgr,
                 rheld := some (t, s.nmgr), arr := s.arr ++ [t] } := by
  have harr := h.arr_of_none hact hr
  inv_refine
  case loopOf =>
    have hc := h.loopOf; have h2 := h.genLt
    inv_close [hact, hr]
  case counter =>
    intro g' hg'
    rw [decOf_eq]
    simp only [hr, upd_apply]
    by_cases hgg : g' = s.nmgr
    · subst hgg
      simp only [if_true]
      rw [sumUpto_zero]
      · rfl
      · intro k hk
        have := h.genLt k hk
        simp only [decI]
        split
        · rw [if_neg (by omega)]
        · rfl
    · have hg2 : g' < s.nmgr := by simp only [] at hg'; omega
      have hc := h.counter g' hg2
      rw [decOf_eq] at hc
      have : ¬ s.nmgr = g' := fun hh => hgg hh.symm
      simp only [hr] at hc
      simp only [hgg, this, if_false]; omega
  case lateSucc =>
    intro p hp
    have h1 := h.late_mem_arr hp
    have h2 := nodup_id_disj hwf.1 h1 (List.mem_singleton.mpr rfl)
    simp only [List.getLast?_append, List.getLast?_singleton, Option.some_or]
    intro hh; cases hh; exact h2 rfl
  all_goals inv_default [hact, hr]

theorem inv_addTask_running {s : IState} {t : Task} {g : Nat} (h : Inv s) (hr : s.rheld = some (t, g))
    (hrun : (s.mgrs g).running = true) :
    Inv { setMgr s g { s.mgrs g with q := (s.mgrs g).q ++ [t] } with rheld := none } := by
  have hact := h.rheldActive t g hr
  have hg := h.activeLt g hact
  have hrl := h.running g hg
  inv_refine
  case firstPop =>
    intro g' hg' k hl hd
    simp only [setMgr, upd_apply] at hl hd ⊢
    by_cases hgg : g' = g
    · simp [hgg]
    · simp only [hgg, if_false] at hl ⊢; exact h.firstPop g' hg' k hl hd
  case counter =>
    intro g' hg'
    have hc := h.counter g' hg'
    rw [decOf_eq] at hc ⊢
    simp only [setMgr, hr, upd_apply] at hc ⊢
    by_cases hgg : g' = g
    · subst hgg; simp only [if_true, List.length_append, List.length_singleton] at hc ⊢; omega
    · have : ¬ g = g' := fun hh => hgg hh.symm
      simp only [hgg, this, if_false] at hc ⊢; omega
  all_goals inv_default [hact, hr, hrun]

theorem inv_addTask_submit {s : IState} {t : Task} {g : Nat} (h : Inv s) (hr : s.rheld = some (t, g))
    (hrun : (s.mgrs g).running = false) :
    Inv { setMgr s g { s.mgrs g with q := (s.mgrs g).q ++ [t], running := true, loop := some s.ninst } with
          rheld := none, insts := upd s.insts s.ninst { gen := g }, ninst := s.ninst + 1 } := by
  have hact := h.rheldActive t g hr
  have hg := h.activeLt g hact
  have hrl := h.running g hg
  have hloop : (s.mgrs g).loop = none := by
    cases hl : (s.mgrs g).loop with
    | none => rfl
    | some k => rw [hl, hrun] at hrl; cases hrl
  have hcur : cur s = none := by simp [cur, hact, hloop]
  inv_refine
  case firstPop =>
    intro g' hg' k hl hd
    simp only [setMgr, upd_apply] at hl hd ⊢
    by_cases hgg : g' = g
    · simp [hgg]
    · simp only [hgg, if_false] at hl ⊢
      have hk := (h.loopInst g' hg' k hl).1
      rw [if_neg (by omega)] at hd
      exact h.firstPop g' hg' k hl hd
  case counter =>
    intro g' hg'
    have hc := h.counter g' hg'
    rw [decOf_eq] at hc ⊢
    simp only [setMgr, hr, upd_apply] at hc ⊢
    have hs := sumDec_fresh s.insts s.ninst g' { gen := g } (by simp [decI])
    simp only [upd_apply] at hs
    rw [hs]
    by_cases hgg : g' = g
    · subst hgg
      simp only [if_true, List.length_append, List.length_singleton, hloop] at hc ⊢
      simp at hc ⊢
      omega
    · have : ¬ g = g' := fun hh => hgg hh.symm
      simp only [hgg, this, if_false] at hc ⊢
      cases hl : (s.mgrs g').loop with
      | none => simp only [hl] at hc ⊢; omega
      | some k' =>
        have hk := (h.loopInst g' hg' k' hl).1
        simp only [hl] at hc ⊢
        rw [if_neg (by omega)]; omega
  all_goals inv_default [hact, hr, hrun, hloop]

end Ari.Conc
