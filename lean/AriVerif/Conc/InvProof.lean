import AriVerif.Conc.InvStepA
import AriVerif.Conc.InvStepB
import AriVerif.Conc.InvStepC
import AriVerif.Conc.InvStepD
import AriVerif.Conc.InvStepE
import AriVerif.Conc.InvStepF2
import AriVerif.Conc.InvStepG
/-
  Conc/InvProof.lean — `Inv` is inductive.
-/
namespace Ari.Conc
open Ari

/-- transport along a change of `log` / `out` / `ext` only. -/
local macro "ghost_of " t:term : term =>
  `(inv_ghost $t rfl rfl rfl rfl rfl rfl rfl rfl rfl rfl rfl rfl rfl rfl rfl)

theorem inv_init (item : String) : Inv (IState.init item) := by
  constructor <;>
    simp [IState.init, cur, heldL, qL, rheldL, betweenTasks, effOk, readCode, sumUpto, hasId]

/-- every step preserves the invariant, as long as the request history stays well-formed. -/
theorem inv_step (s s' : IState) (a : IAct) (e : List Eff) (h : Inv s)
    (hs : istep s a = some (s', e)) (hwf : WF s'.arr) : Inv s' := by
  cases a with
  | lockMgr t =>
    simp only [istep] at hs
    split at hs
    · cases hs
    · rename_i hr
      have hr' : s.rheld = none := by
        cases hh : s.rheld with
        | none => rfl
        | some p => rw [hh] at hr; simp at hr
      split at hs
      · rename_i g hact
        cases hs
        exact inv_addLog _ (inv_lockMgr_some h hact hr' hwf)
      · rename_i hact
        split at hs
        · rename_i ht
          cases hs
          exact inv_addLog _ (inv_lockMgr_fresh h hact hr' ht hwf)
        · rename_i ht
          cases hs
          exact (lockMgr_noMgr_absurd h hact hr' (by simpa using ht) hwf).elim
  | addTask =>
    simp only [istep] at hs
    split at hs
    · cases hs
    · rename_i t g hr
      split at hs
      · rename_i hrun
        cases hs
        exact inv_addTask_running h hr hrun
      · rename_i hrun
        cases hs
        exact inv_addLog _ (inv_addTask_submit h hr (by simpa using hrun))
  | start k =>
    simp only [istep] at hs
    split at hs
    · rename_i hk
      split at hs
      · rename_i hpc
        cases hs
        exact inv_start h hk hpc
      · cases hs
    · cases hs
  | pop k =>
    simp only [istep] at hs
    split at hs
    · rename_i hk
      split at hs
      · rename_i hpc
        generalize hok : (if (s.insts k).deq = 0 then (s.mgrs (s.insts k).gen).lastOk else (s.insts k).ok) = ok
          at hs
        replace hok := hok.symm
        split at hs
        · rename_i hq
          cases hs
          exact inv_addLog _ (inv_pop_empty h hk hpc hok hq)
        · rename_i t rest hq
          split at hs
          · rename_i ht
            split at hs
            · rename_i hrest
              cases hs
              exact inv_addLog _ (inv_pop_late h hk hpc hwf hok hq ht (by simpa using hrest) _)
            · rename_i hrest
              cases hs
              exact inv_addLog _ (inv_pop_sub h hk hpc hwf hok hq ht (by simpa using hrest))
          · rename_i ht
            split at hs
            · rename_i hokt
              cases hs
              exact inv_addLog _ (inv_pop_usb h hk hpc hwf hok hq (by simpa using ht) hokt)
            · rename_i hokt
              cases hs
              exact inv_addLog _ (inv_pop_usb_skip h hk hpc hwf hok hq (by simpa using ht) (by simpa using hokt) _)
      · cases hs
    · cases hs
  | put k =>
    simp only [istep] at hs
    split at hs
    · rename_i hk
      split at hs
      · rename_i t line next hpc
        have hw := h.pcWf k hk
        rw [hpc] at hw
        cases next with
        | atLoop =>
          simp only [] at hs; cases hs
          exact ghost_of (inv_put_loop h hk hpc hwf)
        | clearCode t' =>
          simp only [Pc.wf, Bool.and_eq_true, decide_eq_true_eq] at hw
          obtain ⟨_, rfl⟩ := hw
          simp only [] at hs; cases hs
          exact ghost_of (inv_put_clear h hk hpc hwf)
        | callBegin m t' =>
          cases m with
          | sub =>
            simp only [Pc.wf, Bool.and_eq_true, decide_eq_true_eq] at hw
            obtain ⟨_, rfl⟩ := hw
            simp only [] at hs; cases hs
            exact ghost_of (inv_put_eos h hk hpc hwf)
          | _ => simp [Pc.wf] at hw
        | _ => simp [Pc.wf] at hw
      · cases hs
    · cases hs
  | setCode k =>
    simp only [istep] at hs
    split at hs
    · rename_i hk
      split at hs
      · rename_i t hpc
        cases hs
        exact inv_addLog _ (inv_setCode h hk hpc hwf)
      · cases hs
    · cases hs
  | callBegin k =>
    simp only [istep] at hs
    split at hs
    · rename_i hk
      split at hs
      · rename_i m t hpc
        cases hs
        cases m <;> exact inv_addLog _ (inv_callBegin h hk hpc)
      · cases hs
    · cases hs
  | eosRead k =>
    simp only [istep] at hs
    split at hs
    · rename_i hk
      split at hs
      · rename_i t hpc
        split at hs
        · cases hs
          exact inv_addLog _ (inv_eosRead1 h hk hpc _)
        · cases hs
          exact inv_eosRead2 h hk hpc
      · cases hs
    · cases hs
  | clearCode k =>
    simp only [istep] at hs
    split at hs
    · rename_i hk
      split at hs
      · rename_i t hpc
        cases hs
        exact inv_addLog _ (inv_clearCode h hk hpc hwf)
      · cases hs
    · cases hs
  | callEnd k o =>
    simp only [istep] at hs
    split at hs
    · rename_i hk
      split at hs
      · rename_i m t hpc hlsn
        split at hs
        · rename_i isF
          cases hs
          cases isF
          · exact ghost_of (inv_callEnd_snap_ret_sub h hk hpc hlsn hwf)
          · exact ghost_of (inv_callEnd_snap_ret_eos h hk hpc hlsn hwf)
        · cases hs
          exact ghost_of (inv_callEnd_snap_raise h hk hpc hlsn hwf _)
        · cases hs
          exact ghost_of (inv_callEnd_sub_ret h hk hpc hlsn hwf _)
        · cases hs
          exact ghost_of (inv_callEnd_sub_raise h hk hpc hlsn hwf _)
        · cases hs
          exact ghost_of (inv_callEnd_usb h hk hpc hlsn hwf _ true)
        · cases hs
          exact ghost_of (inv_callEnd_usb h hk hpc hlsn hwf _ false)
      · cases hs
    · cases hs
  | dec k =>
    simp only [istep] at hs
    split at hs
    · rename_i hk
      split at hs
      · rename_i hpc
        split at hs
        · rename_i hcond
          cases hs
          exact inv_addLog _ (inv_dec_remove h hk hpc hcond.1 hcond.2.1 hcond.2.2)
        · rename_i hcond
          cases hs
          exact inv_dec_keep h hk hpc hcond
      · cases hs
    · cases hs
  | lsnRead w kind =>
    simp only [istep] at hs
    split at hs
    · rename_i k
      split at hs
      · rename_i hk
        split at hs
        · rename_i m t hpc hlsn
          cases hs
          exact ghost_of (inv_lsn h hk hpc _)
        · cases hs
      · cases hs
    · rename_i x
      split at hs
      · cases hs
        exact ghost_of h
      · cases hs
  | lsnPut w =>
    simp only [istep] at hs
    split at hs
    · rename_i k
      split at hs
      · rename_i hk
        split at hs
        · rename_i line hlsn
          cases hs
          obtain ⟨m, t, hpc⟩ := h.lsnInCall k hk (by rw [hlsn]; simp)
          exact ghost_of (inv_lsn h hk hpc none)
        · cases hs
      · cases hs
    · rename_i x
      split at hs
      · cases hs
        exact ghost_of h
      · cases hs

/-- the request history only grows. -/
theorem arr_prefix (s s' : IState) (a : IAct) (e : List Eff) (hs : istep s a = some (s', e)) :
    ∃ l, s'.arr = s.arr ++ l := by
  cases a <;> simp only [istep] at hs <;> (repeat' split at hs) <;>
    first
    | (cases hs; done)
    | (cases hs; first | exact ⟨[], (List.append_nil _).symm⟩ | exact ⟨_, rfl⟩)

theorem wf_prefix (l l' : List Task) (h : WF (l ++ l')) : WF l := wf_append h

/-- **Main invariance theorem.** Every reachable state with a well-formed request history satisfies `Inv`. -/
theorem inv_reach (item : String) (s : IState) (hr : Reach item s) (hwf : WF s.arr) : Inv s := by
  obtain ⟨acts, hrun⟩ := hr
  have key : ∀ (acts : List IAct) (s0 s1 : IState), Inv s0 → irun s0 acts = some s1 → WF s1.arr →
      Inv s1 ∧ ∃ l, s1.arr = s0.arr ++ l := by
    intro acts
    induction acts with
    | nil =>
      intro s0 s1 h0 hrun _
      simp only [irun] at hrun
      cases hrun
      exact ⟨h0, [], (List.append_nil _).symm⟩
    | cons a rest ih =>
      intro s0 s1 h0 hrun hwf1
      simp only [irun] at hrun
      split at hrun
      · rename_i s2 e hstep
        -- the history of the intermediate state is a prefix of the final one, hence well-formed
        obtain ⟨l1, hl1⟩ := arr_prefix s0 s2 a e hstep
        -- first get the prefix property of the rest of the run without using `Inv`
        have hpre : ∀ (acts : List IAct) (x y : IState), irun x acts = some y → ∃ l, y.arr = x.arr ++ l := by
          intro acts
          induction acts with
          | nil => intro x y hxy; simp only [irun] at hxy; cases hxy; exact ⟨[], (List.append_nil _).symm⟩
          | cons b bs ihb =>
            intro x y hxy
            simp only [irun] at hxy
            split at hxy
            · rename_i z e' hz
              obtain ⟨l, hl⟩ := arr_prefix x z b e' hz
              obtain ⟨l', hl'⟩ := ihb z y hxy
              exact ⟨l ++ l', by rw [hl', hl, List.append_assoc]⟩
            · cases hxy
        obtain ⟨l2, hl2⟩ := hpre rest s2 s1 hrun
        have hwf2 : WF s2.arr := by rw [hl2] at hwf1; exact wf_prefix _ _ hwf1
        have h2 := inv_step s0 s2 a e h0 hstep hwf2
        obtain ⟨h1, l3, hl3⟩ := ih s2 s1 h2 hrun hwf1
        exact ⟨h1, l1 ++ l3, by rw [hl3, hl1, List.append_assoc]⟩
      · cases hrun
  exact (key acts _ _ (inv_init item) hrun hwf).1

end Ari.Conc
