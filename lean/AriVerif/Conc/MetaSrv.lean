import AriVerif.Conc.Pool
import AriVerif.Dispatch
import AriVerif.Framing
import AriVerif.Proto
/-
  Conc/MetaSrv.lean — the whole Metadata server as the co-simulation sees it: start-up, reader (framing +
  Dispatch), the worker pool (Conc/Pool), send queue and writer, and `Server.close()` run by the reader on an
  honoured close request (stop pill, join of the writer, pool shutdown, socket close).  Theorems:
  Conc/MetaProj.lean, Conc/SrvGate.lean, Conc/MetaClose.lean.
-/
namespace Ari.Conc
open Ari

/-- `_Sender._STOP_WAITING_PILL`: the sentinel `_Sender.quit()` puts into the send queue. -/
def stopPill : String := "STOP_WAITING_PILL"

structure MState where
  cfg : SrvCfg
  pool : PState
  inbound : List String := []
  rbuf : String := ""
  /-- reader actions of the lines already received, still to perform (the head is a `.reply` the reader is
      about to enqueue) -/
  rq : List RAct := []
  rst : RState
  /-- the send queue; `none` is the stop pill of `_Sender.quit()` -/
  sendQ : List (Option String) := []
  rthr : Nat := 0
  wthr : Nat := 0
  mpc : Nat := 0
  wsend : Option String := none
  written : List String := []
  /-- progress of `Server.close()` on the reader thread: 0 = not called; 1 = stop flag set and stop pill enqueued, the
      reader is joining the writer; 2 = writer joined, the reader waits in `executor.shutdown()`; 3 = pool shut down,
      socket closed -/
  cpc : Nat := 0
  sockClosed : Bool := false
  /-- the peer has closed or reset the connection: once the delivered bytes are consumed, `recv` fails (EOF / ECONNRESET) -/
  inEnd : Bool := false
  /-- `os._exit` ran (default reaction to an I/O failure): the process is gone -/
  exited : Bool := false
  /-- ghost: I/O-handler notifications so far -/
  nio : Nat := 0

inductive MEff
  | enqueue (line : String)
  | submit (n : Nat)
  | adapterBegin (c : String)
  | adapterEnd (c : String)
  | handlerExc
  | sent (bytes : String)
  | enqueuePill
  | sockClose
  | ioHandler      -- `ExceptionHandler.handle_ioexception` invoked
  | exit           -- `os._exit(1)`
deriving Repr

/-- perform the reader's local actions up to (not including) the next enqueue. -/
def runLocal (s : MState) : List RAct → MState × List MEff
  | [] => ({ s with rq := [] }, [])
  | .reply l :: rest => ({ s with rq := .reply l :: rest }, [])
  | .submit m id toks :: rest =>
    match decodeRequest m toks with
    | some (.ok a) =>
      match pstep s.pool (.submit id m a) with
      | some (p, _) =>
        let (s', e) := runLocal { s with pool := p } rest
        (s', .submit p.tasks.length :: e)
      | none => runLocal s rest
    | _ => runLocal s rest
  | .handlerExc :: rest => let (s', e) := runLocal s rest; (s', .handlerExc :: e)   -- Dispatch.onException already consults the configuration
  | .quit :: rest => ({ s with rq := .quit :: rest }, [])                 -- `quit()`: about to enqueue the stop pill
  | .poolShutdown :: rest => ({ s with rq := .poolShutdown :: rest }, []) -- waits (writer join, then pool)
  | _ :: rest => runLocal s rest

def liftPool (s : MState) (r : Option (PState × List PEff)) : Option (MState × List MEff) :=
  r.map fun (p, effs) =>
    let (s1, me) := effs.foldl (fun (acc : MState × List MEff) e =>
      match e with
      | .enqueue l => ({ acc.1 with sendQ := acc.1.sendQ ++ [some l] }, acc.2 ++ [.enqueue l])
      | .adapterBegin c => (acc.1, acc.2 ++ [.adapterBegin (Proto.showCall c)])
      | .adapterEnd c => (acc.1, acc.2 ++ [.adapterEnd c.name])
      | .handlerExc => (acc.1, if s.cfg.excHandler.isSome then acc.2 ++ [.handlerExc] else acc.2)) ({ s with pool := p }, [])
    (s1, me)

/-- `on_ioexception` on the failing thread: the handler (if installed) is told; the process exits unless it returns a false
    value. -/
def ioEffects (cfg : SrvCfg) : List MEff := (onIoException cfg).map fun a => match a with | .handlerIo => .ioHandler | .exit => .exit

/-- the bookkeeping of a reported I/O failure (ghost count, process exit). -/
def ioReport (s : MState) : MState :=
  { s with nio := s.nio + (if s.cfg.ioHandler.isSome then 1 else 0),
           exited := (match s.cfg.ioHandler with | none => true | some r => r) }

inductive MOp
  | threadStart | deliver (c : String) | recv | put | get | send | taskStart | adapterBegin
  | adapterEnd (o : Outcome)
  | join          -- the reader's `join()` of the writer thread returns
  | poolWait      -- the reader's `executor.shutdown()` returns
  | endOfInput    -- the peer closes / resets the connection (environment)
  | sendFail      -- the writer's `sendall` raises OSError (environment decides which write fails)

def mstep (s : MState) (env : InitEnv) (tid : String) (op : MOp) : Option (MState × List MEff) :=
  if s.exited then none else
  if tid = "P" then
    match op with
    | .deliver c => if s.inEnd then none else some ({ s with inbound := s.inbound ++ [c] }, [])
    | .endOfInput => some ({ s with inEnd := true }, [])
    | _ => none
  else if tid = "M" then
    match op, s.mpc with
    | .threadStart, 0 => some ({ s with mpc := 1, wthr := 1 }, [])
    | .put, 1 =>
      let l := "1|" ++ writeCredentials none none
      some ({ s with sendQ := s.sendQ ++ [some l], mpc := 2, rthr := 1 }, [.enqueue l])
    | _, _ => none
  else if tid = "R" then
    if s.rthr = 1 then (match op with | .threadStart => some ({ s with rthr := 2 }, []) | _ => none) else
    if s.rthr = 0 ∨ s.rthr = 3 ∨ s.rthr = 4 then none else
    match op, s.rq with
    | .recv, [] =>
      match s.inbound with
      | [] =>
        -- EOF / reset: reported through `on_ioexception`, then the reader leaves its loop (`rthr = 4`: died on a failure)
        if s.inEnd then some (ioReport { s with rthr := 4 }, ioEffects s.cfg) else none
      | c :: rest =>
        let (lines, b) := feed s.rbuf c
        let (st, acts) := dispatchAll s.cfg env s.rst lines
        some (runLocal { s with inbound := rest, rbuf := b, rst := st } acts.flatten)
    | .put, .reply l :: rest =>
      let (s', e) := runLocal { s with sendQ := s.sendQ ++ [some l] } rest
      some (s', .enqueue l :: e)
    | .put, .quit :: rest =>
      -- `_RequestManager.quit()`: stop flag, stop pill behind everything already queued; then `join()`
      some ({ s with sendQ := s.sendQ ++ [none], rq := rest, cpc := 1 }, [.enqueuePill])
    | .join, .poolShutdown :: _ =>
      if s.cpc = 1 ∧ (s.wthr = 3 ∨ s.wthr = 4) then some ({ s with cpc := 2 }, []) else none
    | .poolWait, .poolShutdown :: .sockClose :: _ =>
      -- `executor.shutdown()` returns when no task is queued or running; then the socket is closed and the reader, its stop
      -- flag set, leaves its loop (whatever followed an honoured close request in the same read is not modelled: the
      -- protocol sends nothing after it)
      if s.cpc = 2 ∧ s.pool.running = 0 ∧ s.pool.workQ = [] then
        some ({ s with cpc := 3, sockClosed := true, rq := [], rthr := 3 }, [.sockClose])
      else none
    | _, _ => none
  else if tid = "W" then
    if s.wthr = 1 then (match op with | .threadStart => some ({ s with wthr := 2 }, []) | _ => none) else
    if s.wthr = 0 ∨ s.wthr = 3 ∨ s.wthr = 4 then none else
    match op, s.wsend with
    | .sendFail, some _ =>
      -- the write fails: reported through `on_ioexception`, the message is lost, the writer leaves its loop (`wthr = 4`)
      some (ioReport { s with wsend := none, wthr := 4 }, ioEffects s.cfg)
    | .get, none =>
      match s.sendQ with
      | some m :: rest => some ({ s with sendQ := rest, wsend := some m }, [])
      | none :: rest => some ({ s with sendQ := rest, wthr := 3 }, [])           -- the stop pill: the writer leaves its loop
      | [] => none
    | .send, some m => some ({ s with wsend := none, written := s.written ++ [m] }, [.sent (m ++ "\r\n")])
    | _, _ => none
  else if tid.startsWith "T" then
    match (tid.drop 1).toString.toNat? with
    | none => none
    | some n =>
      let k := n - 1
      match op with
      | .taskStart => liftPool s (pstep s.pool (.start k))
      | .adapterBegin => liftPool s (pstep s.pool (.callBegin k))
      | .adapterEnd o => liftPool s (pstep s.pool (.callEnd k o))
      | .put => liftPool s (pstep s.pool (.put k))
      | _ => none
  else none

def menabled (s : MState) : List String :=
  if s.exited then [] else
  let rgo : Bool := match s.rq with
    | [] => !s.inbound.isEmpty || s.inEnd
    | .poolShutdown :: _ => (s.cpc = 1 ∧ (s.wthr = 3 ∨ s.wthr = 4)) ∨ (s.cpc = 2 ∧ s.pool.running = 0 ∧ s.pool.workQ = [])
    | _ => true
  let r := if s.rthr = 1 ∨ (s.rthr = 2 ∧ rgo) then ["R"] else []
  let w := if s.wthr = 0 ∨ s.wthr = 3 ∨ s.wthr = 4 then [] else if s.wthr = 1 then ["W"] else
    match s.wsend with
    | some _ => ["W"]
    | none => if s.sendQ.isEmpty then [] else ["W"]
  let ts := (List.range s.pool.tasks.length).filterMap fun k =>
    match s.pool.tasks[k]? with
    | none => none
    | some t =>
      match t.pc with
      | .done => none
      | .inPool => if s.pool.workQ.head? = some k ∧ s.pool.running < s.pool.n then some ("T" ++ toString (k + 1)) else none
      | _ => some ("T" ++ toString (k + 1))
  r ++ ts ++ w

def msnap (s : MState) : String :=
  "pool:q=" ++ ",".intercalate (s.pool.workQ.map fun k => "T" ++ toString (k + 1)) ++ ";run=" ++ toString s.pool.running ++
    "|sendq=" ++ toString s.sendQ.length ++ "|init=" ++ (if s.rst.initExpected then "t" else "f") ++
    "|done=" ++ toString (s.pool.tasks.filter fun t => match t.pc with | .done => true | _ => false).length ++
    "|sock=" ++ (if s.sockClosed then "closed" else "open")

end Ari.Conc
