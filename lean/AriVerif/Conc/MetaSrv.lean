import AriVerif.Conc.Pool
import AriVerif.Dispatch
import AriVerif.Framing
import AriVerif.Proto
/-
  Conc/MetaSrv.lean — the whole Metadata server as the co-simulation sees it: start-up, reader (framing +
  Dispatch), the worker pool (Conc/Pool), send queue and writer.  Executable only.
-/
namespace Ari.Conc
open Ari

structure MState where
  cfg : SrvCfg
  pool : PState
  inbound : List String := []
  rbuf : String := ""
  /-- reader actions of the lines already received, still to perform (the head is a `.reply` the reader is
      about to enqueue) -/
  rq : List RAct := []
  rst : RState
  sendQ : List String := []
  rthr : Nat := 0
  wthr : Nat := 0
  mpc : Nat := 0
  wsend : Option String := none
  written : List String := []

inductive MEff
  | enqueue (line : String)
  | submit (n : Nat)
  | adapterBegin (c : String)
  | adapterEnd (c : String)
  | handlerExc
  | sent (bytes : String)
deriving Repr

/-- perform the reader's local actions up to (not including) the next enqueue. -/
def runLocal (s : MState) : List RAct → MState × List MEff
  | [] => ({ s with rq := [] }, [])
  | .reply l :: rest => ({ s with rq := .reply l :: rest }, [])
  | .submit m id toks :: rest =>
    match decodeRequest m toks with
    | some (.ok a) =>
      match pstep s.pool (.submit id m a) with
      | some (p, _) =>
        let (s', e) := runLocal { s with pool := p } rest
        (s', .submit p.tasks.length :: e)
      | none => runLocal s rest
    | _ => runLocal s rest
  | .handlerExc :: rest => let (s', e) := runLocal s rest; (s', .handlerExc :: e)   -- Dispatch.onException already consults the configuration
  | _ :: rest => runLocal s rest

def liftPool (s : MState) (r : Option (PState × List PEff)) : Option (MState × List MEff) :=
  r.map fun (p, effs) =>
    let (s1, me) := effs.foldl (fun (acc : MState × List MEff) e =>
      match e with
      | .enqueue l => ({ acc.1 with sendQ := acc.1.sendQ ++ [l] }, acc.2 ++ [.enqueue l])
      | .adapterBegin c => (acc.1, acc.2 ++ [.adapterBegin (Proto.showCall c)])
      | .adapterEnd c => (acc.1, acc.2 ++ [.adapterEnd c.name])
      | .handlerExc => (acc.1, if s.cfg.excHandler.isSome then acc.2 ++ [.handlerExc] else acc.2)) ({ s with pool := p }, [])
    (s1, me)

inductive MOp
  | threadStart | deliver (c : String) | recv | put | get | send | taskStart | adapterBegin
  | adapterEnd (o : Outcome)

def mstep (s : MState) (env : InitEnv) (tid : String) (op : MOp) : Option (MState × List MEff) :=
  if tid = "P" then
    match op with
    | .deliver c => some ({ s with inbound := s.inbound ++ [c] }, [])
    | _ => none
  else if tid = "M" then
    match op, s.mpc with
    | .threadStart, 0 => some ({ s with mpc := 1, wthr := 1 }, [])
    | .put, 1 =>
      let l := "1|" ++ writeCredentials none none
      some ({ s with sendQ := s.sendQ ++ [l], mpc := 2, rthr := 1 }, [.enqueue l])
    | _, _ => none
  else if tid = "R" then
    if s.rthr = 1 then (match op with | .threadStart => some ({ s with rthr := 2 }, []) | _ => none) else
    if s.rthr = 0 then none else
    match op, s.rq with
    | .recv, [] =>
      match s.inbound with
      | [] => none
      | c :: rest =>
        let (lines, b) := feed s.rbuf c
        let (st, acts) := dispatchAll s.cfg env s.rst lines
        some (runLocal { s with inbound := rest, rbuf := b, rst := st } acts.flatten)
    | .put, .reply l :: rest =>
      let (s', e) := runLocal { s with sendQ := s.sendQ ++ [l] } rest
      some (s', .enqueue l :: e)
    | _, _ => none
  else if tid = "W" then
    if s.wthr = 1 then (match op with | .threadStart => some ({ s with wthr := 2 }, []) | _ => none) else
    if s.wthr = 0 then none else
    match op, s.wsend with
    | .get, none =>
      match s.sendQ with
      | m :: rest => some ({ s with sendQ := rest, wsend := some m }, [])
      | [] => none
    | .send, some m => some ({ s with wsend := none, written := s.written ++ [m] }, [.sent (m ++ "\r\n")])
    | _, _ => none
  else if tid.startsWith "T" then
    match (tid.drop 1).toString.toNat? with
    | none => none
    | some n =>
      let k := n - 1
      match op with
      | .taskStart => liftPool s (pstep s.pool (.start k))
      | .adapterBegin => liftPool s (pstep s.pool (.callBegin k))
      | .adapterEnd o => liftPool s (pstep s.pool (.callEnd k o))
      | .put => liftPool s (pstep s.pool (.put k))
      | _ => none
  else none

def menabled (s : MState) : List String :=
  let r := if s.rthr = 1 ∨ (s.rthr = 2 ∧ (!s.rq.isEmpty ∨ !s.inbound.isEmpty)) then ["R"] else []
  let w := if s.wthr = 0 then [] else if s.wthr = 1 then ["W"] else
    match s.wsend with
    | some _ => ["W"]
    | none => if s.sendQ.isEmpty then [] else ["W"]
  let ts := (List.range s.pool.tasks.length).filterMap fun k =>
    match s.pool.tasks[k]? with
    | none => none
    | some t =>
      match t.pc with
      | .done => none
      | .inPool => if s.pool.workQ.head? = some k ∧ s.pool.running < s.pool.n then some ("T" ++ toString (k + 1)) else none
      | _ => some ("T" ++ toString (k + 1))
  r ++ ts ++ w

def msnap (s : MState) : String :=
  "pool:q=" ++ ",".intercalate (s.pool.workQ.map fun k => "T" ++ toString (k + 1)) ++ ";run=" ++ toString s.pool.running ++
    "|sendq=" ++ toString s.sendQ.length ++ "|init=" ++ (if s.rst.initExpected then "t" else "f") ++
    "|done=" ++ toString (s.pool.tasks.filter fun t => match t.pc with | .done => true | _ => false).length

end Ari.Conc
