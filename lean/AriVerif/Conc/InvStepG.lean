import AriVerif.Conc.InvTac
/-
  Conc/InvStepG.lean — preservation of `Inv` by `dec` (`_dec_queued`: subtract the dequeued count, maybe
  unregister the generation).
-/
namespace Ari.Conc
open Ari
set_option linter.unusedSimpArgs false

/-- what is known about an instance that is about to run `_dec_queued`. -/
structure DecFacts (s : IState) (k : Nat) : Prop where
  hnl : ∀ g', g' < s.nmgr → (s.mgrs g').loop ≠ some k
  hncur : cur s ≠ some k
  hge : ((s.insts k).deq : Int) ≤ (s.mgrs (s.insts k).gen).queued
  hzero : (s.mgrs (s.insts k).gen).queued - ((s.insts k).deq : Int) = 0 →
    (s.mgrs (s.insts k).gen).q = [] ∧ (s.mgrs (s.insts k).gen).loop = none ∧ ∀ t, s.rheld ≠ some (t, (s.insts k).gen)
  hdead : s.active ≠ some (s.insts k).gen → (s.insts k).deq = 0 ∧ (s.mgrs (s.insts k).gen).queued = 0

theorem Inv.decFacts {s : IState} (h : Inv s) {k : Nat} (hk : k < s.ninst) (hpc : (s.insts k).pc = .dec) :
    DecFacts s k := by
  have hg := h.genLt k hk
  have hnl : ∀ g', g' < s.nmgr → (s.mgrs g').loop ≠ some k := by
    intro g' hg' hl
    have := (h.loopInst g' hg' k hl).2.2
    rw [hpc] at this; cases this
  obtain ⟨lt, rt, hc, hlt, hlt0, hrt⟩ := h.counter' hg
  have hle : (s.insts k).deq ≤ sumUpto (decOf s (s.insts k).gen) s.ninst := by
    have := le_sumUpto (f := decOf s (s.insts k).gen) hk
    simpa [decOf, hpc] using this
  refine ⟨hnl, ?_, by omega, ?_, ?_⟩
  · intro hc
    obtain ⟨_, _, _, hl⟩ := h.curLoop hc
    rw [hpc] at hl; cases hl
  · intro hz
    have h1 : (s.mgrs (s.insts k).gen).q.length = 0 := by omega
    have h2 : lt = 0 := by omega
    have h3 : rt = 0 := by omega
    have hq : (s.mgrs (s.insts k).gen).q = [] := List.eq_nil_of_length_eq_zero h1
    refine ⟨hq, ?_, hrt.mp h3⟩
    cases hl : (s.mgrs (s.insts k).gen).loop with
    | none => rfl
    | some k' =>
      have := hlt k' hl
      exact absurd hq (h.firstPop _ hg k' hl (by omega))
  · intro hna
    obtain ⟨_, _, _, hq0⟩ := h.dead _ hg hna
    constructor <;> omega

/-- the state after the subtraction (registration unchanged). -/
def decState (s : IState) (k : Nat) : IState :=
  setInst (setMgr s (s.insts k).gen
    { s.mgrs (s.insts k).gen with queued := (s.mgrs (s.insts k).gen).queued - ((s.insts k).deq : Int) }) k
    { s.insts k with pc := .done }

/-- the derived notions do not see the subtraction by an instance that has left the loop. -/
structure DecFrame (s : IState) (k : Nat) : Prop where
  hcur : cur (decState s k) = cur s
  hinst : ∀ k', cur s = some k' → (decState s k).insts k' = s.insts k'
  hheld : heldL (decState s k) = heldL s
  hq : qL (decState s k) = qL s
  hbt : betweenTasks (decState s k) = betweenTasks s
  heff : effOk (decState s k) = effOk s
  hrc : readCode (decState s k) = readCode s

theorem decFrame {s : IState} {k : Nat} (hncur : cur s ≠ some k) : DecFrame s k := by
  have hcur : cur (decState s k) = cur s := by
    simp only [cur, decState, setInst, setMgr]
    cases s.active with
    | none => rfl
    | some g => simp only [Option.bind_some, upd_apply]; split <;> simp_all
  have hinst : ∀ k', cur s = some k' → (decState s k).insts k' = s.insts k' := by
    intro k' hk'
    have : k' ≠ k := fun hh => hncur (hh ▸ hk')
    simp [decState, setInst, setMgr, upd_apply, this]
  refine ⟨hcur, hinst, ?_, ?_, ?_, ?_, ?_⟩
  · simp only [heldL, hcur]
    cases hc : cur s with
    | none => rfl
    | some k' => simp only [hinst k' hc]
  · simp only [qL, decState, setInst, setMgr]
    cases s.active with
    | none => rfl
    | some g => simp only [upd_apply]; split <;> simp_all
  · simp only [betweenTasks, hcur]
    cases hc : cur s with
    | none => rfl
    | some k' => simp only [hinst k' hc]
  · have hc0 := hncur
    simp only [cur] at hc0
    simp only [effOk, decState, setInst, setMgr]
    cases ha : s.active with
    | none => rfl
    | some g =>
      simp only [ha, Option.bind_some] at hc0
      have hl : (upd s.mgrs (s.insts k).gen
          { s.mgrs (s.insts k).gen with queued := (s.mgrs (s.insts k).gen).queued - ((s.insts k).deq : Int) } g).loop
            = (s.mgrs g).loop := by
        simp only [upd_apply]; split <;> simp_all
      have hlo : (upd s.mgrs (s.insts k).gen
          { s.mgrs (s.insts k).gen with queued := (s.mgrs (s.insts k).gen).queued - ((s.insts k).deq : Int) } g).lastOk
            = (s.mgrs g).lastOk := by
        simp only [upd_apply]; split <;> simp_all
      simp only [hl, hlo]
      cases hlp : (s.mgrs g).loop with
      | none => rfl
      | some k' =>
        have : k' ≠ k := fun hh => hc0 (hh ▸ hlp)
        simp only [upd_apply, this, if_false]
  · simp only [readCode, decState, setInst, setMgr]
    cases s.active with
    | none => rfl
    | some g => simp only [upd_apply]; split <;> simp_all

theorem inv_dec_keep {s : IState} {k : Nat} (h : Inv s) (hk : k < s.ninst) (hpc : (s.insts k).pc = .dec)
    (hcond : ¬ ((s.mgrs (s.insts k).gen).code.isNone ∧
      (s.mgrs (s.insts k).gen).queued - ((s.insts k).deq : Int) = 0 ∧ s.active = some (s.insts k).gen)) :
    Inv (decState s k) := by
  have hg := h.genLt k hk
  have hF := h.decFacts hk hpc
  have hT := decFrame hF.hncur
  inv_refine
  case outBetween =>
    intro hb t ht hs
    rw [hT.heff]; rw [hT.hbt] at hb
    exact h.outBetween hb t ht hs
  case codeExec =>
    intro hb t ht hs hl
    rw [hT.hrc]; rw [hT.hbt] at hb
    exact h.codeExec hb t ht hs hl
  case counter =>
    intro g' hg'
    have hc := h.counter g' hg'
    rw [decOf_eq] at hc ⊢
    simp only [decState, setInst, setMgr, upd_apply] at hc ⊢
    have hs := sumDec_upd s.insts k s.ninst g' { s.insts k with pc := .done } hk
    simp only [upd_apply] at hs
    have h1 : decI { s.insts k with pc := .done } g' = 0 := by simp [decI]
    rw [h1] at hs
    have hlk : ∀ k', (s.mgrs g').loop = some k' → ¬ k' = k := fun k' hl hh => hF.hnl g' hg' (hh ▸ hl)
    by_cases hgg : g' = (s.insts k).gen
    · subst hgg
      have h0 : decI (s.insts k) (s.insts k).gen = (s.insts k).deq := by simp [decI, hpc]
      rw [h0] at hs
      simp only [if_true] at hc ⊢
      cases hl : (s.mgrs (s.insts k).gen).loop with
      | none => simp only [hl] at hc ⊢; grind
      | some k' => simp only [hl, hlk k' hl, if_false] at hc ⊢; grind
    · have h0 : decI (s.insts k) g' = 0 := by
        simp only [decI, hpc]; rw [if_neg (fun hh => hgg hh.symm)]
      rw [h0] at hs
      simp only [hgg, if_false] at hc ⊢
      cases hl : (s.mgrs g').loop with
      | none => simp only [hl] at hc ⊢; grind
      | some k' => simp only [hl, hlk k' hl, if_false] at hc ⊢; grind
  case lastInvId =>
    intro m r b hh
    rcases h.lastInvId m r b hh with hf | ⟨k', hk', ha, t, ht, hid⟩
    · exact Or.inl hf
    · refine Or.inr ⟨k', by rw [hT.hcur]; exact hk', ?_, t, ?_, hid⟩
      · rw [hT.hinst k' hk']; exact ha
      · rw [hT.hinst k' hk']; exact ht
  case fwdShape =>
    intro r hr
    rcases h.fwdShape r hr with ⟨k', t, hk', hp, hid⟩ | ⟨k', t, l, hk', hp, r1, r2, r3, r4⟩ |
      ⟨hb, he, rest⟩ | ⟨k', t', hk', hp, rest⟩
    · exact Or.inl ⟨k', t, by rw [hT.hcur]; exact hk', by rw [hT.hinst k' hk']; exact hp, hid⟩
    · exact Or.inr (Or.inl ⟨k', t, l, by rw [hT.hcur]; exact hk', by rw [hT.hinst k' hk']; exact hp, r1, r2,
        by rw [hT.hinst k' hk']; exact r3, r4⟩)
    · exact Or.inr (Or.inr (Or.inl ⟨by rw [hT.hbt]; exact hb, by rw [hT.heff]; exact he, rest⟩))
    · exact Or.inr (Or.inr (Or.inr ⟨k', t', by rw [hT.hcur]; exact hk', by rw [hT.hinst k' hk']; exact hp, rest⟩))
  all_goals (unfold decState; inv_default_with hF [hpc])

theorem inv_dec_remove {s : IState} {k : Nat} (h : Inv s) (hk : k < s.ninst) (hpc : (s.insts k).pc = .dec)
    (hcode : (s.mgrs (s.insts k).gen).code.isNone)
    (hz : (s.mgrs (s.insts k).gen).queued - ((s.insts k).deq : Int) = 0)
    (hact : s.active = some (s.insts k).gen) :
    Inv { decState s k with active := none } := by
  have hg := h.genLt k hk
  have hF := h.decFacts hk hpc
  obtain ⟨hq, hloop, hrh⟩ := hF.hzero hz
  have hcur : cur s = none := by simp [cur, hact, hloop]
  have hcode' : (s.mgrs (s.insts k).gen).code = none := by simpa using hcode
  have hrheld : s.rheld = none := by
    cases hr : s.rheld with
    | none => rfl
    | some p =>
      obtain ⟨t, g'⟩ := p
      have := h.rheldActive t g' hr
      rw [hact] at this; cases this
      exact absurd hr (hrh t)
  have hbt : betweenTasks s = true := by simp [betweenTasks, hcur]
  have hrc : readCode s = none := by simp [readCode, hact, hcode']
  have harr : s.arr = s.fin := by
    have := h.seq
    simpa [heldL, qL, rheldL, hcur, hact, hq, hrheld] using this
  have hnosub : ∀ p, s.fin.getLast? = some p → p.isSub = false := by
    intro p hp
    cases hps : p.isSub with
    | false => rfl
    | true =>
      by_cases hl : p ∈ s.late
      · have := h.lateSucc p hl
        rw [harr] at this; exact absurd hp this
      · have := h.codeExec hbt p hp hps hl
        rw [hrc] at this; cases this
  inv_refine
  case dead =>
    have hc := h.dead
    unfold decState
    inv_close [hpc, hact, hloop, hq, hcode', hz]
  case noneLastUsb =>
    intro _ p hp
    exact hnosub p hp
  case outBetween =>
    intro _ t ht hs
    have := hnosub t ht
    rw [this] at hs; cases hs
  case fwdShape =>
    intro r hr
    exfalso
    rcases h.fwdShape r hr with ⟨k', t, hk', _⟩ | ⟨k', t, l, hk', _⟩ | ⟨_, _, t, ht, hs, _⟩ | ⟨k', t', hk', _⟩
    · rw [hcur] at hk'; cases hk'
    · rw [hcur] at hk'; cases hk'
    · have := hnosub t ht
      rw [this] at hs; cases hs
    · rw [hcur] at hk'; cases hk'
  case counter =>
    intro g' hg'
    have hc := h.counter g' hg'
    rw [decOf_eq] at hc ⊢
    simp only [decState, setInst, setMgr, upd_apply] at hc ⊢
    have hs := sumDec_upd s.insts k s.ninst g' { s.insts k with pc := .done } hk
    simp only [upd_apply] at hs
    have h1 : decI { s.insts k with pc := .done } g' = 0 := by simp [decI]
    rw [h1] at hs
    have hlk : ∀ k', (s.mgrs g').loop = some k' → ¬ k' = k := fun k' hl hh => hF.hnl g' hg' (hh ▸ hl)
    by_cases hgg : g' = (s.insts k).gen
    · subst hgg
      have h0 : decI (s.insts k) (s.insts k).gen = (s.insts k).deq := by simp [decI, hpc]
      rw [h0] at hs
      simp only [if_true] at hc ⊢
      cases hl : (s.mgrs (s.insts k).gen).loop with
      | none => simp only [hl] at hc ⊢; grind
      | some k' => simp only [hl, hlk k' hl, if_false] at hc ⊢; grind
    · have h0 : decI (s.insts k) g' = 0 := by
        simp only [decI, hpc]; rw [if_neg (fun hh => hgg hh.symm)]
      rw [h0] at hs
      simp only [hgg, if_false] at hc ⊢
      cases hl : (s.mgrs g').loop with
      | none => simp only [hl] at hc ⊢; grind
      | some k' => simp only [hl, hlk k' hl, if_false] at hc ⊢; grind
  all_goals (unfold decState; inv_default_with hF [hpc, hact, hloop, hq])

end Ari.Conc
