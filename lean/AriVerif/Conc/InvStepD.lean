import AriVerif.Conc.InvTac
/-
  Conc/InvStepD.lean — preservation of `Inv` by the end of an adapter call.
-/
namespace Ari.Conc
open Ari
set_option linter.unusedSimpArgs false

theorem inv_callEnd_snap_ret_eos {s : IState} {k : Nat} {t : Task} (h : Inv s) (hk : k < s.ninst)
    (hpc : (s.insts k).pc = .inCall .snap t) (hlsn : (s.insts k).lsn = none) (hwf : WF s.arr) :
    Inv (setInst s k { s.insts k with pc := .eosRead t }) := by
  obtain ⟨hact, hloop, hcur⟩ := h.loopCur hk (by rw [hpc]; rfl)
  obtain ⟨harr, hnid, hnfin, hmem⟩ := h.heldFacts hwf hcur (by rw [hpc]; rfl)
  have hnl := h.heldNotLate hwf hcur (by rw [hpc]; rfl) (by rw [hpc]; intro l hh; cases hh)
  have hwfk := h.pcWf k hk
  have hdeq := h.heldDeq k hk (by rw [hpc]; rfl) (by rw [hpc]; rfl)
  have hli : ∀ m b, s.lastInv ≠ some (m, t.id, b) := by
    intro m b hh
    rcases h.lastInvId _ _ _ hh with hf | ⟨k', hk', ha, _⟩
    · exact hnid hf
    · rw [hcur] at hk'; cases hk'; rw [hpc] at ha; cases ha
  have hlate : ∀ p, p ∈ s.late → p.id ≠ t.id := by
    intro p hp hid
    rcases h.lateFin p hp with hf | ⟨k', l, hk', hp'⟩
    · exact hnid ⟨p, hf, hid⟩
    · rw [hcur] at hk'; cases hk'; rw [hpc] at hp'; cases hp'
  have hcp := h.codePublished k hcur t (by rw [hpc]; simp [Pc.published])
  inv_refine
  case counter =>
    intro g hg
    have := h.counter g hg
    rw [decOf_eq] at this ⊢
    simp only [setInst] at this ⊢
    rw [sumDec_same _ _ _ _ _ (by simp [decI, hpc])]
    inv_auto
  all_goals inv_default [hact, hloop, hpc]

theorem inv_callEnd_snap_ret_sub {s : IState} {k : Nat} {t : Task} (h : Inv s) (hk : k < s.ninst)
    (hpc : (s.insts k).pc = .inCall .snap t) (hlsn : (s.insts k).lsn = none) (hwf : WF s.arr) :
    Inv (setInst s k { s.insts k with pc := .callBegin .sub t }) := by
  obtain ⟨hact, hloop, hcur⟩ := h.loopCur hk (by rw [hpc]; rfl)
  obtain ⟨harr, hnid, hnfin, hmem⟩ := h.heldFacts hwf hcur (by rw [hpc]; rfl)
  have hnl := h.heldNotLate hwf hcur (by rw [hpc]; rfl) (by rw [hpc]; intro l hh; cases hh)
  have hwfk := h.pcWf k hk
  have hdeq := h.heldDeq k hk (by rw [hpc]; rfl) (by rw [hpc]; rfl)
  have hli : ∀ m b, s.lastInv ≠ some (m, t.id, b) := by
    intro m b hh
    rcases h.lastInvId _ _ _ hh with hf | ⟨k', hk', ha, _⟩
    · exact hnid hf
    · rw [hcur] at hk'; cases hk'; rw [hpc] at ha; cases ha
  have hlate : ∀ p, p ∈ s.late → p.id ≠ t.id := by
    intro p hp hid
    rcases h.lateFin p hp with hf | ⟨k', l, hk', hp'⟩
    · exact hnid ⟨p, hf, hid⟩
    · rw [hcur] at hk'; cases hk'; rw [hpc] at hp'; cases hp'
  have hcp := h.codePublished k hcur t (by rw [hpc]; simp [Pc.published])
  inv_refine
  case counter =>
    intro g hg
    have := h.counter g hg
    rw [decOf_eq] at this ⊢
    simp only [setInst] at this ⊢
    rw [sumDec_same _ _ _ _ _ (by simp [decI, hpc])]
    inv_auto
  all_goals inv_default [hact, hloop, hpc]

theorem inv_callEnd_snap_raise {s : IState} {k : Nat} {t : Task} (h : Inv s) (hk : k < s.ninst)
    (hpc : (s.insts k).pc = .inCall .snap t) (hlsn : (s.insts k).lsn = none) (hwf : WF s.arr) (line : String) :
    Inv (setInst s k { s.insts k with ok := false, pc := .put t line .atLoop }) := by
  obtain ⟨hact, hloop, hcur⟩ := h.loopCur hk (by rw [hpc]; rfl)
  obtain ⟨harr, hnid, hnfin, hmem⟩ := h.heldFacts hwf hcur (by rw [hpc]; rfl)
  have hnl := h.heldNotLate hwf hcur (by rw [hpc]; rfl) (by rw [hpc]; intro l hh; cases hh)
  have hwfk := h.pcWf k hk
  have hdeq := h.heldDeq k hk (by rw [hpc]; rfl) (by rw [hpc]; rfl)
  have hli : ∀ m b, s.lastInv ≠ some (m, t.id, b) := by
    intro m b hh
    rcases h.lastInvId _ _ _ hh with hf | ⟨k', hk', ha, _⟩
    · exact hnid hf
    · rw [hcur] at hk'; cases hk'; rw [hpc] at ha; cases ha
  have hlate : ∀ p, p ∈ s.late → p.id ≠ t.id := by
    intro p hp hid
    rcases h.lateFin p hp with hf | ⟨k', l, hk', hp'⟩
    · exact hnid ⟨p, hf, hid⟩
    · rw [hcur] at hk'; cases hk'; rw [hpc] at hp'; cases hp'
  have hcp := h.codePublished k hcur t (by rw [hpc]; simp [Pc.published])
  inv_refine
  case counter =>
    intro g hg
    have := h.counter g hg
    rw [decOf_eq] at this ⊢
    simp only [setInst] at this ⊢
    rw [sumDec_same _ _ _ _ _ (by simp [decI, hpc])]
    inv_auto
  case codeReply =>
    have hc := hcp
    inv_close [hact, hloop, hpc]
  case outReply =>
    have hc := hli
    inv_close [hact, hloop, hpc]
  all_goals inv_default [hact, hloop, hpc]

theorem inv_callEnd_sub_ret {s : IState} {k : Nat} {t : Task} (h : Inv s) (hk : k < s.ninst)
    (hpc : (s.insts k).pc = .inCall .sub t) (hlsn : (s.insts k).lsn = none) (hwf : WF s.arr) (line : String) :
    Inv (setInst { s with lastInv := some (.sub, t.id, true) } k { s.insts k with ok := true, pc := .put t line .atLoop }) := by
  obtain ⟨hact, hloop, hcur⟩ := h.loopCur hk (by rw [hpc]; rfl)
  obtain ⟨harr, hnid, hnfin, hmem⟩ := h.heldFacts hwf hcur (by rw [hpc]; rfl)
  have hnl := h.heldNotLate hwf hcur (by rw [hpc]; rfl) (by rw [hpc]; intro l hh; cases hh)
  have hwfk := h.pcWf k hk
  have hdeq := h.heldDeq k hk (by rw [hpc]; rfl) (by rw [hpc]; rfl)
  have hli : ∀ m b, s.lastInv ≠ some (m, t.id, b) := by
    intro m b hh
    rcases h.lastInvId _ _ _ hh with hf | ⟨k', hk', ha, _⟩
    · exact hnid hf
    · rw [hcur] at hk'; cases hk'; rw [hpc] at ha; cases ha
  have hlate : ∀ p, p ∈ s.late → p.id ≠ t.id := by
    intro p hp hid
    rcases h.lateFin p hp with hf | ⟨k', l, hk', hp'⟩
    · exact hnid ⟨p, hf, hid⟩
    · rw [hcur] at hk'; cases hk'; rw [hpc] at hp'; cases hp'
  have hcp := h.codePublished k hcur t (by rw [hpc]; simp [Pc.published])
  inv_refine
  case counter =>
    intro g hg
    have := h.counter g hg
    rw [decOf_eq] at this ⊢
    simp only [setInst] at this ⊢
    rw [sumDec_same _ _ _ _ _ (by simp [decI, hpc])]
    inv_auto
  case codeReply =>
    have hc := hcp
    inv_close [hact, hloop, hpc]
  case lastInvNotLate =>
    have hc := hlate
    inv_close [hact, hloop, hpc]
  all_goals inv_default [hact, hloop, hpc]

theorem inv_callEnd_sub_raise {s : IState} {k : Nat} {t : Task} (h : Inv s) (hk : k < s.ninst)
    (hpc : (s.insts k).pc = .inCall .sub t) (hlsn : (s.insts k).lsn = none) (hwf : WF s.arr) (line : String) :
    Inv (setInst { s with lastInv := some (.sub, t.id, false), fwd := none } k { s.insts k with ok := false, pc := .put t line .atLoop }) := by
  obtain ⟨hact, hloop, hcur⟩ := h.loopCur hk (by rw [hpc]; rfl)
  obtain ⟨harr, hnid, hnfin, hmem⟩ := h.heldFacts hwf hcur (by rw [hpc]; rfl)
  have hnl := h.heldNotLate hwf hcur (by rw [hpc]; rfl) (by rw [hpc]; intro l hh; cases hh)
  have hwfk := h.pcWf k hk
  have hdeq := h.heldDeq k hk (by rw [hpc]; rfl) (by rw [hpc]; rfl)
  have hli : ∀ m b, s.lastInv ≠ some (m, t.id, b) := by
    intro m b hh
    rcases h.lastInvId _ _ _ hh with hf | ⟨k', hk', ha, _⟩
    · exact hnid hf
    · rw [hcur] at hk'; cases hk'; rw [hpc] at ha; cases ha
  have hlate : ∀ p, p ∈ s.late → p.id ≠ t.id := by
    intro p hp hid
    rcases h.lateFin p hp with hf | ⟨k', l, hk', hp'⟩
    · exact hnid ⟨p, hf, hid⟩
    · rw [hcur] at hk'; cases hk'; rw [hpc] at hp'; cases hp'
  have hcp := h.codePublished k hcur t (by rw [hpc]; simp [Pc.published])
  inv_refine
  case counter =>
    intro g hg
    have := h.counter g hg
    rw [decOf_eq] at this ⊢
    simp only [setInst] at this ⊢
    rw [sumDec_same _ _ _ _ _ (by simp [decI, hpc])]
    inv_auto
  case codeReply =>
    have hc := hcp
    inv_close [hact, hloop, hpc]
  case lastInvNotLate =>
    have hc := hlate
    inv_close [hact, hloop, hpc]
  all_goals inv_default [hact, hloop, hpc]

theorem inv_callEnd_usb {s : IState} {k : Nat} {t : Task} (h : Inv s) (hk : k < s.ninst)
    (hpc : (s.insts k).pc = .inCall .usb t) (hlsn : (s.insts k).lsn = none) (hwf : WF s.arr) (line : String) (okc : Bool) :
    Inv (setInst { s with lastInv := some (.usb, t.id, okc) } k { s.insts k with pc := .put t line (.clearCode t) }) := by
  obtain ⟨hact, hloop, hcur⟩ := h.loopCur hk (by rw [hpc]; rfl)
  obtain ⟨harr, hnid, hnfin, hmem⟩ := h.heldFacts hwf hcur (by rw [hpc]; rfl)
  have hnl := h.heldNotLate hwf hcur (by rw [hpc]; rfl) (by rw [hpc]; intro l hh; cases hh)
  have hwfk := h.pcWf k hk
  have hdeq := h.heldDeq k hk (by rw [hpc]; rfl) (by rw [hpc]; rfl)
  have hli : ∀ m b, s.lastInv ≠ some (m, t.id, b) := by
    intro m b hh
    rcases h.lastInvId _ _ _ hh with hf | ⟨k', hk', ha, _⟩
    · exact hnid hf
    · rw [hcur] at hk'; cases hk'; rw [hpc] at ha; cases ha
  have hlate : ∀ p, p ∈ s.late → p.id ≠ t.id := by
    intro p hp hid
    rcases h.lateFin p hp with hf | ⟨k', l, hk', hp'⟩
    · exact hnid ⟨p, hf, hid⟩
    · rw [hcur] at hk'; cases hk'; rw [hpc] at hp'; cases hp'
  inv_refine
  case counter =>
    intro g hg
    have := h.counter g hg
    rw [decOf_eq] at this ⊢
    simp only [setInst] at this ⊢
    rw [sumDec_same _ _ _ _ _ (by simp [decI, hpc])]
    inv_auto
  case lastInvNotLate =>
    have hc := hlate
    inv_close [hact, hloop, hpc]
  all_goals inv_default [hact, hloop, hpc]

end Ari.Conc
