import AriVerif.Conc.MetaProj
import AriVerif.Props.C04
import Std.Data.String.ToNat
/-
  Conc/MetaClose.lean — `Server.close()` on the whole-Metadata-server model: the reader, on an honoured close request,
  sets the stop flag and enqueues the stop pill (`cpc = 1`), joins the writer (`cpc = 2`), waits in `executor.shutdown()`
  until no pool task is queued or running, closes the socket and leaves its loop (`cpc = 3`).  C20's thread-level clauses,
  for every schedule of reader, writer and pool threads, every pool size and every adapter outcome.
-/
namespace Ari.Conc
open Ari

/-- the reader's action list is made of whole close blocks: `quit`, `poolShutdown`, `sockClose` occur only as the block
    that `Dispatch.act .closeOk` produces. -/
def CloseBlocks : List RAct → Prop
  | [] => True
  | .quit :: .poolShutdown :: .sockClose :: rest => CloseBlocks rest
  | .quit :: _ => False
  | .poolShutdown :: _ => False
  | .sockClose :: _ => False
  | _ :: rest => CloseBlocks rest

/-! ### close blocks -/

theorem closeBlocks_append (a b : List RAct) (ha : CloseBlocks a) (hb : CloseBlocks b) : CloseBlocks (a ++ b) := by
  fun_induction CloseBlocks a with
  | case1 => simpa using hb
  | case2 rest ih => simp only [List.cons_append, CloseBlocks]; exact ih ha
  | case3 => exact ha.elim
  | case4 => exact ha.elim
  | case5 => exact ha.elim
  | case6 x rest h1 h2 h3 h4 ih =>
    cases x <;> first
      | exact (h2 rfl).elim
      | exact (h3 rfl).elim
      | exact (h4 rfl).elim
      | (simp only [List.cons_append, CloseBlocks]; exact ih ha)

theorem closeBlocks_quit {rest : List RAct} (h : CloseBlocks (.quit :: rest)) :
    ∃ rest', rest = .poolShutdown :: .sockClose :: rest' ∧ CloseBlocks rest' := by
  match rest, h with
  | .poolShutdown :: .sockClose :: rest', h => exact ⟨rest', rfl, h⟩

theorem onException_closeBlocks (cfg : SrvCfg) : CloseBlocks (onException cfg) := by
  unfold onException
  cases cfg.kind <;> cases cfg.excHandler <;> simp [CloseBlocks]
  all_goals (split <;> simp [CloseBlocks])

theorem act_closeBlocks (cfg : SrvCfg) (env : InitEnv) (st : RState) (c : LineClass) :
    CloseBlocks (act cfg env st c).2 := by
  have hx := onException_closeBlocks cfg
  cases c with
  | garbage => simp [act, CloseBlocks]
  | closeOk => simp [act, CloseBlocks]
  | closeBad => exact hx
  | ownBad => exact hx
  | unknown =>
    simp only [act]
    split
    · exact hx
    · simp [CloseBlocks]
  | initReq id prs =>
    simp only [act]
    split
    · exact hx
    · split
      · exact hx
      · simp only []
        split <;> split <;> simp [CloseBlocks]
  | own m id toks item =>
    simp only [act]
    split
    · exact hx
    · cases item <;> simp [CloseBlocks]

/-- what `dispatchAll` hands to the reader is made of such blocks. -/
theorem dispatchAll_closeBlocks (cfg : SrvCfg) (env : InitEnv) (st : RState) (lines : List String) :
    CloseBlocks (dispatchAll cfg env st lines).2.flatten := by
  induction lines generalizing st with
  | nil => simp [dispatchAll, CloseBlocks]
  | cons l rest ih =>
    simp only [dispatchAll, List.flatten_cons]
    exact closeBlocks_append _ _ (act_closeBlocks cfg env st _) (ih _)

/-! ### the steps of the server model, one constructor per kind of step -/

/-- every successful `mstep` is one of these (exact successor state and effects, except for the two reader steps that run
    `runLocal` and the pool-thread steps, which are described by `runLocal` / `pstep`). -/
inductive MStepKind (s : MState) (env : InitEnv) : String → MOp → MState → List MEff → Prop
  | deliver (c : String) (he : s.inEnd = false) :
      MStepKind s env "P" (.deliver c) { s with inbound := s.inbound ++ [c] } []
  | endOfInput : MStepKind s env "P" .endOfInput { s with inEnd := true } []
  | mStart (h : s.mpc = 0) : MStepKind s env "M" .threadStart { s with mpc := 1, wthr := 1 } []
  | mPut (h : s.mpc = 1) (l : String) :
      MStepKind s env "M" .put { s with sendQ := s.sendQ ++ [some l], mpc := 2, rthr := 1 } [.enqueue l]
  | rStart (h : s.rthr = 1) : MStepKind s env "R" .threadStart { s with rthr := 2 } []
  | rRecv (h2 : 2 ≤ s.rthr) (h3 : s.rthr ≠ 3) (h4 : s.rthr ≠ 4) (hrq : s.rq = []) (c : String) (rest : List String)
      (hin : s.inbound = c :: rest) :
      MStepKind s env "R" .recv (runLocal (recvState s env c rest) (recvActs s env c)).1
        (runLocal (recvState s env c rest) (recvActs s env c)).2
  | rFail (h2 : 2 ≤ s.rthr) (h3 : s.rthr ≠ 3) (h4 : s.rthr ≠ 4) (hrq : s.rq = []) (hin : s.inbound = [])
      (he : s.inEnd = true) : MStepKind s env "R" .recv (ioReport { s with rthr := 4 }) (ioEffects s.cfg)
  | rPut (h2 : 2 ≤ s.rthr) (h3 : s.rthr ≠ 3) (h4 : s.rthr ≠ 4) (l : String) (rest : List RAct)
      (hrq : s.rq = .reply l :: rest) :
      MStepKind s env "R" .put (runLocal { s with sendQ := s.sendQ ++ [some l] } rest).1
        (.enqueue l :: (runLocal { s with sendQ := s.sendQ ++ [some l] } rest).2)
  | rQuit (h2 : 2 ≤ s.rthr) (h3 : s.rthr ≠ 3) (h4 : s.rthr ≠ 4) (rest : List RAct) (hrq : s.rq = .quit :: rest) :
      MStepKind s env "R" .put { s with sendQ := s.sendQ ++ [none], rq := rest, cpc := 1 } [.enqueuePill]
  | rJoin (h2 : 2 ≤ s.rthr) (h3 : s.rthr ≠ 3) (h4 : s.rthr ≠ 4) (rest : List RAct) (hrq : s.rq = .poolShutdown :: rest)
      (hc : s.cpc = 1) (hw : s.wthr = 3 ∨ s.wthr = 4) : MStepKind s env "R" .join { s with cpc := 2 } []
  | rPoolWait (h2 : 2 ≤ s.rthr) (h3 : s.rthr ≠ 3) (h4 : s.rthr ≠ 4) (rest : List RAct)
      (hrq : s.rq = .poolShutdown :: .sockClose :: rest) (hc : s.cpc = 2) (hr : s.pool.running = 0) (hq : s.pool.workQ = []) :
      MStepKind s env "R" .poolWait { s with cpc := 3, sockClosed := true, rq := [], rthr := 3 } [.sockClose]
  | wStart (h : s.wthr = 1) : MStepKind s env "W" .threadStart { s with wthr := 2 } []
  | wGet (h2 : 2 ≤ s.wthr) (h3 : s.wthr ≠ 3) (h4 : s.wthr ≠ 4) (hws : s.wsend = none) (m : String)
      (rest : List (Option String)) (hq : s.sendQ = some m :: rest) :
      MStepKind s env "W" .get { s with sendQ := rest, wsend := some m } []
  | wPill (h2 : 2 ≤ s.wthr) (h3 : s.wthr ≠ 3) (h4 : s.wthr ≠ 4) (hws : s.wsend = none) (rest : List (Option String))
      (hq : s.sendQ = none :: rest) : MStepKind s env "W" .get { s with sendQ := rest, wthr := 3 } []
  | wSend (h2 : 2 ≤ s.wthr) (h3 : s.wthr ≠ 3) (h4 : s.wthr ≠ 4) (m : String) (hws : s.wsend = some m) :
      MStepKind s env "W" .send { s with wsend := none, written := s.written ++ [m] } [.sent (m ++ "\r\n")]
  | wFail (h2 : 2 ≤ s.wthr) (h3 : s.wthr ≠ 3) (h4 : s.wthr ≠ 4) (m : String) (hws : s.wsend = some m) :
      MStepKind s env "W" .sendFail (ioReport { s with wsend := none, wthr := 4 }) (ioEffects s.cfg)
  | pool (tid : String) (op : MOp) (effs : List MEff) (hT : tid ≠ "P" ∧ tid ≠ "M" ∧ tid ≠ "R" ∧ tid ≠ "W")
      (a : PAct) (p : PState) (pe : List PEff) (hns : ∀ r m ar, a ≠ .submit r m ar)
      (hp : pstep s.pool a = some (p, pe)) (he : enqs effs = peffLines pe) :
      MStepKind s env tid op { s with pool := p, sendQ := s.sendQ ++ (peffLines pe).map some } effs

theorem mstep_kind {s s' : MState} {env : InitEnv} {tid : String} {op : MOp} {effs : List MEff}
    (h : mstep s env tid op = some (s', effs)) : MStepKind s env tid op s' effs := by
  unfold mstep at h
  split at h
  · cases h
  split at h
  · next hP =>
    subst hP
    split at h
    · split at h
      · cases h
      · next he =>
        simp only [Option.some.injEq, Prod.mk.injEq] at h
        obtain ⟨rfl, rfl⟩ := h
        exact .deliver _ (by simpa using he)
    · simp only [Option.some.injEq, Prod.mk.injEq] at h
      obtain ⟨rfl, rfl⟩ := h
      exact .endOfInput
    · cases h
  · next hP =>
    split at h
    · next hM =>
      subst hM
      split at h
      · next hm =>
        simp only [Option.some.injEq, Prod.mk.injEq] at h
        obtain ⟨rfl, rfl⟩ := h
        exact .mStart hm
      · next hm =>
        simp only [Option.some.injEq, Prod.mk.injEq] at h
        obtain ⟨rfl, rfl⟩ := h
        exact .mPut hm _
      · cases h
    · next hM =>
      split at h
      · next hR =>
        subst hR
        split at h
        · next h1 =>
          split at h
          · simp only [Option.some.injEq, Prod.mk.injEq] at h
            obtain ⟨rfl, rfl⟩ := h
            exact .rStart h1
          · cases h
        · next h1 =>
          split at h
          · cases h
          · next h0 =>
            have h2 : 2 ≤ s.rthr := by omega
            have h3 : s.rthr ≠ 3 := by omega
            have h4 : s.rthr ≠ 4 := by omega
            split at h
            · next hrq =>
              split at h
              · next hin =>
                split at h
                · next he =>
                  simp only [Option.some.injEq, Prod.mk.injEq] at h
                  obtain ⟨rfl, rfl⟩ := h
                  exact .rFail h2 h3 h4 hrq hin he
                · cases h
              · next c rest hin =>
                simp only [Option.some.injEq] at h
                have := MStepKind.rRecv (env := env) h2 h3 h4 hrq c rest hin
                rw [show (runLocal (recvState s env c rest) (recvActs s env c)) = (s', effs) from h] at this
                exact this
            · next l rest hrq =>
              simp only [Option.some.injEq, Prod.mk.injEq] at h
              obtain ⟨rfl, rfl⟩ := h
              exact .rPut h2 h3 h4 l rest hrq
            · next rest hrq =>
              simp only [Option.some.injEq, Prod.mk.injEq] at h
              obtain ⟨rfl, rfl⟩ := h
              exact .rQuit h2 h3 h4 rest hrq
            · next rest hrq =>
              split at h
              · next hc =>
                simp only [Option.some.injEq, Prod.mk.injEq] at h
                obtain ⟨rfl, rfl⟩ := h
                exact .rJoin h2 h3 h4 rest hrq hc.1 hc.2
              · cases h
            · next rest hrq =>
              split at h
              · next hc =>
                simp only [Option.some.injEq, Prod.mk.injEq] at h
                obtain ⟨rfl, rfl⟩ := h
                exact .rPoolWait h2 h3 h4 rest hrq hc.1 hc.2.1 hc.2.2
              · cases h
            · cases h
      · next hR =>
        split at h
        · next hW =>
          subst hW
          split at h
          · next h1 =>
            split at h
            · simp only [Option.some.injEq, Prod.mk.injEq] at h
              obtain ⟨rfl, rfl⟩ := h
              exact .wStart h1
            · cases h
          · next h1 =>
            split at h
            · cases h
            · next h0 =>
              have h2 : 2 ≤ s.wthr := by omega
              have h3 : s.wthr ≠ 3 := by omega
              have h4 : s.wthr ≠ 4 := by omega
              split at h
              · next m hws =>
                simp only [Option.some.injEq, Prod.mk.injEq] at h
                obtain ⟨rfl, rfl⟩ := h
                exact .wFail h2 h3 h4 m hws
              · next hws =>
                split at h
                · next m rest hq =>
                  simp only [Option.some.injEq, Prod.mk.injEq] at h
                  obtain ⟨rfl, rfl⟩ := h
                  exact .wGet h2 h3 h4 hws m rest hq
                · next rest hq =>
                  simp only [Option.some.injEq, Prod.mk.injEq] at h
                  obtain ⟨rfl, rfl⟩ := h
                  exact .wPill h2 h3 h4 hws rest hq
                · cases h
              · next m hws =>
                simp only [Option.some.injEq, Prod.mk.injEq] at h
                obtain ⟨rfl, rfl⟩ := h
                exact .wSend h2 h3 h4 m hws
              · cases h
        · next hW =>
          split at h
          · split at h
            · cases h
            · split at h
              all_goals first
                | cases h
                | (obtain ⟨p, pe, hp, rfl, he⟩ := liftPool_spec h
                   refine .pool tid _ effs ⟨hP, hM, hR, hW⟩ _ p pe ?_ hp he
                   intro r m ar hh; cases hh)
          · cases h

/-! ### the invariant -/

/-- number of stop pills in a send queue -/
theorem pills_append_some (q : List (Option String)) (l : String) :
    ((q ++ [some l]).filter (· = none)).length = (q.filter (· = none)).length := by
  simp [List.filter_append]

theorem pills_append_map_some (q : List (Option String)) (ls : List String) :
    ((q ++ ls.map some).filter (· = none)).length = (q.filter (· = none)).length := by
  simp [List.filter_append, List.filter_map]

theorem pills_append_none (q : List (Option String)) :
    ((q ++ [none]).filter (· = none)).length = (q.filter (· = none)).length + 1 := by
  simp [List.filter_append]

/-- `runLocal` touches the pool and the reader's list only, and keeps the list made of whole close blocks. -/
theorem runLocal_close (s : MState) (acts : List RAct) :
    (runLocal s acts).1.cpc = s.cpc ∧ (runLocal s acts).1.wthr = s.wthr ∧ (runLocal s acts).1.rthr = s.rthr ∧
    (runLocal s acts).1.mpc = s.mpc ∧ (runLocal s acts).1.sockClosed = s.sockClosed ∧
    (runLocal s acts).1.sendQ = s.sendQ ∧ (runLocal s acts).1.wsend = s.wsend ∧
    (CloseBlocks acts → CloseBlocks (runLocal s acts).1.rq) ∧
    MEff.enqueuePill ∉ (runLocal s acts).2 ∧ MEff.sockClose ∉ (runLocal s acts).2 := by
  induction acts generalizing s with
  | nil => simp [runLocal, CloseBlocks]
  | cons a rest ih =>
    cases a with
    | reply l => simp [runLocal]
    | quit => simp [runLocal]
    | poolShutdown => simp [runLocal, CloseBlocks]
    | sockClose =>
      simp only [runLocal]
      obtain ⟨h1, h2, h3, h4, h5, h6, h7, h8, h9⟩ := ih s
      exact ⟨h1, h2, h3, h4, h5, h6, h7, fun h => by simp [CloseBlocks] at h, h9⟩
    | submit m id toks =>
      simp only [runLocal]
      cases hd : decodeRequest m toks with
      | none => simpa [CloseBlocks] using ih s
      | some r =>
        cases r with
        | error e => simpa [CloseBlocks] using ih s
        | ok a =>
          simp only [pstep_submit]
          simpa [CloseBlocks] using ih { s with pool := { s.pool with tasks := s.pool.tasks ++ [{ rid := id, method := m, args := a }], workQ := s.pool.workQ ++ [s.pool.tasks.length] } }
    | handlerExc =>
      simp only [runLocal]
      simpa [CloseBlocks] using ih s
    | _ =>
      simp only [runLocal]
      simpa [CloseBlocks] using ih s

/-- invariant of `close()`'s progress. -/
structure CloseInv (s : MState) : Prop where
  cpcLe : s.cpc ≤ 3
  /-- the writer stops only by taking the stop pill, which only `close()` enqueues -/
  wStopped : s.wthr = 3 → 1 ≤ s.cpc
  /-- the reader joined the writer (stopped by the pill, or dead on a failed write) before going on -/
  joined : 2 ≤ s.cpc → s.wthr = 3 ∨ s.wthr = 4
  /-- the socket is closed exactly when `close()` has completed -/
  sock : s.sockClosed = true ↔ s.cpc = 3
  /-- at most one stop pill, present exactly while `close()` has begun and the writer has not taken it yet -/
  pill : (s.sendQ.filter (· = none)).length = (if 1 ≤ s.cpc ∧ s.wthr ≠ 3 then 1 else 0)
  /-- the reader's list: whole close blocks before `close()`; parked at the pool-shutdown action inside it; empty after -/
  rqShape : (s.cpc = 0 → CloseBlocks s.rq) ∧
            ((s.cpc = 1 ∨ s.cpc = 2) → ∃ rest, s.rq = .poolShutdown :: .sockClose :: rest) ∧
            (s.cpc = 3 → s.rq = [])
  /-- the reader has left its loop exactly when `close()` has completed -/
  rEnded : s.rthr = 3 ↔ s.cpc = 3
  /-- the writer exists (its thread was created; it may not have begun to run yet) before anything can be closed -/
  wExists : 1 ≤ s.cpc → s.wthr = 1 ∨ s.wthr = 2 ∨ s.wthr = 3 ∨ s.wthr = 4
  /-- thread states stay in range (4: died on an I/O failure) -/
  wLe : s.wthr ≤ 4
  rLe : s.rthr ≤ 4
  /-- the reader is created by the starting thread's last step … -/
  rStarted : s.rthr ≠ 0 → s.mpc = 2
  /-- … after the writer … -/
  wStarted : 1 ≤ s.mpc → 1 ≤ s.wthr
  /-- … and only a running reader calls `close()` -/
  cStarted : 1 ≤ s.cpc → 2 ≤ s.rthr
  /-- the writer leaves its loop empty-handed -/
  wFlushed : s.wthr = 3 → s.wsend = none
  /-- a reader that died on a failed read never called `close()` (the failing read happens at the top of its loop) -/
  rDied : s.rthr = 4 → s.cpc = 0

theorem closeInv_init (cfg : SrvCfg) (n : Nat) : CloseInv (MInit cfg n) := by
  constructor <;> simp [MInit, CloseBlocks]

/-- a step that leaves `close()`'s variables alone (it may enqueue lines, move the pool, or — before `close()` — replace the
    reader's list by another one made of whole close blocks) keeps the invariant. -/
theorem CloseInv.frame {s s' : MState} (hi : CloseInv s) (h1 : s'.cpc = s.cpc) (h2 : s'.wthr = s.wthr)
    (h3 : s'.rthr = s.rthr) (h4 : s'.mpc = s.mpc) (h5 : s'.sockClosed = s.sockClosed)
    (h6 : (s'.sendQ.filter (· = none)).length = (s.sendQ.filter (· = none)).length) (h7 : s'.wsend = s.wsend)
    (h8 : s'.rq = s.rq ∨ (s.cpc = 0 ∧ CloseBlocks s'.rq)) : CloseInv s' := by
  obtain ⟨c1, c2, c3, c4, c5, ⟨c6a, c6b, c6c⟩, c7, c8, c9, c10, c11, c12, c13, c14, c15⟩ := hi
  refine ⟨?_, ?_, ?_, ?_, ?_, ⟨?_, ?_, ?_⟩, ?_, ?_, ?_, ?_, ?_, ?_, ?_, ?_, ?_⟩ <;>
    (try rw [h1]) <;> (try rw [h2]) <;> (try rw [h3]) <;> (try rw [h4]) <;> (try rw [h5]) <;> (try rw [h6]) <;>
    (try rw [h7]) <;> (try assumption)
  · intro h0
    rcases h8 with h | ⟨-, h⟩
    · rw [h]; exact c6a h0
    · exact h
  · intro h0
    rcases h8 with h | ⟨h, -⟩
    · rw [h]; exact c6b h0
    · omega
  · intro h0
    rcases h8 with h | ⟨h, -⟩
    · rw [h]; exact c6c h0
    · omega

theorem closeInv_step {s s' : MState} {env : InitEnv} {tid : String} {op : MOp} {effs : List MEff}
    (hi : CloseInv s) (h : mstep s env tid op = some (s', effs)) : CloseInv s' := by
  obtain ⟨c1, c2, c3, c4, c5, ⟨c6a, c6b, c6c⟩, c7, c8, c9, c10, c11, c12, c13, c14, c15⟩ := hi
  cases mstep_kind h with
  | deliver c he => exact ⟨c1, c2, c3, c4, c5, ⟨c6a, c6b, c6c⟩, c7, c8, c9, c10, c11, c12, c13, c14, c15⟩
  | endOfInput => exact ⟨c1, c2, c3, c4, c5, ⟨c6a, c6b, c6c⟩, c7, c8, c9, c10, c11, c12, c13, c14, c15⟩
  | rFail h2 h3 h4 hrq hin he =>
    have h0 : s.cpc = 0 := by
      rcases Nat.lt_or_ge s.cpc 1 with h | h
      · omega
      · exfalso
        rcases Nat.lt_or_ge s.cpc 3 with h' | h'
        · obtain ⟨r, hr⟩ := c6b (by omega)
          rw [hrq] at hr; cases hr
        · exact h3 (c7.2 (by omega))
    refine ⟨?_, ?_, ?_, ?_, ?_, ⟨?_, ?_, ?_⟩, ?_, ?_, ?_, ?_, ?_, ?_, ?_, ?_, ?_⟩ <;> dsimp only [ioReport] <;>
      first
        | assumption
        | omega
  | wFail h2 h3 h4 m hws =>
    refine ⟨?_, ?_, ?_, ?_, ?_, ⟨?_, ?_, ?_⟩, ?_, ?_, ?_, ?_, ?_, ?_, ?_, ?_, ?_⟩ <;> dsimp only [ioReport] <;>
      first
        | assumption
        | omega
        | (rw [c5]; simp [h3])
  | mStart hm | mPut hm l | rStart h1 | wStart h1 | wSend h2 h3 h4 m hws =>
    refine ⟨?_, ?_, ?_, ?_, ?_, ⟨?_, ?_, ?_⟩, ?_, ?_, ?_, ?_, ?_, ?_, ?_, ?_, ?_⟩ <;> dsimp only <;>
      first
        | assumption
        | omega
        | ((try simp only [pills_append_some]); rw [c5]; try (split <;> split <;> omega))
  | rQuit h2 h3 h4 rest hrq =>
    have h0 : s.cpc = 0 := by
      rcases Nat.lt_or_ge s.cpc 1 with h | h
      · omega
      · exfalso
        rcases Nat.lt_or_ge s.cpc 3 with h' | h'
        · obtain ⟨r, hr⟩ := c6b (by omega)
          rw [hrq] at hr; cases hr
        · have := c6c (by omega)
          rw [hrq] at this; cases this
    obtain ⟨rest', hr', -⟩ := closeBlocks_quit (hrq ▸ c6a h0)
    refine ⟨?_, ?_, ?_, ?_, ?_, ⟨?_, ?_, ?_⟩, ?_, ?_, ?_, ?_, ?_, ?_, ?_, ?_, ?_⟩ <;> dsimp only <;>
      first
        | assumption
        | omega
        | (rw [c4]; omega)
        | (simp only [pills_append_none]; rw [c5]; try (split <;> split <;> omega))
        | exact fun _ => ⟨rest', hr'⟩
  | rJoin h2 h3 h4 rest hrq hc hw =>
    refine ⟨?_, ?_, ?_, ?_, ?_, ⟨?_, ?_, ?_⟩, ?_, ?_, ?_, ?_, ?_, ?_, ?_, ?_, ?_⟩ <;> dsimp only <;>
      first
        | assumption
        | omega
        | (rw [c4]; omega)
        | (rw [c5]; try (split <;> split <;> omega))
        | exact fun _ => c6b (.inl hc)
  | rPoolWait h2 h3 h4 rest hrq hc hr hq =>
    refine ⟨?_, ?_, ?_, ?_, ?_, ⟨?_, ?_, ?_⟩, ?_, ?_, ?_, ?_, ?_, ?_, ?_, ?_, ?_⟩ <;> dsimp only <;>
      first
        | assumption
        | omega
        | (rw [c5]; try (split <;> split <;> omega))
        | simp
  | wGet h2 h3 h4 hws m rest hq =>
    simp only [hq, List.filter_cons, reduceCtorEq, decide_false, Bool.false_eq_true, if_false] at c5
    refine ⟨?_, ?_, ?_, ?_, ?_, ⟨?_, ?_, ?_⟩, ?_, ?_, ?_, ?_, ?_, ?_, ?_, ?_, ?_⟩ <;> dsimp only <;>
      first
        | assumption
        | omega
        | simp
  | wPill h2 h3 h4 hws rest hq =>
    simp only [hq, List.filter_cons, decide_true, if_true, List.length_cons] at c5
    have hc1 : 1 ≤ s.cpc := by
      split at c5
      · omega
      · omega
    refine ⟨?_, ?_, ?_, ?_, ?_, ⟨?_, ?_, ?_⟩, ?_, ?_, ?_, ?_, ?_, ?_, ?_, ?_, ?_⟩ <;> dsimp only <;>
      first
        | assumption
        | omega
        | exact fun _ => hc1
        | exact fun _ => hws
        | (split at c5 <;> split <;> omega)
  | rRecv h2 h3 h4 hrq c rest hin =>
    have hi : CloseInv s := ⟨c1, c2, c3, c4, c5, ⟨c6a, c6b, c6c⟩, c7, c8, c9, c10, c11, c12, c13, c14, c15⟩
    have h0 : s.cpc = 0 := by
      rcases Nat.lt_or_ge s.cpc 1 with h | h
      · omega
      · exfalso
        rcases Nat.lt_or_ge s.cpc 3 with h' | h'
        · obtain ⟨r, hr⟩ := c6b (by omega)
          rw [hrq] at hr; cases hr
        · exact h3 (c7.2 (by omega))
    obtain ⟨g1, g2, g3, g4, g5, g6, g7, g8, -⟩ := runLocal_close (recvState s env c rest) (recvActs s env c)
    exact hi.frame g1 g2 g3 g4 g5 (by rw [g6]; rfl) g7 (.inr ⟨h0, g8 (dispatchAll_closeBlocks _ _ _ _)⟩)
  | rPut h2 h3 h4 l rest hrq =>
    have hi : CloseInv s := ⟨c1, c2, c3, c4, c5, ⟨c6a, c6b, c6c⟩, c7, c8, c9, c10, c11, c12, c13, c14, c15⟩
    have h0 : s.cpc = 0 := by
      rcases Nat.lt_or_ge s.cpc 1 with h | h
      · omega
      · exfalso
        rcases Nat.lt_or_ge s.cpc 3 with h' | h'
        · obtain ⟨r, hr⟩ := c6b (by omega)
          rw [hrq] at hr; cases hr
        · exact h3 (c7.2 (by omega))
    obtain ⟨g1, g2, g3, g4, g5, g6, g7, g8, -⟩ := runLocal_close { s with sendQ := s.sendQ ++ [some l] } rest
    have hb : CloseBlocks rest := by
      have := c6a h0
      rw [hrq] at this
      simpa [CloseBlocks] using this
    exact hi.frame g1 g2 g3 g4 g5 (by rw [g6]; exact pills_append_some _ _) g7 (.inr ⟨h0, g8 hb⟩)
  | pool tid op effs hT a p pe hns hp he =>
    have hi : CloseInv s := ⟨c1, c2, c3, c4, c5, ⟨c6a, c6b, c6c⟩, c7, c8, c9, c10, c11, c12, c13, c14, c15⟩
    exact hi.frame rfl rfl rfl rfl rfl (pills_append_map_some _ _) rfl (.inl rfl)

/-- **C20 (close on the server model).** In every reachable state: the writer has stopped before the reader goes on to
    shut the pool down; the socket is closed, and the reader leaves its loop, only when `close()` has completed. -/
theorem mreach_closeInv {cfg : SrvCfg} {n : Nat} {s : MState} {log : List String} (h : MReach cfg n s log) :
    CloseInv s := by
  induction h with
  | init => exact closeInv_init cfg n
  | step _ hs ih => exact closeInv_step ih hs

/-! ### the pool at the end of `close()` -/

/-- a pool step other than a submission moves a task that is at the head of the work queue or active. -/
theorem pstep_needs_work {p p' : PState} {a : PAct} {pe : List PEff} (h : pstep p a = some (p', pe))
    (hns : ∀ r m ar, a ≠ .submit r m ar) :
    ∃ k t, p.tasks[k]? = some t ∧ ((t.pc = .inPool ∧ p.workQ.head? = some k) ∨ pcActive t.pc = true) := by
  cases a with
  | submit rid m args => exact absurd rfl (hns rid m args)
  | start k =>
    simp only [pstep] at h
    split at h
    · next t ht =>
      split at h
      · next hp =>
        split at h
        · next hc => exact ⟨k, t, ht, .inl ⟨hp, hc.1⟩⟩
        · cases h
      · cases h
    · cases h
  | callBegin k =>
    simp only [pstep] at h
    split at h
    · next t ht =>
      split at h
      · next c hp => exact ⟨k, t, ht, .inr (by rw [hp]; rfl)⟩
      · cases h
    · cases h
  | callEnd k o =>
    simp only [pstep] at h
    split at h
    · next t ht =>
      split at h
      · next c hp => exact ⟨k, t, ht, .inr (by rw [hp]; rfl)⟩
      · cases h
    · cases h
  | put k =>
    simp only [pstep] at h
    split at h
    · next t ht =>
      split at h
      · next c hp => exact ⟨k, t, ht, .inr (by rw [hp]; rfl)⟩
      · cases h
    · cases h

/-- an idle pool (nothing queued, nothing running) stays idle until the next submission. -/
theorem pool_idle_stuck {p p' : PState} {a : PAct} {pe : List PEff} (inv : PInv p) (hr : p.running = 0)
    (hq : p.workQ = []) (h : pstep p a = some (p', pe)) (hns : ∀ r m ar, a ≠ .submit r m ar) : False := by
  obtain ⟨k, t, ht, hh | hh⟩ := pstep_needs_work h hns
  · rw [hq] at hh; simp at hh
  · have := filter_length_pos_of_getElem? (fun t => pcActive t.pc) p.tasks k t ht hh
    have := inv.running
    omega

/-- in an idle pool every task is done. -/
theorem pool_idle_done {p : PState} (inv : PInv p) (hr : p.running = 0) (hq : p.workQ = []) :
    ∀ t ∈ p.tasks, pcDone t.pc = true := by
  intro t ht
  obtain ⟨k, hk⟩ := List.mem_iff_getElem?.mp ht
  have hklt : k < p.tasks.length := (List.getElem?_eq_some_iff.mp hk).1
  have hact : pcActive t.pc = false := by
    cases hh : pcActive t.pc with
    | false => rfl
    | true =>
      have := filter_length_pos_of_getElem? (fun t => pcActive t.pc) p.tasks k t hk hh
      have := inv.running
      omega
  have hpool : pcInPool t.pc = false := by
    cases hh : pcInPool t.pc with
    | false => rfl
    | true =>
      have h1 := (inv.pool k t hk).mp hh
      have h2 := inv.workQ
      rw [hq] at h2
      have h3 := congrArg List.length h2
      simp at h3
      omega
  cases hp : t.pc <;> simp [hp, pcActive, pcInPool] at hact hpool ⊢
  rfl

/-- the pool is idle when `close()` completes, and nothing is submitted afterwards: **every accepted task finished**. -/
theorem mreach_closed_pool_idle {cfg : SrvCfg} {n : Nat} {s : MState} {log : List String} (h : MReach cfg n s log)
    (hc : s.cpc = 3) : s.pool.running = 0 ∧ s.pool.workQ = [] := by
  induction h with
  | init => simp [MInit] at hc
  | @step s s' log env tid op effs hr hs ih =>
    have inv := mreach_closeInv hr
    have pinv := mreach_pinv hr
    cases mstep_kind hs with
    | deliver | endOfInput | mStart | mPut | rStart | wStart | wGet | wPill | wSend | rFail | wFail => exact ih hc
    | rRecv h2 h3 h4 hrq c rest hin =>
      have g1 := (runLocal_close (recvState s env c rest) (recvActs s env c)).1
      rw [hc] at g1
      exact absurd (inv.rEnded.2 g1.symm) h3
    | rPut h2 h3 h4 l rest hrq =>
      have g1 := (runLocal_close { s with sendQ := s.sendQ ++ [some l] } rest).1
      rw [hc] at g1
      exact absurd (inv.rEnded.2 g1.symm) h3
    | rQuit => simp at hc
    | rJoin => simp at hc
    | rPoolWait h2 h3 h4 rest hrq hc' hr' hq' => exact ⟨hr', hq'⟩
    | pool tid op effs hT a p pe hns hp he =>
      obtain ⟨i1, i2⟩ := ih hc
      exact (pool_idle_stuck pinv i1 i2 hp hns).elim

/-- **C20: a completed `close()`.** Writer ended (stopped by the pill, or dead on a failed write), every accepted task
    finished, socket closed, reader gone. -/
theorem c20s_closed {cfg : SrvCfg} {n : Nat} {s : MState} {log : List String} (h : MReach cfg n s log)
    (hc : s.cpc = 3) :
    (s.wthr = 3 ∨ s.wthr = 4) ∧ s.rthr = 3 ∧ s.sockClosed = true ∧ s.pool.running = 0 ∧ s.pool.workQ = [] ∧
    (∀ t ∈ s.pool.tasks, t.pc.isDone = true) := by
  have inv := mreach_closeInv h
  obtain ⟨i1, i2⟩ := mreach_closed_pool_idle h hc
  refine ⟨inv.joined (by omega), inv.rEnded.2 hc, inv.sock.2 hc, i1, i2, ?_⟩
  rw [PPc.isDone_eq]
  exact pool_idle_done (mreach_pinv h) i1 i2

/-- **C20: everything enqueued before the stop pill is written before the writer stops**: when the writer has stopped,
    nothing is left in its hands, and what remains queued was enqueued after `close()` began. -/
theorem c20s_writer_flushed {cfg : SrvCfg} {n : Nat} {s : MState} {log : List String} (h : MReach cfg n s log)
    (hw : s.wthr = 3) : s.wsend = none ∧ s.written <+: log :=
  ⟨(mreach_closeInv h).wFlushed hw, mreach_written_prefix h⟩

/-- **C20: `close()` notifies no handler.** The steps of `close()` itself (stop pill, join, pool wait + socket close) carry
    no exception-handler effect. -/
theorem mstep_close_no_handler {s s' : MState} {env : InitEnv} {op : MOp} {effs : List MEff}
    (h : mstep s env "R" op = some (s', effs))
    (hop : (op = .put ∧ ∃ rest, s.rq = .quit :: rest) ∨ op = .join ∨ op = .poolWait) :
    MEff.handlerExc ∉ effs := by
  generalize hR : "R" = tid at h
  cases mstep_kind h with
  | deliver | endOfInput | mStart | mPut | wStart | wGet | wPill | wSend | wFail => simp at hR
  | rStart => simp at hop
  | rRecv => simp at hop
  | rFail => simp at hop
  | rPut h2 h3 h4 l rest hrq =>
    rcases hop with ⟨-, r, hr⟩ | hop | hop
    · rw [hrq] at hr; cases hr
    · cases hop
    · cases hop
  | rQuit => simp
  | rJoin => simp
  | rPoolWait => simp
  | pool tid op effs hT => exact absurd hR.symm hT.2.2.1

/-! ### progress of `close()` -/

/-- the name of pool thread `k` (0-based) as the co-simulation writes it. -/
def tname (k : Nat) : String := "T" ++ toString (k + 1)

theorem tname_drop (k : Nat) : ((tname k).drop 1).toString.toNat? = some (k + 1) := by
  have : ((tname k).drop 1).toString = toString (k + 1) := by
    apply String.toList_injective
    simp [tname, String.toList_copy_drop]
  rw [this]
  exact Nat.toNat?_repr (k + 1)

theorem tname_ne (k : Nat) : tname k ≠ "P" ∧ tname k ≠ "M" ∧ tname k ≠ "R" ∧ tname k ≠ "W" := by
  refine ⟨?_, ?_, ?_, ?_⟩ <;>
    (intro h
     have := congrArg String.toList h
     simp [tname] at this)

theorem tname_startsWith (k : Nat) : (tname k).startsWith "T" = true := by
  simp [tname]

/-- a step of pool thread `k` is the corresponding pool-machine step. -/
theorem mstep_tname (s : MState) (env : InitEnv) (k : Nat) (hx : s.exited = false) :
    mstep s env (tname k) .taskStart = liftPool s (pstep s.pool (.start k)) ∧
    mstep s env (tname k) .adapterBegin = liftPool s (pstep s.pool (.callBegin k)) ∧
    mstep s env (tname k) .put = liftPool s (pstep s.pool (.put k)) := by
  obtain ⟨h1, h2, h3, h4⟩ := tname_ne k
  refine ⟨?_, ?_, ?_⟩ <;>
    simp only [mstep, hx, Bool.false_eq_true, h1, h2, h3, h4, if_false, tname_startsWith, if_true, tname_drop,
      Nat.add_sub_cancel]

theorem liftPool_isSome (s : MState) (r : Option (PState × List PEff)) (h : r.isSome = true) :
    (liftPool s r).isSome = true := by
  rw [liftPool_eq]
  cases r with
  | none => simp at h
  | some x => rfl

/-- **C20: `close()` gets through** — while it is under way some library step is enabled, unless a pool task is inside an
    adapter call (the adapter decides when to return).  (The pool has at least one worker: `c18_size_pos`.) -/
theorem c20s_close_progress {cfg : SrvCfg} {n : Nat} {s : MState} {log : List String} (h : MReach cfg n s log)
    (hn : 1 ≤ n) (hc : s.cpc = 1 ∨ s.cpc = 2) (hx : s.exited = false) (env : InitEnv) :
    (∃ tid op, (mstep s env tid op).isSome ∧ (tid = "R" ∨ tid = "W" ∨ tid.startsWith "T" = true)) ∨
    (∃ (k : Nat) (t : PTask) (c : Call), s.pool.tasks[k]? = some t ∧ t.pc = .inCall c) := by
  have inv := mreach_closeInv h
  have pinv := mreach_pinv h
  obtain ⟨rest, hrq⟩ := inv.rqShape.2.1 hc
  have hr2 : 2 ≤ s.rthr := inv.cStarted (by omega)
  have hr3 : s.rthr ≠ 3 := fun h3 => by have := inv.rEnded.1 h3; omega
  have hr4 : s.rthr ≠ 4 := fun h4 => by have := inv.rDied h4; omega
  have hr1 : ¬ s.rthr = 1 := by omega
  have hr0 : ¬ (s.rthr = 0 ∨ s.rthr = 3 ∨ s.rthr = 4) := by omega
  rcases hc with hc | hc
  · -- the reader is joining the writer
    rcases inv.wExists (by omega) with hw | hw | hw | hw
    · exact .inl ⟨"W", .threadStart, by simp [mstep, hx, hw], .inr (.inl rfl)⟩
    · cases hws : s.wsend with
      | some m => exact .inl ⟨"W", .send, by simp [mstep, hx, hw, hws], .inr (.inl rfl)⟩
      | none =>
        have hp := inv.pill
        rw [if_pos ⟨by omega, by omega⟩] at hp
        cases hq : s.sendQ with
        | nil => rw [hq] at hp; simp at hp
        | cons c q => exact .inl ⟨"W", .get, by cases c <;> simp [mstep, hx, hw, hws, hq], .inr (.inl rfl)⟩
    · exact .inl ⟨"R", .join, by simp [mstep, hx, hr1, hr0, hrq, hc, hw], .inl rfl⟩
    · exact .inl ⟨"R", .join, by simp [mstep, hx, hr1, hr0, hrq, hc, hw], .inl rfl⟩
  · -- the reader waits for the pool
    by_cases hidle : s.pool.running = 0 ∧ s.pool.workQ = []
    · exact .inl ⟨"R", .poolWait, by simp [mstep, hx, hr1, hr0, hrq, hc, hidle.1, hidle.2], .inl rfl⟩
    · by_cases hrun : s.pool.running = 0
      · -- nothing running, something queued: a free worker takes it
        have hq : s.pool.workQ ≠ [] := fun h => hidle ⟨hrun, h⟩
        obtain ⟨k, hk⟩ : ∃ k, s.pool.workQ.head? = some k := by
          cases hw : s.pool.workQ with
          | nil => exact absurd hw hq
          | cons k q => exact ⟨k, rfl⟩
        have hk' := hk
        rw [pinv.workQ] at hk'
        obtain ⟨hk1, hk2⟩ := head?_drop_range hk'
        have hk3 : k < s.pool.tasks.length := by omega
        obtain ⟨t, ht⟩ : ∃ t, s.pool.tasks[k]? = some t := ⟨s.pool.tasks[k], List.getElem?_eq_getElem hk3⟩
        have hpc : t.pc = .inPool := by
          have := (pinv.pool k t ht).2 (by omega)
          cases hp : t.pc <;> simp [hp, pcInPool] at this ⊢
        obtain ⟨acts, hacts⟩ := mreach_pool h
        have hnn : s.pool.n = n := prun_n acts _ _ hacts
        refine .inl ⟨tname k, .taskStart, ?_, .inr (.inr (tname_startsWith k))⟩
        rw [(mstep_tname s env k hx).1]
        apply liftPool_isSome
        simp only [pstep, ht, hpc, hk]
        rw [if_pos ⟨trivial, by omega⟩]
        rfl
      · -- some task is running
        have hpos : 0 < (s.pool.tasks.filter (fun t => pcActive t.pc)).length := by
          have := pinv.running; omega
        obtain ⟨t, htm⟩ := List.exists_mem_of_length_pos hpos
        obtain ⟨htm, hact⟩ := List.mem_filter.1 htm
        obtain ⟨k, ht⟩ := List.mem_iff_getElem?.mp htm
        cases hp : t.pc with
        | inPool => simp [hp, pcActive] at hact
        | done => simp [hp, pcActive] at hact
        | inCall c => exact .inr ⟨k, t, c, ht, hp⟩
        | callBegin c =>
          refine .inl ⟨tname k, .adapterBegin, ?_, .inr (.inr (tname_startsWith k))⟩
          rw [(mstep_tname s env k hx).2.1]
          apply liftPool_isSome
          simp [pstep, ht, hp]
        | put line =>
          refine .inl ⟨tname k, .put, ?_, .inr (.inr (tname_startsWith k))⟩
          rw [(mstep_tname s env k hx).2.2]
          apply liftPool_isSome
          simp [pstep, ht, hp]

end Ari.Conc
