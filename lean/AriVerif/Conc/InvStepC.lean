import AriVerif.Conc.InvTac
/-
  Conc/InvStepC.lean — preservation of `Inv` by `put` (enqueue of a line by the looping instance).
-/
namespace Ari.Conc
open Ari
set_option linter.unusedSimpArgs false

/-- the reply of a SUB (success, failure or "too late"): the task is finished. -/
theorem inv_put_loop {s : IState} {k : Nat} {t : Task} {line : String} (h : Inv s) (hk : k < s.ninst)
    (hpc : (s.insts k).pc = .put t line .atLoop) (hwf : WF s.arr) :
    Inv (finish (replied (setInst s k { s.insts k with pc := .atLoop }) t) t) := by
  obtain ⟨hact, hloop, hcur⟩ := h.loopCur hk (by rw [hpc]; rfl)
  obtain ⟨harr, hnid, hnfin, hmem⟩ := h.heldFacts hwf hcur (by rw [hpc]; rfl)
  have hwfk := h.pcWf k hk
  have hdeq := h.heldDeq k hk (by rw [hpc]; rfl) (by rw [hpc]; rfl)
  inv_refine
  case counter =>
    intro g hg
    have := h.counter g hg
    rw [decOf_eq] at this ⊢
    simp only [setInst, finish, replied] at this ⊢
    rw [sumDec_same _ _ _ _ _ (by simp [decI, hpc])]
    inv_auto
  case outBetween =>
    have hc := h.outReply k hcur t line hpc
    inv_close [hact, hloop, hpc]
  case codeExec =>
    have hc := h.codeReply k hcur t line hpc
    inv_close [hact, hloop, hpc]
  case replNodup =>
    have hc := h.replNodup
    have hni : t.id ∉ s.repl := by
      intro hm
      rcases h.replOnly _ hm with hf | ⟨k', t', hk', hp, _⟩
      · exact hnid hf
      · rw [hcur] at hk'; cases hk'; rw [hpc] at hp; cases hp
    simp only [replied, finish, setInst]
    rw [List.nodup_append]
    simp [hc, hni]
    intro a ha hh; exact hni (hh ▸ ha)
  all_goals inv_default [hact, hloop, hpc]

/-- the reply of a USB: `clearCode` follows. -/
theorem inv_put_clear {s : IState} {k : Nat} {t : Task} {line : String} (h : Inv s) (hk : k < s.ninst)
    (hpc : (s.insts k).pc = .put t line (.clearCode t)) (hwf : WF s.arr) :
    Inv (replied (setInst s k { s.insts k with pc := .clearCode t }) t) := by
  obtain ⟨hact, hloop, hcur⟩ := h.loopCur hk (by rw [hpc]; rfl)
  obtain ⟨harr, hnid, hnfin, hmem⟩ := h.heldFacts hwf hcur (by rw [hpc]; rfl)
  have hwfk := h.pcWf k hk
  have hdeq := h.heldDeq k hk (by rw [hpc]; rfl) (by rw [hpc]; rfl)
  inv_refine
  case counter =>
    intro g hg
    have := h.counter g hg
    rw [decOf_eq] at this ⊢
    simp only [setInst, finish, replied] at this ⊢
    rw [sumDec_same _ _ _ _ _ (by simp [decI, hpc])]
    inv_auto
  case replNodup =>
    have hc := h.replNodup
    have hni : t.id ∉ s.repl := by
      intro hm
      rcases h.replOnly _ hm with hf | ⟨k', t', hk', hp, _⟩
      · exact hnid hf
      · rw [hcur] at hk'; cases hk'; rw [hpc] at hp; cases hp
    simp only [replied, finish, setInst]
    rw [List.nodup_append]
    simp [hc, hni]
    intro a ha hh; exact hni (hh ▸ ha)
  all_goals inv_default [hact, hloop, hpc]

/-- the library's end-of-snapshot line: `subscribe` follows. -/
theorem inv_put_eos {s : IState} {k : Nat} {t : Task} {line : String} (h : Inv s) (hk : k < s.ninst)
    (hpc : (s.insts k).pc = .put t line (.callBegin .sub t)) (hwf : WF s.arr) :
    Inv (setInst s k { s.insts k with pc := .callBegin .sub t }) := by
  obtain ⟨hact, hloop, hcur⟩ := h.loopCur hk (by rw [hpc]; rfl)
  obtain ⟨harr, hnid, hnfin, hmem⟩ := h.heldFacts hwf hcur (by rw [hpc]; rfl)
  have hwfk := h.pcWf k hk
  have hdeq := h.heldDeq k hk (by rw [hpc]; rfl) (by rw [hpc]; rfl)
  inv_refine
  case counter =>
    intro g hg
    have := h.counter g hg
    rw [decOf_eq] at this ⊢
    simp only [setInst, finish, replied] at this ⊢
    rw [sumDec_same _ _ _ _ _ (by simp [decI, hpc])]
    inv_auto
  all_goals inv_default [hact, hloop, hpc]

end Ari.Conc
