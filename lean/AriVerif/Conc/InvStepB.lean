import AriVerif.Conc.InvTac
/-
  Conc/InvStepB.lean — preservation of `Inv` by setCode and clearCode.
-/
namespace Ari.Conc
open Ari

theorem inv_setCode {s : IState} {k : Nat} {t : Task} (h : Inv s) (hk : k < s.ninst)
    (hpc : (s.insts k).pc = .setCode t) (hwf : WF s.arr) :
    Inv { setInst (setMgr s (s.insts k).gen { s.mgrs (s.insts k).gen with code := some t.id }) k
            { s.insts k with pc := .callBegin .snap t } with
          execd := s.execd ++ [t.id], cleared := false } := by
  obtain ⟨hact, hloop, hcur⟩ := h.loopCur hk (by rw [hpc]; rfl)
  obtain ⟨harr, hnid, hnfin, hmem⟩ := h.heldFacts hwf hcur (by rw [hpc]; rfl)
  have hnl := h.heldNotLate hwf hcur (by rw [hpc]; rfl) (by rw [hpc]; intro l hh; cases hh)
  have hwfk := h.pcWf k hk
  inv_refine
  case counter =>
    intro g hg
    have := h.counter g hg
    rw [decOf_eq] at this ⊢
    simp only [setInst, setMgr] at this ⊢
    rw [sumDec_same _ _ _ _ _ (by simp [decI, hpc])]
    inv_auto
  case codeLast =>
    have hc := h.codeLast; have hd := h.dead
    inv_close [hact, hloop, hpc]
  all_goals inv_default [hact, hloop, hpc]

theorem inv_clearCode {s : IState} {k : Nat} {t : Task} (h : Inv s) (hk : k < s.ninst)
    (hpc : (s.insts k).pc = .clearCode t) (hwf : WF s.arr) :
    Inv (finish { setInst (setMgr s (s.insts k).gen { s.mgrs (s.insts k).gen with code := none }) k
            { s.insts k with pc := .atLoop } with cleared := true } t) := by
  obtain ⟨hact, hloop, hcur⟩ := h.loopCur hk (by rw [hpc]; rfl)
  obtain ⟨harr, hnid, hnfin, hmem⟩ := h.heldFacts hwf hcur (by rw [hpc]; rfl)
  have hnl := h.heldNotLate hwf hcur (by rw [hpc]; rfl) (by rw [hpc]; intro l hh; cases hh)
  have hwfk := h.pcWf k hk
  inv_refine
  case counter =>
    intro g hg
    have := h.counter g hg
    rw [decOf_eq] at this ⊢
    simp only [setInst, setMgr, finish] at this ⊢
    rw [sumDec_same _ _ _ _ _ (by simp [decI, hpc])]
    inv_auto
  case registered =>
    have hc := (h.queued_ge (h.genLt k hk)).2 k hloop
    have hd := h.heldDeq k hk (by rw [hpc]; rfl) (by rw [hpc]; rfl)
    inv_simp [hact, hloop, hpc]
    omega
  case replFin =>
    have hc := h.replFin; have h2 := h.replClear k hcur t hpc
    inv_close [hact, hloop, hpc]
  all_goals inv_default [hact, hloop, hpc]

end Ari.Conc
