import AriVerif.Conc.Pool
/-
  Conc/PoolLemmas.lean — the inductive invariant of the worker-pool model (`Conc.Pool`) and the list facts
  it needs.  Used by Props/C04.lean and Props/C18.lean.
-/
namespace Ari.Conc
open Ari

/-! ## general list facts -/

theorem filter_length_set {α : Type} (p : α → Bool) : ∀ (l : List α) (k : Nat) (a b : α), l[k]? = some a →
    ((l.set k b).filter p).length + (if p a then 1 else 0) = (l.filter p).length + (if p b then 1 else 0)
  | [], k, a, b, h => by simp at h
  | x :: l, 0, a, b, h => by
    simp at h; subst h
    simp only [List.set_cons_zero, List.filter_cons]
    cases p x <;> cases p b <;> simp
  | x :: l, k+1, a, b, h => by
    have ih := filter_length_set p l k a b (by simpa using h)
    simp only [List.set_cons_succ, List.filter_cons]
    cases p x <;> simp <;> omega

theorem sum_map_set {α : Type} (f : α → Nat) : ∀ (l : List α) (k : Nat) (a b : α), l[k]? = some a →
    ((l.set k b).map f).sum + f a = (l.map f).sum + f b
  | [], k, a, b, h => by simp at h
  | x :: l, 0, a, b, h => by
    simp at h; subst h
    simp; omega
  | x :: l, k+1, a, b, h => by
    have ih := sum_map_set f l k a b (by simpa using h)
    simp only [List.set_cons_succ, List.map_cons, List.sum_cons]; omega

theorem filter_length_pos_of_getElem? {α : Type} (p : α → Bool) (l : List α) (j : Nat) (b : α)
    (h : l[j]? = some b) (hb : p b = true) : 1 ≤ (l.filter p).length := by
  have hm : b ∈ l.filter p := List.mem_filter.mpr ⟨List.mem_of_getElem? h, hb⟩
  exact List.length_pos_of_mem hm

theorem two_le_filter_length {α : Type} (p : α → Bool) : ∀ (l : List α) (i j : Nat) (a b : α),
    l[i]? = some a → l[j]? = some b → p a = true → p b = true → i ≠ j → 2 ≤ (l.filter p).length
  | [], i, j, a, b, hi, _, _, _, _ => by simp at hi
  | x :: l, 0, 0, a, b, _, _, _, _, hne => absurd rfl hne
  | x :: l, 0, j+1, a, b, hi, hj, ha, hb, _ => by
    simp at hi; subst hi
    have := filter_length_pos_of_getElem? p l j b (by simpa using hj) hb
    simp [ha]; omega
  | x :: l, i+1, 0, a, b, hi, hj, ha, hb, _ => by
    simp at hj; subst hj
    have := filter_length_pos_of_getElem? p l i a (by simpa using hi) ha
    simp [hb]; omega
  | x :: l, i+1, j+1, a, b, hi, hj, ha, hb, hne => by
    have := two_le_filter_length p l i j a b (by simpa using hi) (by simpa using hj) ha hb (by omega)
    simp only [List.filter_cons]
    cases p x <;> simp <;> omega

theorem head?_drop_range {n m k : Nat} (h : ((List.range n).drop m).head? = some k) : k = m ∧ m < n := by
  rw [List.head?_drop, List.getElem?_eq_some_iff] at h
  obtain ⟨hlt, he⟩ := h
  simp at hlt he
  exact ⟨he.symm, hlt⟩

/-! ## the pool model -/

def pcDone : PPc → Bool | .done => true | _ => false
def pcActive : PPc → Bool | .inPool => false | .done => false | _ => true
def pcInPool : PPc → Bool | .inPool => true | _ => false

/-- the per-task part of the invariant. -/
structure TaskOK (t : PTask) : Prop where
  notDone : pcDone t.pc = false → t.replied = 0 ∧ t.notified = 0
  done : pcDone t.pc = true → t.replied + t.notified = 1
  put : ∀ line, t.pc = .put line → ∃ body, taskNext t = .inr (.reply body) ∧ line = t.rid ++ "|" ++ body
  callBegin : ∀ c, t.pc = .callBegin c → taskNext t = .inl c
  inCall : ∀ c, t.pc = .inCall c → taskNext t = .inl c

theorem advance_cases (s : PState) (k : Nat) (t : PTask) :
    (∃ c, taskNext t = .inl c ∧ advance s k t = (setTask s k { t with pc := .callBegin c }, [])) ∨
    (∃ line, taskNext t = .inr (.reply line) ∧
      advance s k t = (setTask s k { t with pc := .put (t.rid ++ "|" ++ line) }, [])) ∨
    ((∀ line, taskNext t ≠ .inr (.reply line)) ∧ (∀ c, taskNext t ≠ .inl c) ∧
      advance s k t = ({ setTask s k { t with pc := .done, notified := t.notified + 1 } with
                          running := s.running - 1 }, [.handlerExc])) := by
  unfold advance
  split
  · next c hc => exact .inl ⟨c, hc, rfl⟩
  · next line hc => exact .inr (.inl ⟨line, hc, rfl⟩)
  · next r hne hr =>
    refine .inr (.inr ⟨?_, ?_, rfl⟩)
    · intro line hl; exact hne line (Sum.inr.inj (hr.symm.trans hl))
    · intro c hc; rw [hr] at hc; cases hc

theorem advance_spec (s : PState) (k : Nat) (t : PTask) :
    ∃ t1, (advance s k t).1.tasks = s.tasks.set k t1 ∧ (advance s k t).1.n = s.n ∧
      (advance s k t).1.workQ = s.workQ ∧ (advance s k t).1.out = s.out ∧
      (advance s k t).1.started = s.started ∧
      (advance s k t).1.running = s.running - (if pcActive t1.pc then 0 else 1) ∧
      (t.replied = 0 → t.notified = 0 → TaskOK t1) ∧ t1.replied = t.replied ∧ pcInPool t1.pc = false := by
  rcases advance_cases s k t with ⟨c, hc, he⟩ | ⟨line, hc, he⟩ | ⟨hnr, hnc, he⟩
  · refine ⟨{ t with pc := .callBegin c }, ?_⟩
    rw [he]
    refine ⟨rfl, rfl, rfl, rfl, rfl, rfl, ?_, rfl, rfl⟩
    intro h0 h1
    constructor
    · intro _; exact ⟨h0, h1⟩
    · intro h; cases h
    · intro l h; cases h
    · intro c' h; cases h; exact hc
    · intro c' h; cases h
  · refine ⟨{ t with pc := .put (t.rid ++ "|" ++ line) }, ?_⟩
    rw [he]
    refine ⟨rfl, rfl, rfl, rfl, rfl, rfl, ?_, rfl, rfl⟩
    intro h0 h1
    constructor
    · intro _; exact ⟨h0, h1⟩
    · intro h; cases h
    · intro l h; cases h; exact ⟨line, hc, rfl⟩
    · intro c' h; cases h
    · intro c' h; cases h
  · refine ⟨{ t with pc := .done, notified := t.notified + 1 }, ?_⟩
    rw [he]
    refine ⟨rfl, rfl, rfl, rfl, rfl, rfl, ?_, rfl, rfl⟩
    intro h0 h1
    constructor
    · intro h; cases h
    · intro _; show t.replied + (t.notified + 1) = 1; omega
    · intro l h; cases h
    · intro c' h; cases h
    · intro c' h; cases h

/-- what any step other than `submit` does, seen from the one task it moves. -/
structure TaskStep (s s' : PState) (k : Nat) (t0 t1 : PTask) : Prop where
  get : s.tasks[k]? = some t0
  tasks : s'.tasks = s.tasks.set k t1
  n : s'.n = s.n
  ok : TaskOK t0 → TaskOK t1
  running : s'.running = s.running + (if pcActive t1.pc then 1 else 0) - (if pcActive t0.pc then 1 else 0)
  bound : s.running ≤ s.n → s'.running ≤ s.n
  out : s'.out.length + t0.replied = s.out.length + t1.replied
  notInPool : pcInPool t1.pc = false
  fifo : (pcInPool t0.pc = true ∧ s.workQ.head? = some k ∧ s'.workQ = s.workQ.tail ∧ s'.started = s.started ++ [k]) ∨
         (pcInPool t0.pc = false ∧ s'.workQ = s.workQ ∧ s'.started = s.started)

theorem pstep_cases (s s' : PState) (a : PAct) (e : List PEff) (h : pstep s a = some (s', e)) :
    (∃ rid m args, a = .submit rid m args ∧
      s' = { s with tasks := s.tasks ++ [{ rid := rid, method := m, args := args }],
                    workQ := s.workQ ++ [s.tasks.length] }) ∨
    (∃ k t0 t1, TaskStep s s' k t0 t1 ∧
      (a = .start k ∨ a = .callBegin k ∨ (∃ o, a = .callEnd k o) ∨ a = .put k)) := by
  cases a with
  | submit rid m args =>
    simp [pstep] at h
    exact .inl ⟨rid, m, args, rfl, h.1.symm⟩
  | start k =>
    right
    simp only [pstep] at h
    split at h
    · next t ht =>
      split at h
      · next hp =>
        split at h
        · next hc =>
          simp only [Option.some.injEq] at h
          obtain ⟨t1, h1, h2, h3, h4, h5, h6, h7, h8, h9⟩ := advance_spec
            { s with workQ := s.workQ.tail, running := s.running + 1, started := s.started ++ [k] } k t
          rw [h] at h1 h2 h3 h4 h5 h6
          simp only at h1 h2 h3 h4 h5 h6
          refine ⟨k, t, t1, ?_, by simp⟩
          constructor
          · exact ht
          · exact h1
          · exact h2
          · intro ok
            have := ok.notDone (by rw [hp]; rfl)
            exact h7 this.1 this.2
          · rw [h6, hp]
            have : pcActive .inPool = false := rfl
            rw [this]; cases pcActive t1.pc <;> simp
          · intro _; rw [h6]; split <;> omega
          · rw [h4, h8]
          · exact h9
          · left; rw [hp]; exact ⟨rfl, hc.1, h3, h5⟩
        · cases h
      · cases h
    · cases h
  | callBegin k =>
    right
    simp only [pstep] at h
    split at h
    · next t ht =>
      split at h
      · next c hp =>
        simp only [Option.some.injEq, Prod.mk.injEq] at h
        obtain ⟨h, -⟩ := h
        subst h
        refine ⟨k, t, { t with pc := .inCall c, calls := t.calls ++ [c] }, ?_, by simp⟩
        constructor
        · exact ht
        · rfl
        · rfl
        · intro ok
          have nd := ok.notDone (by rw [hp]; rfl)
          constructor
          · intro _; exact nd
          · intro h; cases h
          · intro l h; cases h
          · intro c' h; cases h
          · intro c' h; cases h; exact ok.callBegin c hp
        · rw [hp]; show s.running = s.running + 1 - 1; omega
        · intro hb; exact hb
        · rfl
        · rfl
        · right; rw [hp]; exact ⟨rfl, rfl, rfl⟩
      · cases h
    · cases h
  | callEnd k o =>
    right
    simp only [pstep] at h
    split at h
    · next t ht =>
      split at h
      · next c hp =>
        simp only [Option.some.injEq, Prod.mk.injEq] at h
        obtain ⟨h, -⟩ := h
        obtain ⟨t1, h1, h2, h3, h4, h5, h6, h7, h8, h9⟩ := advance_spec s k { t with got := t.got ++ [o] }
        rw [h] at h1 h2 h3 h4 h5 h6
        refine ⟨k, t, t1, ?_, by simp⟩
        constructor
        · exact ht
        · exact h1
        · exact h2
        · intro ok
          have := ok.notDone (by rw [hp]; rfl)
          exact h7 this.1 this.2
        · rw [h6, hp]
          have : pcActive (.inCall c) = true := rfl
          rw [this]; cases pcActive t1.pc <;> simp
        · intro _; rw [h6]; split <;> omega
        · rw [h4, h8]
        · exact h9
        · right; rw [hp]; exact ⟨rfl, h3, h5⟩
      · cases h
    · cases h
  | put k =>
    right
    simp only [pstep] at h
    split at h
    · next t ht =>
      split at h
      · next line hp =>
        simp only [Option.some.injEq, Prod.mk.injEq] at h
        obtain ⟨h, -⟩ := h
        subst h
        refine ⟨k, t, { t with pc := .done, replied := t.replied + 1 }, ?_, by simp⟩
        constructor
        · exact ht
        · rfl
        · rfl
        · intro ok
          have nd := ok.notDone (by rw [hp]; rfl)
          constructor
          · intro h; cases h
          · intro _; show t.replied + 1 + t.notified = 1; omega
          · intro l h; cases h
          · intro c' h; cases h
          · intro c' h; cases h
        · rw [hp]; show s.running - 1 = s.running + 0 - 1; omega
        · intro hb; show s.running - 1 ≤ s.n; omega
        · show (s.out ++ [line]).length + t.replied = s.out.length + (t.replied + 1)
          simp; omega
        · rfl
        · right; rw [hp]; exact ⟨rfl, rfl, rfl⟩
      · cases h
    · cases h

/-! ## the invariant -/

structure PInv (s : PState) : Prop where
  ok : ∀ (k : Nat) (t : PTask), s.tasks[k]? = some t → TaskOK t
  running : s.running = (s.tasks.filter (fun t => pcActive t.pc)).length
  bound : s.running ≤ s.n
  started : s.started = List.range s.started.length
  startedLe : s.started.length ≤ s.tasks.length
  workQ : s.workQ = (List.range s.tasks.length).drop s.started.length
  pool : ∀ (k : Nat) (t : PTask), s.tasks[k]? = some t → (pcInPool t.pc = true ↔ s.started.length ≤ k)
  out : s.out.length = (s.tasks.map (·.replied)).sum

theorem PInv.init (n : Nat) : PInv { n := n } := by
  constructor <;> simp

theorem TaskOK.new (rid m : String) (args : Args) : TaskOK { rid := rid, method := m, args := args } := by
  constructor
  · intro _; exact ⟨rfl, rfl⟩
  · intro h; cases h
  · intro l h; cases h
  · intro c h; cases h
  · intro c h; cases h

theorem PInv.submit {s : PState} (inv : PInv s) (rid m : String) (args : Args) :
    PInv { s with tasks := s.tasks ++ [{ rid := rid, method := m, args := args }],
                  workQ := s.workQ ++ [s.tasks.length] } := by
  constructor
  · intro k t h
    simp only [List.getElem?_append] at h
    split at h
    · exact inv.ok k t h
    · cases hk : k - s.tasks.length with
      | zero => rw [hk] at h; simp at h; subst h; exact TaskOK.new rid m args
      | succ j => rw [hk] at h; simp at h
  · simp [List.filter_append, pcActive, inv.running]
  · exact inv.bound
  · exact inv.started
  · simp; have := inv.startedLe; omega
  · simp only [List.length_append, List.length_singleton, List.range_succ]
    rw [List.drop_append_of_le_length (by simpa using inv.startedLe), ← inv.workQ]
  · intro k t h
    simp only [List.getElem?_append] at h
    split at h
    · exact inv.pool k t h
    · next hlt =>
      cases hk : k - s.tasks.length with
      | zero =>
        rw [hk] at h; simp at h; subst h
        have := inv.startedLe
        simp [pcInPool]; omega
      | succ j => rw [hk] at h; simp at h
  · simp [inv.out]

theorem PInv.taskStep {s s' : PState} {k : Nat} {t0 t1 : PTask} (inv : PInv s) (st : TaskStep s s' k t0 t1) :
    PInv s' := by
  have hklt : k < s.tasks.length := (List.getElem?_eq_some_iff.mp st.get).1
  have hlen : s'.tasks.length = s.tasks.length := by rw [st.tasks, List.length_set]
  -- the three facts about the FIFO, in both cases of `st.fifo`
  have fifo : s'.started = List.range s'.started.length ∧ s'.started.length ≤ s.tasks.length ∧
      s'.workQ = (List.range s.tasks.length).drop s'.started.length ∧
      (∀ (j : Nat) (t : PTask), j ≠ k → s.tasks[j]? = some t → (pcInPool t.pc = true ↔ s'.started.length ≤ j)) ∧
      ¬ s'.started.length ≤ k := by
    have e1 := inv.started
    have e2 := inv.workQ
    have e3 := inv.startedLe
    have e4 := inv.pool
    rcases st.fifo with ⟨hp, hh, hw, hs⟩ | ⟨hp, hw, hs⟩
    · rw [e2] at hh
      obtain ⟨hk, hlt⟩ := head?_drop_range hh
      rw [hw, hs, e2, List.tail_drop]
      simp only [List.length_append, List.length_singleton]
      refine ⟨?_, by omega, trivial, ?_, by omega⟩
      · rw [List.range_succ, ← e1, hk]
      · intro j t hj ht
        rw [e4 j t ht]; omega
    · rw [hw, hs]
      refine ⟨e1, e3, e2, fun j t _ ht => e4 j t ht, ?_⟩
      intro hle
      have := (e4 k t0 st.get).mpr hle
      rw [hp] at this; cases this
  obtain ⟨f1, f2, f3, f4, f5⟩ := fifo
  constructor
  · intro j t h
    rw [st.tasks, List.getElem?_set] at h
    split at h
    · next hjk =>
      cases h
      exact st.ok (inv.ok k t0 st.get)
    · exact inv.ok j t h
  · have := filter_length_set (fun t => pcActive t.pc) s.tasks k t0 t1 st.get
    have r := st.running
    have r0 := inv.running
    rw [st.tasks]
    generalize (if pcActive t1.pc = true then 1 else 0) = a1 at *
    generalize (if pcActive t0.pc = true then 1 else 0) = a0 at *
    omega
  · rw [st.n]; exact st.bound inv.bound
  · exact f1
  · rw [hlen]; exact f2
  · rw [hlen]; exact f3
  · intro j t h
    rw [st.tasks, List.getElem?_set] at h
    split at h
    · next hjk =>
      cases h
      subst hjk
      rw [st.notInPool]
      simp only [Bool.false_eq_true, false_iff]
      exact f5
    · next hjk => exact f4 j t (fun e => hjk e.symm) h
  · have := sum_map_set (·.replied) s.tasks k t0 t1 st.get
    have o := st.out
    have o0 := inv.out
    rw [st.tasks]
    omega

theorem PInv.step {s s' : PState} {a : PAct} {e : List PEff} (inv : PInv s) (h : pstep s a = some (s', e)) :
    PInv s' := by
  rcases pstep_cases s s' a e h with ⟨rid, m, args, -, rfl⟩ | ⟨k, t0, t1, st, -⟩
  · exact inv.submit rid m args
  · exact inv.taskStep st

theorem PInv.run : ∀ (acts : List PAct) (s0 s : PState), PInv s0 → prun s0 acts = some s → PInv s
  | [], s0, s, inv, h => by simp [prun] at h; subst h; exact inv
  | a :: rest, s0, s, inv, h => by
    simp only [prun] at h
    split at h
    · next s' e hs => exact PInv.run rest s' s (inv.step hs) h
    · cases h

theorem PInv.reach {n : Nat} {s : PState} (h : ∃ acts, prun { n := n } acts = some s) : PInv s := by
  obtain ⟨acts, h⟩ := h
  exact PInv.run acts _ s (PInv.init n) h

/-- `n` never changes. -/
theorem prun_n : ∀ (acts : List PAct) (s0 s : PState), prun s0 acts = some s → s.n = s0.n
  | [], s0, s, h => by simp [prun] at h; subst h; rfl
  | a :: rest, s0, s, h => by
    simp only [prun] at h
    split at h
    · next s' e hs =>
      rw [prun_n rest s' s h]
      rcases pstep_cases s0 s' a e hs with ⟨rid, m, args, -, rfl⟩ | ⟨k, t0, t1, st, -⟩
      · rfl
      · exact st.n
    · cases h

end Ari.Conc
