import AriVerif.Conc.AppClose
/-!
  Conc/AppCloseLemmas.lean — the inductive invariant of `Conc/AppClose.lean` and the list lemmas used by `Props/C20A.lean`.
-/
namespace Ari.AppClose

/-- the phase facts of the application thread's pc and the task accounting. -/
structure InvA (s : St) : Prop where
  stop : 1 ≤ s.app → s.stop = true
  wdone : 3 ≤ s.app → s.w = .done
  shut : 4 ≤ s.app → s.poolShut = true
  tasks0 : 5 ≤ s.app → s.tasks = 0
  sock : s.sockClosed = true ↔ 6 ≤ s.app
  acc : s.acc = s.fin + s.tasks
  pill : 2 ≤ s.app → s.w ≠ .done → Msg.pill ∈ s.q

theorem invA_init (hnd : Hnd) (failAt : Option Nat) (closes : Nat) (inbound : List (List Req)) (peerFault : Bool) :
    InvA (init hnd failAt closes inbound peerFault) := by
  constructor <;> simp [init]

theorem invA_app {s s' : St} (h : InvA s) (hs : appStep s = some s') : InvA s' := by
  obtain ⟨h1, h2, h3, h4, h5, h6, h7⟩ := h
  unfold appStep at hs
  split at hs
  · split at hs
    all_goals (try split at hs)
    all_goals (simp at hs)
    all_goals (subst hs; constructor <;> simp only [] <;> grind)
  · simp at hs

theorem invA_rd {s s' : St} (h : InvA s) (hs : rdStep s = some s') : InvA s' := by
  obtain ⟨h1, h2, h3, h4, h5, h6, h7⟩ := h
  unfold rdStep at hs
  split at hs
  all_goals (try split at hs)
  all_goals (try split at hs)
  all_goals (try split at hs)
  all_goals (simp at hs)
  all_goals (subst hs; constructor <;> simp only [recvFail, report, afterReq, put] <;> (repeat' split) <;> grind)

theorem invA_wr {s s' : St} (h : InvA s) (hs : wrStep s = some s') : InvA s' := by
  obtain ⟨h1, h2, h3, h4, h5, h6, h7⟩ := h
  unfold wrStep at hs
  split at hs
  all_goals (try split at hs)
  all_goals (simp at hs)
  all_goals (subst hs; constructor <;> simp only [report] <;> (repeat' split) <;> grind)

theorem invA_put {s : St} (h : InvA s) : InvA (put s) := by
  obtain ⟨h1, h2, h3, h4, h5, h6, h7⟩ := h
  constructor <;> simp only [put] <;> grind

theorem invA_step {s s' : St} {a : Act} (h : InvA s) (hs : step s a = some s') : InvA s' := by
  unfold step at hs
  split at hs
  · simp at hs
  · cases a <;> simp only [] at hs
    · exact invA_app h hs
    · exact invA_rd h hs
    · split at hs
      · simp at hs; subst hs; exact invA_put h
      · simp at hs
    · exact invA_wr h hs
    · split at hs
      · simp at hs; subst hs; exact invA_put h
      · simp at hs
    · split at hs
      · simp at hs; subst hs
        obtain ⟨h1, h2, h3, h4, h5, h6, h7⟩ := h
        constructor <;> simp only [] <;> grind
      · simp at hs

/-- FIFO clause (the statement of `c20a_fifo`). -/
def Fifo (s : St) : Prop :=
  match s.w with
  | .get => s.wrote.map Msg.line ++ s.q = s.enq
  | .send n => s.wrote.map Msg.line ++ Msg.line n :: s.q = s.enq
  | .done => s.wrote.map Msg.line ++ Msg.pill :: s.q = s.enq ∨
      ((∃ n, s.wrote.map Msg.line ++ Msg.line n :: s.q = s.enq) ∧ ∃ rep ∈ s.ioRep, rep.who = .writer)

theorem fifo_mono {s s' : St} (h : Fifo s) (hw : s'.w = s.w) (hwr : s'.wrote = s.wrote)
    (hq : (s'.q = s.q ∧ s'.enq = s.enq) ∨ ∃ x, s'.q = s.q ++ [x] ∧ s'.enq = s.enq ++ [x])
    (hr : ∀ rep ∈ s.ioRep, rep ∈ s'.ioRep) : Fifo s' := by
  unfold Fifo at *
  rw [hw, hwr]
  rcases hq with ⟨h1, h2⟩ | ⟨x, h1, h2⟩
  · rw [h1, h2]
    split <;> simp_all
    rcases h with h | ⟨h, rep, hm, hwho⟩
    · exact Or.inl h
    · exact Or.inr ⟨h, rep, hr rep hm, hwho⟩
  · rw [h1, h2]
    split <;> simp_all
    · rw [← h]; simp
    · rw [← h]; simp
    · rcases h with h | ⟨⟨n, h⟩, rep, hm, hwho⟩
      · left; rw [← h]; simp
      · right; exact ⟨⟨n, by rw [← h]; simp⟩, rep, hr rep hm, hwho⟩

theorem fifo_put {s : St} (h : Fifo s) : Fifo (put s) :=
  fifo_mono h rfl rfl (Or.inr ⟨_, rfl, rfl⟩) (fun _ h => h)

theorem fifo_app {s s' : St} (h : Fifo s) (hs : appStep s = some s') : Fifo s' := by
  unfold appStep at hs
  split at hs
  · split at hs
    all_goals (try split at hs)
    all_goals (simp at hs)
    all_goals (subst hs; refine fifo_mono h rfl rfl ?_ (fun _ h => h); simp)
  · simp at hs

theorem fifo_rd {s s' : St} (h : Fifo s) (hs : rdStep s = some s') : Fifo s' := by
  unfold rdStep at hs
  split at hs
  all_goals (try split at hs)
  all_goals (try split at hs)
  all_goals (try split at hs)
  all_goals (simp at hs)
  all_goals (subst hs; refine fifo_mono h ?_ ?_ ?_ ?_ <;> simp only [recvFail, report, afterReq, put] <;>
    (repeat' split) <;> simp_all)

theorem fifo_wr {s s' : St} (h : Fifo s) (hs : wrStep s = some s') : Fifo s' := by
  unfold wrStep at hs
  unfold Fifo at h
  split at hs
  all_goals (try split at hs)
  all_goals (simp at hs)
  all_goals (subst hs; unfold Fifo; simp only [report]; (repeat' split))
  all_goals simp_all
  all_goals exact Or.inr ⟨_, h⟩

/-- constants, report discipline, exit, exception handler. -/
structure InvC (hnd : Hnd) (failAt : Option Nat) (peerFault : Bool) (s : St) : Prop where
  cH : s.hnd = hnd
  cF : s.failAt = failAt
  cP : s.peerFault = peerFault
  rrep : ∀ rep ∈ s.ioRep, rep.who = .reader → rep.stop = false ∧ rep.sockClosed = false ∧ rep.peerFault = true
  prep : ∀ rep ∈ s.ioRep, rep.peerFault = s.peerFault
  wrep : ∀ rep ∈ s.ioRep, rep.who = .writer → rep.sockClosed = false ∧ s.failAt ≠ none
  rcnt0 : s.r ≠ .done → (s.ioRep.filter (fun r => r.who = .reader)).length = 0
  rcnt : (s.ioRep.filter (fun r => r.who = .reader)).length ≤ 1
  wcnt0 : s.w ≠ .done → (s.ioRep.filter (fun r => r.who = .writer)).length = 0
  wcnt : (s.ioRep.filter (fun r => r.who = .writer)).length ≤ 1
  exit : s.exited = true ↔ (s.ioRep ≠ [] ∧ s.hnd ≠ .no)
  exc1 : s.excRep ≤ 1
  exc : 0 < s.excRep → s.poolShut = true ∧ (s.r = .exc ∨ s.r = .done)

theorem invC_init (hnd : Hnd) (failAt : Option Nat) (closes : Nat) (inbound : List (List Req)) (peerFault : Bool) :
    InvC hnd failAt peerFault (init hnd failAt closes inbound peerFault) := by
  constructor <;> simp [init]

theorem invC_app {hnd failAt peerFault} {s s' : St} (h : InvC hnd failAt peerFault s) (hs : appStep s = some s') :
    InvC hnd failAt peerFault s' := by
  obtain ⟨c1, c2, c3, h1, h2, h3, h4, h5, h6, h7, h8, h9, h10⟩ := h
  unfold appStep at hs
  split at hs
  · split at hs
    all_goals (try split at hs)
    all_goals (simp at hs)
    all_goals (subst hs; constructor <;> simp only [] <;> first | assumption | grind)
  · simp at hs

theorem invC_put {hnd failAt peerFault} {s : St} (h : InvC hnd failAt peerFault s) : InvC hnd failAt peerFault (put s) := by
  obtain ⟨c1, c2, c3, h1, h2, h3, h4, h5, h6, h7, h8, h9, h10⟩ := h
  constructor <;> simp only [put] <;> assumption

theorem invC_rd {hnd failAt peerFault} {s s' : St} (a : InvA s) (h : InvC hnd failAt peerFault s) (hs : rdStep s = some s') :
    InvC hnd failAt peerFault s' := by
  obtain ⟨c1, c2, c3, h1, h2, h3, h4, h5, h6, h7, h8, h9, h10⟩ := h
  obtain ⟨a1, a2, a3, a4, a5, a6, a7⟩ := a
  unfold rdStep at hs
  split at hs
  all_goals (try split at hs)
  all_goals (try split at hs)
  all_goals (try split at hs)
  all_goals (simp at hs)
  all_goals (subst hs; constructor <;> simp only [recvFail, report, afterReq, put] <;> (repeat' split) <;>
    (try simp only [List.filter_append, List.filter_cons, List.filter_nil, List.length_append]) <;> grind)

theorem invC_wr {hnd failAt peerFault} {s s' : St} (a : InvA s) (h : InvC hnd failAt peerFault s) (hs : wrStep s = some s') :
    InvC hnd failAt peerFault s' := by
  obtain ⟨c1, c2, c3, h1, h2, h3, h4, h5, h6, h7, h8, h9, h10⟩ := h
  obtain ⟨a1, a2, a3, a4, a5, a6, a7⟩ := a
  unfold wrStep at hs
  split at hs
  all_goals (try split at hs)
  all_goals (simp at hs)
  all_goals (subst hs; constructor <;> simp only [report] <;> (repeat' split) <;>
    (try simp only [List.filter_append, List.filter_cons, List.filter_nil, List.length_append]) <;> grind)

/-- the inductive invariant. -/
structure Inv (hnd : Hnd) (failAt : Option Nat) (peerFault : Bool) (s : St) : Prop where
  a : InvA s
  c : InvC hnd failAt peerFault s
  fifo : Fifo s

theorem inv_init (hnd : Hnd) (failAt : Option Nat) (closes : Nat) (inbound : List (List Req)) (peerFault : Bool) :
    Inv hnd failAt peerFault (init hnd failAt closes inbound peerFault) :=
  ⟨invA_init .., invC_init .., by simp [Fifo, init]⟩

theorem inv_step {hnd failAt peerFault} {s s' : St} {act : Act} (h : Inv hnd failAt peerFault s)
    (hs : step s act = some s') : Inv hnd failAt peerFault s' := by
  refine ⟨invA_step h.a hs, ?_, ?_⟩
  · unfold step at hs
    split at hs
    · simp at hs
    · cases act <;> simp only [] at hs
      · exact invC_app h.c hs
      · exact invC_rd h.a h.c hs
      · split at hs
        · simp at hs; subst hs; exact invC_put h.c
        · simp at hs
      · exact invC_wr h.a h.c hs
      · split at hs
        · simp at hs; subst hs; exact invC_put h.c
        · simp at hs
      · split at hs
        · simp at hs; subst hs
          obtain ⟨c1, c2, c3, h1, h2, h3, h4, h5, h6, h7, h8, h9, h10⟩ := h.c
          constructor <;> simp only [] <;> assumption
        · simp at hs
  · unfold step at hs
    split at hs
    · simp at hs
    · cases act <;> simp only [] at hs
      · exact fifo_app h.fifo hs
      · exact fifo_rd h.fifo hs
      · split at hs
        · simp at hs; subst hs; exact fifo_put h.fifo
        · simp at hs
      · exact fifo_wr h.fifo hs
      · split at hs
        · simp at hs; subst hs; exact fifo_put h.fifo
        · simp at hs
      · split at hs
        · simp at hs; subst hs
          exact fifo_mono h.fifo rfl rfl (Or.inl ⟨rfl, rfl⟩) (fun _ h => h)
        · simp at hs

theorem inv_reach {hnd failAt closes inbound peerFault} {s : St}
    (h : Reach (init hnd failAt closes inbound peerFault) s) : Inv hnd failAt peerFault s := by
  induction h with
  | refl => exact inv_init ..
  | step a _ hs ih => exact inv_step ih hs

theorem step_app_eq {s : St} (hx : s.exited = false) : step s .app = appStep s := by simp [step, hx]
theorem step_rd_eq {s : St} (hx : s.exited = false) : step s .rd = rdStep s := by simp [step, hx]
theorem step_wr_eq {s : St} (hx : s.exited = false) : step s .wr = wrStep s := by simp [step, hx]
theorem step_tfin_eq {s : St} (hx : s.exited = false) :
    step s .tfin = if s.tasks > 0 then some { s with tasks := s.tasks - 1, fin := s.fin + 1 } else none := by
  simp [step, hx]

theorem takeWhile_lines (l : List Nat) (q : List Msg) :
    (l.map Msg.line ++ Msg.pill :: q).takeWhile (fun m => m != Msg.pill) = l.map Msg.line := by
  induction l with
  | nil => simp
  | cons x xs ih => simp [ih]

theorem rep_nil {l : List Rep} (hr : ∀ rep ∈ l, rep.who ≠ .reader) (hw : ∀ rep ∈ l, rep.who ≠ .writer) : l = [] := by
  cases l with
  | nil => rfl
  | cons x xs =>
    have h1 := hr x (by simp)
    have h2 := hw x (by simp)
    cases hx : x.who <;> simp_all

end Ari.AppClose
