import AriVerif.Conc.DataProj
/-
  Conc/DataFifo.lean — the whole-Data-server model of the co-simulation (`Conc/Data.lean`): the send queue is
  FIFO without loss or duplication (written ++ held ++ queued is exactly the log of everything enqueued) — except that
  a failing write loses exactly the one message the writer holds (`gstep_fifo_sendFail`, `greach_pending_lost`) —, the
  credentials message heads that log on every schedule, and every item's outbound sequence (`IState.out`,
  the subject of the per-item theorems C01 / C03 / C16 / C17) is embedded in it in order.
-/
namespace Ari.Conc
open Ari

def ienqs (e : List Eff) : List String :=
  e.filterMap fun x => match x with | .enqueue l => some l | _ => none

def genqs (e : List GEff) : List String :=
  e.filterMap fun x => match x with | .enqueue l => some l | _ => none

/-- the message the writer has taken from the queue and not yet written. -/
def gholding (s : DState) : List String := match s.wpc with | .send m => [m] | _ => []

/-- what the writer has written, holds, or will take, in order (the stop pill is not a message). -/
def gpending (s : DState) : List String := s.written ++ gholding s ++ s.sendQ.filterMap id

/-- reachability of the whole-server model, with the ghost log of every line any thread enqueued so far.
    One hypothesis on the environment: `listener.failure()` is called only once `start()` has enqueued the
    credentials message (`mpc = 2`) — the adapter is handed its listener by `set_listener` while the init request
    is processed, i.e. by the reader thread, which `start()` creates after that enqueue (an application calling
    `failure` on the server object itself during `start()` is outside the adapter interface).  Every other step is
    unconstrained — in particular listener calls (`update`, `end_of_snapshot`, `clear_snapshot`) from arbitrary
    threads at any time, requests readable before `start()`, any pool size. -/
inductive GReachL (n : Nat) (user password : Option String) : DState → List String → Prop
  | init : GReachL n user password { poolN := n, user := user, password := password } []
  | step {s s' : DState} {log : List String} {tid : String} {op : OpClass} {x : String} {effs : List GEff} :
      GReachL n user password s log → gstep s tid op x = some (s', effs) →
      ((∃ msg, op = .failurePut msg) → s.mpc = 2) →
      GReachL n user password s' (log ++ genqs effs)

/-- an item step extends the item's outbound sequence by exactly the lines it enqueues. -/
theorem istep_out_enq (s s' : IState) (a : IAct) (e : List Eff) (h : istep s a = some (s', e)) :
    s'.out = s.out ++ ienqs e := by
  cases a <;> simp only [istep] at h <;> (repeat' split at h) <;>
    first
    | (cases h; done)
    | (simp only [Option.some.injEq, Prod.mk.injEq] at h
       obtain ⟨rfl, rfl⟩ := h
       simp [setInst, setMgr, addLog, addOut, finish, replied, ienqs])

/-- the effect-lifting function folded by `liftItem`. -/
def gliftF (x : String) (acc : DState × List GEff) (e : Eff) : DState × List GEff :=
  match e with
  | .enqueue l => ({ acc.1 with sendQ := acc.1.sendQ ++ [some l] }, acc.2 ++ [.enqueue l])
  | .submit k =>
    let n := acc.1.tasks.length + 1
    ({ acc.1 with tasks := acc.1.tasks ++ [(x, k)], workQ := acc.1.workQ ++ [n] }, acc.2 ++ [.submit n])
  | .adapterBegin m => (acc.1, acc.2 ++ [.adapterBegin m x])
  | .adapterEnd m => (acc.1, acc.2 ++ [.adapterEnd m x])

theorem liftItem_eq (s : DState) (x : String) (a : IAct) :
    liftItem s x a = match istep (getItem s x) a with
      | none => none
      | some (i', effs) => some (effs.foldl (gliftF x) (putItem s x i', [])) := by
  unfold liftItem
  cases istep (getItem s x) a with
  | none => rfl
  | some p => obtain ⟨i', effs⟩ := p; rfl

theorem foldl_gliftF (x : String) (effs : List Eff) (acc : DState × List GEff) :
    (effs.foldl (gliftF x) acc).1.items = acc.1.items ∧
    (effs.foldl (gliftF x) acc).1.sendQ = acc.1.sendQ ++ (ienqs effs).map some ∧
    (effs.foldl (gliftF x) acc).1.written = acc.1.written ∧
    (effs.foldl (gliftF x) acc).1.wpc = acc.1.wpc ∧
    genqs (effs.foldl (gliftF x) acc).2 = genqs acc.2 ++ ienqs effs := by
  induction effs generalizing acc with
  | nil => simp [ienqs]
  | cons e effs ih =>
    rw [List.foldl_cons]
    obtain ⟨h1, h2, h3, h4, h5⟩ := ih (gliftF x acc e)
    rw [h1, h2, h3, h4, h5]
    cases e <;> simp [gliftF, ienqs, genqs]


theorem putItem_frame (s : DState) (x : String) (i : IState) :
    (putItem s x i).sendQ = s.sendQ ∧ (putItem s x i).written = s.written ∧ (putItem s x i).wpc = s.wpc := by
  unfold putItem; split <;> exact ⟨rfl, rfl, rfl⟩

theorem liftItem_char (s : DState) (x : String) (a : IAct) (s' : DState) (ge : List GEff)
    (h : liftItem s x a = some (s', ge)) :
    ∃ i' e, istep (getItem s x) a = some (i', e) ∧ s'.items = (putItem s x i').items ∧
      s'.sendQ = s.sendQ ++ (ienqs e).map some ∧ s'.written = s.written ∧ s'.wpc = s.wpc ∧ genqs ge = ienqs e := by
  rw [liftItem_eq] at h
  cases hi : istep (getItem s x) a with
  | none => rw [hi] at h; cases h
  | some p =>
    obtain ⟨i', e⟩ := p
    rw [hi] at h
    simp only [Option.some.injEq] at h
    obtain ⟨h1, h2, h3, h4, h5⟩ := foldl_gliftF x e (putItem s x i', [])
    obtain ⟨p1, p2, p3⟩ := putItem_frame s x i'
    rw [h] at h1 h2 h3 h4 h5
    simp only [p1, p2, p3] at h2 h3 h4
    exact ⟨i', e, rfl, h1, h2, h3, h4, by simpa [genqs] using h5⟩

theorem filterMap_id_map_some (l : List String) : (l.map some).filterMap id = l := by
  induction l with
  | nil => rfl
  | cons a l ih => simp [ih]

theorem liftItem_gpending (s s₁ : DState) (y : String) (a : IAct) (s' : DState) (e : List GEff)
    (hs : gpending s₁ = gpending s) (h : liftItem s₁ y a = some (s', e)) :
    gpending s' = gpending s ++ genqs e := by
  obtain ⟨i', e', _, _, h2, h3, h4, h5⟩ := liftItem_char _ _ _ _ _ h
  rw [← hs, h5]
  simp only [gpending, gholding, h2, h3, h4, List.append_assoc, List.filterMap_append, filterMap_id_map_some]

theorem markFal_gpending (s : DState) (tid item : String) (kind : LKind) :
    gpending (markFal s tid item kind) = gpending s := by
  unfold markFal; split <;> (try split) <;> rfl

theorem map_liftItem_gpending (s s₁ : DState) (y : String) (a : IAct)
    (f : DState × List GEff → DState × List GEff) (s'' : DState) (e : List GEff)
    (hs : gpending s₁ = gpending s) (hf : ∀ p, gpending (f p).1 = gpending p.1 ∧ (f p).2 = p.2)
    (h : (liftItem s₁ y a).map f = some (s'', e)) :
    gpending s'' = gpending s ++ genqs e := by
  cases hl : liftItem s₁ y a with
  | none => rw [hl] at h; exact absurd h (by simp)
  | some p =>
    obtain ⟨s', e0⟩ := p
    rw [hl] at h
    simp only [Option.map, Option.some.injEq] at h
    have h2 := hf (s', e0)
    rw [h] at h2
    simp only at h2
    rw [h2.1, h2.2]
    exact liftItem_gpending s s₁ y a s' e0 hs hl

/-- a reported I/O failure enqueues nothing. -/
theorem genqs_gioEffects (s : DState) : genqs (gioEffects s) = [] := by
  unfold gioEffects
  cases s.ioHandler with
  | none => rfl
  | some r => cases r <;> rfl

/-- a reported I/O failure carries the handler notification and the exit, nothing else. -/
theorem mem_gioEffects {s : DState} {e : GEff} (h : e ∈ gioEffects s) : e = .ioHandler ∨ e = .exit := by
  unfold gioEffects at h
  cases hh : s.ioHandler with
  | none => rw [hh] at h; simp at h; exact .inr h
  | some r => rw [hh] at h; cases r <;> simp at h <;> grind

/-- a step appends exactly the lines it enqueues, in order, to written ++ held ++ queued — unless it is the failing write,
    which loses exactly the message the writer holds (and enqueues nothing). -/
theorem gstep_fifo_cases {s s' : DState} {tid : String} {op : OpClass} {x : String} {effs : List GEff}
    (h : gstep s tid op x = some (s', effs)) :
    gpending s' = gpending s ++ genqs effs ∨
    (tid = "W" ∧ op = .sendFail ∧ genqs effs = [] ∧ ∃ m, s.wpc = .send m ∧ s'.wpc = .failed ∧
      s'.written = s.written ∧ s'.sendQ = s.sendQ) := by
  have hx := gstep_not_exited h
  unfold gstep at h
  rw [if_neg (by simp [hx])] at h
  repeat' split at h
  all_goals try simp only at h
  all_goals repeat' split at h
  all_goals first
    | contradiction
    | (refine .inl (liftItem_gpending s _ _ _ _ _ ?_ h); first | rfl | exact markFal_gpending _ _ _ _)
    | (refine .inl (map_liftItem_gpending s _ _ _ _ _ _ ?_ ?_ h)
       · rfl
       · intro p; exact ⟨rfl, rfl⟩)
    | (simp only [Option.some.injEq, Prod.mk.injEq] at h; obtain ⟨rfl, rfl⟩ := h
       have hl := (by assumption : liftItem _ _ _ = some _)
       have := liftItem_gpending s s _ _ _ _ rfl hl
       exact .inl this)
    | (simp only [Option.some.injEq, Prod.mk.injEq] at h; obtain ⟨rfl, rfl⟩ := h
       exact .inr ⟨by assumption, rfl, genqs_gioEffects _, _, by assumption, rfl, rfl, rfl⟩)
    | (simp only [Option.some.injEq, Prod.mk.injEq] at h; obtain ⟨rfl, rfl⟩ := h
       left; rw [genqs_gioEffects]; simp [gpending, gholding, gioReport]; done)
    | (simp only [Option.some.injEq, Prod.mk.injEq] at h; obtain ⟨rfl, rfl⟩ := h
       left; simp [gpending, gholding, genqs, *]; done)

/-- **send queue is FIFO, lossless, duplicate-free.** A step — other than a failing write, see `gstep_fifo_sendFail` —
    appends exactly the lines it enqueues, in order, to written ++ held ++ queued; the writer moves lines along without
    reordering. -/
theorem gstep_fifo {s s' : DState} {tid : String} {op : OpClass} {x : String} {effs : List GEff}
    (h : gstep s tid op x = some (s', effs)) (hop : op ≠ .sendFail) : gpending s' = gpending s ++ genqs effs := by
  rcases gstep_fifo_cases h with h | ⟨-, h, -⟩
  · exact h
  · exact absurd h hop

/-- **a failing write loses exactly the message in the writer's hand**, nothing else: what was written and what is queued
    stay as they are (and nothing is enqueued). -/
theorem gstep_fifo_sendFail {s s' : DState} {tid : String} {x : String} {effs : List GEff}
    (h : gstep s tid .sendFail x = some (s', effs)) :
    ∃ m, s.wpc = .send m ∧ gpending s = s.written ++ m :: s.sendQ.filterMap id ∧
      gpending s' = s.written ++ s.sendQ.filterMap id ∧ genqs effs = [] := by
  have hx := gstep_not_exited h
  unfold gstep at h
  rw [if_neg (by simp [hx])] at h
  repeat' split at h
  all_goals try simp only at h
  all_goals repeat' split at h
  all_goals first
    | contradiction
    | (simp only [Option.some.injEq, Prod.mk.injEq] at h
       obtain ⟨rfl, rfl⟩ := h
       exact ⟨_, by assumption, by simp [gpending, gholding, *], by simp [gpending, gholding, gioReport],
         genqs_gioEffects _⟩)

theorem liftItem_item_out (s s₁ : DState) (x : String) (a : IAct) (s' : DState) (e : List GEff)
    (hs : s₁.items = s.items) (h : liftItem s₁ x a = some (s', e)) (y : String) :
    (getItem s' y).out = (getItem s y).out ∨ (getItem s' y).out = (getItem s y).out ++ genqs e := by
  obtain ⟨i', e', hi, hit, _, _, _, h5⟩ := liftItem_char _ _ _ _ _ h
  rw [getItem_congr hs] at hi
  by_cases hxy : y = x
  · subst hxy
    right
    rw [getItem_congr hit, getItem_putItem_same, h5]
    exact istep_out_enq _ _ _ _ hi
  · left
    rw [getItem_congr hit, getItem_putItem_other _ _ _ _ hxy, getItem_congr hs]

theorem liftItem_item_out' (s s₁ : DState) (x : String) (a : IAct) (s' s'' : DState) (e : List GEff)
    (hs : s₁.items = s.items) (h : liftItem s₁ x a = some (s', e)) (hs' : s''.items = s'.items) (y : String) :
    (getItem s'' y).out = (getItem s y).out ∨ (getItem s'' y).out = (getItem s y).out ++ genqs e := by
  rw [getItem_congr hs']; exact liftItem_item_out s s₁ x a s' e hs h y

theorem map_liftItem_item_out (s s₁ : DState) (x : String) (a : IAct)
    (f : DState × List GEff → DState × List GEff) (s'' : DState) (e : List GEff)
    (hs : s₁.items = s.items) (hf : ∀ p, (f p).1.items = p.1.items ∧ (f p).2 = p.2)
    (h : (liftItem s₁ x a).map f = some (s'', e)) (y : String) :
    (getItem s'' y).out = (getItem s y).out ∨ (getItem s'' y).out = (getItem s y).out ++ genqs e := by
  cases hl : liftItem s₁ x a with
  | none => rw [hl] at h; exact absurd h (by simp)
  | some p =>
    obtain ⟨s', e0⟩ := p
    rw [hl] at h
    simp only [Option.map, Option.some.injEq] at h
    have h2 := hf (s', e0)
    rw [h] at h2
    simp only at h2
    rw [h2.2]
    exact liftItem_item_out' s s₁ x a s' s'' e0 hs hl h2.1 y

/-- a step extends at most the outbound sequences of items by the very lines it enqueues globally. -/
theorem gstep_item_out {s s' : DState} {tid : String} {op : OpClass} {x : String} {effs : List GEff}
    (h : gstep s tid op x = some (s', effs)) (y : String) :
    (getItem s' y).out = (getItem s y).out ∨ (getItem s' y).out = (getItem s y).out ++ genqs effs := by
  have hx := gstep_not_exited h
  unfold gstep at h
  rw [if_neg (by simp [hx])] at h
  repeat' split at h
  all_goals try simp only at h
  all_goals repeat' split at h
  all_goals first
    | contradiction
    | (simp only [Option.some.injEq, Prod.mk.injEq] at h; obtain ⟨rfl, rfl⟩ := h; exact Or.inl rfl)
    | (refine liftItem_item_out s _ _ _ _ _ ?_ h y; first | rfl | exact markFal_items _ _ _ _)
    | (simp only [Option.some.injEq, Prod.mk.injEq] at h; obtain ⟨rfl, rfl⟩ := h
       have hl := (by assumption : liftItem _ _ _ = some _)
       exact liftItem_item_out' s s _ _ _ _ _ rfl hl rfl y)
    | (refine map_liftItem_item_out s _ _ _ _ _ _ ?_ ?_ h y
       · rfl
       · intro p; exact ⟨rfl, rfl⟩)

/-- the writer's variables are the writer's: a step of another thread leaves `written` and `wpc` alone; and a writer that
    has ended (stop pill taken, or dead on a failed write) takes no further step — **its state cannot be reset**. -/
theorem gstep_wframe {s s' : DState} {tid : String} {op : OpClass} {x : String} {effs : List GEff}
    (h : gstep s tid op x = some (s', effs)) :
    (s'.wpc = s.wpc ∧ s'.written = s.written) ∨ (tid = "W" ∧ s.wpc ≠ .failed ∧ s.wpc ≠ .stopped) := by
  have hx := gstep_not_exited h
  unfold gstep at h
  rw [if_neg (by simp [hx])] at h
  repeat' split at h
  all_goals try simp only at h
  all_goals repeat' split at h
  all_goals first
    | contradiction
    | (have hc := liftItem_char _ _ _ _ _ h
       obtain ⟨_, _, _, _, _, h3, h4, _⟩ := hc
       first
         | exact .inl ⟨h4, h3⟩
         | (left; rw [h4, h3]; unfold markFal; split <;> (try split) <;> exact ⟨rfl, rfl⟩))
    | (simp only [Option.some.injEq, Prod.mk.injEq] at h; obtain ⟨rfl, rfl⟩ := h
       first
         | exact .inl ⟨rfl, rfl⟩
         | (have hl := (by assumption : liftItem _ _ _ = some _)
            obtain ⟨_, _, _, _, _, h3, h4, _⟩ := liftItem_char _ _ _ _ _ hl
            exact .inl ⟨h4, h3⟩)
         | (right; refine ⟨by assumption, ?_, ?_⟩ <;> (intro hh; simp_all; done)))
    | (cases hl : liftItem s _ _ with
       | none => rw [hl] at h; cases h
       | some r =>
         obtain ⟨s1, e1⟩ := r
         rw [hl] at h
         simp only [Option.map, Option.some.injEq, Prod.mk.injEq] at h
         obtain ⟨rfl, rfl⟩ := h
         obtain ⟨_, _, _, _, _, h3, h4, _⟩ := liftItem_char _ _ _ _ _ hl
         exact .inl ⟨h4, h3⟩)

/-- **the send queue neither duplicates nor reorders, and loses at most the one message a failed write had in hand**: if
    the log of everything enqueued so far is written ++ lost ++ held ++ queued, where `lost` is empty unless a write has
    failed (`wpc = .failed`) and then has at most one element, then so it is after a step. -/
theorem gstep_pending_lost {s s' : DState} {tid : String} {op : OpClass} {x : String} {effs : List GEff} {log : List String}
    (hs : gstep s tid op x = some (s', effs))
    (ih : ∃ lost : List String, lost.length ≤ 1 ∧ (s.wpc ≠ .failed → lost = []) ∧
      log = s.written ++ lost ++ gholding s ++ s.sendQ.filterMap id) :
    ∃ lost : List String, lost.length ≤ 1 ∧ (s'.wpc ≠ .failed → lost = []) ∧
      log ++ genqs effs = s'.written ++ lost ++ gholding s' ++ s'.sendQ.filterMap id := by
  obtain ⟨lost, hl, hne, hlog⟩ := ih
  rcases gstep_fifo_cases hs with hp | ⟨hW, hop, he, m, hm1, hm2, hwr, hq⟩
  · by_cases hw4 : s.wpc = .failed
    · -- the writer is dead: the other threads only append to the queue
      rcases gstep_wframe hs with ⟨hw, hwr⟩ | ⟨-, h, -⟩
      · have hw' : s'.wpc = .failed := by rw [hw]; exact hw4
        refine ⟨lost, hl, fun h => absurd hw' h, ?_⟩
        have hq : s'.sendQ.filterMap id = s.sendQ.filterMap id ++ genqs effs := by
          simp only [gpending, gholding, hw', hw4, hwr, List.append_nil, List.append_assoc] at hp
          exact List.append_cancel_left hp
        rw [hlog, hwr, hq]
        simp [gholding, hw', hw4]
      · exact absurd hw4 h
    · have := hne hw4
      subst this
      refine ⟨[], by simp, fun _ => rfl, ?_⟩
      have : gpending s = log := by rw [hlog]; simp [gpending]
      rw [← this, ← hp]
      simp [gpending]
  · -- the failing write
    have hw4 : s.wpc ≠ .failed := by rw [hm1]; simp
    have := hne hw4
    subst this
    refine ⟨[m], by simp, fun h => absurd hm2 h, ?_⟩
    rw [hlog, he, hwr, hq]
    simp [gholding, hm1, hm2]

/-- **the send queue neither duplicates nor reorders, and loses at most the one message a failed write had in hand**: the
    log of everything enqueued so far is written ++ lost ++ held ++ queued, where `lost` is empty unless a write has failed
    (`wpc = .failed`), and then has at most one element. -/
theorem greach_pending_lost {n : Nat} {u p : Option String} {s : DState} {log : List String}
    (h : GReachL n u p s log) :
    ∃ lost : List String, lost.length ≤ 1 ∧ (s.wpc ≠ .failed → lost = []) ∧
      log = s.written ++ lost ++ gholding s ++ s.sendQ.filterMap id := by
  induction h with
  | init => exact ⟨[], by simp, fun _ => rfl, rfl⟩
  | step _ hg _ ih => exact gstep_pending_lost hg ih

/-- **written ++ held ++ queued is exactly everything enqueued so far, in enqueue order** as long as no write has failed.
    (After a failed write exactly the message the writer held is missing: `gstep_fifo_sendFail`, `greach_pending_lost`.) -/
theorem greach_pending {n : Nat} {u p : Option String} {s : DState} {log : List String}
    (h : GReachL n u p s log) (hw : s.wpc ≠ .failed) : gpending s = log := by
  obtain ⟨lost, -, hne, hlog⟩ := greach_pending_lost h
  rw [hlog, hne hw]
  simp [gpending]

/-- **what is on the wire is a prefix of what was enqueued** (failed write or not). -/
theorem greach_written_prefix {n : Nat} {u p : Option String} {s : DState} {log : List String}
    (h : GReachL n u p s log) : s.written <+: log := by
  obtain ⟨lost, -, -, hlog⟩ := greach_pending_lost h
  exact ⟨lost ++ gholding s ++ s.sendQ.filterMap id, by rw [hlog]; simp⟩

/-- **every item's replies and notifications go to the wire in the item's own order**: the per-item outbound
    sequence is embedded, in order, in the global enqueue log. -/
theorem greach_item_sublist {n : Nat} {u p : Option String} {s : DState} {log : List String}
    (h : GReachL n u p s log) (y : String) : (getItem s y).out.Sublist log := by
  induction h with
  | init => exact List.nil_sublist _
  | step _ hg _ ih =>
    rcases gstep_item_out hg y with heq | heq
    · rw [heq]; exact ih.trans (List.sublist_append_left _ _)
    · rw [heq]; exact List.Sublist.append ih (List.Sublist.refl _)

/-- an item nobody but adapter-owned threads calling listener methods has touched: no manager is registered
    (so `get_active_item` returns nothing) and no listener call holds a line it has yet to enqueue. -/
def IUntouched (i : IState) : Prop := i.active = none ∧ ∀ e, i.ext e = none

/-- the whole-server state before `start()` has enqueued the credentials message. -/
structure GPre (u p : Option String) (s : DState) : Prop where
  mpc : s.mpc < 2
  user : s.user = u
  password : s.password = p
  rst : s.rst = 0
  tasks : s.tasks = []
  pendFal : s.pendFal = []
  items : ∀ y, IUntouched (getItem s y)

theorem putItem_frame2 (s : DState) (x : String) (i : IState) :
    (putItem s x i).mpc = s.mpc ∧ (putItem s x i).user = s.user ∧ (putItem s x i).password = s.password ∧
    (putItem s x i).rst = s.rst ∧ (putItem s x i).tasks = s.tasks ∧ (putItem s x i).pendFal = s.pendFal := by
  unfold putItem; split <;> exact ⟨rfl, rfl, rfl, rfl, rfl, rfl⟩

theorem GPre.putItem {u p : Option String} {s : DState} (h : GPre u p s) (x : String) (i : IState)
    (hi : IUntouched i) : GPre u p (putItem s x i) := by
  obtain ⟨h1, h2, h3, h4, h5, h6⟩ := putItem_frame2 s x i
  refine ⟨h1 ▸ h.mpc, h2 ▸ h.user, h3 ▸ h.password, h4 ▸ h.rst, h5 ▸ h.tasks, h6 ▸ h.pendFal, ?_⟩
  intro y
  by_cases hxy : y = x
  · subst hxy; rw [getItem_putItem_same]; exact hi
  · rw [getItem_putItem_other _ _ _ _ hxy]; exact h.items y

theorem markFal_untouched {s : DState} {tid item : String} {kind : LKind}
    (h : IUntouched (getItem s item)) : markFal s tid item kind = s := by
  unfold markFal readCode
  rw [h.1]

theorem GPre.lsnRead {u p : Option String} {s s' : DState} (h : GPre u p s) (tid x : String) (e : Nat)
    (kind : LKind) (effs : List GEff)
    (hl : liftItem (markFal s tid x kind) x (.lsnRead (.ext e) kind) = some (s', effs)) :
    GPre u p s' ∧ genqs effs = [] := by
  rw [markFal_untouched (h.items x), liftItem_eq] at hl
  have hu := h.items x
  simp only [istep, readCode, hu.1, hu.2 e, Option.bind] at hl
  simp only [List.foldl_nil, Option.some.injEq, Prod.mk.injEq] at hl
  obtain ⟨rfl, rfl⟩ := hl
  refine ⟨h.putItem x _ ⟨hu.1, ?_⟩, rfl⟩
  intro e'
  show upd _ e none e' = none
  unfold upd
  split
  · rfl
  · exact hu.2 e'

theorem GPre.lsnPut {u p : Option String} {s s' : DState} (h : GPre u p s) (x : String) (e : Nat)
    (effs : List GEff) (hl : liftItem s x (.lsnPut (.ext e)) = some (s', effs)) : False := by
  rw [liftItem_eq] at hl
  have hu := h.items x
  simp only [istep, hu.2 e] at hl
  cases hl


theorem GPre.step {u p : Option String} {s s' : DState} {tid : String} {op : OpClass} {x : String}
    {effs : List GEff} (h : GPre u p s) (hg : gstep s tid op x = some (s', effs))
    (hf : ¬ ∃ msg, op = .failurePut msg) :
    (GPre u p s' ∧ genqs effs = []) ∨ genqs effs = ["1|" ++ writeCredentials u p] := by
  obtain ⟨hmpc, huser, hpw, hrst, htasks, hpend, hitems⟩ := h
  have hx := gstep_not_exited hg
  unfold gstep at hg
  rw [if_neg (by simp [hx])] at hg
  simp only [htasks, List.getElem?_nil] at hg
  repeat' split at hg
  all_goals try simp only at hg
  all_goals repeat' split at hg
  all_goals first
    | contradiction
    | (exfalso; omega)
    | (exfalso; exact hf ⟨_, rfl⟩)
    | (exfalso; exact GPre.lsnPut ⟨hmpc, huser, hpw, hrst, htasks, hpend, hitems⟩ _ _ _ hg)
    | exact Or.inl (GPre.lsnRead ⟨hmpc, huser, hpw, hrst, htasks, hpend, hitems⟩ _ _ _ _ _ hg)
    | (simp only [Option.some.injEq, Prod.mk.injEq] at hg; obtain ⟨rfl, rfl⟩ := hg
       exact Or.inl ⟨⟨by simp only; omega, huser, hpw, hrst, by first | exact htasks | rfl, hpend, hitems⟩, rfl⟩)
    | (simp only [Option.some.injEq, Prod.mk.injEq] at hg; obtain ⟨rfl, rfl⟩ := hg
       exact Or.inl ⟨⟨hmpc, huser, hpw, hrst, by first | exact htasks | rfl, hpend, hitems⟩, genqs_gioEffects _⟩)
    | (simp only [Option.some.injEq, Prod.mk.injEq] at hg; obtain ⟨rfl, rfl⟩ := hg
       right; rw [huser, hpw]; rfl)
    | (exfalso; simp [htasks, hpend] at *; done)


/-- until `start()` has enqueued the credentials message nothing at all has been enqueued; afterwards the
    credentials message heads the log. -/
theorem greach_first_inv {n : Nat} {u p : Option String} {s : DState} {log : List String}
    (h : GReachL n u p s log) :
    (log = [] ∧ GPre u p s) ∨ ∃ rest, log = ("1|" ++ writeCredentials u p) :: rest := by
  induction h with
  | init => exact Or.inl ⟨rfl, ⟨Nat.zero_lt_two, rfl, rfl, rfl, rfl, rfl, fun y => ⟨rfl, fun _ => rfl⟩⟩⟩
  | step _ hg hguard ih =>
    rcases ih with ⟨rfl, hpre⟩ | ⟨rest, rfl⟩
    · have hf : ¬ ∃ msg, _ = OpClass.failurePut msg := fun hex => by
        have h1 := hguard hex
        have h2 := hpre.mpc
        omega
      rcases hpre.step hg hf with ⟨hpre', he⟩ | he
      · exact Or.inl ⟨by rw [he]; rfl, hpre'⟩
      · exact Or.inr ⟨[], by rw [he]; rfl⟩
    · exact Or.inr ⟨rest ++ genqs _, rfl⟩

/-- **C14 on the whole-server model: the credentials message is the first message enqueued**, on every
    schedule, however early requests are readable and whatever application threads do. -/
theorem greach_first {n : Nat} {u p : Option String} {s : DState} {log : List String}
    (h : GReachL n u p s log) :
    ∀ m rest, log = m :: rest → m = "1|" ++ writeCredentials u p := by
  intro m rest hl
  rcases greach_first_inv h with ⟨rfl, _⟩ | ⟨rest', rfl⟩
  · cases hl
  · cases hl; rfl

/-- the item states of a `GReachL` state are reachable in the item machine (as for `GReach`). -/
theorem greachL_items_reach {n : Nat} {u p : Option String} {s : DState} {log : List String}
    (h : GReachL n u p s log) (y : String) : Reach y (getItem s y) := by
  induction h with
  | init => exact ⟨[], rfl⟩
  | step _ hg _ ih =>
    rcases gstep_projects _ _ _ _ _ _ hg y with heq | ⟨a, e', ha⟩
    · rw [heq]; exact ih
    · exact reach_step y _ _ a e' ih ha

end Ari.Conc
