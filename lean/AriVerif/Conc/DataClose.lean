import AriVerif.Conc.SrvGate
import AriVerif.Conc.DataFifo
/-
  Conc/DataClose.lean — `Server.close()` on the whole-Data-server model (`Conc/Data.lean`): the reader, on an honoured close
  request, sets the stop flag and enqueues the stop pill (`cpc = 1`), joins the writer (`cpc = 2`), waits in
  `executor.shutdown()` until no pool task is queued or running, closes the socket and leaves its loop (`cpc = 3`).  C20's
  thread-level clauses for the Data server, for every schedule of reader, writer, pool and application threads, every pool
  size, every adapter outcome and every I/O-handler configuration (`GReachH`).  The failure clauses: Conc/DataFault.lean.
-/
namespace Ari.Conc
open Ari

/-! ### lifting an item step: the exact successor state -/

/-- the instances an item step submits to the pool. -/
def isubs (e : List Eff) : List Nat :=
  e.filterMap fun x => match x with | .submit k => some k | _ => none

/-- effects an item step can have (lifted): no close / failure effect among them. -/
def GEff.isItem : GEff → Bool
  | .enqueue _ => true
  | .submit _ => true
  | .adapterBegin _ _ => true
  | .adapterEnd _ _ => true
  | _ => false

/-- `putItem` replaces the item table, nothing else. -/
theorem putItem_eq (s : DState) (x : String) (i : IState) :
    putItem s x i = { s with items := (putItem s x i).items } := by
  unfold putItem; split <;> rfl

/-- the fold of `liftItem`: lines to the send queue, submissions to the pool; the effects are lifted item effects. -/
theorem foldl_gliftF_spec (x : String) (effs : List Eff) (acc : DState × List GEff) :
    (effs.foldl (gliftF x) acc).1 =
      { acc.1 with sendQ := acc.1.sendQ ++ (ienqs effs).map some,
                   tasks := acc.1.tasks ++ (isubs effs).map (fun k => (x, k)),
                   workQ := acc.1.workQ ++ List.range' (acc.1.tasks.length + 1) (isubs effs).length } ∧
    (∀ g ∈ (effs.foldl (gliftF x) acc).2, g ∈ acc.2 ∨ g.isItem = true) := by
  induction effs generalizing acc with
  | nil => exact ⟨by simp [ienqs, isubs], fun g hg => .inl hg⟩
  | cons e effs ih =>
    rw [List.foldl_cons]
    obtain ⟨h1, h2⟩ := ih (gliftF x acc e)
    rw [h1]
    refine ⟨?_, ?_⟩
    · cases e <;> simp [gliftF, ienqs, isubs, List.range'_succ] <;> omega
    · intro g hg
      rcases h2 g hg with h | h
      · cases e <;> simp [gliftF] at h <;> rcases h with h | h <;> first | exact .inl h | (subst h; exact .inr rfl)
      · exact .inr h

/-- **what lifting an item step does to the server state**: the item is replaced, the lines enqueued go to the send queue,
    the instances submitted become pool tasks (numbered from the current count) at the tail of the work queue; every other
    variable is left alone. -/
theorem liftItem_spec {s : DState} {x : String} {a : IAct} {s' : DState} {ge : List GEff}
    (h : liftItem s x a = some (s', ge)) :
    ∃ i' e, istep (getItem s x) a = some (i', e) ∧
      s' = { s with items := (putItem s x i').items, sendQ := s.sendQ ++ (ienqs e).map some,
                    tasks := s.tasks ++ (isubs e).map (fun k => (x, k)),
                    workQ := s.workQ ++ List.range' (s.tasks.length + 1) (isubs e).length } ∧
      genqs ge = ienqs e ∧ ∀ g ∈ ge, g.isItem = true := by
  rw [liftItem_eq] at h
  cases hi : istep (getItem s x) a with
  | none => rw [hi] at h; cases h
  | some p =>
    obtain ⟨i', e⟩ := p
    rw [hi] at h
    simp only [Option.some.injEq] at h
    obtain ⟨h1, h2⟩ := foldl_gliftF_spec x e (putItem s x i', [])
    obtain ⟨-, -, -, -, h5⟩ := foldl_gliftF x e (putItem s x i', [])
    rw [h] at h1 h2 h5
    refine ⟨i', e, rfl, ?_, by simpa [genqs] using h5, fun g hg => (h2 g hg).resolve_left (by simp)⟩
    simp only at h1
    rw [h1, putItem_eq]

/-! ### the steps of the server model, one constructor per kind of step -/

/-- item actions that neither start nor end a pool task nor create one: the loop body of a dequeuer instance, the reader's
    first lock section, listener calls. -/
def IAct.neutral : IAct → Bool
  | .addTask => false
  | .start _ => false
  | .dec _ => false
  | _ => true

/-- every successful `gstep` is one of these (exact successor state and effects; steps that move an item are described by
    `liftItem`). -/
inductive GStepKind (s : DState) : String → OpClass → DState → List GEff → Prop
  | deliver (c : String) (he : s.inEnd = false) :
      GStepKind s "P" (.deliver c) { s with inbound := s.inbound ++ [c] } []
  | endOfInput : GStepKind s "P" .endOfInput { s with inEnd := true } []
  | mStart (h : s.mpc = 0) : GStepKind s "M" .threadStart { s with mpc := 1, wst := 1 } []
  | mPut (h : s.mpc = 1) (l : String) :
      GStepKind s "M" .put { s with sendQ := s.sendQ ++ [some l], mpc := 2, rst := 1 } [.enqueue l]
  | rStart (h : s.rst = 1) : GStepKind s "R" .threadStart { s with rst := 2 } []
  | rRecv (h1 : s.rst ≠ 1) (h0 : ¬ (s.rst = 0 ∨ s.rst = 3 ∨ s.rst = 4)) (hmid : s.rmid = none) (hrq : s.rq = [])
      (c : String) (rest : List String) (hin : s.inbound = c :: rest) (lines : List String) (b : String)
      (ops : List ROp) (ie : Bool) (hops : lines.foldl (lineF s) ([], s.initExpected) = (ops, ie)) :
      GStepKind s "R" .recv { s with inbound := rest, rbuf := b, rq := ops, initExpected := ie } []
  | rFail (h1 : s.rst ≠ 1) (h0 : ¬ (s.rst = 0 ∨ s.rst = 3 ∨ s.rst = 4)) (hmid : s.rmid = none) (hrq : s.rq = [])
      (hin : s.inbound = []) (he : s.inEnd = true) :
      GStepKind s "R" .recv (gioReport { s with rst := 4 }) (gioEffects s)
  | rPut (h1 : s.rst ≠ 1) (h0 : ¬ (s.rst = 0 ∨ s.rst = 3 ∨ s.rst = 4)) (hmid : s.rmid = none) (l : String)
      (rest : List ROp) (hrq : s.rq = .reply l :: rest) :
      GStepKind s "R" .put { s with rq := rest, sendQ := s.sendQ ++ [some l] } [.enqueue l]
  | rQuit (h1 : s.rst ≠ 1) (h0 : ¬ (s.rst = 0 ∨ s.rst = 3 ∨ s.rst = 4)) (hmid : s.rmid = none) (rest : List ROp)
      (hrq : s.rq = .quit :: rest) :
      GStepKind s "R" .put { s with rq := rest, sendQ := s.sendQ ++ [none], cpc := 1 } [.enqueuePill]
  | rJoin (h1 : s.rst ≠ 1) (h0 : ¬ (s.rst = 0 ∨ s.rst = 3 ∨ s.rst = 4)) (hmid : s.rmid = none) (rest : List ROp)
      (hrq : s.rq = .poolShutdown :: rest) (hc : s.cpc = 1) (hw : s.wpc = .stopped ∨ s.wpc = .failed) :
      GStepKind s "R" .join { s with cpc := 2 } []
  | rPoolWait (h1 : s.rst ≠ 1) (h0 : ¬ (s.rst = 0 ∨ s.rst = 3 ∨ s.rst = 4)) (hmid : s.rmid = none) (rest : List ROp)
      (hrq : s.rq = .poolShutdown :: rest) (hc : s.cpc = 2) (hr : s.running = 0) (hq : s.workQ = []) :
      GStepKind s "R" .poolWait { s with cpc := 3, sockClosed := true, rq := [], rst := 3 } [.sockClose]
  | rLock (h1 : s.rst ≠ 1) (h0 : ¬ (s.rst = 0 ∨ s.rst = 3 ∨ s.rst = 4)) (hmid : s.rmid = none) (x : String) (t : Task)
      (rest : List ROp) (hrq : s.rq = .req x t :: rest) (s1 : DState) (e : List GEff)
      (hl : liftItem s x (.lockMgr t) = some (s1, e)) (m : Option String) (hm : m = some x ∨ m = s1.rmid) :
      GStepKind s "R" .mgrLock { s1 with rq := rest, rmid := m } e
  | rAdd (h1 : s.rst ≠ 1) (h0 : ¬ (s.rst = 0 ∨ s.rst = 3 ∨ s.rst = 4)) (x : String) (hmid : s.rmid = some x)
      (s1 : DState) (e : List GEff) (hl : liftItem s x .addTask = some (s1, e)) :
      GStepKind s "R" .itemLock { s1 with rmid := none } e
  | wStart (h : s.wst = 1) : GStepKind s "W" .threadStart { s with wst := 2 } []
  | wGet (h1 : s.wst ≠ 1) (h0 : s.wst ≠ 0) (b : Bool) (hw : s.wpc = .get) (m : String) (rest : List (Option String))
      (hq : s.sendQ = some m :: rest) : GStepKind s "W" (.get b) { s with sendQ := rest, wpc := .send m } []
  | wPill (h1 : s.wst ≠ 1) (h0 : s.wst ≠ 0) (b : Bool) (hw : s.wpc = .get) (rest : List (Option String))
      (hq : s.sendQ = none :: rest) : GStepKind s "W" (.get b) { s with sendQ := rest, wpc := .stopped } []
  | wSend (h1 : s.wst ≠ 1) (h0 : s.wst ≠ 0) (m : String) (hw : s.wpc = .send m) :
      GStepKind s "W" .send { s with wpc := .get, written := s.written ++ [m] } [.sent (m ++ "\r\n")]
  | wFail (h1 : s.wst ≠ 1) (h0 : s.wst ≠ 0) (m : String) (hw : s.wpc = .send m) :
      GStepKind s "W" .sendFail (gioReport { s with wpc := .failed }) (gioEffects s)
  | failurePut (tid : String) (hT : tid ≠ "P" ∧ tid ≠ "M" ∧ tid ≠ "R" ∧ tid ≠ "W") (msg : String) :
      GStepKind s tid (.failurePut msg) { s with sendQ := s.sendQ ++ [some (writeFailure msg)] }
        [.enqueue (writeFailure msg)]
  | excFailurePut (tid : String) (hT : tid ≠ "P" ∧ tid ≠ "M" ∧ tid ≠ "R" ∧ tid ≠ "W") (msg : String)
      (hp : s.pendFal.contains tid = true) :
      GStepKind s tid (.excFailurePut msg)
        { s with sendQ := s.sendQ ++ [some (writeFailure msg)], pendFal := s.pendFal.erase tid }
        [.enqueue (writeFailure msg)]
  | tStart (tid : String) (hT : tid ≠ "P" ∧ tid ≠ "M" ∧ tid ≠ "R" ∧ tid ≠ "W") (n : Nat) (x : String) (k : Nat)
      (ht : s.tasks[n - 1]? = some (x, k)) (hq : s.workQ.head? = some n) (hrun : s.running < s.poolN) (s' : DState)
      (e : List GEff)
      (hl : liftItem { s with workQ := s.workQ.tail, running := s.running + 1 } x (.start k) = some (s', e)) :
      GStepKind s tid .taskStart s' e
  | tDec (tid : String) (hT : tid ≠ "P" ∧ tid ≠ "M" ∧ tid ≠ "R" ∧ tid ≠ "W") (n : Nat) (x : String) (k : Nat)
      (ht : s.tasks[n - 1]? = some (x, k)) (s1 : DState) (e : List GEff) (hl : liftItem s x (.dec k) = some (s1, e)) :
      GStepKind s tid .mgrLock { s1 with running := s1.running - 1 } e
  | neutral (tid : String) (op : OpClass) (hT : tid ≠ "P" ∧ tid ≠ "M" ∧ tid ≠ "R" ∧ tid ≠ "W") (s0 : DState)
      (hs0 : s0 = s ∨ s0 = { s with pendFal := s.pendFal ++ [tid] }) (y : String) (a : IAct)
      (ha : a.neutral = true) (s' : DState) (e : List GEff) (hl : liftItem s0 y a = some (s', e)) :
      GStepKind s tid op s' e

/-- `markFal` at most records the calling thread in `pendFal`. -/
theorem markFal_cases (s : DState) (tid item : String) (kind : LKind) :
    markFal s tid item kind = s ∨ markFal s tid item kind = { s with pendFal := s.pendFal ++ [tid] } := by
  unfold markFal; split <;> (try split) <;> first | exact .inl rfl | exact .inr rfl

/-- **case analysis of a step of the Data server model.** -/
theorem gstep_kind {s s' : DState} {tid : String} {op : OpClass} {x : String} {effs : List GEff}
    (h : gstep s tid op x = some (s', effs)) : GStepKind s tid op s' effs := by
  have hx := gstep_not_exited h
  unfold gstep at h
  rw [if_neg (by simp [hx])] at h
  repeat' split at h
  all_goals try simp only at h
  all_goals repeat' split at h
  all_goals try contradiction
  all_goals try subst_vars
  all_goals first
    | exact .neutral _ _ ⟨by assumption, by assumption, by assumption, by assumption⟩ _ (.inl rfl) _ _ rfl _ _ h
    | exact .neutral _ _ ⟨by assumption, by assumption, by assumption, by assumption⟩ _ (markFal_cases _ _ _ _) _ _ rfl _ _ h
    | exact .tStart _ ⟨by assumption, by assumption, by assumption, by assumption⟩ _ _ _ (by assumption)
        (by assumption : _ ∧ s.running < s.poolN).1 (by assumption : _ ∧ s.running < s.poolN).2 _ _ h
    | (cases hl : liftItem s _ _ with
       | none => rw [hl] at h; cases h
       | some r =>
         obtain ⟨s1, e1⟩ := r
         rw [hl] at h
         simp only [Option.map, Option.some.injEq, Prod.mk.injEq] at h
         obtain ⟨rfl, rfl⟩ := h
         exact .tDec _ ⟨by assumption, by assumption, by assumption, by assumption⟩ _ _ _ (by assumption) _ _ hl)
    | (simp only [Option.some.injEq, Prod.mk.injEq] at h; obtain ⟨rfl, rfl⟩ := h
       first
         | exact .deliver _ (by simpa using (by assumption : ¬ s.inEnd = true))
         | exact .endOfInput
         | exact .mStart (by assumption)
         | exact .mPut (by assumption) _
         | exact .rStart (by assumption)
         | exact .rFail (by assumption) (by assumption) (by assumption) (by assumption) (by assumption) (by assumption)
         | exact .rRecv (by assumption) (by assumption) (by assumption) (by assumption) _ _ (by assumption) _ _ _ _
             (by assumption)
         | exact .rPut (by assumption) (by assumption) (by assumption) _ _ (by assumption)
         | exact .rQuit (by assumption) (by assumption) (by assumption) _ (by assumption)
         | exact .rJoin (by assumption) (by assumption) (by assumption) _ (by assumption)
             (by assumption : s.cpc = 1 ∧ _).1 (by assumption : s.cpc = 1 ∧ _).2
         | exact .rPoolWait (by assumption) (by assumption) (by assumption) _ (by assumption)
             (by assumption : s.cpc = 2 ∧ _ ∧ _).1 (by assumption : s.cpc = 2 ∧ _ ∧ _).2.1
             (by assumption : s.cpc = 2 ∧ _ ∧ _).2.2
         | exact .rLock (by assumption) (by assumption) (by assumption) _ _ _ (by assumption) _ _ (by assumption) _
             (.inl rfl)
         | exact .rLock (by assumption) (by assumption) (by assumption) _ _ _ (by assumption) _ _ (by assumption) _
             (.inr rfl)
         | exact .rAdd (by assumption) (by assumption) _ (by assumption) _ _ (by assumption)
         | exact .wStart (by assumption)
         | exact .wGet (by assumption) (by assumption) _ (by assumption) _ _ (by assumption)
         | exact .wPill (by assumption) (by assumption) _ (by assumption) _ (by assumption)
         | exact .wSend (by assumption) (by assumption) _ (by assumption)
         | exact .wFail (by assumption) (by assumption) _ (by assumption)
         | exact .failurePut _ ⟨by assumption, by assumption, by assumption, by assumption⟩ _
         | exact .excFailurePut _ ⟨by assumption, by assumption, by assumption, by assumption⟩ _ (by assumption))

/-! ### item steps seen from the pool -/

/-- where a dequeuer instance is with respect to the pool: 0 = submitted, not yet taken by a worker; 1 = running on a
    worker; 2 = finished. -/
def ipcCls : Pc → Nat
  | .inPool => 0
  | .done => 2
  | _ => 1

/-- the continuation of a `put` is inside the loop body (so a `put` never ends the pool task). -/
def pcGood : Pc → Bool
  | .put _ _ .atLoop => true
  | .put _ _ (.clearCode _) => true
  | .put _ _ (.callBegin _ _) => true
  | .put _ _ _ => false
  | _ => true

/-- every dequeuer instance of the item has a well-continued program counter (`pcGood`); holds in every item state the server
    model reaches (`DPoolInv.good`), whatever the request history. -/
def IGood (i : IState) : Prop := ∀ k, pcGood (i.insts k).pc = true

theorem igood_init (x : String) : IGood (IState.init x) := fun _ => rfl

theorem pcGood_put_next {t : Task} {l : String} {next : Pc} (h : pcGood (.put t l next) = true) :
    pcGood next = true ∧ ipcCls next = 1 := by
  cases next <;> simp [pcGood, ipcCls] at h ⊢

/-- `IGood` is inductive for the item machine. -/
theorem istep_good {i i' : IState} {a : IAct} {e : List Eff} (hg : IGood i) (h : istep i a = some (i', e)) :
    IGood i' := by
  cases a <;> simp only [istep] at h <;> (repeat' split at h) <;>
    first
    | (cases h; done)
    | (simp only [Option.some.injEq, Prod.mk.injEq] at h
       obtain ⟨rfl, rfl⟩ := h
       intro j
       have hj := hg j
       simp only [setInst, setMgr, addLog, addOut, finish, replied, upd]
       first
         | exact hj
         | (split
            · first
              | rfl
              | (subst_vars; first | exact hj | exact (pcGood_put_next (by simpa [*] using hj)).1)
            · exact hj))

/-- an item step never removes an instance. -/
theorem istep_ninst_le {i i' : IState} {a : IAct} {e : List Eff} (h : istep i a = some (i', e)) :
    i.ninst ≤ i'.ninst := by
  cases a <;> simp only [istep] at h <;> (repeat' split at h) <;>
    first
    | (cases h; done)
    | (simp only [Option.some.injEq, Prod.mk.injEq] at h
       obtain ⟨rfl, rfl⟩ := h
       simp [setInst, setMgr, addLog, addOut, finish, replied])

/-- a neutral action leaves every instance where it is with respect to the pool, and submits nothing. -/
theorem istep_neutral {i i' : IState} {a : IAct} {e : List Eff} (hg : IGood i) (ha : a.neutral = true)
    (h : istep i a = some (i', e)) :
    i'.ninst = i.ninst ∧ (∀ j, ipcCls (i'.insts j).pc = ipcCls (i.insts j).pc) ∧ isubs e = [] := by
  cases a <;> simp only [IAct.neutral, Bool.false_eq_true] at ha <;> simp only [istep] at h <;>
    (repeat' split at h) <;>
    first
    | (cases h; done)
    | (simp only [Option.some.injEq, Prod.mk.injEq] at h
       obtain ⟨rfl, rfl⟩ := h
       refine ⟨rfl, fun j => ?_, rfl⟩
       try simp only [setInst, setMgr, addLog, addOut, finish, replied, upd]
       all_goals first
         | rfl
         | (split
            · rename_i hjk
              subst hjk
              first
                | (simp only [*, ipcCls]; done)
                | (have hk := hg j
                   simp only [*] at hk ⊢
                   exact (pcGood_put_next hk).2)
            · rfl))

/-- a worker takes instance `k`: submitted → running; the other instances are left alone. -/
theorem istep_start {i i' : IState} {k : Nat} {e : List Eff} (h : istep i (.start k) = some (i', e)) :
    k < i.ninst ∧ ipcCls (i.insts k).pc = 0 ∧ ipcCls (i'.insts k).pc = 1 ∧
    (∀ j, j ≠ k → i'.insts j = i.insts j) ∧ i'.ninst = i.ninst ∧ isubs e = [] := by
  simp only [istep] at h
  repeat' split at h
  all_goals first
    | (cases h; done)
    | (simp only [Option.some.injEq, Prod.mk.injEq] at h
       obtain ⟨rfl, rfl⟩ := h
       refine ⟨by assumption, by simp only [*, ipcCls], by simp [setInst, upd, ipcCls], fun j hj => ?_, rfl, rfl⟩
       simp [setInst, upd, hj])

/-- instance `k` finishes (`_dec_queued`): running → finished; the other instances are left alone. -/
theorem istep_dec {i i' : IState} {k : Nat} {e : List Eff} (h : istep i (.dec k) = some (i', e)) :
    k < i.ninst ∧ ipcCls (i.insts k).pc = 1 ∧ ipcCls (i'.insts k).pc = 2 ∧
    (∀ j, j ≠ k → i'.insts j = i.insts j) ∧ i'.ninst = i.ninst ∧ isubs e = [] := by
  simp only [istep] at h
  repeat' split at h
  all_goals first
    | (cases h; done)
    | (simp only [Option.some.injEq, Prod.mk.injEq] at h
       obtain ⟨rfl, rfl⟩ := h
       refine ⟨by assumption, by simp only [*, ipcCls], by simp [setInst, setMgr, addLog, upd, ipcCls], fun j hj => ?_,
         rfl, rfl⟩
       simp [setInst, setMgr, addLog, upd, hj])

/-- the reader's second lock section: either nothing happens to the instances, or a fresh one (index `ninst`) is created
    in the submitted state and submitted. -/
theorem istep_addTask {i i' : IState} {e : List Eff} (h : istep i .addTask = some (i', e)) :
    (i'.ninst = i.ninst ∧ (∀ j, i'.insts j = i.insts j) ∧ isubs e = []) ∨
    (isubs e = [i.ninst] ∧ i'.ninst = i.ninst + 1 ∧ ipcCls (i'.insts i.ninst).pc = 0 ∧
      ∀ j, j ≠ i.ninst → i'.insts j = i.insts j) := by
  simp only [istep] at h
  repeat' split at h
  all_goals first
    | (cases h; done)
    | (simp only [Option.some.injEq, Prod.mk.injEq] at h
       obtain ⟨rfl, rfl⟩ := h
       first
         | exact .inl ⟨rfl, fun j => rfl, rfl⟩
         | (refine .inr ⟨rfl, rfl, by simp [setMgr, addLog, upd, ipcCls], fun j hj => ?_⟩
            simp [setMgr, addLog, upd, hj]))


/-! ### reachability with an I/O handler configuration -/

/-- `GReachL` for every I/O-handler configuration: identical to `GReachL` (same steps, same hypothesis on
    `listener.failure()`, same ghost log) but starting with `ioHandler := h` (`none` = no `handle_ioexception` installed,
    `some r` = installed and returning truthiness `r`); `GReachL n u p` is the case `h = none` (`GReachL.toH`). -/
inductive GReachH (n : Nat) (user password : Option String) (h : Option Bool) : DState → List String → Prop
  | init : GReachH n user password h { poolN := n, user := user, password := password, ioHandler := h } []
  | step {s s' : DState} {log : List String} {tid : String} {op : OpClass} {x : String} {effs : List GEff} :
      GReachH n user password h s log → gstep s tid op x = some (s', effs) →
      ((∃ msg, op = .failurePut msg) → s.mpc = 2) →
      GReachH n user password h s' (log ++ genqs effs)

/-- every `GReachL` state is a `GReachH` state (no handler installed). -/
theorem GReachL.toH {n : Nat} {u p : Option String} {s : DState} {log : List String} (h : GReachL n u p s log) :
    GReachH n u p none s log := by
  induction h with
  | init => exact .init
  | step _ hg hf ih => exact .step ih hg hf

/-- … and conversely. -/
theorem GReachH.toL {n : Nat} {u p : Option String} {s : DState} {log : List String} (h : GReachH n u p none s log) :
    GReachL n u p s log := by
  induction h with
  | init => exact .init
  | step _ hg hf ih => exact .step ih hg hf

/-! ### the reader's list -/

/-- the reader's list is made of whole close pairs: `quit` and `poolShutdown` occur only as the pair that `lineOps` produces
    for an honoured close request. -/
def QuitPairs : List ROp → Prop
  | [] => True
  | .quit :: .poolShutdown :: rest => QuitPairs rest
  | .quit :: _ => False
  | .poolShutdown :: _ => False
  | _ :: rest => QuitPairs rest

theorem quitPairs_append (a b : List ROp) (ha : QuitPairs a) (hb : QuitPairs b) : QuitPairs (a ++ b) := by
  fun_induction QuitPairs a with
  | case1 => simpa using hb
  | case2 rest ih => simp only [List.cons_append, QuitPairs]; exact ih ha
  | case3 => exact ha.elim
  | case4 => exact ha.elim
  | case5 x rest h0 h1 h2 ih =>
    cases x <;> first
      | exact (h1 rfl).elim
      | exact (h2 rfl).elim
      | (simp only [List.cons_append, QuitPairs]; exact ih ha)

/-- a `quit` at the head of the reader's list is followed by its `poolShutdown`. -/
theorem quitPairs_quit {rest : List ROp} (h : QuitPairs (.quit :: rest)) :
    ∃ rest', rest = .poolShutdown :: rest' ∧ QuitPairs rest' := by
  match rest, h with
  | .poolShutdown :: rest', h => exact ⟨rest', rfl, h⟩

/-- what `lineOps` hands to the reader is made of such pairs. -/
theorem lineOps_quitPairs (s : DState) (l : String) : QuitPairs (lineOps s l).1 := by
  unfold lineOps
  repeat' split
  all_goals simp [QuitPairs]

theorem lineF_quitPairs (s : DState) (lines : List String) (acc : List ROp × Bool) (h : QuitPairs acc.1) :
    QuitPairs (lines.foldl (lineF s) acc).1 := by
  induction lines generalizing acc with
  | nil => exact h
  | cons l lines ih =>
    rw [List.foldl_cons]
    apply ih
    rw [lineF_eq]
    exact quitPairs_append _ _ h (lineOps_quitPairs _ _)

/-- number of stop pills in a send queue. -/
def pills (q : List (Option String)) : Nat := (q.filter (· = none)).length

@[simp] theorem pills_snoc_some (q : List (Option String)) (l : String) : pills (q ++ [some l]) = pills q := by
  simp [pills, List.filter_append]

@[simp] theorem pills_append_somes (q : List (Option String)) (ls : List String) :
    pills (q ++ ls.map some) = pills q := by
  simp [pills, List.filter_append, List.filter_map]

@[simp] theorem pills_snoc_none (q : List (Option String)) : pills (q ++ [none]) = pills q + 1 := by
  simp [pills, List.filter_append]

@[simp] theorem pills_cons_some (q : List (Option String)) (l : String) : pills (some l :: q) = pills q := by
  simp [pills]

@[simp] theorem pills_cons_none (q : List (Option String)) : pills (none :: q) = pills q + 1 := by
  simp [pills]


/-! ### the invariant of `close()` -/

/-- invariant of `close()`'s progress on the Data server model. -/
structure DCloseInv (s : DState) : Prop where
  cpcLe : s.cpc ≤ 3
  /-- the writer stops only by taking the stop pill, which only `close()` enqueues -/
  wStopped : s.wpc = .stopped → 1 ≤ s.cpc
  /-- the reader joined the writer (stopped by the pill, or dead on a failed write) before going on -/
  joined : 2 ≤ s.cpc → s.wpc = .stopped ∨ s.wpc = .failed
  /-- the socket is closed exactly when `close()` has completed -/
  sock : s.sockClosed = true ↔ s.cpc = 3
  /-- at most one stop pill, present exactly while `close()` has begun and the writer has not taken it yet -/
  pill : pills s.sendQ = (if 1 ≤ s.cpc ∧ s.wpc ≠ .stopped then 1 else 0)
  /-- the reader's list: whole close pairs before `close()`; parked at the pool-shutdown action inside it; empty after -/
  rqShape : (s.cpc = 0 → QuitPairs s.rq) ∧
            ((s.cpc = 1 ∨ s.cpc = 2) → ∃ rest, s.rq = .poolShutdown :: rest) ∧
            (s.cpc = 3 → s.rq = [])
  /-- `close()` is not called between the two lock sections of a subscription request -/
  rmidNone : 1 ≤ s.cpc → s.rmid = none
  /-- the reader has left its loop exactly when `close()` has completed -/
  rEnded : s.rst = 3 ↔ s.cpc = 3
  /-- the writer exists (its thread was created; it may not have begun to run yet) before anything can be closed -/
  wExists : 1 ≤ s.cpc → s.wst = 1 ∨ s.wst = 2
  /-- thread states stay in range (reader 4: died on an I/O failure) -/
  wLe : s.wst ≤ 2
  rLe : s.rst ≤ 4
  /-- the reader is created by the starting thread's last step … -/
  rStarted : s.rst ≠ 0 → s.mpc = 2
  /-- … after the writer, which only the starting thread creates … -/
  wStarted : 1 ≤ s.mpc → 1 ≤ s.wst
  wCreated : s.wst ≠ 0 → 1 ≤ s.mpc
  /-- … and only a running reader calls `close()` -/
  cStarted : 1 ≤ s.cpc → 2 ≤ s.rst
  /-- the writer moves (takes a message, stops, dies) only once its thread runs: **its state is never reset** -/
  wRunning : s.wpc ≠ .get → s.wst = 2
  /-- a reader that died on a failed read never called `close()` (the failing read happens at the top of its loop) -/
  rDied : s.rst = 4 → s.cpc = 0

/-- the invariant holds initially, whatever the I/O-handler configuration. -/
theorem dcloseInv_init (n : Nat) (u p : Option String) (h : Option Bool) :
    DCloseInv { poolN := n, user := u, password := p, ioHandler := h } := by
  constructor <;> simp [QuitPairs, pills]

/-- a step that leaves `close()`'s variables alone (it may enqueue lines, move items and the pool, or — before `close()` —
    replace the reader's list by another one made of whole close pairs) keeps the invariant. -/
theorem DCloseInv.frame {s s' : DState} (hi : DCloseInv s) (h1 : s'.cpc = s.cpc) (h2 : s'.wpc = s.wpc)
    (h3 : s'.rst = s.rst) (h4 : s'.mpc = s.mpc) (h5 : s'.sockClosed = s.sockClosed)
    (h6 : pills s'.sendQ = pills s.sendQ) (h7 : s'.wst = s.wst)
    (h8 : (s'.rq = s.rq ∧ s'.rmid = s.rmid) ∨ (s.cpc = 0 ∧ QuitPairs s'.rq)) : DCloseInv s' := by
  obtain ⟨c1, c2, c3, c4, c5, ⟨c6a, c6b, c6c⟩, c7, c8, c9, c10, c11, c12, c13, c14, c15, c16, c17⟩ := hi
  refine ⟨?_, ?_, ?_, ?_, ?_, ⟨?_, ?_, ?_⟩, ?_, ?_, ?_, ?_, ?_, ?_, ?_, ?_, ?_, ?_, ?_⟩ <;>
    (try rw [h1]) <;> (try rw [h2]) <;> (try rw [h3]) <;> (try rw [h4]) <;> (try rw [h5]) <;> (try rw [h6]) <;>
    (try rw [h7]) <;> (try assumption)
  · intro h0
    rcases h8 with ⟨h, -⟩ | ⟨-, h⟩
    · rw [h]; exact c6a h0
    · exact h
  · intro h0
    rcases h8 with ⟨h, -⟩ | ⟨h, -⟩
    · rw [h]; exact c6b h0
    · omega
  · intro h0
    rcases h8 with ⟨h, -⟩ | ⟨h, -⟩
    · rw [h]; exact c6c h0
    · omega
  · intro h0
    rcases h8 with ⟨-, h⟩ | ⟨h, -⟩
    · rw [h]; exact c7 h0
    · omega

/-- a lifted item step leaves `close()`'s variables alone. -/
theorem liftItem_cframe {s0 s' : DState} {y : String} {a : IAct} {ge : List GEff}
    (hl : liftItem s0 y a = some (s', ge)) :
    s'.cpc = s0.cpc ∧ s'.wpc = s0.wpc ∧ s'.rst = s0.rst ∧ s'.mpc = s0.mpc ∧ s'.sockClosed = s0.sockClosed ∧
    pills s'.sendQ = pills s0.sendQ ∧ s'.wst = s0.wst ∧ s'.rq = s0.rq ∧ s'.rmid = s0.rmid := by
  obtain ⟨i', e, -, rfl, -, -⟩ := liftItem_spec hl
  exact ⟨rfl, rfl, rfl, rfl, rfl, pills_append_somes _ _, rfl, rfl, rfl⟩

/-- inside `close()` the reader is parked at the pool-shutdown action; after it, its list is empty: any other head means
    `close()` has not begun. -/
theorem DCloseInv.cpc_zero {s : DState} (hi : DCloseInv s) (h3 : s.rst ≠ 3)
    (hq : s.rq = [] ∨ s.rmid ≠ none ∨ ∃ a rest, s.rq = a :: rest ∧ a ≠ .poolShutdown) : s.cpc = 0 := by
  rcases Nat.lt_or_ge s.cpc 1 with h | h
  · omega
  · exfalso
    rcases Nat.lt_or_ge s.cpc 3 with h' | h'
    · obtain ⟨r, hr⟩ := hi.rqShape.2.1 (by omega)
      rcases hq with hq | hq | ⟨a, rest, hq, ha⟩
      · rw [hq] at hr; cases hr
      · exact hq (hi.rmidNone h)
      · rw [hq] at hr; cases hr; exact ha rfl
    · exact h3 (hi.rEnded.2 (by have := hi.cpcLe; omega))

/-- **the invariant of `close()` is inductive**: every step of the Data server model keeps it. -/
theorem dcloseInv_step {s s' : DState} {tid : String} {op : OpClass} {x : String} {effs : List GEff}
    (hi : DCloseInv s) (h : gstep s tid op x = some (s', effs)) : DCloseInv s' := by
  have hi0 := hi
  obtain ⟨c1, c2, c3, c4, c5, ⟨c6a, c6b, c6c⟩, c7, c8, c9, c10, c11, c12, c13, c14, c15, c16, c17⟩ := hi
  cases gstep_kind h with
  | deliver c he => exact hi0.frame rfl rfl rfl rfl rfl rfl rfl (.inl ⟨rfl, rfl⟩)
  | endOfInput => exact hi0.frame rfl rfl rfl rfl rfl rfl rfl (.inl ⟨rfl, rfl⟩)
  | failurePut tid hT msg => exact hi0.frame rfl rfl rfl rfl rfl (pills_snoc_some _ _) rfl (.inl ⟨rfl, rfl⟩)
  | excFailurePut tid hT msg hp => exact hi0.frame rfl rfl rfl rfl rfl (pills_snoc_some _ _) rfl (.inl ⟨rfl, rfl⟩)
  | tStart tid hT n y k ht hq hrun s' e hl =>
    obtain ⟨g1, g2, g3, g4, g5, g6, g7, g8, g9⟩ := liftItem_cframe hl
    exact hi0.frame g1 g2 g3 g4 g5 g6 g7 (.inl ⟨g8, g9⟩)
  | tDec tid hT n y k ht s1 e hl =>
    obtain ⟨g1, g2, g3, g4, g5, g6, g7, g8, g9⟩ := liftItem_cframe hl
    exact hi0.frame g1 g2 g3 g4 g5 g6 g7 (.inl ⟨g8, g9⟩)
  | neutral tid op hT s0 hs0 y a ha s' e hl =>
    obtain ⟨g1, g2, g3, g4, g5, g6, g7, g8, g9⟩ := liftItem_cframe hl
    rcases hs0 with rfl | rfl <;> exact hi0.frame g1 g2 g3 g4 g5 g6 g7 (.inl ⟨g8, g9⟩)
  | rLock h1 h0 hmid y t rest hrq s1 e hl m hm =>
    obtain ⟨g1, g2, g3, g4, g5, g6, g7, g8, g9⟩ := liftItem_cframe hl
    have hc0 := hi0.cpc_zero (by omega) (.inr (.inr ⟨_, _, hrq, by simp⟩))
    refine hi0.frame g1 g2 g3 g4 g5 g6 g7 (.inr ⟨hc0, ?_⟩)
    have := c6a hc0
    rw [hrq] at this
    exact this
  | rAdd h1 h0 y hmid s1 e hl =>
    obtain ⟨g1, g2, g3, g4, g5, g6, g7, g8, g9⟩ := liftItem_cframe hl
    have hc0 := hi0.cpc_zero (by omega) (.inr (.inl (by rw [hmid]; simp)))
    refine hi0.frame g1 g2 g3 g4 g5 g6 g7 (.inr ⟨hc0, ?_⟩)
    show QuitPairs s1.rq
    rw [g8]
    exact c6a hc0
  | rRecv h1 h0 hmid hrq c rest hin lines b ops ie hops =>
    have hc0 := hi0.cpc_zero (by omega) (.inl hrq)
    refine hi0.frame rfl rfl rfl rfl rfl rfl rfl (.inr ⟨hc0, ?_⟩)
    have := lineF_quitPairs s lines ([], s.initExpected) trivial
    rw [hops] at this
    exact this
  | rPut h1 h0 hmid l rest hrq =>
    have hc0 := hi0.cpc_zero (by omega) (.inr (.inr ⟨_, _, hrq, by simp⟩))
    refine hi0.frame rfl rfl rfl rfl rfl (pills_snoc_some _ _) rfl (.inr ⟨hc0, ?_⟩)
    have := c6a hc0
    rw [hrq] at this
    exact this
  | rFail h1 h0 hmid hrq hin he =>
    have hc0 := hi0.cpc_zero (by omega) (.inl hrq)
    refine ⟨?_, ?_, ?_, ?_, ?_, ⟨?_, ?_, ?_⟩, ?_, ?_, ?_, ?_, ?_, ?_, ?_, ?_, ?_, ?_, ?_⟩ <;> dsimp only [gioReport] <;>
      first
        | assumption
        | omega
        | grind
  | rQuit h1 h0 hmid rest hrq =>
    have hc0 := hi0.cpc_zero (by omega) (.inr (.inr ⟨_, _, hrq, by simp⟩))
    obtain ⟨rest', hr', -⟩ := quitPairs_quit (hrq ▸ c6a hc0)
    refine ⟨?_, ?_, ?_, ?_, ?_, ⟨?_, ?_, ?_⟩, ?_, ?_, ?_, ?_, ?_, ?_, ?_, ?_, ?_, ?_, ?_⟩ <;> dsimp only <;>
      (try simp only [pills_snoc_none]) <;>
      first
        | assumption
        | omega
        | exact fun _ => ⟨rest', hr'⟩
        | grind
  | mStart hm | mPut hm l | rStart h1 | wStart h1 | wSend h1 h0 m hw | rJoin h1 h0 hmid rest hrq hc hw
  | rPoolWait h1 h0 hmid rest hrq hc hr hq | wFail h1 h0 m hw =>
    refine ⟨?_, ?_, ?_, ?_, ?_, ⟨?_, ?_, ?_⟩, ?_, ?_, ?_, ?_, ?_, ?_, ?_, ?_, ?_, ?_, ?_⟩ <;> dsimp only [gioReport] <;>
      (try simp only [pills_snoc_some]) <;>
      first
        | assumption
        | omega
        | grind
  | wGet h1 h0 b hw m rest hq =>
    simp only [hq, pills_cons_some] at c5
    refine ⟨?_, ?_, ?_, ?_, ?_, ⟨?_, ?_, ?_⟩, ?_, ?_, ?_, ?_, ?_, ?_, ?_, ?_, ?_, ?_, ?_⟩ <;> dsimp only <;>
      first
        | assumption
        | omega
        | grind
  | wPill h1 h0 b hw rest hq =>
    simp only [hq, pills_cons_none] at c5
    refine ⟨?_, ?_, ?_, ?_, ?_, ⟨?_, ?_, ?_⟩, ?_, ?_, ?_, ?_, ?_, ?_, ?_, ?_, ?_, ?_, ?_⟩ <;> dsimp only <;>
      first
        | assumption
        | omega
        | grind


/-- **C20 (close on the Data server model).** In every reachable state, whatever the I/O-handler configuration: the writer has
    ended before the reader goes on to shut the pool down; the socket is closed, and the reader leaves its loop, only when
    `close()` has completed. -/
theorem greach_dcloseInv {n : Nat} {u p : Option String} {ioh : Option Bool} {s : DState} {log : List String}
    (h : GReachH n u p ioh s log) : DCloseInv s := by
  induction h with
  | init => exact dcloseInv_init n u p ioh
  | step _ hs _ ih => exact dcloseInv_step ih hs

/-- … in particular in every `GReachL` state. -/
theorem greachL_dcloseInv {n : Nat} {u p : Option String} {s : DState} {log : List String}
    (h : GReachL n u p s log) : DCloseInv s := greach_dcloseInv h.toH


/-! ### the pool's bookkeeping -/

/-- two predicates that differ on at most one element of a duplicate-free list. -/
theorem filter_length_flip {α : Type} (p p' : α → Bool) (a : α) :
    ∀ (l : List α), l.Nodup → a ∈ l → (∀ b ∈ l, b ≠ a → p' b = p b) →
      (l.filter p').length + (if p a then 1 else 0) = (l.filter p).length + (if p' a then 1 else 0)
  | [], _, h, _ => by simp at h
  | b :: l, hnd, hm, hp => by
    rw [List.nodup_cons] at hnd
    by_cases hb : b = a
    · subst hb
      have : l.filter p' = l.filter p :=
        List.filter_congr (fun c hc => hp c (List.mem_cons_of_mem _ hc) (fun h => hnd.1 (h ▸ hc)))
      simp only [List.filter_cons, this]
      cases p b <;> cases p' b <;> simp
    · have ha : a ∈ l := by
        rcases List.mem_cons.1 hm with h | h
        · exact absurd h.symm hb
        · exact h
      have ih := filter_length_flip p p' a l hnd.2 ha (fun c hc => hp c (List.mem_cons_of_mem _ hc))
      have hpb := hp b List.mem_cons_self hb
      simp only [List.filter_cons, hpb]
      cases p b <;> simp <;> omega

/-- where pool task `t` = (item, instance index) is: 0 = submitted, 1 = running on a worker, 2 = finished. -/
def tcls (s : DState) (t : String × Nat) : Nat := ipcCls ((getItem s t.1).insts t.2).pc

/-- **the pool's bookkeeping on the Data server model**: `running` counts the pool tasks that a worker has taken and that
    have not finished; every submitted task that no worker has taken yet is in the work queue. -/
structure DPoolInv (s : DState) : Prop where
  /-- (item level) the continuation of a `put` is inside the dequeuer's loop body -/
  good : ∀ x, IGood (getItem s x)
  /-- a pool task is an existing dequeuer instance of its item … -/
  tasksLt : ∀ t ∈ s.tasks, t.2 < (getItem s t.1).ninst
  /-- … and no instance is submitted twice -/
  nodup : s.tasks.Nodup
  /-- `running` = number of pool tasks whose instance is neither waiting in the pool nor done -/
  running : s.running = (s.tasks.filter (fun t => tcls s t == 1)).length
  /-- the not yet started tasks are in the work queue (under their 1-based task numbers) -/
  queued : ∀ idx t, s.tasks[idx]? = some t → tcls s t = 0 → idx + 1 ∈ s.workQ
  workQPos : ∀ m ∈ s.workQ, 1 ≤ m

theorem tcls_congr {s s' : DState} (h : s'.items = s.items) (t : String × Nat) : tcls s' t = tcls s t := by
  unfold tcls; rw [getItem_congr h]

/-- the bookkeeping holds initially. -/
theorem dpoolInv_init (n : Nat) (u p : Option String) (h : Option Bool) :
    DPoolInv { poolN := n, user := u, password := p, ioHandler := h } := by
  refine ⟨fun x => igood_init x, ?_, ?_, ?_, ?_, ?_⟩ <;> simp

/-- a step that leaves every instance where it is with respect to the pool, submits nothing and leaves the pool's
    variables alone keeps the bookkeeping. -/
theorem DPoolInv.frame {s s' : DState} (hi : DPoolInv s) (hgood : ∀ x, IGood (getItem s' x))
    (hn : ∀ x, (getItem s x).ninst ≤ (getItem s' x).ninst) (hcls : ∀ t, tcls s' t = tcls s t)
    (ht : s'.tasks = s.tasks) (hr : s'.running = s.running) (hq : s'.workQ = s.workQ) : DPoolInv s' := by
  refine ⟨hgood, ?_, ?_, ?_, ?_, ?_⟩
  · intro t htm
    rw [ht] at htm
    exact Nat.lt_of_lt_of_le (hi.tasksLt t htm) (hn t.1)
  · rw [ht]; exact hi.nodup
  · rw [hr, ht, hi.running]
    congr 1
    exact List.filter_congr (fun t _ => by rw [hcls])
  · intro idx t h1 h2
    rw [ht] at h1
    rw [hcls] at h2
    rw [hq]
    exact hi.queued idx t h1 h2
  · rw [hq]; exact hi.workQPos

/-- … in particular one that does not touch the items. -/
theorem DPoolInv.frame_items {s s' : DState} (hi : DPoolInv s) (h : s'.items = s.items)
    (ht : s'.tasks = s.tasks) (hr : s'.running = s.running) (hq : s'.workQ = s.workQ) : DPoolInv s' :=
  hi.frame (fun x => by rw [getItem_congr h]; exact hi.good x) (fun x => by rw [getItem_congr h]; exact Nat.le_refl _)
    (tcls_congr h) ht hr hq

/-- one pool task moves (a worker takes it, or it finishes); the others stay where they are. -/
theorem DPoolInv.move {s s' : DState} (hi : DPoolInv s) (t0 : String × Nat) (ht0 : t0 ∈ s.tasks)
    (hgood : ∀ x, IGood (getItem s' x)) (hn : ∀ x, (getItem s x).ninst ≤ (getItem s' x).ninst)
    (ho : ∀ t, t ≠ t0 → tcls s' t = tcls s t) (ht : s'.tasks = s.tasks)
    (hc0 : tcls s' t0 ≠ 0)
    (hr : s'.running + (if tcls s t0 = 1 then 1 else 0) = s.running + (if tcls s' t0 = 1 then 1 else 0))
    (hq : ∀ m, m ∈ s.workQ → (∀ idx, s.tasks[idx]? = some t0 → m ≠ idx + 1) → m ∈ s'.workQ)
    (hqp : ∀ m ∈ s'.workQ, m ∈ s.workQ) : DPoolInv s' := by
  refine ⟨hgood, ?_, ?_, ?_, ?_, ?_⟩
  · intro t htm
    rw [ht] at htm
    exact Nat.lt_of_lt_of_le (hi.tasksLt t htm) (hn t.1)
  · rw [ht]; exact hi.nodup
  · have := filter_length_flip (fun t => tcls s t == 1) (fun t => tcls s' t == 1) t0 s.tasks hi.nodup ht0
      (fun b _ hb => by simp only [ho b hb])
    have h1 := hi.running
    rw [ht]
    simp only [beq_iff_eq] at this
    omega
  · intro idx t h1 h2
    rw [ht] at h1
    have hne : t ≠ t0 := fun h => hc0 (h ▸ h2)
    rw [ho t hne] at h2
    refine hq _ (hi.queued idx t h1 h2) ?_
    intro idx' h3 h4
    have : idx = idx' := by omega
    subst this
    rw [h1] at h3
    exact hne (Option.some.inj h3)
  · intro m hm
    exact hi.workQPos m (hqp m hm)

/-- what a lifted item step does to the pool's view of the server. -/
theorem liftItem_pool {s0 s' : DState} {y : String} {a : IAct} {ge : List GEff}
    (hl : liftItem s0 y a = some (s', ge)) :
    ∃ i' e, istep (getItem s0 y) a = some (i', e) ∧ getItem s' y = i' ∧ (∀ x, x ≠ y → getItem s' x = getItem s0 x) ∧
      s'.tasks = s0.tasks ++ (isubs e).map (fun k => (y, k)) ∧
      s'.workQ = s0.workQ ++ List.range' (s0.tasks.length + 1) (isubs e).length ∧ s'.running = s0.running := by
  obtain ⟨i', e, hi, rfl, -, -⟩ := liftItem_spec hl
  refine ⟨i', e, hi, ?_, ?_, rfl, rfl, rfl⟩
  · exact (getItem_congr (s := putItem s0 y i') rfl y).trans (getItem_putItem_same s0 y i')
  · intro x hx
    exact (getItem_congr (s := putItem s0 y i') rfl x).trans (getItem_putItem_other s0 y x i' hx)


/-- a relation between the old and the new state of the item a step moves extends to all items. -/
theorem getItem_update {s s' : DState} {y : String} {i' : IState} (hy : getItem s' y = i')
    (ho : ∀ x, x ≠ y → getItem s' x = getItem s x) (P : IState → IState → Prop) (hP : P (getItem s y) i')
    (hrefl : ∀ i, P i i) (x : String) : P (getItem s x) (getItem s' x) := by
  by_cases hx : x = y
  · subst hx; rw [hy]; exact hP
  · rw [ho x hx]; exact hrefl _

/-- a lifted neutral item action keeps the bookkeeping. -/
theorem DPoolInv.lift_neutral {s0 s' : DState} {y : String} {a : IAct} {ge : List GEff} (hi : DPoolInv s0)
    (ha : a.neutral = true) (hl : liftItem s0 y a = some (s', ge)) : DPoolInv s' := by
  obtain ⟨i', e, his, hy, ho, ht, hq, hr⟩ := liftItem_pool hl
  obtain ⟨n1, n2, n3⟩ := istep_neutral (hi.good y) ha his
  have hg := istep_good (hi.good y) his
  rw [n3] at ht hq
  refine hi.frame ?_ ?_ ?_ (by simpa using ht) hr (by simpa using hq)
  · intro x
    by_cases hx : x = y
    · subst hx; rw [hy]; exact hg
    · rw [ho x hx]; exact hi.good x
  · exact getItem_update hy ho (fun i j => i.ninst ≤ j.ninst) (by rw [n1]; exact Nat.le_refl _) (fun _ => Nat.le_refl _)
  · intro t
    unfold tcls
    exact getItem_update hy ho (fun i j => ipcCls (j.insts t.2).pc = ipcCls (i.insts t.2).pc) (n2 t.2) (fun _ => rfl) t.1

/-- the reader's second lock section keeps the bookkeeping: a dequeuer instance it creates is a new pool task, waiting in
    the work queue. -/
theorem DPoolInv.lift_addTask {s s' : DState} {y : String} {ge : List GEff} (hi : DPoolInv s)
    (hl : liftItem s y .addTask = some (s', ge)) : DPoolInv s' := by
  obtain ⟨i', e, his, hy, ho, ht, hq, hr⟩ := liftItem_pool hl
  have hg := istep_good (hi.good y) his
  have hgood : ∀ x, IGood (getItem s' x) := by
    intro x
    by_cases hx : x = y
    · subst hx; rw [hy]; exact hg
    · rw [ho x hx]; exact hi.good x
  have hn : ∀ x, (getItem s x).ninst ≤ (getItem s' x).ninst :=
    getItem_update hy ho (fun i j => i.ninst ≤ j.ninst) (istep_ninst_le his) (fun _ => Nat.le_refl _)
  rcases istep_addTask his with ⟨n1, n2, n3⟩ | ⟨n1, n2, n3, n4⟩
  · rw [n3] at ht hq
    refine hi.frame hgood hn ?_ (by simpa using ht) hr (by simpa using hq)
    intro t
    unfold tcls
    exact getItem_update hy ho (fun i j => ipcCls (j.insts t.2).pc = ipcCls (i.insts t.2).pc) (by rw [n2]) (fun _ => rfl) t.1
  · rw [n1] at ht hq
    simp only [List.map_cons, List.map_nil, List.length_cons, List.length_nil, List.range'_one, Nat.zero_add] at ht hq
    have hnew : (y, (getItem s y).ninst) ∉ s.tasks := fun h => Nat.lt_irrefl _ (hi.tasksLt _ h)
    have hcls : ∀ t, t ≠ (y, (getItem s y).ninst) → tcls s' t = tcls s t := by
      intro t htne
      unfold tcls
      by_cases hx : t.1 = y
      · have h2 : t.2 ≠ (getItem s y).ninst := fun h => htne (Prod.ext hx h)
        rw [hx, hy, n4 t.2 h2]
      · rw [ho t.1 hx]
    have hcnew : tcls s' (y, (getItem s y).ninst) = 0 := by
      unfold tcls
      simp only
      rw [hy]; exact n3
    refine ⟨hgood, ?_, ?_, ?_, ?_, ?_⟩
    · intro t htm
      rw [ht] at htm
      rcases List.mem_append.1 htm with h | h
      · exact Nat.lt_of_lt_of_le (hi.tasksLt t h) (hn t.1)
      · simp only [List.mem_singleton] at h
        subst h
        simp only
        rw [hy, n2]
        exact Nat.lt_succ_self _
    · rw [ht]
      exact List.nodup_append.2 ⟨hi.nodup, (by simp), fun a ha b hb => by
        simp only [List.mem_singleton] at hb
        subst hb
        exact fun h => hnew (h ▸ ha)⟩
    · rw [hr, ht, List.filter_append, List.length_append, hi.running]
      have h1 : s.tasks.filter (fun t => tcls s' t == 1) = s.tasks.filter (fun t => tcls s t == 1) :=
        List.filter_congr (fun t htm => by rw [hcls t (fun h => hnew (h ▸ htm))])
      rw [h1]
      simp [hcnew]
    · intro idx t h1 h2
      rw [ht] at h1
      rw [hq]
      rcases Nat.lt_or_ge idx s.tasks.length with hlt | hge
      · rw [List.getElem?_append_left hlt] at h1
        have hne : t ≠ (y, (getItem s y).ninst) := fun h => hnew (h ▸ List.mem_of_getElem? h1)
        rw [hcls t hne] at h2
        exact List.mem_append_left _ (hi.queued idx t h1 h2)
      · rw [List.getElem?_append_right hge] at h1
        have : idx - s.tasks.length = 0 := by
          rcases Nat.eq_zero_or_pos (idx - s.tasks.length) with h | h
          · exact h
          · rw [List.getElem?_eq_none (by simp; omega)] at h1; cases h1
        have : idx = s.tasks.length := by omega
        subst this
        simp
    · intro m hm
      rw [hq] at hm
      rcases List.mem_append.1 hm with h | h
      · exact hi.workQPos m h
      · simp only [List.mem_singleton] at h; omega


/-- a worker takes the task at the head of the work queue. -/
theorem DPoolInv.lift_start {s s' : DState} {y : String} {k n : Nat} {ge : List GEff} (hi : DPoolInv s)
    (ht : s.tasks[n - 1]? = some (y, k)) (hq : s.workQ.head? = some n)
    (hl : liftItem { s with workQ := s.workQ.tail, running := s.running + 1 } y (.start k) = some (s', ge)) :
    DPoolInv s' := by
  obtain ⟨i', e, his, hy, ho, htk, hwq, hr⟩ := liftItem_pool hl
  change istep (getItem s y) (.start k) = some (i', e) at his
  change ∀ x, x ≠ y → getItem s' x = getItem s x at ho
  obtain ⟨m1, m2, m3, m4, m5, m6⟩ := istep_start his
  have hg := istep_good (hi.good y) his
  rw [m6] at htk hwq
  simp only [List.map_nil, List.append_nil, List.length_nil, List.range'_zero] at htk hwq hr
  have ht0 : (y, k) ∈ s.tasks := List.mem_of_getElem? ht
  have hc : tcls s (y, k) = 0 := m2
  have hc' : tcls s' (y, k) = 1 := by unfold tcls; simp only; rw [hy]; exact m3
  refine hi.move (y, k) ht0 ?_ ?_ ?_ htk (by rw [hc']; simp) (by rw [hc, hc', hr]; simp) ?_ ?_
  · intro x
    by_cases hx : x = y
    · subst hx; rw [hy]; exact hg
    · rw [ho x hx]; exact hi.good x
  · exact getItem_update hy ho (fun i j => i.ninst ≤ j.ninst) (by rw [m5]; exact Nat.le_refl _) (fun _ => Nat.le_refl _)
  · intro t htne
    unfold tcls
    by_cases hx : t.1 = y
    · have h2 : t.2 ≠ k := fun h => htne (Prod.ext hx h)
      rw [hx, hy, m4 t.2 h2]
    · rw [ho t.1 hx]
  · intro m hm hne
    rw [hwq]
    cases hw : s.workQ with
    | nil => rw [hw] at hq; cases hq
    | cons a tl =>
      rw [hw] at hq hm
      simp only [List.head?_cons, Option.some.injEq] at hq
      subst hq
      have h1 : 1 ≤ a := hi.workQPos a (by rw [hw]; exact List.mem_cons_self)
      have h2 := hne (a - 1) ht
      rcases List.mem_cons.1 hm with h | h
      · omega
      · exact h
  · intro m hm
    rw [hwq] at hm
    exact List.mem_of_mem_tail hm

/-- a pool task finishes (`_dec_queued` under the manager lock). -/
theorem DPoolInv.lift_dec {s s1 : DState} {y : String} {k n : Nat} {ge : List GEff} (hi : DPoolInv s)
    (ht : s.tasks[n - 1]? = some (y, k)) (hl : liftItem s y (.dec k) = some (s1, ge)) :
    DPoolInv { s1 with running := s1.running - 1 } := by
  obtain ⟨i', e, his, hy, ho, htk, hwq, hr⟩ := liftItem_pool hl
  obtain ⟨m1, m2, m3, m4, m5, m6⟩ := istep_dec his
  have hg := istep_good (hi.good y) his
  rw [m6] at htk hwq
  simp only [List.map_nil, List.append_nil, List.length_nil, List.range'_zero] at htk hwq
  have ht0 : (y, k) ∈ s.tasks := List.mem_of_getElem? ht
  have hc : tcls s (y, k) = 1 := m2
  have hpos : 1 ≤ s.running := by
    rw [hi.running]
    exact List.length_pos_of_mem (List.mem_filter.2 ⟨ht0, by simp [hc]⟩)
  have hy' : getItem { s1 with running := s1.running - 1 } y = i' := hy
  have ho' : ∀ x, x ≠ y → getItem { s1 with running := s1.running - 1 } x = getItem s x := ho
  have hc' : tcls { s1 with running := s1.running - 1 } (y, k) = 2 := by unfold tcls; simp only; rw [hy']; exact m3
  refine hi.move (y, k) ht0 ?_ ?_ ?_ htk (by rw [hc']; simp) (by rw [hc, hc']; simp only; rw [hr]; simp; omega) ?_ ?_
  · intro x
    by_cases hx : x = y
    · subst hx; rw [hy']; exact hg
    · rw [ho' x hx]; exact hi.good x
  · exact getItem_update hy' ho' (fun i j => i.ninst ≤ j.ninst) (by rw [m5]; exact Nat.le_refl _) (fun _ => Nat.le_refl _)
  · intro t htne
    unfold tcls
    by_cases hx : t.1 = y
    · have h2 : t.2 ≠ k := fun h => htne (Prod.ext hx h)
      rw [hx, hy', m4 t.2 h2]
    · rw [ho' t.1 hx]
  · intro m hm _
    show m ∈ s1.workQ
    rw [hwq]; exact hm
  · intro m hm
    have : m ∈ s1.workQ := hm
    rw [hwq] at this; exact this

/-- **the pool's bookkeeping is inductive**: every step of the Data server model keeps it. -/
theorem dpoolInv_step {s s' : DState} {tid : String} {op : OpClass} {x : String} {effs : List GEff}
    (hi : DPoolInv s) (h : gstep s tid op x = some (s', effs)) : DPoolInv s' := by
  cases gstep_kind h with
  | deliver | endOfInput | mStart | mPut | rStart | rRecv | rFail | rPut | rQuit | rJoin | rPoolWait | wStart | wGet
  | wPill | wSend | wFail | failurePut | excFailurePut => exact hi.frame_items rfl rfl rfl rfl
  | tStart tid hT n y k ht hq hrun s' e hl => exact hi.lift_start ht hq hl
  | tDec tid hT n y k ht s1 e hl => exact hi.lift_dec ht hl
  | neutral tid op hT s0 hs0 y a ha s' e hl =>
    rcases hs0 with rfl | rfl
    · exact hi.lift_neutral ha hl
    · exact (hi.frame_items (s' := { s with pendFal := s.pendFal ++ [tid] }) rfl rfl rfl rfl).lift_neutral ha hl
  | rLock h1 h0 hmid y t rest hrq s1 e hl m hm =>
    exact (hi.lift_neutral rfl hl).frame_items rfl rfl rfl rfl
  | rAdd h1 h0 y hmid s1 e hl => exact (hi.lift_addTask hl).frame_items rfl rfl rfl rfl

/-- the pool's bookkeeping holds in every reachable state. -/
theorem greach_dpoolInv {n : Nat} {u p : Option String} {ioh : Option Bool} {s : DState} {log : List String}
    (h : GReachH n u p ioh s log) : DPoolInv s := by
  induction h with
  | init => exact dpoolInv_init n u p ioh
  | step _ hs _ ih => exact dpoolInv_step ih hs


/-! ### a completed `close()` -/

/-- a running pool task is counted. -/
theorem DPoolInv.running_pos {s : DState} (hi : DPoolInv s) {t : String × Nat} (ht : t ∈ s.tasks)
    (hc : tcls s t = 1) : 1 ≤ s.running := by
  rw [hi.running]
  exact List.length_pos_of_mem (List.mem_filter.2 ⟨ht, by simp [hc]⟩)

theorem ipcCls_two {pc : Pc} (h : ipcCls pc = 2) : pc = .done := by
  cases pc <;> simp [ipcCls] at h ⊢

/-- in an idle pool (nothing queued, nothing running) every task is done. -/
theorem DPoolInv.idle_done {s : DState} (hi : DPoolInv s) (hr : s.running = 0) (hq : s.workQ = []) :
    ∀ t ∈ s.tasks, ((getItem s t.1).insts t.2).pc = .done := by
  intro t ht
  apply ipcCls_two
  have h1 : tcls s t ≠ 1 := fun h => by have := hi.running_pos ht h; omega
  have h0 : tcls s t ≠ 0 := fun h => by
    obtain ⟨idx, hidx⟩ := List.mem_iff_getElem?.mp ht
    have := hi.queued idx t hidx h
    rw [hq] at this
    cases this
  have h2 : tcls s t ≤ 2 := by unfold tcls ipcCls; split <;> omega
  show tcls s t = 2
  omega

/-- the step-level fact: `executor.shutdown()` returns only when nothing is queued or running. -/
theorem gstep_poolWait_idle {s s' : DState} {tid : String} {x : String} {effs : List GEff}
    (h : gstep s tid .poolWait x = some (s', effs)) :
    s.cpc = 2 ∧ s.running = 0 ∧ s.workQ = [] ∧ s'.cpc = 3 ∧ s'.running = 0 ∧ s'.workQ = [] ∧ effs = [.sockClose] := by
  cases gstep_kind h with
  | rPoolWait h1 h0 hmid rest hrq hc hr hq => exact ⟨hc, hr, hq, rfl, hr, hq, rfl⟩
  | neutral tid op hT s0 hs0 y a ha s' e hl =>
    -- no pool or application thread performs this operation
    exfalso
    have hx := gstep_not_exited h
    obtain ⟨h1, h2, h3, h4⟩ := hT
    simp [gstep, hx, h1, h2, h3, h4] at h
    repeat' split at h
    all_goals simp at h

/-- the pool is idle when `close()` completes, and stays idle: nothing is submitted afterwards (the reader is gone) and no
    pool thread has anything to do. -/
theorem greach_closed_pool_idle {n : Nat} {u p : Option String} {ioh : Option Bool} {s : DState} {log : List String}
    (h : GReachH n u p ioh s log) (hc : s.cpc = 3) : s.running = 0 ∧ s.workQ = [] := by
  induction h with
  | init => simp at hc
  | @step s s' log tid op x effs hr hs _ ih =>
    have inv := greach_dcloseInv hr
    have pinv := greach_dpoolInv hr
    have hR : ¬ (s.rst = 0 ∨ s.rst = 3 ∨ s.rst = 4) → s.cpc ≠ 3 := fun h0 h3 => h0 (.inr (.inl (inv.rEnded.2 h3)))
    cases gstep_kind hs with
    | deliver | endOfInput | mStart | mPut | wStart | wGet | wPill | wSend | wFail | failurePut | excFailurePut =>
      exact ih hc
    | rStart h1 => exact ih hc
    | rRecv h1 h0 | rFail h1 h0 | rPut h1 h0 => exact absurd hc (hR h0)
    | rQuit h1 h0 => simp at hc
    | rJoin h1 h0 => simp at hc
    | rPoolWait h1 h0 hmid rest hrq hc' hr' hq' => exact ⟨hr', hq'⟩
    | rLock h1 h0 hmid y t rest hrq s1 e hl m hm =>
      have := (liftItem_cframe hl).1
      exact absurd (this.symm.trans hc) (hR h0)
    | rAdd h1 h0 y hmid s1 e hl =>
      have := (liftItem_cframe hl).1
      exact absurd (this.symm.trans hc) (hR h0)
    | tStart tid hT n y k ht hq hrun s' e hl =>
      have h3 : s.cpc = 3 := (liftItem_cframe hl).1.symm.trans hc
      rw [(ih h3).2] at hq
      cases hq
    | tDec tid hT n y k ht s1 e hl =>
      have h3 : s.cpc = 3 := (liftItem_cframe hl).1.symm.trans hc
      obtain ⟨i', e', his, -⟩ := liftItem_pool hl
      have := pinv.running_pos (List.mem_of_getElem? ht) (istep_dec his).2.1
      have := (ih h3).1
      omega
    | neutral tid op hT s0 hs0 y a ha s' e hl =>
      have h3 : s.cpc = 3 := by
        have := (liftItem_cframe hl).1
        rcases hs0 with rfl | rfl <;> exact this.symm.trans hc
      obtain ⟨i', e', his, -, -, -, hwq, hrn⟩ := liftItem_pool hl
      have hg : IGood (getItem s0 y) := by rcases hs0 with rfl | rfl <;> exact pinv.good y
      rw [(istep_neutral hg ha his).2.2] at hwq
      obtain ⟨i1, i2⟩ := ih h3
      rcases hs0 with rfl | rfl
      · exact ⟨hrn.trans i1, by rw [hwq, i2]; rfl⟩
      · exact ⟨hrn.trans i1, by rw [hwq]; simpa using i2⟩


/-- **C20 on the Data server model: a completed `close()`.** Writer ended (stopped by the pill, or dead on a failed write),
    reader gone, socket closed, nothing queued in the pool or running — in every reachable state with `cpc = 3`, i.e. also
    after any further steps of the remaining threads — and every accepted pool task (dequeuer instance) finished. -/
theorem c20d_closed {n : Nat} {u p : Option String} {ioh : Option Bool} {s : DState} {log : List String}
    (h : GReachH n u p ioh s log) (hc : s.cpc = 3) :
    (s.wpc = .stopped ∨ s.wpc = .failed) ∧ s.rst = 3 ∧ s.sockClosed = true ∧ s.running = 0 ∧ s.workQ = [] ∧
    (∀ t ∈ s.tasks, ((getItem s t.1).insts t.2).pc = .done) := by
  have inv := greach_dcloseInv h
  obtain ⟨i1, i2⟩ := greach_closed_pool_idle h hc
  exact ⟨inv.joined (by omega), inv.rEnded.2 hc, inv.sock.2 hc, i1, i2, (greach_dpoolInv h).idle_done i1 i2⟩

/-- `greach_pending_lost` for every I/O-handler configuration. -/
theorem greachH_pending_lost {n : Nat} {u p : Option String} {ioh : Option Bool} {s : DState} {log : List String}
    (h : GReachH n u p ioh s log) :
    ∃ lost : List String, lost.length ≤ 1 ∧ (s.wpc ≠ .failed → lost = []) ∧
      log = s.written ++ lost ++ gholding s ++ s.sendQ.filterMap id := by
  induction h with
  | init => exact ⟨[], by simp, fun _ => rfl, rfl⟩
  | step _ hg _ ih => exact gstep_pending_lost hg ih

/-- `greach_written_prefix` for every I/O-handler configuration. -/
theorem greachH_written_prefix {n : Nat} {u p : Option String} {ioh : Option Bool} {s : DState} {log : List String}
    (h : GReachH n u p ioh s log) : s.written <+: log := by
  obtain ⟨lost, -, -, hlog⟩ := greachH_pending_lost h
  exact ⟨lost ++ gholding s ++ s.sendQ.filterMap id, by rw [hlog]; simp⟩

/-- **C20: everything enqueued before the stop pill is written before the writer stops**: when the writer has stopped
    (it took the pill), nothing is left in its hands, nothing was lost — the log of everything enqueued is what was written
    followed by what is still queued, and that was enqueued after `close()` began —, and no second pill is queued. -/
theorem c20d_writer_flushed {n : Nat} {u p : Option String} {ioh : Option Bool} {s : DState} {log : List String}
    (h : GReachH n u p ioh s log) (hw : s.wpc = .stopped) :
    gholding s = [] ∧ s.written <+: log ∧ log = s.written ++ s.sendQ.filterMap id ∧ pills s.sendQ = 0 := by
  obtain ⟨lost, -, hne, hlog⟩ := greachH_pending_lost h
  have hg : gholding s = [] := by simp [gholding, hw]
  refine ⟨hg, greachH_written_prefix h, ?_, ?_⟩
  · rw [hlog, hne (by rw [hw]; simp), hg]; simp
  · rw [(greach_dcloseInv h).pill, if_neg (fun h => h.2 hw)]

/-- **C20: `close()` notifies no handler.** The steps of `close()` itself (stop pill, join, pool wait + socket close) carry
    no I/O-handler notification and no exit, enqueue no line, and schedule no exception handling (the Data model has no other
    handler effect: `on_exception` after an ill-typed listener payload is `pendFal`). -/
theorem gstep_close_no_handler {s s' : DState} {op : OpClass} {x : String} {effs : List GEff}
    (h : gstep s "R" op x = some (s', effs))
    (hop : (op = .put ∧ ∃ rest, s.rq = .quit :: rest) ∨ op = .join ∨ op = .poolWait) :
    GEff.ioHandler ∉ effs ∧ GEff.exit ∉ effs ∧ genqs effs = [] ∧ s'.pendFal = s.pendFal := by
  generalize hR : "R" = tid at h
  cases gstep_kind h with
  | deliver | endOfInput | mStart | mPut | wStart | wGet | wPill | wSend | wFail => simp at hR
  | rStart => simp at hop
  | rRecv => simp at hop
  | rFail => simp at hop
  | rLock => simp at hop
  | rAdd => simp at hop
  | rPut h1 h0 hmid l rest hrq =>
    rcases hop with ⟨-, r, hr⟩ | hop | hop
    · rw [hrq] at hr; cases hr
    · cases hop
    · cases hop
  | rQuit => exact ⟨by simp, by simp, rfl, rfl⟩
  | rJoin => exact ⟨by simp, by simp, rfl, rfl⟩
  | rPoolWait => exact ⟨by simp, by simp, rfl, rfl⟩
  | failurePut tid hT => exact absurd hR.symm hT.2.2.1
  | excFailurePut tid hT => exact absurd hR.symm hT.2.2.1
  | tStart tid hT => exact absurd hR.symm hT.2.2.1
  | tDec tid hT => exact absurd hR.symm hT.2.2.1
  | neutral tid op hT => exact absurd hR.symm hT.2.2.1

/-! ### non-vacuity -/

/-- runs without `listener.failure()` calls stay inside `GReachH`. -/
theorem greachH_run {n : Nat} {u p : Option String} {ioh : Option Bool} (l : List (String × OpClass × String)) :
    ∀ (s : DState) (log : List String), GReachH n u p ioh s log →
    (∀ x ∈ l, ∀ msg, x.2.1 ≠ .failurePut msg) →
    ∀ s', (l.foldlM (fun (st : DState) (x : String × OpClass × String) => (gstep st x.1 x.2.1 x.2.2).map (·.1)) s) = some s' →
    ∃ log', GReachH n u p ioh s' log' := by
  induction l with
  | nil => intro s log h _ s' hs; simp only [List.foldlM_nil, pure, Option.some.injEq] at hs; subst hs; exact ⟨log, h⟩
  | cons a l ih =>
    intro s log h hnf s' hs
    rw [List.foldlM_cons] at hs
    cases hm : gstep s a.1 a.2.1 a.2.2 with
    | none => simp [hm, bind, Option.bind] at hs
    | some r =>
      obtain ⟨s1, e1⟩ := r
      simp only [hm, Option.map, bind, Option.bind] at hs
      refine ih s1 _ (GReachH.step h hm ?_) (fun x hx => hnf x (List.mem_cons_of_mem _ hx)) s' hs
      intro ⟨msg, hmsg⟩
      exact absurd hmsg (hnf a (List.mem_cons_self ..) msg)

/-- non-vacuity: a Data server (handler installed) that reads an init request and an honoured close request in one chunk
    completes `close()` — credentials message and init reply written, writer stopped by the pill, socket closed, reader gone
    (pool-thread steps parse the thread name with `String.toNat?`, which the kernel does not evaluate; they are exercised by
    the co-simulation). -/
example : ∃ s log, GReachH 2 none none (some false) s log ∧ s.cpc = 3 ∧ s.sockClosed = true ∧ s.wpc = .stopped ∧
    s.rst = 3 ∧ s.written.length = 2 := by
  let steps : List (String × OpClass × String) :=
    [("M", .threadStart, ""), ("M", .put, ""), ("R", .threadStart, ""), ("W", .threadStart, ""),
     ("P", .deliver "1|DPI|S|ARI.version|S|1.8.3\r\n0|CLOSE|S|reason|S|x\r\n", ""), ("R", .recv, ""), ("R", .put, ""),
     ("R", .put, ""), ("W", .get false, ""), ("W", .send, ""), ("W", .get false, ""), ("W", .send, ""),
     ("W", .get false, ""), ("R", .join, ""), ("R", .poolWait, "")]
  have hrun : ∃ s', (steps.foldlM (fun (st : DState) (x : String × OpClass × String) => (gstep st x.1 x.2.1 x.2.2).map (·.1))
      { poolN := 2, user := none, password := none, ioHandler := some false }) = some s' ∧
      s'.cpc = 3 ∧ s'.sockClosed = true ∧ s'.wpc = .stopped ∧ s'.rst = 3 ∧ s'.written.length = 2 := by
    decide +kernel
  obtain ⟨s', hs', h1⟩ := hrun
  obtain ⟨log', hr⟩ := greachH_run steps _ _ (GReachH.init (n := 2))
    (by intro x hx msg; simp only [steps, List.mem_cons, List.mem_nil_iff, or_false] at hx
        rcases hx with rfl | rfl | rfl | rfl | rfl | rfl | rfl | rfl | rfl | rfl | rfl | rfl | rfl | rfl | rfl <;> simp) s' hs'
  exact ⟨s', log', hr, h1⟩
end Ari.Conc
