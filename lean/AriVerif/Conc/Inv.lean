import AriVerif.Conc.Item
/-
  Conc/Inv.lean — the invariant of the per-item machine, as a *decidable* predicate: it is proved
  inductive (Conc/InvProof*.lean) and it is also evaluated by the driver on every state the real
  server reaches in the co-simulation.
-/
namespace Ari.Conc
open Ari

/-- the task an instance is processing. -/
def Pc.held : Pc → Option Task
  | .put t _ _ => some t
  | .setCode t => some t
  | .callBegin _ t => some t
  | .inCall _ t => some t
  | .eosRead t => some t
  | .clearCode t => some t
  | _ => none

/-- still inside `_deque`'s loop (has not taken the exit branch). -/
def Pc.looping : Pc → Bool
  | .dec => false
  | .done => false
  | _ => true

/-- at the loop head, between two tasks. -/
def Pc.between : Pc → Bool
  | .inPool => true
  | .atLoop => true
  | _ => false

/-- the reply of the held task has been decided and (for SUB) the outcome variable updated. -/
def Pc.afterCall : Pc → Bool
  | .put _ _ .atLoop => true
  | .put _ _ (.clearCode _) => true
  | .clearCode _ => true
  | _ => false

/-- SUB `t` has been published and not yet answered with a failure. -/
def Pc.published (t : Task) : Pc → Bool
  | .callBegin .snap t' => t' = t
  | .inCall .snap t' => t' = t
  | .eosRead t' => t' = t
  | .put t' _ (.callBegin .sub _) => t' = t
  | .callBegin .sub t' => t' = t
  | .inCall .sub t' => t' = t
  | _ => false

/-- (added for inductiveness) shape of a program counter: a SUB-only pc holds a SUB, a USB-only pc holds a
    USB, a `put` that returns to the loop head is the reply of a SUB, and the continuation of a `put`
    (`clearCode` / `callBegin .sub`) is for the task that is being held. -/
def Pc.wf : Pc → Bool
  | .put t _ .atLoop => t.isSub
  | .put t _ (.clearCode t') => !t.isSub && decide (t' = t)
  | .put t _ (.callBegin .sub t') => t.isSub && decide (t' = t)
  | .put _ _ _ => false
  | .setCode t => t.isSub
  | .callBegin .usb t => !t.isSub
  | .callBegin _ t => t.isSub
  | .inCall .usb t => !t.isSub
  | .inCall _ t => t.isSub
  | .eosRead t => t.isSub
  | .clearCode t => !t.isSub
  | _ => true

def sumUpto (f : Nat → Nat) : Nat → Nat
  | 0 => 0
  | n + 1 => sumUpto f n + f n

/-- `dequeued` of instance k if it left the loop of generation g and has not yet decremented. -/
def decOf (s : IState) (g : Nat) (k : Nat) : Nat :=
  match (s.insts k).pc with
  | .dec => if (s.insts k).gen = g then (s.insts k).deq else 0
  | _ => 0

/-- the looping instance of the registered generation. -/
def cur (s : IState) : Option Nat := s.active.bind fun g => (s.mgrs g).loop

def heldL (s : IState) : List Task :=
  match cur s with
  | some k => ((s.insts k).pc.held).toList
  | none => []

def qL (s : IState) : List Task :=
  match s.active with
  | some g => (s.mgrs g).q
  | none => []

def rheldL (s : IState) : List Task :=
  match s.rheld with
  | some (t, _) => [t]
  | none => []

/-- between two tasks: no looping instance, or it is at the loop head. -/
def betweenTasks (s : IState) : Bool :=
  match cur s with
  | some k => (s.insts k).pc.between
  | none => true

/-- the outcome the next popped task will see. -/
def effOk (s : IState) : Bool :=
  match s.active with
  | none => false
  | some g =>
    match (s.mgrs g).loop with
    | some k => if (s.insts k).deq = 0 then (s.mgrs g).lastOk else (s.insts k).ok
    | none => (s.mgrs g).lastOk

def hasId (l : List Task) (r : String) : Prop := ∃ t ∈ l, t.id = r

instance (l : List Task) (r : String) : Decidable (hasId l r) := by unfold hasId; infer_instance

/-- well-formed request history of one item: pairwise distinct ids, SUB / USB alternating, SUB first. -/
def Alt : Bool → List Task → Prop
  | _, [] => True
  | b, t :: r => t.isSub = b ∧ Alt (!b) r

def WF (l : List Task) : Prop := (l.map (·.id)).Nodup ∧ Alt true l

def Alt.dec : (b : Bool) → (l : List Task) → Decidable (Alt b l)
  | _, [] => isTrue trivial
  | b, t :: r =>
    match decEq t.isSub b, Alt.dec (!b) r with
    | isTrue h1, isTrue h2 => isTrue ⟨h1, h2⟩
    | isFalse h1, _ => isFalse fun h => h1 h.1
    | _, isFalse h2 => isFalse fun h => h2 h.2

instance (b : Bool) (l : List Task) : Decidable (Alt b l) := Alt.dec b l
instance (l : List Task) : Decidable (WF l) := by unfold WF; infer_instance

structure Inv (s : IState) : Prop where
  -- structure of instances and generations
  genLt : ∀ k, k < s.ninst → (s.insts k).gen < s.nmgr
  loopOf : ∀ k, k < s.ninst → (s.insts k).pc.looping = true → (s.mgrs (s.insts k).gen).loop = some k
  loopInst : ∀ g, g < s.nmgr → ∀ k, (s.mgrs g).loop = some k →
      k < s.ninst ∧ (s.insts k).gen = g ∧ (s.insts k).pc.looping = true
  running : ∀ g, g < s.nmgr → (s.mgrs g).running = (s.mgrs g).loop.isSome
  firstPop : ∀ g, g < s.nmgr → ∀ k, (s.mgrs g).loop = some k → (s.insts k).deq = 0 → (s.mgrs g).q ≠ []
  heldDeq : ∀ k, k < s.ninst → (s.insts k).pc.looping = true → (s.insts k).pc.between = false → 1 ≤ (s.insts k).deq
  noLostWake : ∀ g, g < s.nmgr → (s.mgrs g).q ≠ [] → (s.mgrs g).running = true
  activeLt : ∀ g, s.active = some g → g < s.nmgr
  rheldActive : ∀ t g, s.rheld = some (t, g) → s.active = some g
  lsnInCall : ∀ k, k < s.ninst → (s.insts k).lsn ≠ none → ∃ m t, (s.insts k).pc = .inCall m t
  -- the counter
  counter : ∀ g, g < s.nmgr → (s.mgrs g).queued =
      ((s.mgrs g).q.length : Int) + (match (s.mgrs g).loop with | some k => ((s.insts k).deq : Int) | none => 0)
        + (sumUpto (decOf s g) s.ninst : Int) + (match s.rheld with | some (_, g') => if g' = g then 1 else 0 | none => 0)
  dead : ∀ g, g < s.nmgr → s.active ≠ some g →
      (s.mgrs g).q = [] ∧ (s.mgrs g).loop = none ∧ (s.mgrs g).code = none ∧ (s.mgrs g).queued = 0
  registered : ∀ g, s.active = some g → (s.mgrs g).code ≠ none ∨ 0 < (s.mgrs g).queued
  -- the sequence of requests
  seq : s.arr = s.fin ++ heldL s ++ qL s ++ rheldL s
  lateSucc : ∀ p, p ∈ s.late → s.arr.getLast? ≠ some p
  lateFin : ∀ p, p ∈ s.late → p ∈ s.fin ∨ (∃ k l, cur s = some k ∧ (s.insts k).pc = .put p l .atLoop)
  noneLastUsb : s.active = none → ∀ p, s.fin.getLast? = some p → p.isSub = false
  -- outcome hand-over
  outBetween : betweenTasks s = true → ∀ t, s.fin.getLast? = some t → t.isSub = true →
      (effOk s = true ↔ s.lastInv = some (.sub, t.id, true))
  outReply : ∀ k, cur s = some k → ∀ t l, (s.insts k).pc = .put t l .atLoop → t.isSub = true →
      ((s.insts k).ok = true ↔ s.lastInv = some (.sub, t.id, true))
  lastInvId : ∀ m r b, s.lastInv = some (m, r, b) → hasId s.fin r ∨
      (∃ k, cur s = some k ∧ (s.insts k).pc.afterCall = true ∧ ∃ t, (s.insts k).pc.held = some t ∧ t.id = r)
  usbPaired : ∀ k, cur s = some k → ∀ t, (s.insts k).pc = .callBegin .usb t →
      ∃ p, s.fin.getLast? = some p ∧ p.isSub = true ∧ s.lastInv = some (.sub, p.id, true)
  -- the published id
  codeLast : ∀ g, g < s.nmgr → ∀ r, (s.mgrs g).code = some r → s.execd.getLast? = some r
  execdArr : ∀ r, r ∈ s.execd → ∃ t, t ∈ s.arr ∧ t.id = r ∧ t.isSub = true ∧ t ∉ s.late
  codeAfterUsb : betweenTasks s = true → ∀ t, s.fin.getLast? = some t → t.isSub = false → readCode s = none
  codeNever : s.execd = [] → readCode s = none
  codeExec : betweenTasks s = true → ∀ t, s.fin.getLast? = some t → t.isSub = true → t ∉ s.late →
      readCode s = some t.id
  codePublished : ∀ k, cur s = some k → ∀ t, (s.insts k).pc.published t = true → readCode s = some t.id
  codeReply : ∀ k, cur s = some k → ∀ t l, (s.insts k).pc = .put t l .atLoop → t.isSub = true → t ∉ s.late →
      readCode s = some t.id
  codeUsb : ∀ k, cur s = some k → ∀ t, (s.insts k).pc = .callBegin .usb t →
      ∀ p, s.fin.getLast? = some p → readCode s = some p.id
  clearedNone : s.cleared = true → readCode s = none
  fwdShape : ∀ r, s.fwd = some r →
      (∃ k t, cur s = some k ∧ (s.insts k).pc = .inCall .sub t ∧ t.id = r) ∨
      (∃ k t l, cur s = some k ∧ (s.insts k).pc = .put t l .atLoop ∧ t.isSub = true ∧ t ∉ s.late ∧
          (s.insts k).ok = true ∧ t.id = r) ∨
      (betweenTasks s = true ∧ effOk s = true ∧ ∃ t, s.fin.getLast? = some t ∧ t.isSub = true ∧ t ∉ s.late ∧ t.id = r) ∨
      (∃ k t', cur s = some k ∧ (s.insts k).pc = .callBegin .usb t' ∧ ∃ t, s.fin.getLast? = some t ∧ t.id = r)
  -- replies
  replNodup : s.repl.Nodup
  replFin : ∀ t, t ∈ s.fin → t ∉ s.lost → t.id ∈ s.repl
  replOnly : ∀ r, r ∈ s.repl → hasId s.fin r ∨
      (∃ k t, cur s = some k ∧ (s.insts k).pc = .clearCode t ∧ t.id = r)
  lostNone : s.lost = []
  -- clauses ADDED to make the invariant inductive (InvProof); each is mirrored in `invFail`
  /-- every program counter is well-shaped (`Pc.wf`): needed e.g. at `put … atLoop` (the finished task is a
      SUB, so `codeAfterUsb` is vacuous), at `put … (clearCode t')` (`t' = t`, for `seq`), at `clearCode t`
      (`t` is a USB, for `outBetween`/`codeExec`), at `setCode t` (`execdArr` wants a SUB). -/
  pcWf : ∀ k, k < s.ninst → (s.insts k).pc.wf = true
  /-- a published id belongs to a task that has been popped (finished or held), never to one that is still
      queued: needed for `execdArr` when a queued SUB is skipped and becomes `late`. -/
  execdHeld : ∀ r, r ∈ s.execd → hasId s.fin r ∨ hasId (heldL s) r
  /-- the last ended subscribe/unsubscribe invocation was not for a skipped (late) task: needed for `codeUsb`
      at the pop of a USB (outcome true ⇒ the preceding SUB was executed, so its id is published). -/
  lastInvNotLate : ∀ m r b, s.lastInv = some (m, r, b) → ∀ p, p ∈ s.late → p.id ≠ r
  /-- at `clearCode t` the reply of `t` has been enqueued: needed for `replFin` when `t` finishes. -/
  replClear : ∀ k, cur s = some k → ∀ t, (s.insts k).pc = .clearCode t → t.id ∈ s.repl

/-- states reachable from the initial state of an item by any sequence of actions (any schedule of
    reader, pool tasks and listener-calling threads, any adapter outcomes). -/
def Reach (item : String) (s : IState) : Prop := ∃ acts, irun (IState.init item) acts = some s

end Ari.Conc
