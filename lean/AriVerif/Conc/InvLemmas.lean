import AriVerif.Conc.Reach
/-
  Conc/InvLemmas.lean — helper lemmas for the inductiveness proof of `Inv`.
-/
namespace Ari.Conc
open Ari

@[simp] theorem upd_same {α} (f : Nat → α) (i : Nat) (v : α) : upd f i v i = v := by simp [upd]
theorem upd_other {α} (f : Nat → α) (i : Nat) (v : α) (j : Nat) (h : j ≠ i) : upd f i v j = f j := by
  simp [upd, h]
theorem upd_apply {α} (f : Nat → α) (i : Nat) (v : α) (j : Nat) :
    upd f i v j = if j = i then v else f j := rfl

/-! ### sumUpto -/

theorem sumUpto_congr {f f' : Nat → Nat} {n : Nat} (h : ∀ k, k < n → f k = f' k) :
    sumUpto f n = sumUpto f' n := by
  induction n with
  | zero => rfl
  | succ n ih =>
    simp only [sumUpto]
    rw [ih (fun k hk => h k (Nat.lt_succ_of_lt hk)), h n (Nat.lt_succ_self n)]

theorem sumUpto_zero {f : Nat → Nat} {n : Nat} (h : ∀ k, k < n → f k = 0) : sumUpto f n = 0 := by
  induction n with
  | zero => rfl
  | succ n ih =>
    simp only [sumUpto]
    rw [ih (fun k hk => h k (Nat.lt_succ_of_lt hk)), h n (Nat.lt_succ_self n)]

theorem le_sumUpto {f : Nat → Nat} {n k : Nat} (hk : k < n) : f k ≤ sumUpto f n := by
  induction n with
  | zero => omega
  | succ n ih =>
    simp only [sumUpto]
    by_cases h : k = n
    · subst h; omega
    · have := ih (by omega); omega

theorem sumUpto_upd {f f' : Nat → Nat} {n k : Nat} (hk : k < n)
    (h : ∀ j, j < n → j ≠ k → f' j = f j) : sumUpto f' n + f k = sumUpto f n + f' k := by
  induction n with
  | zero => omega
  | succ n ih =>
    simp only [sumUpto]
    by_cases hkn : k = n
    · subst hkn
      have : sumUpto f' k = sumUpto f k := sumUpto_congr (fun j hj => h j (by omega) (by omega))
      omega
    · have h1 := ih (by omega) (fun j hj hjk => h j (by omega) hjk)
      have h2 := h n (by omega) (fun hh => hkn hh.symm)
      omega

/-! ### lists, `Alt`, `WF` -/

theorem alt_append {b : Bool} {l l' : List Task} (h : Alt b (l ++ l')) : Alt b l := by
  induction l generalizing b with
  | nil => trivial
  | cons t r ih => exact ⟨h.1, ih h.2⟩

theorem wf_append {l l' : List Task} (h : WF (l ++ l')) : WF l := by
  refine ⟨?_, alt_append h.2⟩
  have := h.1
  rw [List.map_append] at this
  exact (List.nodup_append.mp this).1

/-- in an alternating list, an element that has a predecessor has the opposite kind. -/
theorem alt_last {b : Bool} {l : List Task} {p t : Task} {r : List Task}
    (h : Alt b (l ++ t :: r)) (hp : l.getLast? = some p) : p.isSub = !t.isSub := by
  induction l generalizing b with
  | nil => simp at hp
  | cons x l ih =>
    cases l with
    | nil =>
      simp at hp; subst hp
      have h1 : x.isSub = b := h.1
      have h2 : t.isSub = !b := h.2.1
      rw [h1, h2]; simp
    | cons y l =>
      rw [List.getLast?_cons_cons] at hp
      exact ih h.2 hp

/-- the first element of an alternating list starting with SUB is a SUB. -/
theorem alt_first {l : List Task} {t : Task} {r : List Task}
    (h : Alt true (l ++ t :: r)) (ht : t.isSub = false) : ∃ p, l.getLast? = some p ∧ p.isSub = true := by
  cases hl : l.getLast? with
  | none =>
    rw [List.getLast?_eq_none_iff] at hl; subst hl
    have h1 : t.isSub = true := h.1
    rw [h1] at ht; cases ht
  | some p => exact ⟨p, rfl, by rw [alt_last h hl, ht]; rfl⟩

theorem hasId_append {l l' : List Task} {r : String} : hasId (l ++ l') r ↔ hasId l r ∨ hasId l' r := by
  simp [hasId, or_and_right, exists_or]

theorem hasId_of_mem {l : List Task} {t : Task} (h : t ∈ l) : hasId l t.id := ⟨t, h, rfl⟩

theorem hasId_singleton {t : Task} {r : String} : hasId [t] r ↔ t.id = r := by simp [hasId]

theorem hasId_nil {r : String} : ¬ hasId [] r := by simp [hasId]

/-- distinct ids: two elements of the list with the same id are equal. -/
theorem nodup_id_eq {l : List Task} (h : (l.map (·.id)).Nodup) {a b : Task} (ha : a ∈ l) (hb : b ∈ l)
    (hab : a.id = b.id) : a = b := by
  induction l with
  | nil => cases ha
  | cons x l ih =>
    simp only [List.map_cons, List.nodup_cons, List.mem_map, not_exists, not_and] at h
    simp only [List.mem_cons] at ha hb
    rcases ha with rfl | ha <;> rcases hb with rfl | hb
    · rfl
    · exact absurd hab.symm (h.1 b hb)
    · exact absurd hab (h.1 a ha)
    · exact ih h.2 ha hb

/-- distinct ids: an element of the second part has an id that does not occur in the first part. -/
theorem nodup_id_disj {l l' : List Task} (h : ((l ++ l').map (·.id)).Nodup) {a b : Task} (ha : a ∈ l)
    (hb : b ∈ l') : a.id ≠ b.id := by
  rw [List.map_append, List.nodup_append] at h
  exact h.2.2 a.id (List.mem_map.mpr ⟨a, ha, rfl⟩) b.id (List.mem_map.mpr ⟨b, hb, rfl⟩)

theorem not_hasId_of_nodup {l l' : List Task} (h : ((l ++ l').map (·.id)).Nodup) {b : Task}
    (hb : b ∈ l') : ¬ hasId l b.id := by
  rintro ⟨a, ha, hab⟩
  exact nodup_id_disj h ha hb hab

theorem getLast?_mem {l : List Task} {p : Task} (h : l.getLast? = some p) : p ∈ l :=
  List.mem_of_getLast? h

theorem getLast?_append_ne_nil {α} {l l' : List α} (h : l' ≠ []) : (l ++ l').getLast? = l'.getLast? := by
  rw [List.getLast?_append]
  cases hl : l'.getLast? with
  | none => rw [List.getLast?_eq_none_iff] at hl; exact absurd hl h
  | some x => rfl

end Ari.Conc
