import AriVerif.Conc.Inv
/-
  Conc/Reach.lean — statement of the main invariance theorem (proved in Conc/InvProof.lean) and the
  notions the property theorems use.
-/
namespace Ari.Conc
open Ari

/-- nothing left to do for this item: the reader is not in the middle of a dispatch and every dequeuer
    that was ever submitted has run to completion. -/
def Quiescent (s : IState) : Prop := s.rheld = none ∧ ∀ k, k < s.ninst → (s.insts k).pc = .done

/-- a library (non-environment) action: everything except the arrival of a request, the end of an adapter
    call (the adapter decides when it returns) and the listener calls. -/
def IAct.isLib : IAct → Bool
  | .lockMgr _ => false
  | .callEnd _ _ => false
  | .lsnRead _ _ => false
  | _ => true

end Ari.Conc
