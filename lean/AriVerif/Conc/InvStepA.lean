import AriVerif.Conc.InvTac
/-
  Conc/InvStepA.lean — preservation of `Inv` by the steps that only move the program counter of the looping
  instance (or touch `lsn`): start, lsnRead, lsnPut, eosRead, callBegin.
-/
namespace Ari.Conc
open Ari

theorem inv_start {s : IState} {k : Nat} (h : Inv s) (hk : k < s.ninst) (hpc : (s.insts k).pc = .inPool) :
    Inv (setInst s k { s.insts k with pc := .atLoop }) := by
  obtain ⟨hact, hloop, hcur⟩ := h.loopCur hk (by rw [hpc]; rfl)
  inv_refine
  case counter =>
    intro g hg
    have := h.counter g hg
    rw [decOf_eq] at this ⊢
    simp only [setInst] at this ⊢
    rw [sumDec_same _ _ _ _ _ (by simp [decI, hpc])]
    inv_auto
  all_goals inv_default [hact, hloop, hpc]

/-- only `lsn` of an instance inside an adapter call changes. -/
theorem inv_lsn {s : IState} {k : Nat} {m : AMethod} {t : Task} (h : Inv s) (hk : k < s.ninst)
    (hpc : (s.insts k).pc = .inCall m t) (l : Option String) :
    Inv (setInst s k { s.insts k with lsn := l }) := by
  obtain ⟨hact, hloop, hcur⟩ := h.loopCur hk (by rw [hpc]; rfl)
  inv_refine
  case counter =>
    intro g hg
    have := h.counter g hg
    rw [decOf_eq] at this ⊢
    simp only [setInst] at this ⊢
    rw [sumDec_same _ _ _ _ _ (by simp [decI, hpc])]
    inv_auto
  all_goals inv_default [hact, hloop, hpc]

theorem inv_eosRead1 {s : IState} {k : Nat} {t : Task} (h : Inv s) (hk : k < s.ninst)
    (hpc : (s.insts k).pc = .eosRead t) (line : String) :
    Inv (setInst s k { s.insts k with pc := .put t line (.callBegin .sub t) }) := by
  obtain ⟨hact, hloop, hcur⟩ := h.loopCur hk (by rw [hpc]; rfl)
  inv_refine
  case counter =>
    intro g hg
    have := h.counter g hg
    rw [decOf_eq] at this ⊢
    simp only [setInst] at this ⊢
    rw [sumDec_same _ _ _ _ _ (by simp [decI, hpc])]
    inv_auto
  all_goals inv_default [hact, hloop, hpc]

theorem inv_eosRead2 {s : IState} {k : Nat} {t : Task} (h : Inv s) (hk : k < s.ninst)
    (hpc : (s.insts k).pc = .eosRead t) :
    Inv (setInst s k { s.insts k with pc := .callBegin .sub t }) := by
  obtain ⟨hact, hloop, hcur⟩ := h.loopCur hk (by rw [hpc]; rfl)
  inv_refine
  case counter =>
    intro g hg
    have := h.counter g hg
    rw [decOf_eq] at this ⊢
    simp only [setInst] at this ⊢
    rw [sumDec_same _ _ _ _ _ (by simp [decI, hpc])]
    inv_auto
  all_goals inv_default [hact, hloop, hpc]

theorem inv_callBegin {s : IState} {k : Nat} {m : AMethod} {t : Task} (h : Inv s) (hk : k < s.ninst)
    (hpc : (s.insts k).pc = .callBegin m t) :
    Inv { setInst s k { s.insts k with pc := .inCall m t } with
          fwd := match m with | .sub => some t.id | .usb => none | .snap => s.fwd } := by
  obtain ⟨hact, hloop, hcur⟩ := h.loopCur hk (by rw [hpc]; rfl)
  inv_refine
  case codePublished => have hc := h.codePublished; cases m <;> inv_close [hact, hloop, hpc]
  case pcWf => have hc := h.pcWf; cases m <;> inv_close [hact, hloop, hpc]
  case counter =>
    intro g hg
    have := h.counter g hg
    rw [decOf_eq] at this ⊢
    simp only [setInst] at this ⊢
    rw [sumDec_same _ _ _ _ _ (by simp [decI, hpc])]
    inv_auto
  all_goals inv_default [hact, hloop, hpc]

end Ari.Conc
