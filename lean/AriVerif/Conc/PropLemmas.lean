import AriVerif.Conc.InvProof
/-
  Conc/PropLemmas.lean — small consequences of `Inv` shared by the property files Props/C01, C02, C03,
  C17, C19.
-/
namespace Ari.Conc
open Ari

theorem Pc.looping_of_held {pc : Pc} (h : pc.held ≠ none) : pc.looping = true := by
  cases pc <;> simp_all [Pc.held, Pc.looping]

/-- a looping instance belongs to the registered generation … -/
theorem Inv.active_of_looping {s : IState} (h : Inv s) {k : Nat} (hk : k < s.ninst)
    (hl : (s.insts k).pc.looping = true) : s.active = some (s.insts k).gen := by
  have hg := h.genLt k hk
  have hlo := h.loopOf k hk hl
  apply Classical.byContradiction
  intro ha
  have hd := (h.dead _ hg ha).2.1
  rw [hd] at hlo
  cases hlo

/-- … and is its looping instance. -/
theorem Inv.cur_of_looping {s : IState} (h : Inv s) {k : Nat} (hk : k < s.ninst)
    (hl : (s.insts k).pc.looping = true) : cur s = some k := by
  have ha := h.active_of_looping hk hl
  have hlo := h.loopOf k hk hl
  simp [cur, ha, hlo]

theorem Inv.cur_of_held {s : IState} (h : Inv s) {k : Nat} (hk : k < s.ninst)
    (hh : (s.insts k).pc.held ≠ none) : cur s = some k :=
  h.cur_of_looping hk (Pc.looping_of_held hh)

theorem Inv.heldL_of_held {s : IState} (h : Inv s) {k : Nat} (hk : k < s.ninst) {t : Task}
    (hh : (s.insts k).pc.held = some t) : heldL s = [t] := by
  have hc := h.cur_of_held hk (by rw [hh]; simp)
  simp [heldL, hc, hh]

/-- completed requests are a prefix of the arrivals. -/
theorem Inv.fin_sub_arr {s : IState} (h : Inv s) {t : Task} (ht : t ∈ s.fin) : t ∈ s.arr := by
  rw [h.seq]; simp [ht]

/-! ### quiescent states -/

theorem Inv.q_loop_none {s : IState} (h : Inv s) (hq : Quiescent s) (g : Nat) (hg : g < s.nmgr) :
    (s.mgrs g).loop = none := by
  cases hlo : (s.mgrs g).loop with
  | none => rfl
  | some k =>
    obtain ⟨hk, _, hl⟩ := h.loopInst g hg k hlo
    rw [hq.2 k hk] at hl
    cases hl

theorem Inv.q_cur {s : IState} (h : Inv s) (hq : Quiescent s) : cur s = none := by
  unfold cur
  cases ha : s.active with
  | none => rfl
  | some g => simpa using h.q_loop_none hq g (h.activeLt g ha)

theorem Inv.q_queue {s : IState} (h : Inv s) (hq : Quiescent s) (g : Nat) (hg : g < s.nmgr) :
    (s.mgrs g).q = [] := by
  apply Classical.byContradiction
  intro hne
  have hr := h.noLostWake g hg hne
  rw [h.running g hg, h.q_loop_none hq g hg] at hr
  cases hr

theorem Inv.q_qL {s : IState} (h : Inv s) (hq : Quiescent s) : qL s = [] := by
  unfold qL
  cases ha : s.active with
  | none => rfl
  | some g => simpa using h.q_queue hq g (h.activeLt g ha)

theorem Inv.q_arr_fin {s : IState} (h : Inv s) (hq : Quiescent s) : s.arr = s.fin := by
  rw [h.seq]
  simp [heldL, h.q_cur hq, h.q_qL hq, rheldL, hq.1]

theorem Inv.q_between {s : IState} (h : Inv s) (hq : Quiescent s) : betweenTasks s = true := by
  simp [betweenTasks, h.q_cur hq]

theorem sumUpto_zero_of_all (f : Nat → Nat) (n : Nat) (hf : ∀ k, k < n → f k = 0) : sumUpto f n = 0 := by
  induction n with
  | zero => rfl
  | succ n ih =>
    simp only [sumUpto]
    rw [ih (fun k hk => hf k (Nat.lt_succ_of_lt hk)), hf n (Nat.lt_succ_self n)]

theorem q_decOf_zero {s : IState} (hq : Quiescent s) (g : Nat) : sumUpto (decOf s g) s.ninst = 0 := by
  apply sumUpto_zero_of_all
  intro k hk
  simp [decOf, hq.2 k hk]

/-! ### `readCode` -/

theorem readCode_some {s : IState} {r : String} (hr : readCode s = some r) :
    ∃ g, s.active = some g ∧ (s.mgrs g).code = some r := by
  unfold readCode at hr
  cases ha : s.active with
  | none => rw [ha] at hr; cases hr
  | some g => rw [ha] at hr; exact ⟨g, rfl, hr⟩

theorem Inv.readCode_last {s : IState} (h : Inv s) {r : String} (hr : readCode s = some r) :
    s.execd.getLast? = some r := by
  obtain ⟨g, ha, hc⟩ := readCode_some hr
  exact h.codeLast g (h.activeLt g ha) r hc

/-! ### alternation -/

/-- in an alternating list, the element before `t` has the opposite kind (and the head has kind `b`). -/
theorem Alt.before {b : Bool} {l : List Task} {t : Task} {r : List Task} (h : Alt b (l ++ t :: r)) :
    (l = [] ∧ t.isSub = b) ∨ (∃ p, l.getLast? = some p ∧ p.isSub = !t.isSub) := by
  induction l generalizing b with
  | nil => exact Or.inl ⟨rfl, h.1⟩
  | cons a l ih =>
    right
    have h' : Alt (!b) (l ++ t :: r) := h.2
    rcases ih h' with ⟨rfl, ht⟩ | ⟨p, hp, hps⟩
    · refine ⟨a, rfl, ?_⟩
      rw [ht, h.1]; simp
    · refine ⟨p, ?_, hps⟩
      cases l with
      | nil => cases hp
      | cons a' l' => simpa [List.getLast?_cons_cons] using hp

end Ari.Conc
