import AriVerif.Conc.InvLemmas
import Lean
/-
  Conc/InvTac.lean — structural consequences of `Inv`, frame lemmas for pure-ghost updates, and the
  automation used by the per-action preservation lemmas.
-/
namespace Ari.Conc
open Ari

/-- a looping instance is the looping instance of the registered generation. -/
theorem Inv.loopCur {s : IState} (h : Inv s) {k : Nat} (hk : k < s.ninst)
    (hl : (s.insts k).pc.looping = true) :
    s.active = some (s.insts k).gen ∧ (s.mgrs (s.insts k).gen).loop = some k ∧ cur s = some k := by
  have h1 := h.loopOf k hk hl
  have h2 := h.genLt k hk
  have h3 : s.active = some (s.insts k).gen := by
    apply Classical.byContradiction; intro hc
    have := (h.dead _ h2 hc).2.1
    rw [this] at h1; cases h1
  exact ⟨h3, h1, by simp [cur, h3, h1]⟩

theorem Inv.curLoop {s : IState} (h : Inv s) {k : Nat} (hc : cur s = some k) :
    k < s.ninst ∧ s.active = some (s.insts k).gen ∧ (s.mgrs (s.insts k).gen).loop = some k ∧
      (s.insts k).pc.looping = true := by
  unfold cur at hc
  cases ha : s.active with
  | none => rw [ha] at hc; cases hc
  | some g =>
    rw [ha] at hc; simp at hc
    have := h.loopInst g (h.activeLt g ha) k hc
    obtain ⟨h1, h2, h3⟩ := this
    subst h2
    exact ⟨h1, rfl, hc, h3⟩

/-- nothing in `Inv` depends on `log`, `out`, `ext`. -/
theorem inv_ghost {s s' : IState} (h : Inv s)
    (e1 : s'.mgrs = s.mgrs) (e2 : s'.nmgr = s.nmgr) (e3 : s'.active = s.active) (e4 : s'.rheld = s.rheld)
    (e5 : s'.insts = s.insts) (e6 : s'.ninst = s.ninst) (e7 : s'.arr = s.arr) (e8 : s'.fin = s.fin)
    (e9 : s'.repl = s.repl) (e10 : s'.execd = s.execd) (e11 : s'.lastInv = s.lastInv) (e12 : s'.fwd = s.fwd)
    (e13 : s'.cleared = s.cleared) (e14 : s'.lost = s.lost) (e15 : s'.late = s.late) : Inv s' := by
  have c : cur s' = cur s := by simp [cur, e1, e3]
  have c2 : heldL s' = heldL s := by simp [heldL, c, e5]
  have c3 : qL s' = qL s := by simp [qL, e1, e3]
  have c4 : rheldL s' = rheldL s := by simp [rheldL, e4]
  have c5 : betweenTasks s' = betweenTasks s := by simp [betweenTasks, c, e5]
  have c6 : effOk s' = effOk s := by simp [effOk, e1, e3, e5]
  have c7 : readCode s' = readCode s := by simp [readCode, e1, e3]
  have c8 : decOf s' = decOf s := by funext g k; simp [decOf, e5]
  obtain ⟨genLt, loopOf, loopInst, running, firstPop, heldDeq, noLostWake, activeLt, rheldActive, lsnInCall,
    counter, dead, registered, seq, lateSucc, lateFin, noneLastUsb, outBetween, outReply, lastInvId, usbPaired,
    codeLast, execdArr, codeAfterUsb, codeNever, codeExec, codePublished, codeReply, codeUsb, clearedNone,
    fwdShape, replNodup, replFin, replOnly, lostNone, pcWf, execdHeld, lastInvNotLate, replClear⟩ := h
  constructor <;>
    simp only [c, c2, c3, c4, c5, c6, c7, c8, e1, e2, e3, e4, e5, e6, e7, e8, e9, e10, e11, e12, e13, e14, e15] <;>
    assumption

theorem inv_addLog {s : IState} (l : List Ev) (h : Inv s) : Inv (addLog s l) :=
  inv_ghost h rfl rfl rfl rfl rfl rfl rfl rfl rfl rfl rfl rfl rfl rfl rfl

theorem inv_addOut {s : IState} (l : String) (h : Inv s) : Inv (addOut s l) :=
  inv_ghost h rfl rfl rfl rfl rfl rfl rfl rfl rfl rfl rfl rfl rfl rfl rfl

/-- `decOf` depends on the instance only. -/
def decI (i : Inst) (g : Nat) : Nat :=
  match i.pc with
  | .dec => if i.gen = g then i.deq else 0
  | _ => 0

theorem decOf_eq (s : IState) (g : Nat) : decOf s g = fun j => decI (s.insts j) g := rfl

theorem sumDec_upd (insts : Nat → Inst) (k n g : Nat) (i' : Inst) (hk : k < n) :
    sumUpto (fun j => decI (upd insts k i' j) g) n + decI (insts k) g
      = sumUpto (fun j => decI (insts j) g) n + decI i' g := by
  have := sumUpto_upd (f := fun j => decI (insts j) g) (f' := fun j => decI (upd insts k i' j) g) hk
    (fun j _ hjk => by simp [upd, hjk])
  simpa using this

theorem sumDec_same (insts : Nat → Inst) (k n g : Nat) (i' : Inst) (h : decI i' g = decI (insts k) g) :
    sumUpto (fun j => decI (upd insts k i' j) g) n = sumUpto (fun j => decI (insts j) g) n := by
  apply sumUpto_congr
  intro j _
  by_cases hj : j = k
  · subst hj; simp [h]
  · simp [upd, hj]

theorem sumDec_fresh (insts : Nat → Inst) (n g : Nat) (i' : Inst) (h : decI i' g = 0) :
    sumUpto (fun j => decI (upd insts n i' j) g) (n + 1) = sumUpto (fun j => decI (insts j) g) n := by
  simp only [sumUpto, upd_same, h, Nat.add_zero]
  apply sumUpto_congr
  intro j hj
  simp [upd, Nat.ne_of_lt hj]

syntax "inv_auto" : tactic
macro_rules
  | `(tactic| inv_auto) => `(tactic|
      grind [upd_apply, Pc.looping, Pc.between, Pc.held, Pc.afterCall, Pc.published, Pc.wf])

syntax "inv_unfold" : tactic
macro_rules
  | `(tactic| inv_unfold) => `(tactic|
      simp only [setInst, setMgr, addLog, addOut, finish, replied, cur, heldL, qL, rheldL, betweenTasks,
        effOk, readCode] at *)

set_option hygiene false in
/-- put all clauses of `h : Inv s` into the context under their field names. -/
macro "inv_destruct" h:ident : tactic => `(tactic|
  obtain ⟨genLt, loopOf, loopInst, running, firstPop, heldDeq, noLostWake, activeLt, rheldActive, lsnInCall, counter, dead, registered, seq, lateSucc, lateFin, noneLastUsb, outBetween, outReply, lastInvId, usbPaired, codeLast, execdArr, codeAfterUsb, codeNever, codeExec, codePublished, codeReply, codeUsb, clearedNone, fwdShape, replNodup, replFin, replOnly, lostNone, pcWf, execdHeld, lastInvNotLate, replClear⟩ := $h)

set_option hygiene false in
/-- one goal per clause, tagged with the field name. -/
macro "inv_refine" : tactic => `(tactic|
  refine { genLt := ?genLt, loopOf := ?loopOf, loopInst := ?loopInst, running := ?running, firstPop := ?firstPop, heldDeq := ?heldDeq, noLostWake := ?noLostWake, activeLt := ?activeLt, rheldActive := ?rheldActive, lsnInCall := ?lsnInCall, counter := ?counter, dead := ?dead, registered := ?registered, seq := ?seq, lateSucc := ?lateSucc, lateFin := ?lateFin, noneLastUsb := ?noneLastUsb, outBetween := ?outBetween, outReply := ?outReply, lastInvId := ?lastInvId, usbPaired := ?usbPaired, codeLast := ?codeLast, execdArr := ?execdArr, codeAfterUsb := ?codeAfterUsb, codeNever := ?codeNever, codeExec := ?codeExec, codePublished := ?codePublished, codeReply := ?codeReply, codeUsb := ?codeUsb, clearedNone := ?clearedNone, fwdShape := ?fwdShape, replNodup := ?replNodup, replFin := ?replFin, replOnly := ?replOnly, lostNone := ?lostNone, pcWf := ?pcWf, execdHeld := ?execdHeld, lastInvNotLate := ?lastInvNotLate, replClear := ?replClear })

open Lean Elab Tactic in
/-- `inv_have h`: the main goal is tagged with a field name `X` of `Inv`; add `hc : <type of h.X>`. -/
elab "inv_have" h:ident : tactic => do
  let g ← getMainGoal
  let tag ← g.getTag
  let env ← getEnv
  let comps := tag.eraseMacroScopes.components
  let some c := comps.find? (fun c => env.contains (`Ari.Conc.Inv ++ c))
    | throwError "inv_have: goal tag {tag} names no clause of Inv"
  let fld := mkIdent (h.getId ++ c)
  let hc := mkIdent `hc
  evalTactic (← `(tactic| have $hc := $fld))

open Lean Elab Tactic in
/-- report the clause that the default automation could not prove. -/
elab "inv_fail" : tactic => do
  let g ← getMainGoal
  let tag ← g.getTag
  throwError "FAIL {tag.eraseMacroScopes}: the default automation does not prove this clause"

set_option hygiene false in
/-- unfold the derived notions in `hc` and the goal, simplifying with the given facts. -/
macro "inv_simp" "[" ls:Lean.Parser.Tactic.simpLemma,* "]" : tactic => `(tactic|
  simp [setInst, setMgr, addLog, addOut, finish, replied, cur, heldL, qL, rheldL, betweenTasks,
        effOk, readCode, Pc.held, Pc.between, Pc.looping, Pc.afterCall, Pc.published, Pc.wf,
        hasId_append, hasId_singleton, hasId_nil, $ls,*] at hc ⊢)

set_option hygiene false in
/-- default proof of a clause: it is the same clause of the pre-state, up to unfolding and case analysis. -/
macro "inv_default" "[" ls:Lean.Parser.Tactic.simpLemma,* "]" : tactic => `(tactic|
  first
  | (inv_have h; first | exact hc | ((try inv_simp [$ls,*]) <;> inv_auto))
  | inv_fail)

set_option hygiene false in
/-- with `hc` (the relevant facts of the pre-state) in the context: unfold, simplify, and call `grind`. -/
macro "inv_close" "[" ls:Lean.Parser.Tactic.simpLemma,* "]" : tactic => `(tactic|
  ((try inv_simp [$ls,*]) <;> inv_auto))

/-- the task held by the looping instance sits between `fin` and the queue in `arr`; its id is fresh. -/
theorem Inv.heldFacts {s : IState} (h : Inv s) (hwf : WF s.arr) {k : Nat} {t : Task} (hcur : cur s = some k)
    (hheld : (s.insts k).pc.held = some t) :
    s.arr = s.fin ++ t :: (qL s ++ rheldL s) ∧ ¬ hasId s.fin t.id ∧ t ∉ s.fin ∧ t ∈ s.arr := by
  have hseq := h.seq
  have hl : heldL s = [t] := by simp [heldL, hcur, hheld]
  rw [hl] at hseq
  have e : s.arr = s.fin ++ t :: (qL s ++ rheldL s) := by rw [hseq]; simp
  have hn : ¬ hasId s.fin t.id := by
    have := hwf.1; rw [e] at this
    exact not_hasId_of_nodup this (List.mem_cons_self ..)
  exact ⟨e, hn, fun hm => hn (hasId_of_mem hm), by rw [e]; simp⟩

/-- a held task is not late unless the instance is about to send its reply and return to the loop head. -/
theorem Inv.heldNotLate {s : IState} (h : Inv s) (hwf : WF s.arr) {k : Nat} {t : Task} (hcur : cur s = some k)
    (hheld : (s.insts k).pc.held = some t) (hnp : ∀ l, (s.insts k).pc ≠ .put t l .atLoop) : t ∉ s.late := by
  intro hl
  rcases h.lateFin t hl with hf | ⟨k', l, hk', hp⟩
  · exact (h.heldFacts hwf hcur hheld).2.2.1 hf
  · rw [hcur] at hk'; cases hk'; exact hnp l hp

/-- lower bounds of the `queued` counter. -/
theorem Inv.queued_ge {s : IState} (h : Inv s) {g : Nat} (hg : g < s.nmgr) :
    ((s.mgrs g).q.length : Int) + (sumUpto (decOf s g) s.ninst : Int) ≤ (s.mgrs g).queued ∧
    (∀ k, (s.mgrs g).loop = some k →
      ((s.mgrs g).q.length : Int) + ((s.insts k).deq : Int) + (sumUpto (decOf s g) s.ninst : Int) ≤ (s.mgrs g).queued) := by
  have hc := h.counter g hg
  constructor
  · rcases hl : (s.mgrs g).loop with _ | k <;> rcases hr : s.rheld with _ | ⟨t, g'⟩ <;>
      simp only [hl, hr] at hc <;> (try split at hc) <;>
      (try have := Int.natCast_nonneg (s.insts k).deq) <;> omega
  · intro k hl
    rcases hr : s.rheld with _ | ⟨t, g'⟩ <;>
      simp only [hl, hr] at hc <;> (try split at hc) <;> omega

/-- a skipped task has arrived. -/
theorem Inv.late_mem_arr {s : IState} (h : Inv s) {p : Task} (hp : p ∈ s.late) : p ∈ s.arr := by
  rw [h.seq]
  rcases h.lateFin p hp with hf | ⟨k, l, hk, hpc⟩
  · simp [hf]
  · simp [heldL, hk, hpc, Pc.held]

set_option hygiene false in
/-- like `inv_default`, but the extra facts `hF` (a structure, opaque to `grind`) are only opened when the
    clause does not follow without them. -/
macro "inv_default_with" hF:ident "[" ls:Lean.Parser.Tactic.simpLemma,* "]" : tactic => `(tactic|
  first
  | (inv_have h; first | exact hc | ((try inv_simp [$ls,*]) <;> inv_auto))
  | (inv_have h; cases $hF:ident; ((try inv_simp [$ls,*]) <;> inv_auto))
  | inv_fail)

/-- the `counter` clause without `match`. -/
theorem Inv.counter' {s : IState} (h : Inv s) {g : Nat} (hg : g < s.nmgr) :
    ∃ lt rt : Nat, (s.mgrs g).queued = ((s.mgrs g).q.length : Int) + lt + (sumUpto (decOf s g) s.ninst : Int) + rt ∧
      (∀ k, (s.mgrs g).loop = some k → lt = (s.insts k).deq) ∧ ((s.mgrs g).loop = none → lt = 0) ∧
      (rt = 0 ↔ ∀ t, s.rheld ≠ some (t, g)) := by
  have hc := h.counter g hg
  rcases hl : (s.mgrs g).loop with _ | k <;> rcases hr : s.rheld with _ | ⟨t, g'⟩ <;>
      simp only [hl, hr] at hc
  · exact ⟨0, 0, by simpa using hc, by simp, by simp, by simp⟩
  · by_cases hgg : g' = g
    · subst hgg
      exact ⟨0, 1, by simpa using hc, by simp, by simp, by simp⟩
    · exact ⟨0, 0, by simpa [hgg] using hc, by simp, by simp, by simp [hgg]⟩
  · exact ⟨(s.insts k).deq, 0, by simpa using hc, by simp, by simp, by simp⟩
  · by_cases hgg : g' = g
    · subst hgg
      exact ⟨(s.insts k).deq, 1, by simpa using hc, by simp, by simp, by simp⟩
    · exact ⟨(s.insts k).deq, 0, by simpa [hgg] using hc, by simp, by simp, by simp [hgg]⟩

/-
  `grind`/`simp` generate the equation / congruence lemmas of the `match` expressions of the model on demand,
  and some auxiliary declarations produced on the way end up in the `.olean` of the module that happened to
  need them first; two sibling modules that both did so cannot be imported together.  Generate all of them
  here, once, upstream of every `InvStep*` module.
-/
open Lean Meta Elab Command in
elab "realize_match_eqns" : command => do
  let env ← getEnv
  let names := env.constants.fold (init := #[]) fun acc n _ =>
    if (`Ari.Conc).isPrefixOf n && Lean.Meta.isMatcherCore env n then acc.push n else acc
  liftTermElabM do
    for n in names do
      try
        discard <| Match.getEquationsFor n
        discard <| Match.genMatchCongrEqns n
      catch _ => pure ()

realize_match_eqns

end Ari.Conc
