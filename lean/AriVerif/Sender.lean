/-
  Sender.lean — model of the writer thread (`_Sender._do_run`) in virtual time.
  Time is in ticks (`Nat`); an interval of 0 ticks means "keepalives disabled" (`_keepalive <= 0`).

  The writer alternates `wait` (queue.get with the interval read *when the wait begins*) and `send`
  (one sendall of `line + CRLF`, zero virtual time).  The environment is a time-ordered list of events.
-/
namespace Ari

inductive SAct
  | put (msg : String)            -- a reply / notification is enqueued
  | pill                          -- the KEEPALIVE pill (explicit interrupt of the current wait)
  | setK (k : Nat)                -- `change_keep_alive` (takes effect at the next wait)
  | stop                          -- the STOP pill
deriving Repr, DecidableEq

/-- why a line was written. -/
inductive Cause
  | msg                           -- a submitted message
  | timeout (waitStart : Nat) (interval : Nat)   -- the wait begun at `waitStart` with `interval` expired
  | pill
deriving Repr, DecidableEq

structure Written where
  time : Nat
  line : String
  cause : Cause
  /-- interval with which the wait that follows this write begins (0 = blocking) -/
  nextK : Nat
deriving Repr, DecidableEq

structure SState where
  /-- current value of `_keepalive` -/
  k : Nat
  /-- the wait in progress began at this time … -/
  ws : Nat
  /-- … with this interval (0 = blocking get) -/
  wk : Nat
  stopped : Bool := false
deriving Repr

/-- keepalives that fire strictly before `te` (or at `te` too when `incl`): the wait (ws, wk) expires at
    ws + wk, a new wait begins there with the current k, and so on.  `fuel` bounds the recursion. -/
def fireUntil (fuel : Nat) (s : SState) (te : Nat) (incl : Bool) : SState × List Written :=
  match fuel with
  | 0 => (s, [])
  | fuel + 1 =>
    if s.stopped ∨ s.wk = 0 then (s, []) else
    let d := s.ws + s.wk
    if d < te ∨ (incl ∧ d = te) then
      let s' : SState := { s with ws := d, wk := s.k }
      let (s'', out) := fireUntil fuel s' te incl
      (s'', ⟨d, "KEEPALIVE", .timeout s.ws s.wk, s.k⟩ :: out)
    else (s, [])

/-- one environment event at time `te` (events are processed in order; `tieTimeoutFirst` decides a deadline
    that falls exactly on `te`). -/
def onEvent (tieTimeoutFirst : Bool) (s : SState) (te : Nat) (a : SAct) : SState × List Written :=
  let (s1, out1) := fireUntil (te + 1) s te tieTimeoutFirst
  if s1.stopped then (s1, out1) else
  match a with
  | .setK k => ({ s1 with k := k }, out1)
  | .put m => ({ s1 with ws := te, wk := s1.k }, out1 ++ [⟨te, m, .msg, s1.k⟩])
  | .pill => ({ s1 with ws := te, wk := s1.k }, out1 ++ [⟨te, "KEEPALIVE", .pill, s1.k⟩])
  | .stop => ({ s1 with stopped := true }, out1)

def runEvents (tie : Bool) (s : SState) : List (Nat × SAct) → SState × List Written
  | [] => (s, [])
  | (te, a) :: rest =>
    let (s1, o1) := onEvent tie s te a
    let (s2, o2) := runEvents tie s1 rest
    (s2, o1 ++ o2)

/-- the whole run: events, then idle until `horizon`. -/
def senderRun (tie : Bool) (k0 : Nat) (events : List (Nat × SAct)) (horizon : Nat) : List Written :=
  let s0 : SState := { k := k0, ws := 0, wk := k0 }
  let (s1, o1) := runEvents tie s0 events
  let (_, o2) := fireUntil (horizon + 1) s1 horizon true
  o1 ++ o2

end Ari
