import AriVerif.Codec
import AriVerif.Py.Text
/-
  Wire.lean — model of protocol.parse_request / read_token / read / read_map / read_seq and the
  typed token decoders.  Every failure of the real code inside a `read_*` function surfaces as
  `RemotingException("… while parsing <METHOD> request")`; the model's error is `Unit` and the
  method name is attached by `Requests.decodeRequest`.
-/
namespace Ari

inductive Mode | raw | merge | distinct | command
deriving DecidableEq, Repr

def Mode.code : Mode → Char
  | .raw => 'R' | .merge => 'M' | .distinct => 'D' | .command => 'C'

/-- `MpnPlatformType`, or the `''` that `decode_mobile_platform_type('$')` returns. -/
inductive Plat | apple | google | empty
deriving DecidableEq, Repr

/-- a decoded token value. `strInvalid` = a text token whose bytes are not UTF-8 (Python substitutes
    U+FFFD; outside every property). -/
inductive Val
  | str (s : Option String)
  | strInvalid
  | int (i : Int)
  | mode (m : Option Mode)
  | plat (p : Option Plat)
deriving DecidableEq, Repr

/-- `parse_request`: `none` = discarded line; else (id, method, data tokens). -/
def parseRequest (line : String) : Option (String × String × List String) :=
  let packet := splitBar (rstrip line)
  let notEmpty := packet.filter fun t => (rstrip t) != ""
  match packet, notEmpty with
  | id :: _, _ :: m :: data => some (id, m, data)
  | _, _ => none

abbrev R := Except Unit

deriving instance DecidableEq for Except

/-- `read_token`. -/
def readToken (toks : List String) (i : Nat) : R String :=
  match toks[i]? with
  | some t => .ok t
  | none => .error ()

/-- `decode_modes`: only the first character counts (`"MX"` is MERGE). -/
def decodeModes (t : String) : R (Option Mode) :=
  if t = "#" ∨ t = "$" then .ok none else
  match t.toList with
  | 'R' :: _ => .ok (some .raw)
  | 'M' :: _ => .ok (some .merge)
  | 'D' :: _ => .ok (some .distinct)
  | 'C' :: _ => .ok (some .command)
  | _ => .error ()

/-- `decode_mobile_platform_type`. -/
def decodePlat (t : String) : R (Option Plat) :=
  if t = "#" then .ok none
  else if t = "$" then .ok (some .empty)
  else if t = "A" then .ok (some .apple)
  else if t = "G" then .ok (some .google)
  else .error ()

/-- `read(packet, data_type, index)` for `data_type ∈ {S, M, I, P}`. -/
def read (toks : List String) (ty : Char) (i : Nat) : R Val := do
  let t ← readToken toks i
  if t = String.singleton ty then
    let cur ← readToken toks (i + 1)
    if ty = 'S' then
      match decodeString cur with
      | .val v => .ok (.str v)
      | .invalid => .ok .strInvalid
    else if ty = 'M' then (decodeModes cur).map .mode
    else if ty = 'I' then
      match pyInt? cur with
      | some n => .ok (.int n)
      | none => .error ()
    else if ty = 'P' then (decodePlat cur).map .plat
    else .error ()
  else .error ()

/-- pairs read by `read_map`: for `i in range(0, len(data) - 2, 4)`. -/
def readPairs : List String → R (List (Val × Val))
  | [] => .ok []
  | [_] => .ok []
  | [_, _] => .ok []            -- a dangling `S|k` is silently ignored (range stops at len-2)
  | [_, _, _] => .ok []
  | data@(_ :: _ :: _ :: _ :: rest) => do
    let k ← read data 'S' 0
    let v ← read data 'S' 2
    let more ← readPairs rest
    .ok ((k, v) :: more)

/-- `read_map(tokens, start)` (as the list of decoded pairs in order; the dict is built by the caller). -/
def readMap (toks : List String) (start : Nat) : R (List (Val × Val)) :=
  let data := toks.drop start
  if data.length % 2 ≠ 0 then .error () else readPairs data

/-- `read_seq(tokens, offset)`. -/
def readSeqL : List String → R (List Val)
  | [] => .ok []
  | [t] => do let v ← read [t] 'S' 0; .ok [v]      -- always fails: the value token is missing
  | data@(_ :: _ :: rest) => do
    let v ← read data 'S' 0
    let more ← readSeqL rest
    .ok (v :: more)

def readSeq (toks : List String) (off : Nat) : R (List Val) := readSeqL (toks.drop off)

end Ari
