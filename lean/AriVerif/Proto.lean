import AriVerif.Hex
import AriVerif.Meta
/-
  Proto.lean — (de)serialisation of model values for the harness <-> driver line protocol.
  Not part of any theorem.
-/
namespace Ari.Proto
open Ari

def showOptStr : Option String → String
  | none => "n"
  | some s => "s:" ++ Hex.ofStr s

def parseOptStr? (t : String) : Option (Option String) :=
  if t = "n" then some none else
  if t.startsWith "s:" then (Hex.toStr? (t.drop 2).toString).map some else none

def showVal : Val → String
  | .str v => showOptStr v
  | .strInvalid => "x"
  | .int i => "i:" ++ toString i
  | .mode none => "m:n"
  | .mode (some m) => "m:" ++ String.singleton m.code
  | .plat none => "p:n"
  | .plat (some .empty) => "p:e"
  | .plat (some .apple) => "p:A"
  | .plat (some .google) => "p:G"

def showArgs (a : Args) : String :=
  let f := a.fixed.map showVal
  let t : List String := match a.tail with
    | .none => ["T", "none"]
    | .map kvs => ["T", "map"] ++ (dictOf kvs).flatMap fun (k, v) => [showVal k, showVal v]
    | .seq xs => ["T", "seq"] ++ xs.map showVal
    | .tables ts => ["T", "tab", toString ts.length] ++ ts.flatMap fun t => t.map showVal
  " ".intercalate (["F"] ++ f ++ t)

partial def showAV : AV → String
  | .v x => "v:" ++ showVal x
  | .dict kvs => "d{ " ++ " ".intercalate (kvs.flatMap fun (k, v) => [showVal k, showVal v]) ++ " }"
  | .list xs => "l[ " ++ " ".intercalate (xs.map showAV) ++ " ]"
  | .obj c fs => "o:" ++ c ++ "( " ++ " ".intercalate (fs.map showAV) ++ " )"
  | .mode m => "mode:" ++ String.singleton m.code

def showCall (c : Call) : String := c.name ++ "( " ++ " ".intercalate (c.args.map showAV) ++ " )"

def showExec : ExecResult → String
  | .reply l => "reply " ++ Hex.ofStr l
  | .remoting => "remoting"
  | .pyError => "pyerror"

/-- PyVal parser over a token stream. -/
partial def parsePy : List String → Option (PyVal × List String)
  | [] => none
  | t :: rest =>
    if t = "N" then some (.none, rest)
    else if t = "T" then some (.bool true, rest)
    else if t = "F" then some (.bool false, rest)
    else if t.startsWith "S:" then (Hex.toStr? (t.drop 2).toString).map fun s => (.str s, rest)
    else if t.startsWith "B:" then some (.bytes (Hex.toBytes (t.drop 2).toString), rest)
    else if t.startsWith "I:" then ((t.drop 2).toString.toInt?).map fun i => (.int i, rest)
    else if t.startsWith "D:" then
      match (t.drop 2).toString.splitOn ":" with
      | [r, z] => (Hex.toStr? r).map fun s => (.float s (z == "z"), rest)
      | _ => none
    else if t.startsWith "M:" then
      match (t.drop 2).toString.toList with
      | [c] => some (.mode c, rest)
      | _ => none
    else if t.startsWith "O:" then
      match (t.drop 2).toString.splitOn ":" with
      | [tag, tr] => some (.other tag (tr == "t"), rest)
      | _ => none
    else if t = "L[" then
      let rec go (acc : List PyVal) (ts : List String) : Option (PyVal × List String) :=
        match ts with
        | "]" :: r => some (.list acc.reverse, r)
        | ts => match parsePy ts with
          | some (v, r) => go (v :: acc) r
          | none => none
      go [] rest
    else none

def parseExc (ts : List String) : Option (Exc × List String) :=
  match ts with
  | mro :: msg :: code :: um :: sid :: rest =>
    match Hex.toStr? msg, code.toInt?, parseOptStr? um, parseOptStr? sid with
    | some m, some c, some u, some s => some (⟨mro.splitOn ",", m, c, u, s⟩, rest)
    | _, _, _, _ => none
  | _ => none

partial def parseOutcomes (ts : List String) (acc : List Outcome) : Option (List Outcome) :=
  match ts with
  | [] => some acc.reverse
  | "R" :: rest => match parsePy rest with
    | some (v, r) => parseOutcomes r (.ret v :: acc)
    | none => none
  | "E" :: rest => match parseExc rest with
    | some (e, r) => parseOutcomes r (.raise e :: acc)
    | none => none
  | _ => none

def hexToks? (ts : List String) : Option (List String) := ts.mapM Hex.toStr?

def showW : W String → String
  | .ok l => "ok " ++ Hex.ofStr l
  | .error .remoting => "err remoting"
  | .error .pyType => "err type"

partial def parsePairs (n : Nat) (ts : List String) (acc : List (PyVal × PyVal)) :
    Option (List (PyVal × PyVal) × List String) :=
  match n with
  | 0 => some (acc.reverse, ts)
  | n + 1 => match parsePy ts with
    | some (k, r) => match parsePy r with
      | some (v, r') => parsePairs n r' ((k, v) :: acc)
      | none => none
    | none => none

def parseEv (ts : List String) : Option (EvMap × List String) :=
  match ts with
  | "EN" :: r => some (.none, r)
  | "EO:t" :: r => some (.other true, r)
  | "EO:f" :: r => some (.other false, r)
  | "ED" :: n :: r => match n.toNat? with
    | some k => (parsePairs k r []).map fun (kvs, r') => (.dict kvs, r')
    | none => none
  | _ => none

partial def parseMany (ts : List String) (acc : List PyVal) : Option (List PyVal) :=
  match ts with
  | [] => some acc.reverse
  | ts => match parsePy ts with
    | some (v, r) => parseMany r (v :: acc)
    | none => none

def triples : List PyVal → Option (List ItemData)
  | [] => some []
  | a :: b :: c :: rest => (triples rest).map (ItemData.mk a b c :: ·)
  | _ => none

end Ari.Proto
