import AriVerif.Init
/-
  Dispatch.lean — model of what the reader thread does with one request line:
  Server.on_received_request → _handle_received_request (CLOSE) → _handle_request (init gating, dispatch),
  on_exception / default exception handling, and Server.close().  The reader is sequential, so the model is
  a function from (state, line) to (state, list of actions in program order).
-/
namespace Ari

structure SrvCfg where
  kind : Kind
  /-- `none` = no ExceptionHandler installed; `some r` = installed, `handle_exception` returns a value of
      truthiness `r` (truthy ⇒ the default handling runs as well) -/
  excHandler : Option Bool
  /-- same for `handle_ioexception` -/
  ioHandler : Option Bool
  localParams : Option PDict := none
  configFile : Option String := none
  keepAlive : Option Rat := none


structure RState where
  initExpected : Bool := true
  closeExpected : Bool := true
  /-- `close()` ran: stop flag set, writer stopped, pool shut down, socket closed -/
  closed : Bool := false
  /-- keepalive interval in force (config value, writer value), seconds -/
  keepAlive : Rat × Rat

/-- one action of the reader, in program order. -/
inductive RAct
  | discard                                   -- logged and dropped
  | handlerExc                                -- ExceptionHandler.handle_exception invoked
  | fal                                       -- Data default handling: a FAL notification is enqueued
  | initialize (args : PDict) (cfg : Option String)
  | setListener
  | reply (line : String)                     -- `_send_reply` (request id included)
  | submit (method : String) (id : String) (toks : List String)   -- Metadata: pool task for a decoded request
  | dataReq (isSub : Bool) (id : String) (item : Val)             -- Data: handed to the SubscriptionManager
  | quit                                      -- _RequestManager.quit(): stop flag, STOP pill, join writer
  | poolShutdown                              -- executor.shutdown() (waits for accepted tasks)
  | sockClose
deriving Repr

/-- `on_exception(err)` for a protocol error on the reader thread. -/
def onException (cfg : SrvCfg) : List RAct :=
  let dflt : List RAct := match cfg.kind with | .dataK => [.fal] | .metaK => []
  match cfg.excHandler with
  | none => dflt
  | some r => .handlerExc :: (if r then dflt else [])

/-- outcome of `adapter.initialize` / `set_listener`, chosen by the environment. -/
structure InitEnv where
  initOutcome : Outcome := .ret .none
  listenerOutcome : Outcome := .ret .none
  hintValue : Option Rat := none

def metaMethods : List String :=
  ["NUS", "NUA", "NNS", "NSC", "GIS", "GSC", "GIT", "GUI", "NUM", "NNT", "NTC", "MDA", "MSA", "MDC"]

/-- what kind of line the reader is looking at (depends on the close flag only through `closeReq`). -/
inductive LineClass
  | garbage                                           -- `parse_request` gives None: logged and dropped
  | closeOk                                           -- honoured close request, id 0, well-formed
  | closeBad                                          -- honoured close request with another id or a malformed map
  | initReq (id : String) (prs : Option (List (Val × Val)))   -- init-method request (decoded map, or malformed)
  | own (m id : String) (toks : List String) (item : Option Val)  -- request of a method of this server kind that decodes
  | ownBad                                            -- request of a method of this server kind that does not decode
  | unknown                                           -- any other method
deriving Repr

def classify (cfg : SrvCfg) (closeExpected : Bool) (line : String) : LineClass :=
  match parseRequest line with
  | none => .garbage
  | some (id, m, toks) =>
    if m = "CLOSE" ∧ closeExpected then
      if id ≠ "0" then .closeBad
      else match readMap toks 0 with
        | .error () => .closeBad
        | .ok _ => .closeOk
    else if m = cfg.kind.method then
      match decodeRequest m toks with
      | some (.ok ⟨_, .map prs⟩) => .initReq id (some prs)
      | _ => .initReq id none
    else match cfg.kind with
      | .metaK =>
        if metaMethods.contains m then
          match decodeRequest m toks with
          | some (.ok _) => .own m id toks none
          | _ => .ownBad
        else .unknown
      | .dataK =>
        if m = "SUB" ∨ m = "USB" then
          match decodeRequest m toks with
          | some (.ok ⟨[item], _⟩) => .own m id toks (some item)
          | _ => .ownBad
        else .unknown

def act (cfg : SrvCfg) (env : InitEnv) (st : RState) : LineClass → RState × List RAct
  | .garbage => (st, [.discard])
  | .closeOk => ({ st with closed := true }, [.quit, .poolShutdown, .sockClose])
  | .closeBad => (st, onException cfg)
  | .initReq id prs =>
    if !st.initExpected then (st, onException cfg)                   -- late init request
    else
      let st1 := { st with initExpected := false }
      match prs with
      | none => (st1, onException cfg)                               -- malformed init: the slot is consumed (I-1)
      | some prs =>
        let o := onInit ⟨cfg.kind, prs, cfg.localParams, cfg.configFile, st.closeExpected, cfg.keepAlive,
                         env.hintValue, env.initOutcome, env.listenerOutcome⟩
        let acts : List RAct :=
          (match o.initArgs with | some (a, f) => [.initialize a f] | none => []) ++
          (if o.listenerCalled then [.setListener] else []) ++ [.reply (id ++ "|" ++ o.reply)]
        ({ st1 with closeExpected := o.closeExpected, keepAlive := o.keepAlive }, acts)
  | .own m id toks item =>
    if st.initExpected then (st, onException cfg)                    -- request before init
    else match item with
      | none => (st, [.submit m id toks])
      | some it => (st, [.dataReq (m = "SUB") id it])
  | .ownBad => (st, onException cfg)                                 -- before init: "unexpected request"; after: malformed
  | .unknown => if st.initExpected then (st, onException cfg) else (st, [.discard])

def dispatch (cfg : SrvCfg) (env : InitEnv) (st : RState) (line : String) : RState × List RAct :=
  act cfg env st (classify cfg st.closeExpected line)

/-- all lines of a connection, in order; after `close()` the reader leaves its loop at the next check, but
    the lines of the chunk being processed are still dispatched. -/
def dispatchAll (cfg : SrvCfg) (env : InitEnv) : RState → List String → RState × List (List RAct)
  | st, [] => (st, [])
  | st, l :: rest =>
    let (st1, a) := dispatch cfg env st l
    let (st2, as) := dispatchAll cfg env st1 rest
    (st2, a :: as)

/-- reaction to a failed read or write (`on_ioexception`): handler notification, process exit. -/
inductive IoAct | handlerIo | exit
deriving Repr, DecidableEq

def onIoException (cfg : SrvCfg) : List IoAct :=
  match cfg.ioHandler with
  | none => [.exit]
  | some r => .handlerIo :: (if r then [.exit] else [])

/-- the reader's reaction to EOF / OSError from `recv`: nothing if the server's own `close()` set the stop flag. -/
def readerFault (cfg : SrvCfg) (st : RState) : List IoAct := if st.closed then [] else onIoException cfg

/-- the writer's reaction to an OSError from `sendall`. -/
def writerFault (cfg : SrvCfg) : List IoAct := onIoException cfg

end Ari
