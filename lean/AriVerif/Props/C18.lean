import AriVerif.Gen.Pool
import AriVerif.Props.C04
/-!
# C18 — adapter calls run on the worker pool; pool of one is strictly sequential (size part)

`Gen.poolSize` is generated from `Server.__init__` on every run; `cpu` is `cpu_count()`
(`none` = NotImplementedError, then the library's default of 4 applies).
-/
namespace Ari

/-- **C18 (pool size).** The configured `thread_pool_size` when it is ≥ 1, the CPU count when it is
    0, negative or `None`. -/
theorem c18_size (size cpu : Option Int) :
    Gen.poolSize size cpu =
      match size with
      | some k => if 1 ≤ k then k else (match cpu with | some c => c | none => 4)
      | none => (match cpu with | some c => c | none => 4) := by
  unfold Gen.poolSize
  cases size with
  | none => cases cpu <;> rfl
  | some k =>
    simp only []
    by_cases h : 1 ≤ k
    · have : max 0 k = k := by omega
      have hk : ¬ k = 0 := by omega
      simp [this, h, hk]
    · have : max 0 k = 0 := by omega
      simp [this, h]
      cases cpu <;> rfl

/-- a pool always has at least one worker when the machine reports at least one CPU. -/
theorem c18_size_pos (size cpu : Option Int) (hc : ∀ c, cpu = some c → 1 ≤ c) :
    1 ≤ Gen.poolSize size cpu := by
  rw [c18_size]
  cases size <;> cases cpu <;> simp_all <;> (try split) <;> omega

end Ari

namespace Ari.Conc
open Ari

/-- **C18 (at most `n` requests are being handled).** `running` counts exactly the started, unfinished tasks
    and never exceeds the pool size. -/
theorem c18_bound (n : Nat) (s : PState) (h : PReach n s) :
    s.running ≤ n ∧ s.running = (s.tasks.filter (·.pc.isActive)).length ∧ s.n = n := by
  have inv := h.inv
  obtain ⟨acts, hr⟩ := h
  have hn : s.n = n := prun_n acts _ s hr
  rw [PPc.isActive_eq]
  exact ⟨hn ▸ inv.bound, inv.running, hn⟩

/-- **C18 (a pool of one is strictly sequential).** With one worker at most one task is active, so adapter
    invocations never overlap. -/
theorem c18_one_sequential (s : PState) (h : PReach 1 s) (i j : Nat) (ti tj : PTask)
    (hi : s.tasks[i]? = some ti) (hj : s.tasks[j]? = some tj)
    (ai : ti.pc.isActive = true) (aj : tj.pc.isActive = true) : i = j := by
  obtain ⟨hb, hr, -⟩ := c18_bound 1 s h
  apply Classical.byContradiction
  intro hne
  have := two_le_filter_length (·.pc.isActive) s.tasks i j ti tj hi hj ai aj hne
  omega

/-- **C18 (arrival order).** Tasks are started in submission order, for every pool size: the k-th task to
    start is the k-th submitted, and the work queue holds exactly the not yet started ones, in order. -/
theorem c18_fifo_start (n : Nat) (s : PState) (h : PReach n s) :
    s.started = List.range s.started.length ∧
    s.workQ = (List.range s.tasks.length).drop s.started.length :=
  ⟨h.inv.started, h.inv.workQ⟩

/-- **C18 (the reader is never blocked by the pool).** Handing a request to the pool is always possible,
    whatever the workers are doing … -/
theorem c18_submit_nonblocking (s : PState) (rid m : String) (a : Args) :
    (pstep s (.submit rid m a)).isSome := by
  simp [pstep]

/-- … and a free worker always takes the oldest waiting request, whatever the other tasks are doing (even if
    all of them are blocked inside adapter calls). -/
theorem c18_free_worker_takes (s : PState) (k : Nat) (rest : List Nat) (t : PTask)
    (hq : s.workQ = k :: rest) (ht : s.tasks[k]? = some t) (hp : t.pc = .inPool) (hf : s.running < s.n) :
    (pstep s (.start k)).isSome := by
  simp [pstep, ht, hp, hq, hf]

/-- **C18 (adapter methods run in pool tasks only).** The only steps with an adapter-call effect are the
    `callBegin` / `callEnd` steps of a pool task (the reader's `submit` has no effect at all). -/
theorem c18_calls_only_in_tasks (s s' : PState) (a : PAct) (effs : List PEff) (h : pstep s a = some (s', effs))
    (c : Call) (hc : PEff.adapterBegin c ∈ effs ∨ PEff.adapterEnd c ∈ effs) :
    ∃ k, a = .callBegin k ∨ ∃ o, a = .callEnd k o := by
  cases a with
  | submit rid m args => simp [pstep] at h; obtain ⟨-, rfl⟩ := h; simp at hc
  | start k =>
    exfalso
    simp only [pstep] at h
    split at h
    · split at h
      · split at h
        · simp only [Option.some.injEq] at h
          rcases advance_cases _ k _ with ⟨c', _, he⟩ | ⟨line, _, he⟩ | ⟨_, _, he⟩ <;>
            (rw [he] at h; cases h; simp at hc)
        · cases h
      · cases h
    · cases h
  | callBegin k => exact ⟨k, .inl rfl⟩
  | callEnd k o => exact ⟨k, .inr ⟨o, rfl⟩⟩
  | put k =>
    exfalso
    simp only [pstep] at h
    split at h
    · split at h
      · simp only [Option.some.injEq, Prod.mk.injEq] at h
        obtain ⟨-, rfl⟩ := h
        simp at hc
      · cases h
    · cases h

end Ari.Conc
