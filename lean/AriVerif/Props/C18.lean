import AriVerif.Gen.Pool
/-!
# C18 — adapter calls run on the worker pool; pool of one is strictly sequential (size part)

`Gen.poolSize` is generated from `Server.__init__` on every run; `cpu` is `cpu_count()`
(`none` = NotImplementedError, then the library's default of 4 applies).
-/
namespace Ari

/-- **C18 (pool size).** The configured `thread_pool_size` when it is ≥ 1, the CPU count when it is
    0, negative or `None`. -/
theorem c18_size (size cpu : Option Int) :
    Gen.poolSize size cpu =
      match size with
      | some k => if 1 ≤ k then k else (match cpu with | some c => c | none => 4)
      | none => (match cpu with | some c => c | none => 4) := by
  unfold Gen.poolSize
  cases size with
  | none => cases cpu <;> rfl
  | some k =>
    simp only []
    by_cases h : 1 ≤ k
    · have : max 0 k = k := by omega
      have hk : ¬ k = 0 := by omega
      simp [this, h, hk]
    · have : max 0 k = 0 := by omega
      simp [this, h]
      cases cpu <;> rfl

/-- a pool always has at least one worker when the machine reports at least one CPU. -/
theorem c18_size_pos (size cpu : Option Int) (hc : ∀ c, cpu = some c → 1 ≤ c) :
    1 ≤ Gen.poolSize size cpu := by
  rw [c18_size]
  cases size <;> cases cpu <;> simp_all <;> (try split) <;> omega

end Ari
