import AriVerif.Gen.Skeleton
import AriVerif.Spec.Skeleton
/-!
# The structure the concurrent models assume is the structure of the current source — group **Sub**

`Gen.skelSub` / `Gen.writers` are regenerated from subscription.py and server.py on every run; `Spec.expectedSub` /
`Spec.expectedWriters` are the hand-maintained record of what `Conc.Item`'s atomic actions stand for.
-/
namespace Ari

/-- lock sections, shared-state accesses, calls and control structure of the per-item subscription machinery are the
    recorded ones. -/
theorem skel_sub_from_source : Gen.skelSub = Spec.expectedSub := by decide +kernel

/-- only the recorded methods assign the per-item shared state. -/
theorem writers_sub_from_source :
    rowsOf Gen.writers ["_code", "_queued", "_isrunning", "_last_subscribe_outcome", "_active_items", "_tasks_deq"] =
    rowsOf Spec.expectedWriters ["_code", "_queued", "_isrunning", "_last_subscribe_outcome", "_active_items", "_tasks_deq"] := by
  decide +kernel

end Ari
