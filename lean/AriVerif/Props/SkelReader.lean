import AriVerif.Gen.Skeleton
import AriVerif.Spec.Skeleton
/-!
# The structure the models assume is the structure of the current source — group **Reader**
The reader loop and the exception paths of the reader thread (`Framing.lean`, `Dispatch.lean`; C09, C15, C20).
-/
namespace Ari

theorem skel_reader_from_source : Gen.skelReader = Spec.expectedReader := by decide +kernel

theorem writers_reader_from_source :
    rowsOf Gen.writers ["_request_manager", "_server_sock"] = rowsOf Spec.expectedWriters ["_request_manager", "_server_sock"] := by
  decide +kernel

end Ari
