import AriVerif.Props.C13
import AriVerif.Conc.Item
/-!
# C16 — outbound messages are atomic lines in per-thread submission order

Two layers.  (1) The writer (`Sender`, proved in Props/C13.lean): the lines written that are not keepalives
are exactly the messages enqueued, in enqueue order, each written whole at once — `c16_fifo` restates
`c13_transparent`.  (2) Who enqueues what, in which order (`Conc.Item`): a thread's enqueues are appended to
the queue in the order it performs them, and the reply of a subscription is enqueued only after every event
the same worker submitted from inside `subscribe()` (`c16_inside`).  That the real queue is FIFO and that one
`sendall` is one contiguous line on the socket are the shim's / the OS's (co-simulation + a real-thread test
over a socket pair in the thorough tier).
-/
namespace Ari

/-- **C16 (FIFO, atomic, nothing lost or duplicated).** -/
theorem c16_fifo (tie : Bool) (k0 : Nat) (evs : List (Nat × SAct)) (hz : Nat)
    (hns : ∀ e ∈ evs, e.2 ≠ .stop) :
    ((senderRun tie k0 evs hz).filter (fun w => w.cause == .msg)).map (fun w => w.line) =
      evs.filterMap (fun e => match e.2 with | .put m => some m | _ => none) := by
  have h := c13_transparent tie k0 evs hz hns
  have := congrArg (List.map Prod.snd) h
  simp only [List.map_map] at this
  rw [show ((fun w : Written => w.line) = Prod.snd ∘ fun w => (w.time, w.line)) from rfl, this]
  clear this h
  induction evs with
  | nil => rfl
  | cons e rest ih =>
    have ih' := ih (fun e he => hns e (List.mem_cons_of_mem _ he))
    obtain ⟨t, a⟩ := e
    cases a <;> simp [List.filterMap_cons, ih']

namespace Conc

/-- **C16 (the queue only grows at its end).** Every step appends to the item's outbound sequence; nothing
    already enqueued is reordered, changed or removed. -/
theorem c16_append_only (s s' : IState) (a : IAct) (e : List Eff) (h : istep s a = some (s', e)) :
    ∃ l, s'.out = s.out ++ l := by
  cases a <;> simp only [istep] at h <;> (repeat' split at h) <;>
    first
    | (cases h; done)
    | (simp only [Option.some.injEq, Prod.mk.injEq] at h
       obtain ⟨rfl, _⟩ := h
       first
       | exact ⟨_, rfl⟩
       | exact ⟨[], by simp [setInst, setMgr, addLog, addOut, finish, replied]⟩)

/-- **C16 (events from inside subscribe() precede its reply).** The adapter call can only end — and hence the
    reply can only be prepared and enqueued — when the calling worker has no listener enqueue pending: every
    event it submitted from inside the call is already in the queue. -/
theorem c16_inside (s s' : IState) (k : Nat) (o : CallOut) (e : List Eff)
    (h : istep s (.callEnd k o) = some (s', e)) : (s.insts k).lsn = none ∧ s'.out = s.out := by
  simp only [istep] at h
  (repeat' split at h) <;>
    first
    | (cases h; done)
    | (simp only [Option.some.injEq, Prod.mk.injEq] at h
       obtain ⟨rfl, _⟩ := h
       refine ⟨by assumption, by simp [setInst, setMgr, addLog, addOut, finish, replied]⟩)

end Conc
end Ari
