import AriVerif.Conc.SrvGate
/-!
# C10 / C18 on the whole-server models of the co-simulation

`Conc/SrvGate.lean` proves, for every reachable state of the Metadata (`MReach`) and Data (`GReachL`) server
models — every schedule of starting thread, reader, writer, pool threads and application threads, every pool
size, every chunking of the inbound bytes, every adapter outcome:
* **C10**: work for the adapter exists only after the init request was received (`c10s_meta_gate`,
  `c10s_data_gate`); the reader being sequential, `initialize` (and `set_listener`) returned before that line's
  successors were even looked at (`Dispatch.dispatchAll`, Props/C10.lean);
* **C18**: adapter-call effects occur only in steps of pool threads (`c18s_*_adapter_thread`), and the reader's
  and writer's own steps are enabled whatever the pool tasks are doing (`c18s_*_enabled`) — a blocked adapter
  call stops neither reading nor writing.
-/
namespace Ari.Conc
open Ari

theorem c10s_meta_gate {cfg : SrvCfg} {n : Nat} {s : MState} {log : List String} (h : MReach cfg n s log) :
    (s.pool.tasks ≠ [] ∨ owed s ≠ []) → s.rst.initExpected = false := mreach_init_gate h

theorem c10s_data_gate {n : Nat} {u p : Option String} {s : DState} {log : List String}
    (h : GReachL n u p s log) :
    (s.tasks ≠ [] ∨ s.rmid.isSome = true ∨ ∃ x t, ROp.req x t ∈ s.rq) → s.initExpected = false :=
  greachL_init_gate h

theorem c18s_meta_adapter_thread {s s' : MState} {env : InitEnv} {tid : String} {op : MOp} {effs : List MEff}
    (h : mstep s env tid op = some (s', effs))
    (hc : ∃ c, MEff.adapterBegin c ∈ effs ∨ MEff.adapterEnd c ∈ effs) :
    tid ≠ "R" ∧ tid ≠ "W" ∧ tid ≠ "M" ∧ tid ≠ "P" ∧ tid.startsWith "T" = true := mstep_adapter_thread h hc

theorem c18s_data_adapter_thread {s s' : DState} {tid : String} {op : OpClass} {x : String} {effs : List GEff}
    (h : gstep s tid op x = some (s', effs))
    (hc : ∃ m y, GEff.adapterBegin m y ∈ effs ∨ GEff.adapterEnd m y ∈ effs) :
    tid ≠ "R" ∧ tid ≠ "W" ∧ tid ≠ "M" ∧ tid ≠ "P" ∧ tid.startsWith "T" = true := gstep_adapter_thread h hc

/-- (as long as the process has not exited — the default reaction to an I/O failure; the reader's `recv` is also enabled
    when the peer has closed the connection: it is then the failing read of Conc/MetaFault.lean.) -/
theorem c18s_meta_enabled (s : MState) (env : InitEnv) (hx : s.exited = false) :
    (s.rthr = 2 → s.rq = [] → (s.inbound ≠ [] ∨ s.inEnd = true) → (mstep s env "R" .recv).isSome) ∧
    (s.rthr = 2 → ∀ l rest, s.rq = .reply l :: rest → (mstep s env "R" .put).isSome) ∧
    (s.wthr = 2 → s.wsend = none → s.sendQ ≠ [] → (mstep s env "W" .get).isSome) ∧
    (s.wthr = 2 → ∀ m, s.wsend = some m → (mstep s env "W" .send).isSome) :=
  ⟨fun hr => (mstep_reader_enabled s env hr hx).1, fun hr => (mstep_reader_enabled s env hr hx).2,
   fun hw => (mstep_writer_enabled s env hw hx).1, fun hw => (mstep_writer_enabled s env hw hx).2⟩

/-- (as long as the process has not exited; the reader's `recv` is also enabled when the peer has closed the connection: it
    is then the failing read of Conc/DataFault.lean.) -/
theorem c18s_data_enabled (s : DState) (x : String) (hx : s.exited = false) :
    (s.rst = 2 → s.rmid = none → s.rq = [] → (s.inbound ≠ [] ∨ s.inEnd = true) → (gstep s "R" .recv x).isSome) ∧
    (s.rst = 2 → s.rmid = none → ∀ l rest, s.rq = .reply l :: rest → (gstep s "R" .put x).isSome) ∧
    (s.wst = 2 → s.wpc = .get → s.sendQ ≠ [] → ∀ b, (gstep s "W" (.get b) x).isSome) ∧
    (s.wst = 2 → ∀ m, s.wpc = .send m → (gstep s "W" .send x).isSome) := gstep_reader_writer_enabled s x hx

end Ari.Conc
