import AriVerif.Gen.State
import AriVerif.Spec.State
/-!
# Every item manager owns its state (subscription.py)

`Conc.Item` is one machine per item; the Data server is their product.  That is adequate only if no two managers share a
container or a class-level field.
-/
namespace Ari

theorem state_sub_from_source :
    Spec.stateRows Gen.sharedState ["subscription.py"] = Spec.stateRows Spec.sharedState ["subscription.py"] := by
  decide +kernel

end Ari
