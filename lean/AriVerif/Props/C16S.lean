import AriVerif.Conc.DataFifo
import AriVerif.Props.C01
/-!
# C16 / C14 on the whole-Data-server model

`Conc.Data` is the model the real `DataProviderServer` is compared with chunk by chunk (start-up, reader with
framing and dispatch, pool threads running the per-item dequeuers, adapter-owned threads calling the listener,
send queue, writer).  `GReachL n user password s log` quantifies over every schedule of all of these, every pool
size, every chunking of the inbound bytes and every adapter outcome; `log` is the ghost sequence of all lines
any thread enqueued.  The theorems connect the per-item machine (`IState.out`, subject of C01 / C03 / C17 and
of `c16_inside`) with what is written to the connection.
-/
namespace Ari.Conc
open Ari

/-- **C16 on the server model: one queue, FIFO, nothing lost, duplicated or reordered.** Written ++ held by the
    writer ++ queued is exactly the sequence of lines enqueued as long as no write has failed; what is on the wire is always
    a prefix of what was enqueued; and a failed write (`wpc = .failed`) loses at most the one message the writer held: the
    log is written ++ lost ++ held ++ queued with `lost` of length at most 1, empty if no write failed. -/
theorem c16s_data_fifo {n : Nat} {u p : Option String} {s : DState} {log : List String}
    (h : GReachL n u p s log) :
    (s.wpc ≠ .failed → gpending s = log) ∧ s.written <+: log ∧
    ∃ lost : List String, lost.length ≤ 1 ∧ (s.wpc ≠ .failed → lost = []) ∧
      log = s.written ++ lost ++ gholding s ++ s.sendQ.filterMap id :=
  ⟨greach_pending h, greach_written_prefix h, greach_pending_lost h⟩

/-- **C16 on the server model: an item's lines keep their order on the way to the wire.** The per-item
    outbound sequence — replies, library end-of-snapshots and listener events in the order the item machine
    enqueued them (events from inside `subscribe()` before the reply by `c16_inside`, the library EOS before both
    by C17) — is embedded in order in the global enqueue log. -/
theorem c16s_item_order {n : Nat} {u p : Option String} {s : DState} {log : List String}
    (h : GReachL n u p s log) (item : String) : (getItem s item).out.Sublist log :=
  greach_item_sublist h item

/-- once the writer has drained the queue, every line of every item is on the wire, in the item's order. -/
theorem c16s_item_written {n : Nat} {u p : Option String} {s : DState} {log : List String}
    (h : GReachL n u p s log) (hq : s.sendQ = []) (hw : s.wpc = .get) (item : String) :
    (getItem s item).out.Sublist s.written := by
  have := greach_pending h (by rw [hw]; simp)
  have hs := greach_item_sublist h item
  rw [← this] at hs
  simpa [gpending, gholding, hq, hw] using hs

/-- **C14 on the server model: the first line ever enqueued (hence written) is the credentials message.** -/
theorem c14s_first {n : Nat} {u p : Option String} {s : DState} {log : List String}
    (h : GReachL n u p s log) :
    ∀ m rest, s.written = m :: rest → m = "1|" ++ writeCredentials u p := by
  intro m rest hm
  obtain ⟨t, ht⟩ := greach_written_prefix h
  rw [hm] at ht
  exact greach_first h m (rest ++ t) (by simpa using ht.symm)

/-- **C01 on the server model.** In every reachable server state no request of any item is answered twice
    (the per-item theorems apply to every component of the product). -/
theorem c01s_at_most_once {n : Nat} {u p : Option String} {s : DState} {log : List String}
    (h : GReachL n u p s log) (item : String) (hwf : WF (getItem s item).arr) :
    (getItem s item).repl.Nodup :=
  c01_at_most_once item _ (greachL_items_reach h item) hwf

/-- runs without `listener.failure()` calls stay inside `GReachL`. -/
theorem greachL_run {n : Nat} {u p : Option String} (l : List (String × OpClass × String)) :
    ∀ (s : DState) (log : List String), GReachL n u p s log →
    (∀ x ∈ l, ∀ msg, x.2.1 ≠ .failurePut msg) →
    ∀ s', (l.foldlM (fun (st : DState) (x : String × OpClass × String) => (gstep st x.1 x.2.1 x.2.2).map (·.1)) s) = some s' →
    ∃ log', GReachL n u p s' log' := by
  induction l with
  | nil => intro s log h _ s' hs; simp only [List.foldlM_nil, pure, Option.some.injEq] at hs; subst hs; exact ⟨log, h⟩
  | cons a l ih =>
    intro s log h hnf s' hs
    rw [List.foldlM_cons] at hs
    cases hm : gstep s a.1 a.2.1 a.2.2 with
    | none => simp [hm, bind, Option.bind] at hs
    | some r =>
      obtain ⟨s1, e1⟩ := r
      simp only [hm, Option.map, bind, Option.bind] at hs
      refine ih s1 _ (GReachL.step h hm ?_) (fun x hx => hnf x (List.mem_cons_of_mem _ hx)) s' hs
      intro ⟨msg, hmsg⟩
      exact absurd hmsg (hnf a (List.mem_cons_self ..) msg)

/-- non-vacuity: the start-up of a Data server with configured credentials, the writer writing the credentials
    message (pool-thread steps parse the thread name with `String.toNat?`, which the kernel does not evaluate;
    item-level runs are exercised in Props/C01 … C19 and by the co-simulation). -/
example : ∃ s log, GReachL 2 (some "user") (some "") s log ∧ s.written.length = 1 ∧ gpending s = s.written := by
  let steps : List (String × OpClass × String) :=
    [("M", .threadStart, ""), ("M", .put, ""), ("W", .threadStart, ""), ("W", .get false, ""), ("W", .send, "")]
  have hrun : ∃ s', (steps.foldlM (fun (st : DState) (x : String × OpClass × String) => (gstep st x.1 x.2.1 x.2.2).map (·.1))
      { poolN := 2, user := some "user", password := some "" }) = some s' ∧ s'.written.length = 1 ∧ gpending s' = s'.written := by
    decide +kernel
  obtain ⟨s', hs', h1, h2⟩ := hrun
  obtain ⟨log', hr⟩ := greachL_run steps _ _ (GReachL.init (n := 2))
    (by intro x hx msg; simp only [steps, List.mem_cons, List.mem_nil_iff, or_false] at hx; rcases hx with rfl | rfl | rfl | rfl | rfl <;> simp) s' hs'
  exact ⟨s', log', hr, h1, h2⟩

end Ari.Conc
