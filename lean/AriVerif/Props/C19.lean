import AriVerif.Conc.PropLemmas
/-!
# C19 — quiescent subscription state is exact; nothing retained after unsubscribe
-/
namespace Ari.Conc
open Ari

/-- **C19 (nothing retained).** At quiescence, if the last request for the item was an unsubscription, the
    item is no longer registered … -/
theorem c19_unsub (s : IState) (h : Inv s) (hq : Quiescent s) (t : Task)
    (hl : s.arr.getLast? = some t) (ht : t.isSub = false) : s.active = none := by
  rw [h.q_arr_fin hq] at hl
  have hrc : readCode s = none := h.codeAfterUsb (h.q_between hq) t hl ht
  cases ha : s.active with
  | none => rfl
  | some g =>
    exfalso
    have hg := h.activeLt g ha
    have hcode : (s.mgrs g).code = none := by simpa [readCode, ha] using hrc
    have hcnt := h.counter g hg
    rw [h.q_queue hq g hg, h.q_loop_none hq g hg, q_decOf_zero hq g, hq.1] at hcnt
    rcases h.registered g ha with hc | hc
    · exact hc hcode
    · rw [hcnt] at hc
      simp at hc

/-- … every generation of bookkeeping that is not registered is empty and unreferenced (no queued task, no
    looping dequeuer, no id, counter zero) — in every reachable state, so memory does not grow with the
    number of past subscriptions … -/
theorem c19_dead_generations_empty (s : IState) (h : Inv s) (g : Nat) (hg : g < s.nmgr)
    (hd : s.active ≠ some g) :
    (s.mgrs g).q = [] ∧ (s.mgrs g).loop = none ∧ (s.mgrs g).code = none ∧ (s.mgrs g).queued = 0 :=
  h.dead g hg hd

/-- … and events for it are dropped. -/
theorem c19_probe_dropped (s : IState) (h : Inv s) (hq : Quiescent s) (t : Task)
    (hl : s.arr.getLast? = some t) (ht : t.isSub = false) : readCode s = none := by
  rw [h.q_arr_fin hq] at hl
  exact h.codeAfterUsb (h.q_between hq) t hl ht

/-- **C19 (live subscription exact).** At quiescence, if the last request was a subscription (necessarily
    executed, C02), exactly that subscription's id is the published one. -/
theorem c19_live (s : IState) (h : Inv s) (hq : Quiescent s) (t : Task)
    (hl : s.arr.getLast? = some t) (ht : t.isSub = true) : readCode s = some t.id := by
  have hnl : t ∉ s.late := fun hm => h.lateSucc t hm hl
  rw [h.q_arr_fin hq] at hl
  exact h.codeExec (h.q_between hq) t hl ht hnl

end Ari.Conc
