import AriVerif.Lemmas.Codec
/-!
# C05 — text codec: separator-free token per value, exact round trip, no collisions

All statements are about `Ari.encodeString` / `Ari.decodeString` (model of
`protocol.encode_string` / `protocol.decode_string`, tied to the code by the pure
differential `codec` stream of harness/pure_diff.py) and hold for **every** `String`
(every Python `str` without lone surrogates), `""` and `none`.
-/
namespace Ari

theorem fromUtf8_utf8 (s : String) : fromUtf8? (utf8 s) = some s := by
  unfold fromUtf8? utf8
  simp only [Array.toArray_toList]; unfold String.fromUTF8?; rw [dif_pos s.isValidUTF8]; rfl

theorem utf8_eq_nil {s : String} (h : utf8 s = []) : s = "" := by
  have h1 := fromUtf8_utf8 s
  rw [h] at h1
  have h2 : fromUtf8? [] = some "" := by
    have := fromUtf8_utf8 ""
    simpa [utf8] using this
  rw [h2] at h1
  exact (Option.some.inj h1).symm

/-- the separator, CR, LF, blank, `#` and `$` are not token characters. -/
theorem tokenChar_excludes :
    tokenChar '|' = false ∧ tokenChar '\r' = false ∧ tokenChar '\n' = false ∧
    tokenChar ' ' = false ∧ tokenChar '\t' = false ∧ tokenChar '#' = false ∧
    tokenChar '$' = false := by decide

/-- **C05 (alphabet, non-empty).** The encoding of a non-empty string is a non-empty token over
    `A–Z a–z 0–9 _ . - ~ + %`. -/
theorem c05_charset (s : String) (h : s ≠ "") :
    (encodeString (some s)).toList ≠ [] ∧
    ∀ c ∈ (encodeString (some s)).toList, tokenChar c = true := by
  simp only [encodeString, if_neg h, String.toList_ofList]
  refine ⟨quotePlus_ne_nil _ (fun hh => h (utf8_eq_nil hh)), quotePlus_tokenChar _⟩

/-- **C05 (no separator).** No encoding (of any value, incl. `None` and `""`) contains the field
    separator, CR, LF, blank or tab, and none is empty. -/
theorem c05_no_sep (v : Option String) :
    (encodeString v).toList ≠ [] ∧
    ∀ c ∈ (encodeString v).toList, c ≠ '|' ∧ c ≠ '\r' ∧ c ≠ '\n' ∧ c ≠ ' ' ∧ c ≠ '\t' := by
  match v with
  | none => simp [encodeString]
  | some s =>
    by_cases h : s = ""
    · subst h; simp [encodeString]
    · obtain ⟨h1, h2⟩ := c05_charset s h
      refine ⟨h1, ?_⟩
      intro c hc
      have ht := h2 c hc
      refine ⟨?_, ?_, ?_, ?_, ?_⟩ <;> (intro hh; subst hh; revert ht; decide)

/-- **C05 (reserved tokens).** `#` is produced only for `None`, `$` only for `""`. -/
theorem c05_special (v : Option String) :
    (encodeString v = "#" ↔ v = none) ∧ (encodeString v = "$" ↔ v = some "") := by
  match v with
  | none => simp [encodeString]
  | some s =>
    by_cases h : s = ""
    · subst h; simp [encodeString]
    · obtain ⟨_, h2⟩ := c05_charset s h
      constructor
      · constructor
        · intro he
          have := h2 '#' (by rw [he]; decide)
          exact absurd this (by decide)
        · intro hh; cases hh
      · constructor
        · intro he
          have := h2 '$' (by rw [he]; decide)
          exact absurd this (by decide)
        · intro hh; exact absurd (Option.some.inj hh) h

/-- **C05 (round trip).** Decoding the encoding returns exactly the original value. -/
theorem c05_roundtrip (v : Option String) : decodeString (encodeString v) = .val v := by
  match v with
  | none => simp [encodeString, decodeString]
  | some s =>
    by_cases h : s = ""
    · subst h; simp [encodeString, decodeString]
    · have hs := c05_special (some s)
      have h1 : encodeString (some s) ≠ "#" := fun he => by
        have := hs.1.mp he; cases this
      have h2 : encodeString (some s) ≠ "$" := fun he => by
        have := hs.2.mp he; exact h (Option.some.inj this)
      unfold decodeString
      rw [if_neg h1, if_neg h2]
      simp only [encodeString, if_neg h, String.toList_ofList, unq_quotePlus, fromUtf8_utf8]

/-- **C05 (no collisions).** Distinct values never share an encoding. -/
theorem c05_injective (v w : Option String) (h : encodeString v = encodeString w) : v = w := by
  have h1 := c05_roundtrip v
  rw [h, c05_roundtrip w] at h1
  exact (Dec.val.inj h1).symm

/-- A token is an *alternative URL-encoding* of a byte string when it represents it byte by byte
    as `%XX` (either hex case), as `+` for 0x20, or as the literal ASCII character for a byte
    other than `%` and `+`. -/
inductive AltEnc : Bytes → List Char → Prop
  | nil : AltEnc [] []
  | lit (c : Char) (b : UInt8) {bs t} : c.toNat < 128 → c ≠ '+' → c ≠ '%' → b.toNat = c.toNat →
      AltEnc bs t → AltEnc (b :: bs) (c :: t)
  | plus {bs t} : AltEnc bs t → AltEnc (32 :: bs) ('+' :: t)
  | pct (h1 h2 : Char) (a b : Nat) {bs t} : hexVal? h1 = some a → hexVal? h2 = some b →
      AltEnc bs t → AltEnc (UInt8.ofNat (a * 16 + b) :: bs) ('%' :: h1 :: h2 :: t)

theorem utf8EncodeChar_ascii : ∀ n, n < 128 →
    String.utf8EncodeChar (Char.ofNat n) = [UInt8.ofNat n] := by decide +kernel

theorem unq_altEnc {bs : Bytes} {t : List Char} (h : AltEnc bs t) : unq t = bs := by
  induction h with
  | nil => exact unq_nil
  | lit c b hc h1 h2 hb _ ih =>
    rw [unq_lit c _ h1 h2, ih]
    have hc' : c = Char.ofNat c.toNat := by simp
    rw [hc', utf8EncodeChar_ascii c.toNat hc, ← hb]; simp
  | plus _ ih => rw [unq_plus, ih]
  | pct h1 h2 a b ha hb _ ih => rw [unq_pct h1 h2 a b _ ha hb, ih]

/-- **C05 (decoder accepts every standard URL-encoding).** Upper/lower-case hex, literal `*`,
    escaped `~`, `+` or `%20` for a blank … all decode to the same value. -/
theorem c05_accepts_alternatives (s : String) (t : String) (h : AltEnc (utf8 s) t.toList)
    (h1 : t ≠ "#") (h2 : t ≠ "$") : decodeString t = .val (some s) := by
  unfold decodeString
  rw [if_neg h1, if_neg h2, unq_altEnc h, fromUtf8_utf8]

/-- the encoder's own output is one of those alternative encodings (so the hypothesis of
    `c05_accepts_alternatives` is satisfiable for every string). -/
example : AltEnc (utf8 "a b") "a%20b".toList := by
  have : utf8 "a b" = [97, 32, 98] := by decide
  rw [this]
  exact .lit 'a' 97 (by decide) (by decide) (by decide) (by decide)
    (.pct '2' '0' 2 0 (by decide) (by decide)
      (.lit 'b' 98 (by decide) (by decide) (by decide) (by decide) .nil))

-- concrete, non-trivial instances (tests, labelled as such): multi-byte and reserved characters
example : encodeString (some "a b|c") = "a+b%7Cc" := by decide
example : encodeString (some "€") = "%E2%82%AC" := by decide
example : decodeString "%e2%82%ac*%7E+" = .val (some "€*~ ") := by decide +kernel
example : decodeString "%ff" = .invalid := by decide +kernel

end Ari
