import AriVerif.Init
/-!
# C11 — version negotiation and init parameters follow the compatibility table

`negotiate` and `onInit` are compositions of definitions **generated from server.py on every run**
(`Gen.prologue`, `Gen.metaSupported`, `Gen.dataSupported`, `Gen.epilogue`, `Gen.maxVersion`); the
theorems quantify over every version string (`String`), absent version (`none`), every parameter
map and every adapter outcome.
-/
namespace Ari

/-- **C11 (Metadata table).** Refuses only the reserved 1.8.1 and an explicitly announced 1.8.0;
    a missing version is treated as 1.8.0, 1.8.2 is echoed, everything else is answered 1.8.3. -/
theorem c11_meta (pv : Option String) :
    negotiate .metaK pv =
      match pv with
      | none => some "1.8.0"
      | some v => if v = "1.8.0" ∨ v = "1.8.1" then none
                  else if v = "1.8.2" then some "1.8.2" else some "1.8.3" := by
  unfold negotiate Gen.prologue Gen.metaSupported Gen.maxVersion
  cases pv with
  | none => decide
  | some v =>
    by_cases h0 : v = "1.8.0"
    · subst h0; decide
    by_cases h1 : v = "1.8.1"
    · subst h1; decide
    by_cases h2 : v = "1.8.2"
    · subst h2; decide
    by_cases h3 : v = "1.8.3"
    · subst h3; decide
    simp [h0, h1, h2, h3]

/-- **C11 (Data table).** Refuses a missing version, every `1.8.x` and `1.9.0`; otherwise 1.8.3. -/
theorem c11_data (pv : Option String) :
    negotiate .dataK pv =
      match pv with
      | none => none
      | some v => if pyStartsWith v "1.8." ∨ v = "1.9.0" then none else some "1.8.3" := by
  unfold negotiate Gen.prologue Gen.dataSupported Gen.maxVersion
  cases pv with
  | none => decide
  | some v =>
    by_cases h0 : v = "1.8.0"
    · subst h0; decide
    by_cases h1 : v = "1.8.1"
    · subst h1; decide
    by_cases h3 : v = "1.8.3"
    · subst h3; decide
    by_cases h9 : v = "1.9.0"
    · subst h9; decide
    by_cases hp : pyStartsWith v "1.8." = true <;> simp [h0, h1, h3, h9, hp]

/-- reply and close flag for an accepted version (generated epilogue, all strings). -/
theorem c11_epilogue (adv : String) (closeBefore : Bool) :
    Gen.epilogue adv closeBefore =
      (if adv = "1.8.0" ∨ adv = "1.8.2" then false else closeBefore,
       if adv = "1.8.0" then none else some adv) := by
  unfold Gen.epilogue
  by_cases h0 : adv = "1.8.0"
  · subst h0; decide +revert
  by_cases h2 : adv = "1.8.2"
  · subst h2; decide +revert
  simp [h0, h2]

/-- **C11 (no initialization on refusal).** -/
theorem c11_no_init_on_refusal (i : InitIn)
    (h : negotiate i.kind (asVersion (pdGet (dictOf i.pairs) ariVersionKey)) = none) :
    (onInit i).initArgs = none ∧ (onInit i).listenerCalled = false ∧
    (onInit i).reply = joinBar [i.kind.method, "E", "*"] ∧ (onInit i).closeExpected = i.closeBefore := by
  simp [onInit, h]

/-- **C11 (parameters).** On acceptance `initialize` receives exactly the Proxy-supplied parameters
    minus the two reserved negotiation keys, overlaid by the locally configured parameters (local
    wins; reserved keys inside the local map pass through), together with the configured file. -/
theorem c11_params (i : InitIn) (adv : String)
    (h : negotiate i.kind (asVersion (pdGet (dictOf i.pairs) ariVersionKey)) = some adv) :
    (onInit i).initArgs =
      some (match i.localParams with
            | some p => pdUpdate (pdErase (pdErase (dictOf i.pairs) ariVersionKey) keepaliveKey) p
            | none => pdErase (pdErase (dictOf i.pairs) ariVersionKey) keepaliveKey,
            i.configFile) := by
  unfold onInit
  simp only [h]
  cases i.initOutcome <;> simp only []
  · split <;> rfl
  · rfl

/-- lookup semantics of the merged map (what "overlaid, local wins" means key by key). -/
theorem c11_erase_get (d : PDict) (k k' : Val) :
    pdGet (pdErase d k) k' = if k' = k then none else pdGet d k' := by
  unfold pdGet pdErase
  induction d with
  | nil => simp
  | cons x xs ih =>
    have hb : ∀ a b : Val, (a == b) = decide (a = b) := fun a b => rfl
    by_cases hx : x.1 = k <;> by_cases hk : k' = k <;> by_cases hxk : x.1 = k' <;>
      simp_all [List.find?_cons, List.filter_cons, hb] <;> grind

/-- **C11 (error type).** A failing `initialize` becomes the error reply of the init method, typed by
    the provider error class exactly as C08 states for `DPI` / `MPI`. -/
theorem c11_error_type (i : InitIn) (adv : String) (e : Exc)
    (h : negotiate i.kind (asVersion (pdGet (dictOf i.pairs) ariVersionKey)) = some adv)
    (he : i.initOutcome = .raise e) :
    (onInit i).reply = writeError i.kind.method e ∧ (onInit i).closeExpected = i.closeBefore := by
  simp [onInit, h, he]

/-- **C11 (close packets afterwards).** After a successful initialization close requests are honoured
    iff the agreed version is neither 1.8.0 nor 1.8.2 (i.e. is 1.8.3); after a refused or failed one
    the flag is unchanged (still honoured on a fresh server). -/
theorem c11_close (i : InitIn) (adv : String) (v : PyVal)
    (h : negotiate i.kind (asVersion (pdGet (dictOf i.pairs) ariVersionKey)) = some adv)
    (he : i.initOutcome = .ret v) (hl : i.kind = .dataK → ∃ w, i.listenerOutcome = .ret w) :
    (onInit i).closeExpected = (if adv = "1.8.0" ∨ adv = "1.8.2" then false else i.closeBefore) ∧
    (onInit i).reply = writeInitOk i.kind.method (if adv = "1.8.0" then none else some adv) := by
  by_cases hk : i.kind = .dataK
  · obtain ⟨w, hw⟩ := hl hk
    rw [hk] at h
    simp [onInit, h, he, hk, hw, c11_epilogue]
  · have hm : i.kind = .metaK := by cases hh : i.kind <;> simp_all
    rw [hm] at h
    simp [onInit, h, he, hm, c11_epilogue]

/-- **C11/C12 (the hint is applied whatever the init outcome).** -/
theorem c11_hint_independent (i : InitIn) :
    (onInit i).keepAlive = effective i.keepAlive
      (if (match pdGet (dictOf i.pairs) keepaliveKey with | some (.str (some _)) => true | _ => false)
       then i.hintValue else none) := by
  unfold onInit
  simp only []
  split
  · rfl
  · split
    · rfl
    · split <;> rfl

/-- the two structural facts the translator checks on `_on_init` (recorded as generated constants). -/
theorem c11_shape : Gen.initCallsShape = true ∧ Gen.hintAppliedOnEveryPath = true := by decide

-- non-vacuity (tests, labelled as such)
example : negotiate .metaK (some "1.9.1") = some "1.8.3" := by rw [c11_meta]; decide
example : negotiate .dataK (some "1.10.0") = some "1.8.3" := by rw [c11_data]; decide
example : negotiate .dataK (some "1.8.3") = none := by rw [c11_data]; decide

end Ari
