import AriVerif.Meta
import AriVerif.Lemmas.Wire
/-!
# C09 — malformed requests fail cleanly (decoder part)

`decodeRequest` is total: it answers `ok` or the protocol error *naming the method* — in the model
by construction of the type, in the code by the `requests` differential over the malformed stream
(the real `read_*` raise nothing but `RemotingException("… while parsing <M> request")`).
The rejection theorems hold for **every** token list, not only for mutations of well-formed ones.
The server-level part (no adapter call, no reply, one handler notification, continued service) is
in `Props/C09Server.lean` over the dispatch model.
-/
namespace Ari

/-- **C09 (error names the method).** -/
theorem c09_error_names_method (m : String) (toks : List String) (e : ParseError)
    (h : decodeRequest m toks = some (.error e)) : e.method = m := by
  unfold decodeRequest at h
  cases hs : schemaOf m with
  | none => simp [hs] at h
  | some σ =>
    simp only [hs, Option.map_some, Option.some.injEq] at h
    split at h
    · cases h
    · cases h; rfl

/-- **C09 (truncation inside the fixed fields).** Any token list shorter than the fixed part of the
    layout is rejected. -/
theorem c09_reject_truncated (σ : Schema) (toks : List String)
    (h : toks.length < 2 * σ.fixed.length) : decodeWith σ toks = .error () := by
  apply decodeWith_error_of_fixed
  apply decodeFixed_short
  · intro hnil; simp [hnil] at h
  · omega

/-- **C09 (wrong type marker).** If the marker of fixed field `i` is not the layout's, the request is
    rejected, whatever the other tokens are. -/
theorem c09_reject_marker (σ : Schema) (toks : List String) (i : Nat) (ty : Ty)
    (hi : σ.fixed[i]? = some ty) (h : toks[2 * i]? ≠ some (String.singleton ty.marker)) :
    decodeWith σ toks = .error () := by
  apply decodeWith_error_of_fixed
  apply decodeFixed_error _ _ 0 i ty hi
  apply read_error_of_marker
  simpa using h

/-- **C09 (non-integer in an integer slot).** -/
theorem c09_reject_int (σ : Schema) (toks : List String) (i : Nat) (t : String)
    (hi : σ.fixed[i]? = some .I) (ht : toks[2 * i + 1]? = some t) (h : pyInt? t = none) :
    decodeWith σ toks = .error () := by
  apply decodeWith_error_of_fixed
  apply decodeFixed_error _ _ 0 i .I hi
  exact read_I_error _ _ t (by simpa using ht) h

/-- **C09 (unknown mode code).** (DESIGN I-2: a mode token is unknown iff it is not `#`/`$` and its
    first character is not one of `R M D C`.) -/
theorem c09_reject_mode (σ : Schema) (toks : List String) (i : Nat) (t : String)
    (hi : σ.fixed[i]? = some .M) (ht : toks[2 * i + 1]? = some t) (h : decodeModes t = .error ()) :
    decodeWith σ toks = .error () := by
  apply decodeWith_error_of_fixed
  apply decodeFixed_error _ _ 0 i .M hi
  exact read_M_error _ _ t (by simpa using ht) h

/-- **C09 (unknown platform code).** -/
theorem c09_reject_platform (σ : Schema) (toks : List String) (i : Nat) (t : String)
    (hi : σ.fixed[i]? = some .P) (ht : toks[2 * i + 1]? = some t) (h : decodePlat t = .error ()) :
    decodeWith σ toks = .error () := by
  apply decodeWith_error_of_fixed
  apply decodeFixed_error _ _ 0 i .P hi
  exact read_P_error _ _ t (by simpa using ht) h

/-- which mode / platform tokens are unknown, explicitly. -/
theorem c09_unknown_mode_iff (t : String) :
    decodeModes t = .error () ↔
      (t ≠ "#" ∧ t ≠ "$" ∧ ∀ c, t.toList.head? = some c → c ≠ 'R' ∧ c ≠ 'M' ∧ c ≠ 'D' ∧ c ≠ 'C') := by
  unfold decodeModes
  by_cases h : t = "#" ∨ t = "$"
  · rw [if_pos h]
    constructor
    · intro hh; cases hh
    · rintro ⟨h1, h2, _⟩; rcases h with h | h <;> contradiction
  · rw [if_neg h]
    have h1 : t ≠ "#" := fun e => h (Or.inl e)
    have h2 : t ≠ "$" := fun e => h (Or.inr e)
    generalize t.toList = l
    split
    · simp
    · simp
    · simp
    · simp
    · rename_i n1 n2 n3 n4
      simp only [true_iff]
      refine ⟨h1, h2, ?_⟩
      intro c hc
      cases l with
      | nil => simp at hc
      | cons a as =>
        simp only [List.head?_cons, Option.some.injEq] at hc
        subst hc
        exact ⟨fun e => n1 as (by rw [e]), fun e => n2 as (by rw [e]),
          fun e => n3 as (by rw [e]), fun e => n4 as (by rw [e])⟩

theorem c09_unknown_platform_iff (t : String) :
    decodePlat t = .error () ↔ (t ≠ "#" ∧ t ≠ "$" ∧ t ≠ "A" ∧ t ≠ "G") := by
  unfold decodePlat
  split
  · simp_all
  · split
    · simp_all
    · split
      · simp_all
      · split <;> simp_all

/-- **C09 (tails).** A list tail cut after a marker, a map tail with an odd number of tokens, and a
    table list whose length is not a multiple of 14 are rejected (DESIGN I-3 lists what is tolerated:
    only a dangling `S|k` pair at the end of a map). -/
theorem c09_reject_seq_odd (toks : List String) (off : Nat)
    (h : (toks.length - off) % 2 = 1) : readSeq toks off = .error () := by
  unfold readSeq
  exact readSeqL_odd _ (by rw [List.length_drop]; exact h)

theorem c09_reject_map_odd (toks : List String) (off : Nat)
    (h : (toks.length - off) % 2 = 1) : readMap toks off = .error () := by
  unfold readMap
  simp only [List.length_drop]
  rw [if_pos (by omega)]

theorem c09_reject_tables_partial (toks : List String) (h : toks.length % 14 ≠ 0) :
    decodeTables toks.length toks = .error () := by
  exact decodeTables_partial _ _ h

/-- **C09 (a rejected request never reaches the adapter and is never answered).** -/
theorem c09_no_call_no_reply (m : String) (toks : List String) (script : List Outcome) (e : ParseError)
    (h : decodeRequest m toks = some (.error e)) : metaHandle m toks script = some (.error e) := by
  unfold metaHandle
  rw [h]; rfl

-- non-vacuity (tests, labelled as such): concrete malformed requests of the repository's tests
example : decodeRequest "GIS" ["S"] = some (.error ⟨"GIS"⟩) := by decide +kernel
example : decodeRequest "GIS" ["S1", "nasdaq100_AA_AL"] = some (.error ⟨"GIS"⟩) := by decide +kernel
example : decodeRequest "NNT" ["S", "u", "S", "s", "I", "x1"] = some (.error ⟨"NNT"⟩) := by decide +kernel

end Ari
