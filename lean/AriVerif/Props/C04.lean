import AriVerif.Conc.Pool
import AriVerif.Conc.PoolLemmas
/-!
# C04 — every Metadata request is answered once and dispatched once

`Conc.Pool`: the pool tasks created for decoded Metadata requests.  `PReach n s` quantifies over every
sequence of actions: every interleaving of submissions (the reader), task starts (any pool size `n`),
adapter call begins / ends with every outcome per call, and reply enqueues.  Which adapter methods a task
calls, with which arguments, in which order, and which reply results, is `metaExec` (Meta.lean), tied to the
real `_on_*` closures by the `metadata-closures` differential; the pool, the threads and the once-ness are
tied by the Metadata co-simulation.
-/
namespace Ari.Conc
open Ari

def PReach (n : Nat) (s : PState) : Prop := ∃ acts, prun { n := n } acts = some s

def PPc.isDone : PPc → Bool | .done => true | _ => false
def PPc.isActive : PPc → Bool | .inPool => false | .done => false | _ => true

theorem PPc.isDone_eq : PPc.isDone = pcDone := by funext p; cases p <;> rfl
theorem PPc.isActive_eq : PPc.isActive = pcActive := by funext p; cases p <;> rfl

theorem PReach.inv {n : Nat} {s : PState} (h : PReach n s) : PInv s := PInv.reach h

/-- **C04 (exactly one outcome per request, never both, never twice).** In every reachable state every task
    has produced nothing yet, or — exactly when it is finished — exactly one of {one reply, one
    exception-handler notification}. -/
theorem c04_once (n : Nat) (s : PState) (h : PReach n s) :
    ∀ t ∈ s.tasks, (t.pc.isDone = false → t.replied = 0 ∧ t.notified = 0) ∧
                   (t.pc.isDone = true → t.replied + t.notified = 1) := by
  intro t ht
  obtain ⟨k, hk⟩ := List.mem_iff_getElem?.mp ht
  have ok := h.inv.ok k t hk
  rw [PPc.isDone_eq]
  exact ⟨ok.notDone, ok.done⟩

/-- **C04 (the reply is the closure's result for this request).** The line a task is about to enqueue is its
    own request id followed by the result of its closure on the outcomes its own adapter calls returned. -/
theorem c04_reply_is_result (n : Nat) (s : PState) (h : PReach n s) :
    ∀ t ∈ s.tasks, ∀ line, t.pc = .put line →
      ∃ body, taskNext t = .inr (.reply body) ∧ line = t.rid ++ "|" ++ body := by
  intro t ht
  obtain ⟨k, hk⟩ := List.mem_iff_getElem?.mp ht
  exact (h.inv.ok k t hk).put

/-- **C04 (the handler is notified only for a value of an unsupported type).** A task ends with a handler
    notification only when its closure, run on the outcomes received, does not produce a reply line. -/
theorem c04_notified_only_without_reply (s s' : PState) (k : Nat) (t : PTask) (effs : List PEff)
    (h : advance s k t = (s', effs)) (hn : PEff.handlerExc ∈ effs) :
    ∀ body, taskNext t ≠ .inr (.reply body) := by
  rcases advance_cases s k t with ⟨c, _, he⟩ | ⟨line, _, he⟩ | ⟨hnr, _, _⟩
  · rw [he] at h; cases h; cases hn
  · rw [he] at h; cases h; cases hn
  · exact hnr

/-- **C04 (adapter calls are the closure's).** The call a task is about to make / is making is the next call
    of `metaExec` given the outcomes received so far. -/
theorem c04_call_is_next (n : Nat) (s : PState) (h : PReach n s) :
    ∀ t ∈ s.tasks, ∀ c, (t.pc = .callBegin c → taskNext t = .inl c) ∧
      (t.pc = .inCall c → taskNext t = .inl c) := by
  intro t ht c
  obtain ⟨k, hk⟩ := List.mem_iff_getElem?.mp ht
  have ok := h.inv.ok k t hk
  exact ⟨ok.callBegin c, ok.inCall c⟩

/-- **C04 (isolation).** A step of one task leaves every other task untouched: replies never cross. -/
theorem c04_isolation (s s' : PState) (a : PAct) (effs : List PEff) (k j : Nat) (h : pstep s a = some (s', effs))
    (ha : a = .start k ∨ a = .callBegin k ∨ (∃ o, a = .callEnd k o) ∨ a = .put k)
    (hj : j ≠ k) : s'.tasks[j]? = s.tasks[j]? := by
  rcases pstep_cases s s' a effs h with ⟨rid, m, args, rfl, -⟩ | ⟨k', t0, t1, st, ha'⟩
  · rcases ha with ha | ha | ⟨o, ha⟩ | ha <;> cases ha
  · have hk : k' = k := by
      rcases ha with rfl | rfl | ⟨o, rfl⟩ | rfl <;> rcases ha' with h' | h' | ⟨o', h'⟩ | h' <;> cases h' <;> rfl
    subst hk
    rw [st.tasks, List.getElem?_set_ne (fun e => hj e.symm)]

/-- **C04 (every finished task's reply is in the queue exactly when it replied).** The outbound sequence
    has as many lines as tasks that replied. -/
theorem c04_out_count (n : Nat) (s : PState) (h : PReach n s) :
    s.out.length = (s.tasks.map (·.replied)).sum := h.inv.out

/-- no deadlock inside the pool: an unfinished started task always has an enabled step of its own, except
    while it is inside an adapter call (the adapter decides when it returns). -/
theorem c04_progress (s : PState) (k : Nat) (t : PTask) (ht : s.tasks[k]? = some t) :
    (∀ c, t.pc = .callBegin c → (pstep s (.callBegin k)).isSome) ∧
    (∀ l, t.pc = .put l → (pstep s (.put k)).isSome) ∧
    (∀ c o, t.pc = .inCall c → (pstep s (.callEnd k o)).isSome) := by
  refine ⟨?_, ?_, ?_⟩
  · intro c hp; simp [pstep, ht, hp]
  · intro l hp; simp [pstep, ht, hp]
  · intro c o hp; simp [pstep, ht, hp]

end Ari.Conc
