import AriVerif.Framing
import AriVerif.Lemmas.Framing
/-!
# C15 — inbound framing is independent of transport segmentation

`feedL` is one iteration of the reader loop (`buffer += data; splitlines(keepends=True); dispatch the
tokens ending in LF; keep the last unterminated token`), `feedAllL` the loop over a list of read chunks.
A *well-formed stream* is a concatenation of request lines whose content is free of control characters
(values are percent-encoded) and which end in CRLF or LF, followed by an unterminated remainder.
-/
namespace Ari

/-- no character `str.splitlines` would break at. -/
def NoBreak (l : List Char) : Prop := ∀ c ∈ l, c ≠ '\r' ∧ isLineBreak c = false

/-- a complete request line: break-free content followed by CRLF or LF. -/
def IsLine (l : List Char) : Prop := ∃ body, NoBreak body ∧ (l = body ++ ['\r', '\n'] ∨ l = body ++ ['\n'])

/-- **C15 (segmentation independence).** For every stream of well-formed lines followed by an unterminated
    break-free remainder, and every way of cutting it into read chunks — inside a line, between CR and LF,
    many lines per chunk, one byte at a time, empty reads excluded or not — the loop dispatches exactly the
    lines, each once, in order and unmodified, and holds exactly the remainder. -/
theorem c15_segmentation (lines : List (List Char)) (rem : List Char) (chunks : List (List Char))
    (hl : ∀ l ∈ lines, IsLine l) (hr : NoBreak rem ∨ ∃ body, NoBreak body ∧ rem = body ++ ['\r'])
    (hc : chunks.flatten = lines.flatten ++ rem) :
    feedAllL [] chunks = (lines, rem) :=
  FramingLemmas.feedAll_wf chunks [] lines rem hl hr FramingLemmas.Adm.nil (by simpa using hc)

/-- **C15 (homomorphism).** What is dispatched does not depend on where earlier cuts were: feeding
    `cs₁ ++ cs₂` is feeding `cs₁`, then `cs₂` from the buffer that was left. -/
theorem c15_hom (b : List Char) (cs₁ cs₂ : List (List Char)) :
    feedAllL b (cs₁ ++ cs₂) =
      ((feedAllL b cs₁).1 ++ (feedAllL (feedAllL b cs₁).2 cs₂).1, (feedAllL (feedAllL b cs₁).2 cs₂).2) :=
  FramingLemmas.feedAll_hom b cs₁ cs₂

/-- **C15 (an incomplete line is held).** While no terminator has arrived nothing is dispatched, and the
    buffer is everything received so far. -/
theorem c15_hold (chunks : List (List Char)) (h : NoBreak chunks.flatten) :
    feedAllL [] chunks = ([], chunks.flatten) :=
  c15_segmentation [] chunks.flatten chunks (by intro l hl; cases hl) (Or.inl h) (by simp)

-- concrete instances (tests, labelled as such): a cut between CR and LF, and byte-at-a-time
example : feedAllL [] ["1|SUB|S|a\r".toList, "\n2|USB|S|a\n3|S".toList] =
    (["1|SUB|S|a\r\n".toList, "2|USB|S|a\n".toList], "3|S".toList) := by decide +kernel
example : feedAllL [] ("ab\r\ncd\n".toList.map fun c => [c]) = (["ab\r\n".toList, "cd\n".toList], []) := by
  decide +kernel

end Ari
