import AriVerif.Gen.State
import AriVerif.Spec.State
/-!
# The codec layer is pure in the current source

`Gen.sharedState` is regenerated from the source on every run.  The codec models (`Codec`, `Wire`, `Requests`, `Replies`,
`Errors`) are functions; the differentials run the real functions in one thread.  Both are adequate only if the real functions
keep no state between calls — no module global written, no cache, no class-level container.
-/
namespace Ari

theorem state_codec_from_source :
    Spec.stateRows Gen.sharedState ["protocol.py", "data_protocol.py", "metadata_protocol.py", "exceptions.py"] =
    Spec.stateRows Spec.sharedState ["protocol.py", "data_protocol.py", "metadata_protocol.py", "exceptions.py"] := by
  decide +kernel

end Ari
