import AriVerif.Conc.PropLemmas
/-!
# C03 — item events reach the live subscription: none lost, mis-tagged or stale
A listener call is two steps: `lsnRead` (reads the published id under the manager lock: `readCode s`) and
`lsnPut` (enqueues the line built with that id).  Ghost: `execd` = ids published so far, `fwd` = the
subscription whose forwarding window is open (set when `subscribe()` begins, closed when it raises or when
the matching `unsubscribe()` begins), `cleared` = an unsubscription is fully processed and no newer
subscription published.
-/
namespace Ari.Conc
open Ari

/-- **C03 (tag).** The id an event is tagged with is the id of a subscription request of this item that the
    library executed (not skipped). -/
theorem c03_tag (s : IState) (h : Inv s) (r : String) (hr : readCode s = some r) :
    ∃ t, t ∈ s.arr ∧ t.id = r ∧ t.isSub = true ∧ t ∉ s.late :=
  h.execdArr r (List.mem_of_getLast? (h.readCode_last hr))

/-- **C03 (forward).** While the forwarding window of subscription `r` is open, every listener call reads
    `r` — the event is forwarded with that subscription's id, never dropped. -/
theorem c03_forward (s : IState) (h : Inv s) (r : String) (hf : s.fwd = some r) : readCode s = some r := by
  rcases h.fwdShape r hf with ⟨k, t, hc, hpc, rfl⟩ | ⟨k, t, l, hc, hpc, hs, hnl, _, rfl⟩ |
      ⟨hb, _, t, hl, hs, hnl, rfl⟩ | ⟨k, t', hc, hpc, t, hl, rfl⟩
  · exact h.codePublished k hc t (by rw [hpc]; simp [Pc.published])
  · exact h.codeReply k hc t l hpc hs hnl
  · exact h.codeExec hb t hl hs hnl
  · exact h.codeUsb k hc t' hpc t hl

/-- the window really opens when `subscribe()` begins and stays open over a normal return. -/
theorem c03_window_opens (s s' : IState) (e : List Eff) (k : Nat) (t : Task) (hk : k < s.ninst)
    (hpc : (s.insts k).pc = .callBegin .sub t) (h : istep s (.callBegin k) = some (s', e)) :
    s'.fwd = some t.id := by
  simp only [istep, hk, hpc, if_true] at h
  obtain ⟨rfl, rfl⟩ := Prod.mk.inj (Option.some.inj h)
  simp [addLog]

/-- **C03 (drop).** An event submitted while the item was never subscribed, or after its unsubscription was
    fully processed, is dropped. -/
theorem c03_drop (s : IState) (h : Inv s) (hd : s.execd = [] ∨ s.cleared = true) : readCode s = none := by
  rcases hd with hd | hd
  · exact h.codeNever hd
  · exact h.clearedNone hd

/-- **C03 (not stale).** An id that is read is always the most recently published one. -/
theorem c03_not_stale (s : IState) (h : Inv s) (r : String) (hr : readCode s = some r) :
    s.execd.getLast? = some r :=
  h.readCode_last hr

/-- the listener step builds its line from exactly the id it read, for the item it was called for. -/
theorem c03_read_builds_line (s s' : IState) (e : List Eff) (w : Nat) (kind : LKind)
    (h : istep s (.lsnRead (.ext w) kind) = some (s', e)) :
    s'.ext w = (readCode s).bind (fun r => eventLine s.item r kind) := by
  simp only [istep] at h
  split at h
  · obtain ⟨rfl, rfl⟩ := Prod.mk.inj (Option.some.inj h)
    simp [upd]
  · cases h

end Ari.Conc
