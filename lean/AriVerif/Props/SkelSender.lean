import AriVerif.Gen.Skeleton
import AriVerif.Spec.Skeleton
/-!
# The structure the models assume is the structure of the current source — group **Sender**
The writer thread and the single send queue (`Sender.lean`, C13 / C16).
-/
namespace Ari

theorem skel_sender_from_source : Gen.skelSender = Spec.expectedSender := by decide +kernel

theorem writers_sender_from_source :
    rowsOf Gen.writers ["_keepalive", "_send_queue"] = rowsOf Spec.expectedWriters ["_keepalive", "_send_queue"] := by
  decide +kernel

end Ari
