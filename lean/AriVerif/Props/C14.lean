import AriVerif.Startup
import AriVerif.Props.C07
/-!
# C14 — the credentials message is the first message on every connection

`suRun` quantifies over every interleaving of the starting thread (`Server.start`), the writer and all other
producers of messages (which exist only once the reader thread has been started — the guard of `.enqueue`).
The order of the steps of `start()` and the fact that no reader-side chunk precedes the credentials enqueue
are checked in lock-step by the Data / Metadata co-simulations (threads `M`, `W`, `R` of Conc/Data.lean follow
exactly this start-up), with request bytes already readable before `start()` is called.
-/
namespace Ari

/-- invariant: everything written or queued so far, in order, starts with the credentials message as soon
    as it has been enqueued, and nothing at all is queued or written before. -/
def SUInv (s : SUState) : Prop :=
  s.mpc ≤ 3 ∧
  (s.mpc < 2 → s.q = [] ∧ s.written = []) ∧
  (2 ≤ s.mpc → ∃ rest, s.written ++ s.q = racLine s :: rest)

theorem suStep_inv (s s' : SUState) (a : SUAct) (h : SUInv s) (hs : suStep s a = some s') :
    SUInv s' ∧ s'.user = s.user ∧ s'.password = s.password := by
  obtain ⟨h0, h1, h2⟩ := h
  cases a with
  | main =>
    simp only [suStep] at hs
    split at hs
    · cases hs; rename_i hm
      refine ⟨⟨by simp, ?_, ?_⟩, rfl, rfl⟩
      · intro _; exact h1 (by omega)
      · intro hh; simp at hh
    · split at hs
      · cases hs; rename_i hm
        have := h1 (by omega)
        refine ⟨⟨by simp, by simp, ?_⟩, rfl, rfl⟩
        intro _; exact ⟨[], by simp [this.1, this.2, racLine]⟩
      · split at hs
        · cases hs; rename_i hm
          refine ⟨⟨by simp, by simp, ?_⟩, rfl, rfl⟩
          intro _; simpa [racLine] using h2 (by omega)
        · cases hs
  | enqueue m =>
    simp only [suStep] at hs
    split at hs
    · cases hs; rename_i hm
      refine ⟨⟨h0, by intro hh; simp only [] at hh; omega, ?_⟩, rfl, rfl⟩
      intro _
      obtain ⟨rest, hr⟩ := h2 (by omega)
      exact ⟨rest ++ [m], by simp [← List.append_assoc, hr, racLine]⟩
    · cases hs
  | write =>
    simp only [suStep] at hs
    split at hs
    · split at hs
      · cases hs; rename_i hm m rest hq
        refine ⟨⟨h0, ?_, ?_⟩, rfl, rfl⟩
        · intro hh; have := (h1 hh).1; simp [hq] at this
        · intro hh
          obtain ⟨r, hr⟩ := h2 hh
          exact ⟨r, by simpa [hq, racLine] using hr⟩
      · cases hs
    · cases hs

/-- **C14 (first, on every schedule).** In every state reached by any interleaving, as soon as anything is
    queued or written the first message is the credentials message with id 1 — in particular it is written
    before the reply to any request, however early requests arrive. -/
theorem c14_first (user password : Option String) (acts : List SUAct) (s : SUState)
    (h : suRun { user := user, password := password } acts = some s) :
    ∀ m rest, s.written ++ s.q = m :: rest → m = "1|" ++ writeCredentials user password := by
  have key : ∀ (acts : List SUAct) (s0 s : SUState), SUInv s0 → suRun s0 acts = some s →
      SUInv s ∧ s.user = s0.user ∧ s.password = s0.password := by
    intro acts
    induction acts with
    | nil => intro s0 s hi hr; simp [suRun] at hr; subst hr; exact ⟨hi, rfl, rfl⟩
    | cons a rest ih =>
      intro s0 s hi hr
      simp only [suRun] at hr
      split at hr
      · rename_i s1 hs1
        obtain ⟨hi1, hu, hp⟩ := suStep_inv s0 s1 a hi hs1
        obtain ⟨hi2, hu2, hp2⟩ := ih s1 s hi1 hr
        exact ⟨hi2, hu2.trans hu, hp2.trans hp⟩
      · cases hr
  have hinit : SUInv { user := user, password := password } := ⟨by simp, by simp, by simp⟩
  obtain ⟨⟨_, h1, h2⟩, hu, hp⟩ := key acts _ s hinit h
  intro m rest hm
  by_cases hlt : s.mpc < 2
  · have := h1 hlt; simp [this.1, this.2] at hm
  · obtain ⟨r, hr⟩ := h2 (by omega)
    rw [hr] at hm
    have := (List.cons.inj hm).1
    simp only [racLine, hu, hp] at this
    exact this.symm

/-- **C14 (reader-side messages come later).** No reader-side producer can enqueue before the credentials
    message has been enqueued and the reader thread started. -/
theorem c14_others_later (s s' : SUState) (m : String) (h : suStep s (.enqueue m) = some s') : s.mpc = 3 := by
  simp only [suStep] at h
  split at h
  · assumption
  · cases h

/-- **C14 (content).** The message carries `user` / `password` iff each is configured (an empty string is the
    empty token), always requests close packets and names the SDK, every value a text token: see
    `c07_credentials_line`, `c07_credentials_decode`, `c07_tokens_ok`. -/
theorem c14_content (user password : Option String) :
    writeCredentials user password = joinBar (credToks user password) ∧
    Spec.decodeParams (credToks user password).tail =
      some ((match user with | some u => [("user", Dec.val (some u))] | none => [])
        ++ (match password with | some p => [("password", Dec.val (some p))] | none => [])
        ++ [("enableClosePacket", .val (some "true")), ("SDK", .val (some "Python Adapter SDK"))]) :=
  ⟨c07_credentials_line user password, c07_credentials_decode user password⟩

end Ari
