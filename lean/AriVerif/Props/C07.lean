import AriVerif.Spec.Reply
import AriVerif.Lemmas.Wire
import AriVerif.Lemmas.Replies
/-!
# C07 — replies and notifications are well-formed and decode to the adapter's data

For every writer: (1) on well-typed data the line is `joinBar` of an explicit token list whose
*structure depends only on the shape of the data*; (2) no token contains the separator, CR or LF, so
splitting the line recovers the tokens; (3) the conforming decoder (Spec/Reply.lean) recovers exactly
the supplied data from those tokens; (4) a value of an unsupported type in any scalar slot or list
element yields the protocol error and no line.  Floats are opaque (`PyVal.float repr _`, DESIGN §2.2):
the line carries CPython's `repr` verbatim; that `float(repr(x)) == x` is CPython's contract and is
tested by the writers differential, not proved here.
-/
namespace Ari

/-- text values an adapter may put in a text slot. -/
def pyText : Option String → PyVal
  | none => .none
  | some s => .str s

/-- a float `repr` as CPython prints finite floats, `inf`, `nan`: no separator, no line break. -/
def FloatTok (r : String) : Prop := ∀ c ∈ r.toList, c ≠ '|' ∧ c ≠ '\r' ∧ c ≠ '\n'

/-- no separator and no line break inside a token. -/
def TokOk (t : String) : Prop := ∀ c ∈ t.toList, c ≠ '|' ∧ c ≠ '\r' ∧ c ≠ '\n'

/-! ## item / field lists (GIS, GSC) -/

def namesToks (m : String) (xs : List (Option String)) : List String :=
  m :: xs.flatMap fun x => ["S", encodeString x]

theorem encStr_pyText (x : Option String) : encStr (pyText x) = .ok (encodeString x) := by
  cases x <;> rfl

theorem encStr_ok_or (v : PyVal) : (∃ t, encStr v = .ok t) ∨ encStr v = .error .remoting := by
  cases v <;> simp [encStr]

theorem c07_names_line (m : String) (xs : List (Option String)) :
    writeNames m (.list (xs.map pyText)) = .ok (joinBar (namesToks m xs)) := by
  unfold writeNames namesToks
  cases xs with
  | nil => simp [PyVal.truthy, joinBar_singleton]
  | cons x xs =>
    have hm : (List.map pyText (x :: xs)).mapM encStr = .ok ((List.map pyText (x :: xs)).map fun v =>
        match v with | .str s => encodeString (some s) | _ => "#") := by
      apply mapM_ok
      intro v hv
      simp only [List.mem_map] at hv
      obtain ⟨o, _, rfl⟩ := hv
      cases o <;> rfl
    have hm2 : ((List.map pyText (x :: xs)).map fun v =>
        match v with | .str s => encodeString (some s) | _ => "#") = (x :: xs).map encodeString := by
      rw [List.map_map]
      apply List.map_congr_left
      intro o _
      cases o <;> rfl
    rw [hm2] at hm
    simp only [PyVal.truthy, iterNames, List.isEmpty_cons, List.map_cons, Bool.not_false, Bool.not_true,
      Bool.false_eq_true, if_false]
    simp only [List.map_cons] at hm
    change (do let toks ← List.mapM encStr (pyText x :: List.map pyText xs); Except.ok (m ++ "|S|" ++ String.intercalate "|S|" toks)) = _
    rw [hm]
    change Except.ok _ = _
    rw [joinBar_S _ _ (by simp)]
    congr 3
    rw [← List.map_cons, List.flatMap_map]

theorem c07_names_decode (m : String) (xs : List (Option String)) :
    Spec.decodeNames (namesToks m xs).tail = some (xs.map Dec.val) := by
  simp only [namesToks, List.tail_cons]
  induction xs with
  | nil => rfl
  | cons x xs ih =>
    simp only [List.flatMap_cons, List.cons_append, List.nil_append, Spec.decodeNames, ih, c05_roundtrip,
      Option.map_some, List.map_cons]

/-- a list element of an unsupported type (anything but `str`, `bytes`, `None`) → protocol error, no line. -/
theorem c07_names_type_guard (m : String) (xs : List PyVal) (x : PyVal) (hx : x ∈ xs)
    (hbad : encStr x = .error .remoting) : writeNames m (.list xs) = .error .remoting := by
  unfold writeNames
  have hne : xs.isEmpty = false := by cases xs with
    | nil => simp at hx
    | cons _ _ => rfl
  have hm := mapM_error encStr .remoting xs x hx hbad (fun y _ => encStr_ok_or y)
  simp only [PyVal.truthy, hne, iterNames, Bool.not_false, Bool.not_true, Bool.false_eq_true, if_false]
  change (do let toks ← List.mapM encStr xs; Except.ok (m ++ "|S|" ++ String.intercalate "|S|" toks)) = _
  rw [hm]; rfl

/-- which values a text slot rejects: everything except `None`, `str`, `bytes`. -/
theorem c07_text_slot_guard (v : PyVal) :
    encStr v = .error .remoting ↔ (match v with | .none | .str _ | .bytes _ => False | _ => True) := by
  cases v <;> simp [encStr]

/-! ## per-item data (GIT, GUI) -/

structure ItemRec where
  n : Int
  frepr : String
  fzero : Bool
  modes : Option (List Mode)

def ItemRec.toData (r : ItemRec) : ItemData :=
  ⟨.int r.n, .float r.frepr r.fzero, match r.modes with | none => .none | some ms => .list (ms.map fun m => .mode m.code)⟩

def modesTok : Option (List Mode) → String
  | none => "#"
  | some [] => "$"
  | some ms => String.ofList (ms.map Mode.code)

def itemDataToks (m : String) (rs : List ItemRec) : List String :=
  m :: rs.flatMap fun r => ["I", pyStrInt r.n, "D", r.frepr, "M", modesTok r.modes]

theorem foldlM_modes (ms : List Mode) (acc : String) :
    (ms.map fun m => PyVal.mode m.code).foldlM (m := W) (fun acc x => match x with
      | .mode c => .ok (acc ++ String.singleton c)
      | _ => .error .pyType) acc = .ok (acc ++ String.ofList (ms.map Mode.code)) := by
  induction ms generalizing acc with
  | nil => simp; rfl
  | cons m ms ih =>
    rw [List.map_cons, List.foldlM_cons]
    change List.foldlM _ (acc ++ String.singleton m.code) _ = _
    rw [ih, String.append_assoc]
    congr 2
    rw [← String.toList_inj]; simp

theorem encModes_modes (ms : Option (List Mode)) :
    encModes (match ms with | none => .none | some ms => .list (ms.map fun m => .mode m.code))
      = .ok (modesTok ms) := by
  match ms with
  | none => rfl
  | some [] => rfl
  | some (m :: ms) =>
    simp only [encModes, modesTok, List.map_cons, List.isEmpty_cons, Bool.false_eq_true, if_false]
    have := foldlM_modes (m :: ms) ""
    simp only [List.map_cons, String.empty_append] at this
    exact this

theorem c07_itemdata_line (m : String) (rs : List ItemRec) :
    writeItemData m (rs.map ItemRec.toData) = .ok (joinBar (itemDataToks m rs)) := by
  unfold writeItemData itemDataToks
  cases rs with
  | nil => simp [joinBar_singleton]
  | cons r rs =>
    have hm := mapM_map_ok (ε := WErr) (fun d : ItemData => do
        let a ← encInt d.n
        let b ← encDouble d.f
        let c ← encModes d.modes
        Except.ok (joinBar ["I", a, "D", b, "M", c])) ItemRec.toData
      (fun r => joinBar ["I", pyStrInt r.n, "D", r.frepr, "M", modesTok r.modes]) (r :: rs)
      (fun r _ => by
        simp only [ItemRec.toData, encInt, encDouble, encModes_modes]
        rfl)
    simp only [List.isEmpty_cons, List.map_cons, Bool.false_eq_true, if_false] at hm ⊢
    rw [hm]
    change Except.ok _ = _
    rw [← List.map_cons (f := fun r : ItemRec => joinBar ["I", pyStrInt r.n, "D", r.frepr, "M", modesTok r.modes])]
    have := joinBar_line [m] (r :: rs)
      (fun r : ItemRec => ["I", pyStrInt r.n, "D", r.frepr, "M", modesTok r.modes]) (by simp) (by simp)
      (by simp)
    rw [joinBar_singleton] at this
    rw [this]; rfl

theorem decodeModeSet_modesTok (ms : Option (List Mode)) :
    Spec.decodeModeSet (modesTok ms) = some (ms.map (·.map Mode.code)) := by
  match ms with
  | none => rfl
  | some [] => rfl
  | some (m :: ms) =>
    have h1 : String.ofList ((m :: ms).map Mode.code) ≠ "#" := by
      intro e
      have := congrArg String.toList e
      cases m <;> simp [Mode.code] at this
    have h2 : String.ofList ((m :: ms).map Mode.code) ≠ "$" := by
      intro e
      have := congrArg String.toList e
      cases m <;> simp [Mode.code] at this
    have h3 : (String.ofList ((m :: ms).map Mode.code)).toList.all
        (fun c => c = 'R' ∨ c = 'M' ∨ c = 'D' ∨ c = 'C') = true := by
      rw [String.toList_ofList, List.all_eq_true]
      intro c hc
      simp only [List.mem_map] at hc
      obtain ⟨m', _, rfl⟩ := hc
      cases m' <;> simp [Mode.code]
    rw [String.toList_ofList] at h3
    simp only [Spec.decodeModeSet, modesTok, if_neg h1, if_neg h2, String.toList_ofList, h3, if_true,
      Option.map_some]

/-- one (integer, float, mode-set) triple per item, in order; the mode set keeps the order supplied. -/
theorem c07_itemdata_decode (m : String) (rs : List ItemRec) :
    Spec.decodeItemData (itemDataToks m rs).tail =
      some (rs.map fun r => (r.n, r.frepr, r.modes.map (·.map Mode.code))) := by
  simp only [itemDataToks, List.tail_cons]
  induction rs with
  | nil => rfl
  | cons r rs ih =>
    simp only [List.flatMap_cons, List.cons_append, List.nil_append, Spec.decodeItemData, ih,
      pyInt?_pyStrInt, decodeModeSet_modesTok, List.map_cons]
    rfl

theorem encInt_ok_or (v : PyVal) : (∃ t, encInt v = .ok t) ∨ encInt v = .error .remoting := by
  cases v <;> simp [encInt]

theorem encDouble_ok_or (v : PyVal) : (∃ t, encDouble v = .ok t) ∨ encDouble v = .error .remoting := by
  cases v <;> simp [encDouble]

theorem encBool_ok_or (v : PyVal) : (∃ t, encBool v = .ok t) ∨ encBool v = .error .remoting := by
  cases v <;> simp [encBool]

theorem c07_itemdata_type_guard (m : String) (ds : List ItemData) (d : ItemData) (hd : d ∈ ds)
    (hbad : encInt d.n = .error .remoting ∨ encDouble d.f = .error .remoting)
    (hmodes : ∀ d' ∈ ds, ∃ t, encModes d'.modes = .ok t) :
    writeItemData m ds = .error .remoting := by
  unfold writeItemData
  have hne : ds.isEmpty = false := by cases ds with
    | nil => simp at hd
    | cons _ _ => rfl
  have hbad' : (do
        let a ← encInt d.n
        let b ← encDouble d.f
        let c ← encModes d.modes
        Except.ok (joinBar ["I", a, "D", b, "M", c]) : W String) = .error .remoting := by
    rcases encInt_ok_or d.n with ⟨a, ha⟩ | ha
    · rcases hbad with hb | hb
      · rw [hb] at ha; cases ha
      · rw [ha, hb]; rfl
    · rw [ha]; rfl
  have hm := mapM_error (fun d : ItemData => (do
        let a ← encInt d.n
        let b ← encDouble d.f
        let c ← encModes d.modes
        Except.ok (joinBar ["I", a, "D", b, "M", c]) : W String)) .remoting ds d hd hbad'
    (fun y hy => by
      obtain ⟨t, ht⟩ := hmodes y hy
      rcases encInt_ok_or y.n with ⟨a, ha⟩ | ha
      · rcases encDouble_ok_or y.f with ⟨b, hb⟩ | hb
        · left; exact ⟨_, by rw [ha, hb, ht]; rfl⟩
        · right; rw [ha, hb]; rfl
      · right; rw [ha]; rfl)
  simp only [hne, Bool.false_eq_true, if_false]
  rw [hm]; rfl

/-- an int slot rejects everything but `int` (in particular `bool`), a float slot everything but `float`
    (in particular `int`), a flag slot everything but `bool`. -/
theorem c07_scalar_guards (v : PyVal) :
    (encInt v = .error .remoting ↔ (match v with | .int _ => False | _ => True)) ∧
    (encDouble v = .error .remoting ↔ (match v with | .float _ _ => False | _ => True)) ∧
    (encBool v = .error .remoting ↔ (match v with | .bool _ => False | _ => True)) := by
  cases v <;> simp [encInt, encDouble, encBool]

/-! ## notify user (NUS, NUA) -/

theorem c07_notifyuser (m : String) (r : String) (z w : Bool) :
    writeNotifyUser m (.float r z) (.bool w) = .ok (joinBar [m, "D", r, "B", if w then "1" else "0"]) ∧
    Spec.decodeNotifyUser [("D" : String), r, "B", if w then "1" else "0"] = some (r, w) := by
  constructor
  · rfl
  · cases w <;> simp [Spec.decodeNotifyUser, Spec.decodeBool]

theorem c07_notifyuser_type_guard (m : String) (bw w : PyVal)
    (h : encDouble bw = .error .remoting ∨ encBool w = .error .remoting) :
    writeNotifyUser m bw w = .error .remoting := by
  unfold writeNotifyUser
  rcases encDouble_ok_or bw with ⟨a, ha⟩ | ha
  · rcases h with hb | hb
    · rw [hb] at ha; cases ha
    · rw [ha, hb]; rfl
  · rw [ha]; rfl

/-! ## update events (UD3), end of snapshot, clear snapshot, failure -/

/-- a field value: text (or None) or bytes. -/
inductive FieldIn
  | text (v : Option String)
  | bytes (b : Bytes)

def FieldIn.toPy : FieldIn → PyVal
  | .text v => pyText v
  | .bytes b => .bytes b

def FieldIn.toks : FieldIn → List String
  | .text v => ["S", encodeString v]
  | .bytes b => ["Y", String.ofList (b64encode b)]

def FieldIn.decoded : FieldIn → Spec.FieldVal
  | .text v => .text (.val v)
  | .bytes b => .bytes b

def updateToks (item rid : Option String) (snap : Bool) (ev : List (Option String × FieldIn)) : List String :=
  ["UD3", "S", encodeString item, "S", encodeString rid, "B", if snap then "1" else "0"]
    ++ ev.flatMap fun (f, v) => ["S", encodeString f] ++ v.toks

theorem W.bind_ok {α β} (a : α) (f : α → W β) : (Except.ok a >>= f) = f a := rfl

theorem c07_b64_roundtrip (b : Bytes) : Spec.b64decode (b64encode b) = some b := by
  exact b64decode_b64encode b

theorem encodeValue_toPy (v : FieldIn) : encodeValue v.toPy = .ok (joinBar v.toks) := by
  match v with
  | .text none =>
    simp only [FieldIn.toPy, pyText, encodeValue, FieldIn.toks, encodeString, joinBar_cons_cons, joinBar_singleton]
    rfl
  | .text (some s) =>
    simp only [FieldIn.toPy, pyText, encodeValue, FieldIn.toks, joinBar_cons_cons, joinBar_singleton]
    rfl
  | .bytes b =>
    simp only [FieldIn.toPy, encodeValue, encBytes64, FieldIn.toks, joinBar_cons_cons, joinBar_singleton]
    rfl

theorem updateField_ok (f : Option String) (v : FieldIn) :
    (do let f' ← encStr (pyText f)
        let x ← encodeValue v.toPy
        Except.ok (joinBar ["S", f', x]) : W String)
      = .ok (joinBar (["S", encodeString f] ++ v.toks)) := by
  rw [encStr_pyText, encodeValue_toPy]
  change Except.ok _ = _
  cases v <;> simp only [FieldIn.toks, joinBar_cons_cons, joinBar_singleton, List.cons_append, List.nil_append]

theorem c07_update_line (item rid : Option String) (snap : Bool) (ev : List (Option String × FieldIn)) :
    writeUpdateMap (pyText item) (pyText rid) (.bool snap)
        (if ev = [] then .none else .dict (ev.map fun (f, v) => (pyText f, v.toPy)))
      = .ok (joinBar (updateToks item rid snap ev)) := by
  unfold writeUpdateMap updateToks
  rw [encStr_pyText, encStr_pyText]
  simp only [encBool, W.bind_ok]
  cases ev with
  | nil => simp
  | cons kv ev =>
    have hm := mapM_map_ok (ε := WErr) (fun (x : PyVal × PyVal) => (do
        let f ← encStr x.1
        let y ← encodeValue x.2
        Except.ok (joinBar ["S", f, y]) : W String))
      (fun (x : Option String × FieldIn) => (pyText x.1, x.2.toPy))
      (fun x => joinBar (["S", encodeString x.1] ++ x.2.toks)) (kv :: ev)
      (fun x _ => updateField_ok x.1 x.2)
    have hl := joinBar_line
      ["UD3", "S", encodeString item, "S", encodeString rid, "B", if snap = true then "1" else "0"] (kv :: ev)
      (fun x : Option String × FieldIn => ["S", encodeString x.1] ++ x.2.toks) (by simp) (by simp) (by simp)
    rw [← hl]
    simp only [reduceCtorEq, if_false, List.map_cons] at hm ⊢
    rw [hm]
    rfl

theorem decodeEvents_toks (ev : List (Option String × FieldIn)) :
    Spec.decodeEvents (ev.flatMap fun (f, v) => ["S", encodeString f] ++ v.toks)
      = some (ev.map fun (f, v) => (.val f, v.decoded)) := by
  induction ev with
  | nil => rfl
  | cons kv ev ih =>
    obtain ⟨f, v⟩ := kv
    rw [List.flatMap_cons, List.map_cons]
    generalize List.flatMap _ ev = rest at ih ⊢
    generalize List.map _ ev = r at ih ⊢
    cases v with
    | text t =>
      simp only [FieldIn.toks, List.cons_append, List.nil_append, Spec.decodeEvents, ih,
        c05_roundtrip, Option.map_some, FieldIn.decoded]
    | bytes b =>
      simp only [FieldIn.toks, List.cons_append, List.nil_append, Spec.decodeEvents, ih,
        c05_roundtrip, String.toList_ofList, b64decode_b64encode, FieldIn.decoded]
      rfl

/-- ordered field/value pairs whose values may be text, bytes or None; any bytes value survives. -/
theorem c07_update_decode (item rid : Option String) (snap : Bool) (ev : List (Option String × FieldIn)) :
    Spec.decodeUpdate (updateToks item rid snap ev).tail =
      some (.val item, .val rid, snap, ev.map fun (f, v) => (.val f, v.decoded)) := by
  have hb : Spec.decodeBool (if snap then "1" else "0") = some snap := by
    cases snap <;> simp [Spec.decodeBool]
  have he := decodeEvents_toks ev
  unfold updateToks
  generalize List.flatMap _ ev = rest at he ⊢
  generalize List.map _ ev = r at he ⊢
  simp only [List.cons_append, List.nil_append, List.tail_cons, Spec.decodeUpdate, hb, he, c05_roundtrip]
  rfl

theorem encodeValue_ok_or (v : PyVal) :
    (∃ t, encodeValue v = .ok t) ∨ encodeValue v = .error .remoting := by
  cases v <;> simp [encodeValue, encBytes64, Except.map]

theorem c07_update_type_guard (item rid snap : PyVal) (kvs : List (PyVal × PyVal)) (hne : kvs ≠ [])
    (h : encStr item = .error .remoting ∨ encStr rid = .error .remoting ∨ encBool snap = .error .remoting ∨
         ∃ kv ∈ kvs, encStr kv.1 = .error .remoting ∨ encodeValue kv.2 = .error .remoting) :
    writeUpdateMap item rid snap (.dict kvs) = .error .remoting := by
  unfold writeUpdateMap
  rcases encStr_ok_or item with ⟨i, hi⟩ | hi
  · rcases encStr_ok_or rid with ⟨r, hr⟩ | hr
    · rcases encBool_ok_or snap with ⟨b, hb⟩ | hb
      · rcases h with h | h | h | ⟨kv, hkv, hk⟩
        · rw [h] at hi; cases hi
        · rw [h] at hr; cases hr
        · rw [h] at hb; cases hb
        · have hm := mapM_error (fun (x : PyVal × PyVal) => (do
              let f ← encStr x.1
              let y ← encodeValue x.2
              Except.ok (joinBar ["S", f, y]) : W String)) .remoting kvs kv hkv
            (by
              rcases encStr_ok_or kv.1 with ⟨f, hf⟩ | hf
              · rcases hk with hk | hk
                · rw [hk] at hf; cases hf
                · simp only [hf, hk]; rfl
              · simp only [hf]; rfl)
            (fun y _ => by
              rcases encStr_ok_or y.1 with ⟨f, hf⟩ | hf
              · rcases encodeValue_ok_or y.2 with ⟨x, hx⟩ | hx
                · left; exact ⟨_, by simp only [hf, hx]; rfl⟩
                · right; simp only [hf, hx]; rfl
              · right; simp only [hf]; rfl)
          rw [hi, hr, hb]
          simp only [W.bind_ok]
          cases kvs with
          | nil => exact absurd rfl hne
          | cons kv' kvs =>
            rw [hm]; rfl
      · rw [hi, hr, hb]; rfl
    · rw [hi, hr]; rfl
  · rw [hi]; rfl

/-- a field value of any type other than `str`, `bytes`, `None` is rejected. -/
theorem c07_value_guard (v : PyVal) :
    encodeValue v = .error .remoting ↔ (match v with | .none | .str _ | .bytes _ => False | _ => True) := by
  cases v <;> simp [encodeValue, encBytes64, Except.map]

theorem c07_itemevent (item rid : Option String) :
    writeEos (pyText item) (pyText rid) = .ok (joinBar ["EOS", "S", encodeString item, "S", encodeString rid]) ∧
    writeCls (pyText item) (pyText rid) = .ok (joinBar ["CLS", "S", encodeString item, "S", encodeString rid]) ∧
    Spec.decodeItemEvent [("S" : String), encodeString item, "S", encodeString rid] = some (.val item, .val rid) := by
  refine ⟨?_, ?_, ?_⟩
  · unfold writeEos; rw [encStr_pyText, encStr_pyText]; rfl
  · unfold writeCls; rw [encStr_pyText, encStr_pyText]; rfl
  · simp only [Spec.decodeItemEvent, c05_roundtrip]

theorem c07_failure (msg : String) :
    writeFailure msg = joinBar ["FAL", "E", encodeString (some msg)] ∧
    decodeString (encodeString (some msg)) = .val (some msg) := by
  exact ⟨rfl, c05_roundtrip _⟩

/-! ## credentials and init replies -/

def credToks (user password : Option String) : List String :=
  ["RAC"] ++ (match user with | some u => ["S", "user", "S", encodeString (some u)] | none => [])
    ++ (match password with | some p => ["S", "password", "S", encodeString (some p)] | none => [])
    ++ ["S", "enableClosePacket", "S", encodeString (some "true"), "S", "SDK", "S", encodeString (some "Python Adapter SDK")]

theorem c07_credentials_line (user password : Option String) :
    writeCredentials user password = joinBar (credToks user password) := by
  unfold writeCredentials
  have h0 : ("RAC|S|" : String) = "RAC" ++ "|S|" := by decide
  simp only [h0]
  rw [joinBar_S _ _ (by cases user <;> cases password <;> simp)]
  cases user <;> cases password <;> rfl

/-- user / password present iff configured (an empty string is the empty token `$`), close packets always
    requested, SDK always named. -/
theorem c07_credentials_decode (user password : Option String) :
    Spec.decodeParams (credToks user password).tail =
      some ((match user with | some u => [("user", Dec.val (some u))] | none => [])
        ++ (match password with | some p => [("password", Dec.val (some p))] | none => [])
        ++ [("enableClosePacket", .val (some "true")), ("SDK", .val (some "Python Adapter SDK"))]) := by
  cases user <;> cases password <;>
    simp only [credToks, List.cons_append, List.nil_append, List.append_nil, List.tail_cons,
      Spec.decodeParams, c05_roundtrip, Option.map_some]

theorem c07_init_reply (m : String) (v : String) :
    writeInitOk m (some v) = joinBar [m, "S", "ARI.version", "S", encodeString (some v)] ∧
    writeInitOk m none = joinBar [m, "V"] ∧
    Spec.decodeParams [("S" : String), "ARI.version", "S", encodeString (some v)] = some [("ARI.version", .val (some v))] := by
  refine ⟨rfl, rfl, ?_⟩
  simp only [Spec.decodeParams, c05_roundtrip, Option.map_some]

/-! ## token structure depends only on the shape; lines split back into their tokens -/

theorem c07_shape :
    (∀ m xs, (namesToks m xs).length = 1 + 2 * xs.length) ∧
    (∀ m rs, (itemDataToks m rs).length = 1 + 6 * rs.length) ∧
    (∀ item rid snap ev, (updateToks item rid snap ev).length = 7 + 4 * ev.length) := by
  refine ⟨?_, ?_, ?_⟩
  · intro m xs
    simp only [namesToks, List.length_cons]
    induction xs with
    | nil => rfl
    | cons x xs ih => simp only [List.flatMap_cons, List.length_append, List.length_cons, List.length_nil] at ih ⊢; omega
  · intro m rs
    simp only [itemDataToks, List.length_cons]
    induction rs with
    | nil => rfl
    | cons x xs ih => simp only [List.flatMap_cons, List.length_append, List.length_cons, List.length_nil] at ih ⊢; omega
  · intro item rid snap ev
    simp only [updateToks, List.length_append, List.length_cons, List.length_nil]
    induction ev with
    | nil => rfl
    | cons x xs ih =>
      obtain ⟨f, v⟩ := x
      cases v <;>
        (simp only [List.flatMap_cons, FieldIn.toks, List.length_append, List.length_cons, List.length_nil] at ih ⊢; omega)

theorem tokOk_encodeString (v : Option String) : TokOk (encodeString v) := fun c hc =>
  have h := (c05_no_sep v).2 c hc
  ⟨h.1, h.2.1, h.2.2.1⟩

theorem tokOk_pyStrInt (i : Int) : TokOk (pyStrInt i) := fun c hc => by
  have h := (pyStrInt_clean i).2 c hc
  refine ⟨h.1, ?_, ?_⟩ <;> (intro e; subst e; exact absurd h.2 (by decide))

theorem tokOk_modesTok (ms : Option (List Mode)) : TokOk (modesTok ms) := by
  match ms with
  | none => simp [modesTok, TokOk]
  | some [] => simp [modesTok, TokOk]
  | some (m :: ms) =>
    intro c hc
    simp only [modesTok, String.toList_ofList, List.mem_map] at hc
    obtain ⟨m', _, rfl⟩ := hc
    cases m' <;> simp [Mode.code]

theorem tokOk_b64 (b : Bytes) : TokOk (String.ofList (b64encode b)) := fun c hc => by
  rw [String.toList_ofList] at hc
  exact b64encode_clean b c hc

theorem tokOk_fieldToks (v : FieldIn) : ∀ t ∈ v.toks, TokOk t := by
  intro t ht
  cases v with
  | text o =>
    simp only [FieldIn.toks, List.mem_cons, List.not_mem_nil, or_false] at ht
    rcases ht with rfl | rfl
    · simp [TokOk]
    · exact tokOk_encodeString _
  | bytes b =>
    simp only [FieldIn.toks, List.mem_cons, List.not_mem_nil, or_false] at ht
    rcases ht with rfl | rfl
    · simp [TokOk]
    · exact tokOk_b64 _

/-- every token of every well-typed line is free of the separator, CR and LF … -/
theorem c07_tokens_ok :
    (∀ m xs, TokOk m → ∀ t ∈ namesToks m xs, TokOk t) ∧
    (∀ m rs, TokOk m → (∀ r ∈ rs, FloatTok r.frepr) → ∀ t ∈ itemDataToks m rs, TokOk t) ∧
    (∀ item rid snap ev, ∀ t ∈ updateToks item rid snap ev, TokOk t) ∧
    (∀ user password, ∀ t ∈ credToks user password, TokOk t) := by
  refine ⟨?_, ?_, ?_, ?_⟩
  · intro m xs hm t ht
    simp only [namesToks, List.mem_cons, List.mem_flatMap, List.not_mem_nil, or_false] at ht
    rcases ht with rfl | ⟨x, _, rfl | rfl⟩
    · exact hm
    · simp [TokOk]
    · exact tokOk_encodeString _
  · intro m rs hm hf t ht
    simp only [itemDataToks, List.mem_cons, List.mem_flatMap, List.not_mem_nil, or_false] at ht
    rcases ht with rfl | ⟨r, hr, rfl | rfl | rfl | rfl | rfl | rfl⟩
    · exact hm
    · simp [TokOk]
    · exact tokOk_pyStrInt _
    · simp [TokOk]
    · exact hf r hr
    · simp [TokOk]
    · exact tokOk_modesTok _
  · intro item rid snap ev t ht
    simp only [updateToks, List.mem_append, List.mem_cons, List.mem_flatMap, List.not_mem_nil, or_false] at ht
    rcases ht with (rfl | rfl | rfl | rfl | rfl | rfl | rfl) | ⟨x, _, (rfl | rfl) | hx⟩
    · simp [TokOk]
    · simp [TokOk]
    · exact tokOk_encodeString _
    · simp [TokOk]
    · exact tokOk_encodeString _
    · simp [TokOk]
    · cases snap <;> simp [TokOk]
    · simp [TokOk]
    · exact tokOk_encodeString _
    · exact tokOk_fieldToks _ _ hx
  · intro user password
    cases user <;> cases password <;>
      simp only [credToks, List.cons_append, List.nil_append, List.append_nil, List.forall_mem_cons,
        List.not_mem_nil, false_imp_iff, implies_true, and_true, tokOk_encodeString, true_and] <;>
      simp [TokOk]

/-- … hence the line contains no CR/LF and splitting it at `|` recovers exactly the tokens. -/
theorem c07_line_splits (toks : List String) (hne : toks ≠ []) (h : ∀ t ∈ toks, TokOk t) :
    splitBar (joinBar toks) = toks ∧ ∀ c ∈ (joinBar toks).toList, c ≠ '\r' ∧ c ≠ '\n' := by
  constructor
  · exact splitBar_joinBar toks hne (fun t ht c hc => (h t ht c hc).1)
  · intro c hc
    rw [joinBar_toList] at hc
    rcases joinBarL_mem _ c hc with rfl | ⟨t, ht, hct⟩
    · decide
    · simp only [List.mem_map] at ht
      obtain ⟨s, hs, rfl⟩ := ht
      exact (h s hs c hct).2

-- concrete instances from the repository's tests (tests, labelled as such)
example : writeNames "GIS" (.list [.str "item 1", .str "item2"]) = .ok "GIS|S|item+1|S|item2" := by decide +kernel
example : writeItemData "GIT" [⟨.int 30, .float "0.3" false, .list [.mode 'R', .mode 'M']⟩]
    = .ok "GIT|I|30|D|0.3|M|RM" := by decide +kernel
example : writeNames "GIS" (.list [.int 0]) = .error .remoting := by decide +kernel

end Ari
