import AriVerif.Errors
import AriVerif.Gen.Docs
import AriVerif.Props.C05
import AriVerif.Lemmas.Wire
/-!
# C08 — adapter exceptions map to the protocol's error subtype, payload intact

All statements are over `subtypeCode` / `writeError`, which read the tables **generated from the
source on every run** (`Gen.excMap` from `protocol._EXCEPTIONS_MAP`, `Gen.parents` from the class
statements of interfaces/*.py, `Gen.designated` from the `_handle_exception(…)` /
`_write_init(…)` call in every `write_*` function).  `Spec.ariCode` is the designation table
written from the property text and the `:raises` clauses of the adapter interfaces.
-/
namespace Ari

namespace Spec
/-- subtype code ARI designates for class `cls` raised by the adapter method behind wire method `m`
    (`none` = generic error). -/
def ariCode (m cls : String) : Option Char :=
  let tbl : List (String × List (String × Char)) := [
    ("DPI", [("DataProviderError", 'D')]),
    ("MPI", [("MetadataProviderError", 'M')]),
    ("SUB", [("SubscribeError", 'U'), ("FailureError", 'F')]),
    ("USB", [("SubscribeError", 'U'), ("FailureError", 'F')]),
    ("NUS", [("AccessError", 'A'), ("CreditsError", 'C')]),
    ("NUA", [("AccessError", 'A'), ("CreditsError", 'C')]),
    ("NNS", [("CreditsError", 'C'), ("NotificationError", 'N'), ("ConflictingSessionError", 'X')]),
    ("NSC", [("NotificationError", 'N')]),
    ("GIS", [("ItemsError", 'I')]),
    ("GSC", [("ItemsError", 'I'), ("SchemaError", 'S')]),
    ("GIT", []), ("GUI", []),
    ("NUM", [("CreditsError", 'C'), ("NotificationError", 'N')]),
    ("NNT", [("CreditsError", 'C'), ("NotificationError", 'N')]),
    ("NTC", [("NotificationError", 'N')]),
    ("MDA", [("CreditsError", 'C'), ("NotificationError", 'N')]),
    ("MSA", [("CreditsError", 'C'), ("NotificationError", 'N')]),
    ("MDC", [("CreditsError", 'C'), ("NotificationError", 'N')])]
  (lookup m tbl).bind (lookup cls)
end Spec

def methods18 : List String :=
  ["DPI", "SUB", "USB", "MPI", "NUS", "NUA", "NNS", "NSC", "GIS", "GSC", "GIT", "GUI", "NUM", "NNT",
   "NTC", "MDA", "MSA", "MDC"]

/-- the library's exception classes (incl. the two abstract bases). -/
def libClasses : List String :=
  ["MetadataProviderError", "NotificationError", "AccessError", "ItemsError", "SchemaError",
   "CreditsError", "ConflictingSessionError", "DataProviderError", "SubscribeError", "FailureError",
   "MetadataError", "DataError"]

/-- **C08 (the table).** For all 18 methods and every library exception class the subtype the error
    reply carries is the one ARI designates (ConflictingSessionError is specified for
    `notify_new_session` only). -/
theorem c08_table : ∀ m ∈ methods18, ∀ cls ∈ libClasses,
    (cls = "ConflictingSessionError" → m = "NNS") →
    subtypeCode m (mroOf cls) = Spec.ariCode m cls := by
  decide +kernel

/-- classes the adapter interface documents (`:raises` clauses, **generated from the docstrings on
    every run**) for the adapter methods the `_on_<m>` handler calls (**generated from server.py**). -/
def docClasses (m : String) : List String :=
  ((lookup m Gen.adapterCalls).getD []).flatMap fun f => (lookup f Gen.raisesDoc).getD []

/-- **C08 (the designation is the documented contract, ⊇).** Every exception class an adapter method's
    documentation allows it to raise gets a subtype code on the wire method that calls it — so the
    hand-written `Spec.ariCode` promises at least what interfaces/*.py promises its users. -/
theorem c08_doc_sound : ∀ m ∈ methods18, ∀ cls ∈ docClasses m, (Spec.ariCode m cls).isSome = true := by
  decide +kernel

/-- **C08 (the designation is the documented contract, ⊆).** Conversely a designated class is a
    documented one or a direct subclass of a documented one (ConflictingSessionError under
    CreditsError for `notify_new_session`) — except for MDA, whose docstring documents no exception
    while the ARI protocol and the property text type CreditsError/NotificationError for it. -/
theorem c08_doc_complete : ∀ m ∈ methods18, m ≠ "MDA" → ∀ cls ∈ libClasses,
    (Spec.ariCode m cls).isSome = true →
    cls ∈ docClasses m ∨ ((lookup cls Gen.parents).getD "" ∈ docClasses m) := by
  decide +kernel

/-- all 18 handlers were found in server.py. -/
theorem c08_handlers_covered : methods18.all ((Gen.adapterCalls.map (·.1)).contains ·) = true := by
  decide +kernel

/-- every generated writer belongs to one of the 18 methods and vice versa. -/
theorem c08_methods_covered :
    (Gen.designated.map (·.1)).all (methods18.contains ·) = true ∧
    methods18.all ((Gen.designated.map (·.1)).contains ·) = true := by
  decide +kernel

/-- **C08 (unrelated classes are generic).** For every method and every class whose MRO contains no
    class designated for that method — `RuntimeError`, `ValueError`, `KeyError`, any user-defined
    `Exception` subclass, any library class the method may not signal — the reply is generic. -/
theorem c08_generic (m : String) (mro : List String)
    (h : ∀ c ∈ mro, c ∉ designatedOf m) : subtypeCode m mro = none := by
  unfold subtypeCode
  have : mro.any (fun c => (designatedOf m).contains c) = false := by
    simp only [List.any_eq_false, List.contains_iff_mem]
    intro c hc; exact h c hc
  rw [this]; rfl

/-- **C08 (user-defined subclasses).** A class that is not itself in the library's map — e.g. a
    user-defined subclass of a designated class — never gets a subtype code: its reply is the
    well-formed generic one. -/
theorem c08_user_subclass (m cls : String) (supers : List String)
    (h : lookup cls Gen.excMap = none) : subtypeCode m (cls :: supers) = none := by
  unfold subtypeCode
  split
  · simpa using h
  · rfl

/-- the tokens of an error reply. -/
def errToks (m : String) (e : Exc) : List String :=
  match subtypeCode m e.mro with
  | none => [m, "E", encodeString (some e.msg)]
  | some c =>
    [m, "E" ++ String.singleton c, encodeString (some e.msg)]
      ++ (if c = 'C' ∨ c = 'X' then [pyStrInt e.code, encodeString e.userMsg] else [])
      ++ (if c = 'X' then [encodeString e.sessionId] else [])

theorem joinBar_cons_cons (a b : String) (rest : List String) :
    joinBar (a :: b :: rest) = a ++ "|" ++ joinBar (b :: rest) := by
  unfold joinBar
  simp only [List.map_cons, joinBarL]
  rw [String.ofList_append, String.ofList_toList]
  rw [show ('|' :: joinBarL (b.toList :: List.map String.toList rest))
        = ['|'] ++ joinBarL (b.toList :: List.map String.toList rest) from rfl,
      String.ofList_append, String.append_assoc]

theorem joinBar_singleton (a : String) : joinBar [a] = a := by
  unfold joinBar; simp [joinBarL, String.ofList_toList]

/-- **C08 (shape of the line).** The error reply of method `m` is exactly
    `m|E<code>|<msg>[|<client code>|<user msg>[|<session id>]]`: the subtype code glued to `E`, the
    first payload token the encoding of `str(exception)`, a CreditsError additionally its decimal
    client code and its user message (`#` for None, `$` for empty), a ConflictingSessionError also the
    conflicting session id. -/
theorem c08_line (m : String) (e : Exc) : writeError m e = joinBar (errToks m e) := by
  unfold writeError handleException appendExceptions errToks subtypeCode
  by_cases hd : (e.mro.any fun x => (designatedOf m).contains x) = true
  · simp only [hd, if_true]
    cases hc : lookup (e.mro.headD "") Gen.excMap with
    | none =>
      rw [← String.toList_inj]
      simp [joinBar_cons_cons, joinBar_singleton, String.toList_append]
    | some c =>
      by_cases h1 : c = 'C' <;> by_cases h2 : c = 'X' <;>
        (rw [← String.toList_inj]
         simp [h1, h2, joinBar_cons_cons, joinBar_singleton, String.toList_append])
  · simp only [hd, Bool.false_eq_true, if_false]
    rw [← String.toList_inj]
    simp [joinBar_cons_cons, joinBar_singleton, String.toList_append]

/-- what a conforming decoder recovers from the payload tokens of an error reply. -/
structure ErrInfo where
  subtype : Option Char
  msg : Dec
  code : Option Int
  userMsg : Option Dec
  sessionId : Option Dec
deriving DecidableEq

namespace Spec
/-- conforming decoder of an error reply given as tokens (`<M>`, `E<code>`, payload…). -/
def decodeErrorToks (toks : List String) : Option ErrInfo :=
  match toks with
  | [_, tag, msg] =>
    (match tag.toList with
     | ['E'] => some ⟨none, decodeString msg, none, none, none⟩
     | ['E', c] => if c = 'C' ∨ c = 'X' then none else some ⟨some c, decodeString msg, none, none, none⟩
     | _ => none)
  | [_, tag, msg, code, um] =>
    if tag = "EC" then some ⟨some 'C', decodeString msg, pyInt? code, some (decodeString um), none⟩ else none
  | [_, tag, msg, code, um, sid] =>
    if tag = "EX" then some ⟨some 'X', decodeString msg, pyInt? code, some (decodeString um),
      some (decodeString sid)⟩ else none
  | _ => none
end Spec

end Ari

namespace Ari
open Spec in
/-- **C08 (payload intact).** A conforming decoder recovers from the reply's tokens the subtype, exactly
    `str(exception)`, and for a CreditsError its client code and its user message (None ≠ empty), for a
    ConflictingSessionError also the conflicting session id — for every message, code and id. -/
theorem c08_payload (m : String) (e : Exc) :
    Spec.decodeErrorToks (errToks m e) =
      some (match subtypeCode m e.mro with
        | some 'C' => ⟨some 'C', .val (some e.msg), some e.code, some (.val e.userMsg), none⟩
        | some 'X' => ⟨some 'X', .val (some e.msg), some e.code, some (.val e.userMsg), some (.val e.sessionId)⟩
        | c => ⟨c, .val (some e.msg), none, none, none⟩) := by
  unfold errToks
  cases hc : subtypeCode m e.mro with
  | none => simp [Spec.decodeErrorToks, c05_roundtrip]
  | some c =>
    by_cases h1 : c = 'C'
    · subst h1
      simp [Spec.decodeErrorToks, c05_roundtrip, pyInt?_pyStrInt]
    · by_cases h2 : c = 'X'
      · subst h2
        simp [Spec.decodeErrorToks, c05_roundtrip, pyInt?_pyStrInt]
      · have : ("E" ++ String.singleton c).toList = ['E', c] := by
          simp [String.toList_append]
        simp [Spec.decodeErrorToks, c05_roundtrip, h1, h2, this]

theorem lookup_mem {β} (k : String) (l : List (String × β)) (b : β) (h : lookup k l = some b) :
    b ∈ l.map (·.2) := by
  induction l with
  | nil => simp [lookup] at h
  | cons x xs ih =>
    obtain ⟨a, b'⟩ := x
    simp only [lookup] at h
    split at h
    · cases h; simp
    · simp [ih h]

theorem subtypeCode_ne_bar (m : String) (mro : List String) (c : Char)
    (h : subtypeCode m mro = some c) : c ≠ '|' := by
  unfold subtypeCode at h
  split at h
  · have hm := lookup_mem _ _ _ h
    have : ∀ ch ∈ Gen.excMap.map (·.2), ch ≠ '|' := by decide
    exact this c hm
  · cases h

/-- together with `c08_line`: the tokens are recovered from the line itself by splitting at the
    separator (no token of an error reply contains it), so `c08_payload` applies to the line. -/
theorem c08_line_splits (m : String) (e : Exc) (hm : ∀ c ∈ m.toList, c ≠ '|') :
    splitBar (writeError m e) = errToks m e := by
  rw [c08_line]
  have henc : ∀ v, ∀ c ∈ (encodeString v).toList, c ≠ '|' := fun v c hc => ((c05_no_sep v).2 c hc).1
  have hint : ∀ i : Int, ∀ c ∈ (pyStrInt i).toList, c ≠ '|' := fun i c hc => ((pyStrInt_clean i).2 c hc).1
  apply splitBar_joinBar
  · unfold errToks; split <;> simp
  · intro t ht c hc
    unfold errToks at ht
    split at ht
    · simp only [List.mem_cons, List.not_mem_nil, or_false] at ht
      rcases ht with rfl | rfl | rfl
      · exact hm c hc
      · simp at hc; subst hc; decide
      · exact henc _ c hc
    · rename_i code hcode
      have hcb := subtypeCode_ne_bar m e.mro code hcode
      simp only [List.cons_append, List.nil_append, List.mem_cons, List.mem_append] at ht
      rcases ht with rfl | rfl | rfl | ht
      · exact hm c hc
      · simp [String.toList_append] at hc
        rcases hc with rfl | rfl
        · decide
        · exact hcb
      · exact henc _ c hc
      · rcases ht with ht | ht
        · split at ht
          · simp only [List.mem_cons, List.not_mem_nil, or_false] at ht
            rcases ht with rfl | rfl
            · exact hint _ c hc
            · exact henc _ c hc
          · simp at ht
        · split at ht
          · simp only [List.mem_cons, List.not_mem_nil, or_false] at ht
            subst ht; exact henc _ c hc
          · simp at ht
end Ari
