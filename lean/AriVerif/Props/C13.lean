import AriVerif.Sender
import AriVerif.Lemmas.Sender
/-!
# C13 — keepalive liveness: the connection is never silent longer than the interval (virtual time)

`senderRun tie k0 events horizon` is the list of lines the writer thread writes, with time stamps, for a
time-ordered history of submissions / interval changes / pills, up to `horizon` (model of
`_Sender._do_run`, tied to the real thread by the virtual-time co-simulation).  `tie` decides the one
genuinely racy case: a submission at exactly the instant a wait expires.  Intervals and times are in ticks;
interval 0 = keepalives disabled.  Every record carries the interval `nextK` with which the wait *after* it
begins (the value of `_keepalive` at that moment).
-/
namespace Ari

/-- events are in time order and not later than the horizon. -/
def Ordered : Nat → List (Nat × SAct) → Nat → Prop
  | lo, [], hz => lo ≤ hz
  | lo, (t, _) :: rest, hz => lo ≤ t ∧ Ordered t rest hz

/-- consecutive records. -/
def Consecutive (l : List Written) (a b : Written) : Prop := ∃ pre post, l = pre ++ a :: b :: post

/-! ### invariant of the run (helper lemmas) -/

theorem runEvents_spec (g : Prop) (tie : Bool) (s : SState) (lo : Nat) (evs : List (Nat × SAct)) (hz : Nat)
    (hord : Ordered lo evs hz) (hws : s.ws ≤ lo)
    (hg : g → (∀ e ∈ evs, e.2 ≠ .stop) ∧ s.stopped = false) :
    Chain (PAll g) s.ws s.wk (runEvents tie s evs).2 ∧
    (runEvents tie s evs).1.ws = lastT s.ws (runEvents tie s evs).2 ∧
    (runEvents tie s evs).1.wk = lastK s.wk (runEvents tie s evs).2 ∧
    (runEvents tie s evs).1.ws ≤ hz ∧
    (g → (runEvents tie s evs).1.stopped = false) := by
  induction evs generalizing s lo with
  | nil => exact ⟨trivial, rfl, rfl, Nat.le_trans hws hord, fun hgg => (hg hgg).2⟩
  | cons e rest ih =>
    obtain ⟨te, a⟩ := e
    obtain ⟨hlo, hord'⟩ := hord
    obtain ⟨o1, o2, o3, o4, o5⟩ := onEvent_spec g tie s te a (Nat.le_trans hws hlo)
      (fun hgg => ⟨(hg hgg).1 (te, a) (List.mem_cons_self ..), (hg hgg).2⟩)
    obtain ⟨r1, r2, r3, r4, r5⟩ := ih (onEvent tie s te a).1 te hord' o4
      (fun hgg => ⟨fun e he => (hg hgg).1 e (List.mem_cons_of_mem _ he), o5 hgg⟩)
    rw [runEvents_cons]
    refine ⟨?_, ?_, ?_, r4, r5⟩
    · rw [chain_append, ← o2, ← o3]; exact ⟨o1, r1⟩
    · rw [lastT_append, ← o2]; exact r2
    · rw [lastK_append, ← o3]; exact r3

theorem senderRun_spec (g : Prop) (tie : Bool) (k0 : Nat) (evs : List (Nat × SAct)) (hz : Nat)
    (h : Ordered 0 evs hz) (hg : g → ∀ e ∈ evs, e.2 ≠ .stop) :
    Chain (PAll g) 0 k0 (senderRun tie k0 evs hz) ∧
    (g → lastK k0 (senderRun tie k0 evs hz) = 0 ∨
      hz < lastT 0 (senderRun tie k0 evs hz) + lastK k0 (senderRun tie k0 evs hz)) := by
  obtain ⟨r1, r2, r3, r4, r5⟩ := runEvents_spec g tie { k := k0, ws := 0, wk := k0 } 0 evs hz h (Nat.le_refl _)
    (fun hgg => ⟨hg hgg, rfl⟩)
  obtain ⟨f1, f2, f3, f4, f5, f6, f7⟩ :=
    fireUntil_spec (hz + 1) (runEvents tie { k := k0, ws := 0, wk := k0 } evs).1 hz true
  rw [senderRun_eq]
  refine ⟨?_, ?_⟩
  · rw [chain_append, ← r2, ← r3]
    exact ⟨r1, chain_mono (PFire.toPAll g) _ _ _ f3⟩
  · intro hgg
    rw [lastT_append, lastK_append, ← r2, ← r3, ← f4, ← f5]
    rcases f7 (by omega) (by rw [f2]; exact r5 hgg) with h | h
    · exact Or.inl h
    · right; simp only [Due, true_and] at h; omega

/-- **C13 (a KEEPALIVE only after a full interval of silence).** A KEEPALIVE written because a wait expired
    is written exactly `interval` after that wait began, the interval is positive, and the wait began at the
    previous write (or at time 0 if nothing was written before). -/
theorem c13_full_silence (tie : Bool) (k0 : Nat) (evs : List (Nat × SAct)) (hz : Nat) (h : Ordered 0 evs hz) :
    let out := senderRun tie k0 evs hz
    (∀ w ∈ out, ∀ ws d, w.cause = .timeout ws d → w.time = ws + d ∧ 0 < d ∧ w.line = "KEEPALIVE") ∧
    (∀ a b, Consecutive out a b → ∀ ws d, b.cause = .timeout ws d → ws = a.time ∧ d = a.nextK) ∧
    (∀ b post, out = b :: post → ∀ ws d, b.cause = .timeout ws d → ws = 0 ∧ d = k0) := by
  intro out
  have hc : Chain (PAll False) 0 k0 out := (senderRun_spec False tie k0 evs hz h (fun hf => hf.elim)).1
  refine ⟨?_, ?_, ?_⟩
  · intro w hw ws d hcause
    obtain ⟨ws', wk', hp⟩ := chain_mem _ _ _ hc w hw
    obtain ⟨_, _, h3, h4, h5⟩ := hp.1 ws d hcause
    exact ⟨h3, h4, h5⟩
  · intro a b hab ws d hcause
    obtain ⟨pre, post, e⟩ := hab
    rw [e] at hc
    obtain ⟨h1, h2, _⟩ := (chain_consec _ _ pre post a b hc).1 ws d hcause
    exact ⟨h1, h2⟩
  · intro b post e ws d hcause
    rw [e] at hc
    obtain ⟨h1, h2, _⟩ := hc.1.1 ws d hcause
    exact ⟨h1, h2⟩

/-- **C13 (never silent longer than the interval).** After every write that is followed by a wait with a
    positive interval, the next write comes at most that interval later; and the run does not end in a
    silence longer than the interval. -/
theorem c13_gap (tie : Bool) (k0 : Nat) (evs : List (Nat × SAct)) (hz : Nat) (h : Ordered 0 evs hz)
    (hns : ∀ e ∈ evs, e.2 ≠ .stop) :
    let out := senderRun tie k0 evs hz
    (∀ a b, Consecutive out a b → 0 < a.nextK → b.time ≤ a.time + a.nextK) ∧
    (∀ pre a, out = pre ++ [a] → 0 < a.nextK → hz < a.time + a.nextK) ∧
    (∀ b post, out = b :: post → 0 < k0 → b.time ≤ k0) ∧
    (out = [] → 0 < k0 → hz < k0) := by
  intro out
  obtain ⟨hc, hend⟩ : Chain (PAll True) 0 k0 out ∧ (True → lastK k0 out = 0 ∨ hz < lastT 0 out + lastK k0 out) :=
    senderRun_spec True tie k0 evs hz h (fun _ => hns)
  have hend := hend trivial
  refine ⟨?_, ?_, ?_, ?_⟩
  · intro a b hab hpos
    obtain ⟨pre, post, e⟩ := hab
    rw [e] at hc
    exact (chain_consec _ _ pre post a b hc).2.1 trivial hpos
  · intro pre a e hpos
    rw [e, lastT_snoc, lastK_snoc] at hend
    omega
  · intro b post e hpos
    rw [e] at hc
    have := hc.1.2.1 trivial hpos
    omega
  · intro e hpos
    rw [e] at hend
    simp only [lastT, lastK] at hend
    omega

/-- **C13 (disabled).** With keepalives disabled throughout, no KEEPALIVE is ever written because of a
    timeout. -/
theorem c13_disabled (tie : Bool) (evs : List (Nat × SAct)) (hz : Nat)
    (hk : ∀ e ∈ evs, ∀ k, e.2 = .setK k → k = 0) :
    ∀ w ∈ senderRun tie 0 evs hz, ∀ ws d, w.cause ≠ .timeout ws d := by
  obtain ⟨_, h2, h3⟩ := runEvents_disabled tie { k := 0, ws := 0, wk := 0 } evs rfl rfl hk
  intro w hw
  rw [senderRun_eq, fireUntil_idle _ _ _ _ (Or.inr h2), List.append_nil] at hw
  exact h3 w hw

/-- **C13 (transparent).** The lines that are not keepalives are exactly the submitted messages, in
    submission order, each complete and written at its submission time (no stop pill in the history). -/
theorem c13_transparent (tie : Bool) (k0 : Nat) (evs : List (Nat × SAct)) (hz : Nat)
    (hns : ∀ e ∈ evs, e.2 ≠ .stop) :
    ((senderRun tie k0 evs hz).filter (fun w => w.cause == .msg)).map (fun w => (w.time, w.line)) =
      evs.filterMap (fun e => match e.2 with | .put m => some (e.1, m) | _ => none) := by
  rw [senderRun_eq, List.filter_append, fireUntil_filter_msg, List.append_nil]
  exact (runEvents_msgs tie { k := k0, ws := 0, wk := k0 } evs rfl hns).1

/-- times never go backwards. -/
theorem c13_monotone (tie : Bool) (k0 : Nat) (evs : List (Nat × SAct)) (hz : Nat) (h : Ordered 0 evs hz) :
    ∀ a b, Consecutive (senderRun tie k0 evs hz) a b → a.time ≤ b.time := by
  intro a b hab
  have hc := (senderRun_spec False tie k0 evs hz h (fun hf => hf.elim)).1
  obtain ⟨pre, post, e⟩ := hab
  rw [e] at hc
  exact (chain_consec _ _ pre post a b hc).2.2

-- concrete instances (tests, labelled as such)
example : (senderRun false 1000 [(500, .put "a"), (1500, .put "b")] 4000).map (fun w => (w.time, w.line)) =
    [(500, "a"), (1500, "b"), (2500, "KEEPALIVE"), (3500, "KEEPALIVE")] := by decide +kernel
example : (senderRun true 1000 [(1000, .put "a")] 1000).map (fun w => (w.time, w.line)) =
    [(1000, "KEEPALIVE"), (1000, "a")] := by decide +kernel
example : (senderRun false 0 [(300, .setK 1000), (300, .put "init")] 2300).map (fun w => (w.time, w.line)) =
    [(300, "init"), (1300, "KEEPALIVE"), (2300, "KEEPALIVE")] := by decide +kernel

end Ari
