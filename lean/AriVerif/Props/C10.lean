import AriVerif.Dispatch
/-!
# C10 — initialization gates everything: first, once, before any other adapter call

The reader thread is sequential: `dispatchAll cfg env st lines` is the list, per line and in program order,
of what it does (adapter `initialize` / `set_listener` run *on the reader thread*; every other adapter
method runs in a pool task created by a `.submit` / `.dataReq` action, hence after it).  Tied to the real
`Server.on_received_request` of both server kinds by the `reader-dispatch` differential.
-/
namespace Ari

def RAct.isInitialize : RAct → Bool | .initialize _ _ => true | _ => false
def RAct.isListener : RAct → Bool | .setListener => true | _ => false
def RAct.isReply : RAct → Bool | .reply _ => true | _ => false
/-- the action hands a request to the pool / subscription manager (the only way any other adapter method
    gets invoked). -/
def RAct.isWork : RAct → Bool | .submit _ _ _ => true | .dataReq _ _ _ => true | _ => false

/-- the line is a request of the server kind's init method. -/
def isInitLine (cfg : SrvCfg) (line : String) : Bool :=
  match parseRequest line with
  | some (_, m, _) => m == cfg.kind.method
  | none => false

theorem onException_no_work (cfg : SrvCfg) :
    ∀ a ∈ onException cfg, a.isInitialize = false ∧ a.isListener = false ∧ a.isReply = false ∧ a.isWork = false := by
  unfold onException
  cases cfg.kind <;> cases cfg.excHandler <;> simp [RAct.isInitialize, RAct.isListener, RAct.isReply, RAct.isWork]
  all_goals (rename_i r; cases r <;> simp [RAct.isInitialize, RAct.isListener, RAct.isReply, RAct.isWork])

/-- the class of a line is an init request exactly for lines of the kind's init method (unless the line is an
    honoured close request — impossible, the init methods are not `CLOSE`). -/
theorem classify_init_iff (cfg : SrvCfg) (ce : Bool) (line : String) :
    (∃ id prs, classify cfg ce line = .initReq id prs) ↔ isInitLine cfg line = true := by
  unfold classify isInitLine
  have hk : cfg.kind.method ≠ "CLOSE" := by cases cfg.kind <;> decide
  cases hp : parseRequest line with
  | none => simp
  | some t =>
    obtain ⟨id, m, toks⟩ := t
    simp only []
    by_cases hm : m = cfg.kind.method
    · subst hm
      simp only [hk, false_and, if_false, if_true, beq_self_eq_true, iff_true]
      split <;> exact ⟨_, _, rfl⟩
    · have hm' : (m == cfg.kind.method) = false := by simpa using hm
      simp only [hm, hm', if_false]
      constructor
      · rintro ⟨id', prs, h⟩
        repeat' split at h
        all_goals cases h
      · intro h; cases h

/-- once the init slot is consumed it stays consumed. -/
theorem dispatch_initExpected_mono (cfg : SrvCfg) (env : InitEnv) (st : RState) (line : String)
    (h : st.initExpected = false) : (dispatch cfg env st line).1.initExpected = false := by
  unfold dispatch act
  cases classify cfg st.closeExpected line <;> simp_all
  all_goals (split <;> simp_all)

/-- **C10 (rejected before init).** While the init request is awaited, every request that is neither an init
    request nor an honoured close request — a request of the server's own methods (well-formed or not) or of
    an unknown method — is a protocol error: exception handling only (no adapter call, no reply, no work) and
    the state is unchanged. -/
theorem c10_reject_before_init (cfg : SrvCfg) (env : InitEnv) (st : RState) (hi : st.initExpected = true)
    (c : LineClass) (hc : (∃ m id toks item, c = .own m id toks item) ∨ c = .ownBad ∨ c = .unknown) :
    act cfg env st c = (st, onException cfg) := by
  rcases hc with ⟨m, id, toks, item, rfl⟩ | rfl | rfl <;> simp [act, hi]

/-- **C10 (a second init request is rejected).** -/
theorem c10_reject_second_init (cfg : SrvCfg) (env : InitEnv) (st : RState) (hi : st.initExpected = false)
    (id : String) (prs : Option (List (Val × Val))) :
    act cfg env st (.initReq id prs) = (st, onException cfg) := by
  simp [act, hi]

/-- **C10 (initialize / set_listener only for an init request, only while awaited, and the slot is then
    consumed).** -/
theorem c10_initialize_only_first (cfg : SrvCfg) (env : InitEnv) (st : RState) (c : LineClass)
    (a : RAct) (ha : a ∈ (act cfg env st c).2) (hi : a.isInitialize = true ∨ a.isListener = true) :
    st.initExpected = true ∧ (∃ id prs, c = .initReq id (some prs)) ∧ (act cfg env st c).1.initExpected = false := by
  have hx' : a ∈ onException cfg → False := fun h => by
    have := onException_no_work cfg a h; rcases hi with hi | hi <;> simp [this] at hi
  cases c with
  | garbage => simp [act] at ha; subst ha; simp [RAct.isInitialize, RAct.isListener] at hi
  | closeOk => simp [act] at ha; rcases ha with rfl | rfl | rfl <;> simp [RAct.isInitialize, RAct.isListener] at hi
  | closeBad => exact absurd (by simpa [act] using ha) hx'
  | ownBad => exact absurd (by simpa [act] using ha) hx'
  | unknown =>
    simp only [act] at ha
    split at ha
    · exact absurd ha hx'
    · simp at ha; subst ha; simp [RAct.isInitialize, RAct.isListener] at hi
  | own m id toks item =>
    simp only [act] at ha
    split at ha
    · exact absurd ha hx'
    · cases item <;> simp at ha <;> subst ha <;> simp [RAct.isInitialize, RAct.isListener] at hi
  | initReq id prs =>
    simp only [act] at ha ⊢
    by_cases hie : st.initExpected = true
    · simp only [hie, Bool.not_true, Bool.false_eq_true, if_false] at ha ⊢
      cases prs with
      | none => exact absurd ha hx'
      | some prs => exact ⟨trivial, ⟨id, prs, rfl⟩, rfl⟩
    · simp only [Bool.not_eq_true] at hie
      simp only [hie, Bool.not_false, if_true] at ha
      exact absurd ha hx'

/-- `set_listener` is only ever called after `initialize` was. -/
theorem onInit_listener_args (i : InitIn) (h : (onInit i).listenerCalled = true) :
    ∃ a f, (onInit i).initArgs = some (a, f) := by
  revert h
  unfold onInit
  simp only []
  repeat' split
  all_goals simp_all

/-- inside the processing of the init request the order is: `initialize`, then (Data) `set_listener`, then
    the reply. -/
theorem c10_init_order (cfg : SrvCfg) (env : InitEnv) (st : RState) (id : String) (prs : List (Val × Val))
    (hi : st.initExpected = true) :
    ∃ pre l, (act cfg env st (.initReq id (some prs))).2 = pre ++ [.reply l] ∧
      (pre = [] ∨ (∃ a f, pre = [.initialize a f]) ∨ (∃ a f, pre = [.initialize a f, .setListener])) := by
  simp only [act, hi, Bool.not_true, Bool.false_eq_true, if_false]
  have hshape := onInit_listener_args ⟨cfg.kind, prs, cfg.localParams, cfg.configFile, st.closeExpected, cfg.keepAlive,
                         env.hintValue, env.initOutcome, env.listenerOutcome⟩
  generalize (onInit _) = o at hshape ⊢
  by_cases hl : o.listenerCalled = true
  · obtain ⟨a, f, haf⟩ := hshape hl
    refine ⟨[.initialize a f, .setListener], id ++ "|" ++ o.reply, ?_, Or.inr (Or.inr ⟨a, f, rfl⟩)⟩
    simp only [haf, hl, if_true]
    rfl
  · cases haf : o.initArgs with
    | none =>
      refine ⟨[], id ++ "|" ++ o.reply, ?_, Or.inl rfl⟩
      simp only [hl]
      rfl
    | some p =>
      obtain ⟨a, f⟩ := p
      refine ⟨[.initialize a f], id ++ "|" ++ o.reply, ?_, Or.inr (Or.inl ⟨a, f, rfl⟩)⟩
      simp only [hl]
      rfl

/-- **C10 (work only after the init slot was consumed).** A request is handed to the pool / subscription
    manager only when the init request has already been processed (so `initialize` — which runs synchronously
    on the reader thread while the init request is processed — has returned before). -/
theorem c10_work_after_init (cfg : SrvCfg) (env : InitEnv) (st : RState) (c : LineClass)
    (a : RAct) (ha : a ∈ (act cfg env st c).2) (hw : a.isWork = true) : st.initExpected = false := by
  have hx' : a ∈ onException cfg → False := fun h => by
    have := onException_no_work cfg a h; simp [this] at hw
  cases c with
  | garbage => simp [act] at ha; subst ha; simp [RAct.isWork] at hw
  | closeOk => simp [act] at ha; rcases ha with rfl | rfl | rfl <;> simp [RAct.isWork] at hw
  | closeBad => exact absurd (by simpa [act] using ha) hx'
  | ownBad => exact absurd (by simpa [act] using ha) hx'
  | unknown =>
    simp only [act] at ha
    split at ha
    · exact absurd ha hx'
    · simp at ha; subst ha; simp [RAct.isWork] at hw
  | own m id toks item =>
    simp only [act] at ha
    split at ha
    · exact absurd ha hx'
    · rename_i h; simpa using h
  | initReq id prs =>
    simp only [act] at ha
    split at ha
    · exact absurd ha hx'
    · cases prs with
      | none => exact absurd ha hx'
      | some prs =>
        simp only [List.mem_append, List.mem_cons, List.not_mem_nil, or_false] at ha
        rcases ha with (ha | ha) | ha
        · split at ha <;> simp at ha; subst ha; simp [RAct.isWork] at hw
        · split at ha <;> simp at ha; subst ha; simp [RAct.isWork] at hw
        · subst ha; simp [RAct.isWork] at hw

/-- over a whole connection: total number of `initialize` invocations. -/
def countInit (acts : List (List RAct)) : Nat := (acts.flatten.filter RAct.isInitialize).length

theorem act_init_le_one (cfg : SrvCfg) (env : InitEnv) (st : RState) (c : LineClass) :
    ((act cfg env st c).2.filter RAct.isInitialize).length ≤ 1 := by
  have h0 : ((onException cfg).filter RAct.isInitialize).length = 0 := by
    simp only [List.length_eq_zero_iff, List.filter_eq_nil_iff]
    intro a ha; simp [(onException_no_work cfg a ha).1]
  cases c with
  | garbage => simp [act, RAct.isInitialize]
  | closeOk => simp [act, RAct.isInitialize]
  | closeBad => simp only [act]; omega
  | ownBad => simp only [act]; omega
  | unknown => simp only [act]; split <;> simp [RAct.isInitialize] <;> omega
  | own m id toks item =>
    simp only [act]; split
    · show ((onException cfg).filter RAct.isInitialize).length ≤ 1; omega
    · cases item <;> simp [RAct.isInitialize]
  | initReq id prs =>
    by_cases hie : st.initExpected = true
    · cases prs with
      | none =>
        simp only [act, hie, Bool.not_true, Bool.false_eq_true, if_false]
        omega
      | some prs =>
        obtain ⟨pre, l, hpl, hpre⟩ := c10_init_order cfg env st id prs hie
        rw [hpl]
        rcases hpre with rfl | ⟨a, f, rfl⟩ | ⟨a, f, rfl⟩ <;> simp [List.filter, RAct.isInitialize]
    · have hie' : st.initExpected = false := by simpa using hie
      simp only [act, hie', Bool.not_false, if_true]
      omega

/-- **C10 (at most once).** Over any sequence of lines `initialize` is invoked at most once, and not at all
    once the init slot has been consumed. -/
theorem c10_once (cfg : SrvCfg) (env : InitEnv) (lines : List String) (st : RState) :
    countInit (dispatchAll cfg env st lines).2 ≤ 1 ∧
    (st.initExpected = false → countInit (dispatchAll cfg env st lines).2 = 0) := by
  induction lines generalizing st with
  | nil => simp [dispatchAll, countInit]
  | cons l rest ih =>
    simp only [dispatchAll, countInit, List.flatten_cons, List.filter_append, List.length_append]
    have h1 : ((dispatch cfg env st l).2.filter RAct.isInitialize).length ≤ 1 := act_init_le_one cfg env st _
    have ih' := ih (dispatch cfg env st l).1
    simp only [countInit] at ih'
    constructor
    · by_cases hz : ((dispatch cfg env st l).2.filter RAct.isInitialize).length = 0
      · omega
      · have hne : (dispatch cfg env st l).2.filter RAct.isInitialize ≠ [] := by
          intro hh; rw [hh] at hz; simp at hz
        obtain ⟨a, ha⟩ := List.exists_mem_of_ne_nil _ hne
        have hmem := (List.mem_filter.mp ha).1
        have hai := (List.mem_filter.mp ha).2
        have := (c10_initialize_only_first cfg env st _ a hmem (Or.inl hai)).2.2
        have := ih'.2 this
        omega
    · intro hi
      have hnone : ((dispatch cfg env st l).2.filter RAct.isInitialize).length = 0 := by
        simp only [List.length_eq_zero_iff, List.filter_eq_nil_iff]
        intro a ha hai
        have := (c10_initialize_only_first cfg env st _ a ha (Or.inl (by simpa using hai))).1
        simp [hi] at this
      have := ih'.2 (dispatch_initExpected_mono cfg env st l hi)
      omega

/-- **C10 (work comes after the first init request).** If some line hands a request to the pool or the
    subscription manager, the init slot had been consumed by an earlier line. -/
theorem c10_work_needs_earlier_init (cfg : SrvCfg) (env : InitEnv) (lines : List String) (st : RState)
    (hi : st.initExpected = true) (j : Nat) (acts : List RAct)
    (hj : (dispatchAll cfg env st lines).2[j]? = some acts) (a : RAct) (ha : a ∈ acts) (hw : a.isWork = true) :
    ∃ i, i < j ∧ ∃ l, lines[i]? = some l ∧ isInitLine cfg l = true := by
  induction lines generalizing st j with
  | nil => simp [dispatchAll] at hj
  | cons l rest ih =>
    simp only [dispatchAll] at hj
    cases j with
    | zero =>
      simp at hj; subst hj
      have := c10_work_after_init cfg env st _ a ha hw
      simp [hi] at this
    | succ j =>
      simp only [List.getElem?_cons_succ] at hj
      by_cases hn : (dispatch cfg env st l).1.initExpected = true
      · obtain ⟨i, hij, l', hl', hinit⟩ := ih _ hn j hj
        exact ⟨i + 1, by omega, l', by simpa using hl', hinit⟩
      · -- the slot was consumed by this very line: it is an init request
        refine ⟨0, by omega, l, rfl, ?_⟩
        simp only [Bool.not_eq_true] at hn
        rw [← classify_init_iff cfg st.closeExpected l]
        unfold dispatch at hn
        generalize classify cfg st.closeExpected l = c at hn
        cases c <;> simp [act, hi] at hn
        · exact ⟨_, _, rfl⟩
        all_goals (try split at hn) <;> simp_all

end Ari
