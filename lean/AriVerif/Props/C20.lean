import AriVerif.Dispatch
/-!
# C20 — teardown: close requests stop the server; I/O failures reach the handler

Close handling and the reactions to I/O failures are sequential code: `dispatch` (one request line on the
reader thread), `readerFault` (EOF / OSError out of `recv`), `writerFault` (OSError out of `sendall`).  The
tie to the real threads — where the fault hits, that `close()` lets accepted pool tasks finish and stops the
writer, that a read failure after the server's own `close()` is silent, that `close(); close()` raises
nothing — is the fault-injection co-simulation of both server kinds under the scheduler.
-/
namespace Ari

/-- **C20 (close request honoured).** With close packets expected, `0|CLOSE[|S|k|S|v…]` stops the server:
    stop flag + writer stopped, pool shut down (accepted tasks complete), socket closed — and nothing else:
    in particular no exception-handler call. -/
theorem c20_close (cfg : SrvCfg) (env : InitEnv) (st : RState) (line : String) (toks : List String)
    (kvs : List (Val × Val)) (hc : st.closeExpected = true)
    (hp : parseRequest line = some ("0", "CLOSE", toks)) (hm : readMap toks 0 = .ok kvs) :
    dispatch cfg env st line = ({ st with closed := true }, [.quit, .poolShutdown, .sockClose]) := by
  unfold dispatch classify
  simp only [hp, hc, hm, and_self, if_true, ne_eq, not_true_eq_false, if_false, act]

/-- **C20 (older agreed version: the line is ignored).** After an initialization that agreed a version without
    close packets, a CLOSE line is an unknown request: logged and dropped, state unchanged. -/
theorem c20_ignored (cfg : SrvCfg) (env : InitEnv) (st : RState) (line id : String) (toks : List String)
    (hc : st.closeExpected = false) (hi : st.initExpected = false)
    (hp : parseRequest line = some (id, "CLOSE", toks)) :
    dispatch cfg env st line = (st, [.discard]) := by
  have hk : "CLOSE" ≠ cfg.kind.method := by cases cfg.kind <;> decide
  unfold dispatch classify
  simp only [hp, hc, Bool.false_eq_true, and_false, if_false, hk]
  cases cfg.kind <;> simp [act, hi, metaMethods]

/-- **C20 (close request with another id).** A protocol error: exception handling only, the server keeps
    running. -/
theorem c20_bad_id (cfg : SrvCfg) (env : InitEnv) (st : RState) (line id : String) (toks : List String)
    (hc : st.closeExpected = true) (hid : id ≠ "0")
    (hp : parseRequest line = some (id, "CLOSE", toks)) :
    dispatch cfg env st line = (st, onException cfg) := by
  unfold dispatch classify
  simp only [hp, hc, and_self, if_true, ne_eq, hid, not_false_eq_true, act]

/-- **C20 (I/O failure).** The failure is reported to the application's handler exactly once iff one is
    installed, and the default reaction (process exit) happens iff no handler is installed or it returns a
    true value. -/
theorem c20_io_failure (cfg : SrvCfg) :
    onIoException cfg =
      (match cfg.ioHandler with
       | none => [IoAct.exit]
       | some true => [.handlerIo, .exit]
       | some false => [.handlerIo]) ∧
    writerFault cfg = onIoException cfg ∧
    (∀ st, st.closed = false → readerFault cfg st = onIoException cfg) := by
  refine ⟨?_, rfl, ?_⟩
  · unfold onIoException
    cases cfg.ioHandler with
    | none => rfl
    | some r => cases r <;> rfl
  · intro st h
    simp [readerFault, h]

/-- **C20 (a read failure caused by the server's own close() is not reported).** -/
theorem c20_read_after_close (cfg : SrvCfg) (st : RState) (h : st.closed = true) : readerFault cfg st = [] := by
  simp [readerFault, h]

/-- once closed, always closed; and only an honoured, well-formed close request closes. -/
theorem c20_closed_only_by_close (cfg : SrvCfg) (env : InitEnv) (st : RState) (line : String)
    (h : (dispatch cfg env st line).1.closed = true) :
    st.closed = true ∨ classify cfg st.closeExpected line = .closeOk := by
  unfold dispatch at h
  generalize classify cfg st.closeExpected line = c at h ⊢
  cases c with
  | closeOk => exact Or.inr rfl
  | garbage => exact Or.inl (by simpa [act] using h)
  | closeBad => exact Or.inl (by simpa [act] using h)
  | ownBad => exact Or.inl (by simpa [act] using h)
  | unknown =>
    simp only [act] at h
    split at h <;> exact Or.inl h
  | own m id toks item =>
    simp only [act] at h
    split at h
    · exact Or.inl h
    · cases item <;> exact Or.inl h
  | initReq id prs =>
    simp only [act] at h
    split at h
    · exact Or.inl h
    · cases prs <;> exact Or.inl h

end Ari
