import AriVerif.Conc.PropLemmas
/-!
# C01 — every SUB/USB request is answered exactly once, under every interleaving

Model: `Conc.Item` (one item's machine; the server is the item-indexed product, DESIGN §3).  `Reach item s`
quantifies over every finite sequence of actions: every schedule of reader, dequeuer instances (any pool
size) and listener-calling threads, every arrival timing, every adapter outcome.  `WF s.arr` is the
protocol's hypothesis on the Proxy Adapter: distinct ids, SUB/USB alternating per item, SUB first.
Ghost state: `arr` = requests in dispatch order, `repl` = ids whose reply was enqueued (in order),
`fin` = requests completely processed, `lost` = unsubscriptions that found no bookkeeping (dropped).
-/
namespace Ari.Conc
open Ari

/-- **C01 (at most one reply).** No request id is ever answered twice. -/
theorem c01_at_most_once (item : String) (s : IState) (hr : Reach item s) (hwf : WF s.arr) :
    s.repl.Nodup := (inv_reach item s hr hwf).replNodup

/-- **C01 (replies answer requests).** Every reply carries the id of a request that arrived for this item. -/
theorem c01_reply_for_request (item : String) (s : IState) (hr : Reach item s) (hwf : WF s.arr)
    (r : String) (h : r ∈ s.repl) : hasId s.arr r := by
  have hi := inv_reach item s hr hwf
  rcases hi.replOnly r h with ⟨t, ht, rfl⟩ | ⟨k, t, hc, hpc, rfl⟩
  · exact ⟨t, hi.fin_sub_arr ht, rfl⟩
  · refine ⟨t, ?_, rfl⟩
    rw [hi.seq]
    simp [heldL, hc, hpc, Pc.held]

/-- **C01 (no request is dropped).** An unsubscription always finds its item's bookkeeping. -/
theorem c01_never_lost (item : String) (s : IState) (hr : Reach item s) (hwf : WF s.arr) : s.lost = [] :=
  (inv_reach item s hr hwf).lostNone

/-- **C01 (exactly one reply at quiescence).** Once the reader is idle and every dequeuer has finished,
    every request that arrived has been answered (exactly once by `c01_at_most_once`). -/
theorem c01_quiescent (item : String) (s : IState) (hr : Reach item s) (hwf : WF s.arr) (hq : Quiescent s) :
    s.fin = s.arr ∧ ∀ t ∈ s.arr, t.id ∈ s.repl := by
  have hi := inv_reach item s hr hwf
  have hf := hi.q_arr_fin hq
  refine ⟨hf.symm, fun t ht => hi.replFin t (hf ▸ ht) ?_⟩
  rw [hi.lostNone]
  simp

/-- **C01 (no deadlock).** While something is left to do, some library step is enabled — whatever the
    other threads do, provided adapter calls return (`callEnd` is the environment's). -/
theorem c01_progress (s : IState) (h : Inv s) (hnq : ¬ Quiescent s) :
    (∃ a, a.isLib = true ∧ (istep s a).isSome) ∨
    (∃ k m t, k < s.ninst ∧ (s.insts k).pc = .inCall m t ∧ (s.insts k).lsn = none) := by
  have _ := h  -- enabledness needs no invariant; `h` is kept in the statement for uniformity
  cases hrh : s.rheld with
  | some tg =>
    -- the reader finishes its dispatch
    left
    refine ⟨.addTask, rfl, ?_⟩
    obtain ⟨t, g⟩ := tg
    simp only [istep, hrh]
    split <;> rfl
  | none =>
    -- some dequeuer instance has not finished
    have hex : ∃ k, k < s.ninst ∧ (s.insts k).pc ≠ .done := by
      apply Classical.byContradiction
      intro hne
      apply hnq
      refine ⟨hrh, fun k hk => ?_⟩
      apply Classical.byContradiction
      intro hd
      exact hne ⟨k, hk, hd⟩
    obtain ⟨k, hk, hd⟩ := hex
    cases hpc : (s.insts k).pc with
    | inPool => left; exact ⟨.start k, rfl, by simp [istep, hk, hpc]⟩
    | atLoop =>
      left
      refine ⟨.pop k, rfl, ?_⟩
      simp only [istep, hk, hpc, if_true]
      repeat' split
      all_goals rfl
    | put t l n =>
      left
      refine ⟨.put k, rfl, ?_⟩
      simp only [istep, hk, hpc, if_true]
      split <;> rfl
    | setCode t => left; exact ⟨.setCode k, rfl, by simp [istep, hk, hpc]⟩
    | callBegin m t => left; exact ⟨.callBegin k, rfl, by simp [istep, hk, hpc]⟩
    | inCall m t =>
      cases hl : (s.insts k).lsn with
      | none => right; exact ⟨k, m, t, hk, hpc, hl⟩
      | some line => left; exact ⟨.lsnPut (.inst k), rfl, by simp [istep, hk, hl]⟩
    | eosRead t =>
      left
      refine ⟨.eosRead k, rfl, ?_⟩
      simp only [istep, hk, hpc, if_true]
      split <;> rfl
    | clearCode t => left; exact ⟨.clearCode k, rfl, by simp [istep, hk, hpc]⟩
    | dec =>
      left
      refine ⟨.dec k, rfl, ?_⟩
      simp only [istep, hk, hpc, if_true]
      split <;> rfl
    | done => exact absurd hpc hd

/-! ### what the reply says (one step each; these hold in every state) -/

/-- a skipped subscription is answered with the `SubscribeError` "too late" reply — never left unanswered. -/
theorem c01_late_sub_reply (s s' : IState) (e : List Eff) (k : Nat) (t p : Task) (rest : List Task)
    (hk : k < s.ninst) (hpc : (s.insts k).pc = .atLoop) (hq : (s.mgrs (s.insts k).gen).q = t :: p :: rest)
    (ht : t.isSub = true) (h : istep s (.pop k) = some (s', e)) :
    (s'.insts k).pc = .put t (t.id ++ "|" ++ writeError "SUB" subscribeLate) .atLoop ∧ t ∈ s'.late := by
  simp only [istep, hk, hpc, hq, ht, if_true] at h
  simp at h
  obtain ⟨rfl, rfl⟩ := h
  simp [setInst, setMgr, addLog, upd, replyLine]

/-- the adapter's `subscribe` returned normally → `V`; raised → the adapter's error (typed by C08). -/
theorem c01_sub_reply (s s' : IState) (e : List Eff) (k : Nat) (t : Task) (o : CallOut)
    (hk : k < s.ninst) (hpc : (s.insts k).pc = .inCall .sub t) (hl : (s.insts k).lsn = none)
    (h : istep s (.callEnd k o) = some (s', e)) :
    (s'.insts k).pc = .put t (t.id ++ "|" ++ (match o with
        | .ret _ => writeVoid "SUB"
        | .raise ex => writeError "SUB" ex)) .atLoop := by
  cases o <;>
  · simp only [istep, hk, hpc, hl, if_true] at h
    obtain ⟨rfl, rfl⟩ := Prod.mk.inj (Option.some.inj h)
    simp [setInst, upd, replyLine]

/-- `unsubscribe` returned normally → `V`; raised → the adapter's error. -/
theorem c01_usb_reply (s s' : IState) (e : List Eff) (k : Nat) (t : Task) (o : CallOut)
    (hk : k < s.ninst) (hpc : (s.insts k).pc = .inCall .usb t) (hl : (s.insts k).lsn = none)
    (h : istep s (.callEnd k o) = some (s', e)) :
    (s'.insts k).pc = .put t (t.id ++ "|" ++ (match o with
        | .ret _ => writeVoid "USB"
        | .raise ex => writeError "USB" ex)) (.clearCode t) := by
  cases o <;>
  · simp only [istep, hk, hpc, hl, if_true] at h
    obtain ⟨rfl, rfl⟩ := Prod.mk.inj (Option.some.inj h)
    simp [setInst, upd, replyLine]

/-- an unsubscription with nothing to undo is acknowledged with `V` without calling the adapter. -/
theorem c01_usb_nothing_to_undo (s s' : IState) (e : List Eff) (k : Nat) (t : Task) (rest : List Task)
    (hk : k < s.ninst) (hpc : (s.insts k).pc = .atLoop) (hq : (s.mgrs (s.insts k).gen).q = t :: rest)
    (ht : t.isSub = false)
    (hok : (if (s.insts k).deq = 0 then (s.mgrs (s.insts k).gen).lastOk else (s.insts k).ok) = false)
    (h : istep s (.pop k) = some (s', e)) :
    (s'.insts k).pc = .put t (t.id ++ "|" ++ writeVoid "USB") (.clearCode t) := by
  simp only [istep, hk, hpc, hq, ht, hok, if_true] at h
  simp at h
  obtain ⟨rfl, rfl⟩ := h
  simp [setInst, setMgr, addLog, upd, replyLine]

/-- the enqueue step writes exactly the prepared line and nothing else. -/
theorem c01_put_enqueues (s s' : IState) (e : List Eff) (k : Nat) (t : Task) (l : String) (n : Pc)
    (hk : k < s.ninst) (hpc : (s.insts k).pc = .put t l n) (h : istep s (.put k) = some (s', e)) :
    s'.out = s.out ++ [l] ∧ (s'.insts k).pc = n := by
  simp only [istep, hk, hpc, if_true] at h
  split at h <;>
  · obtain ⟨rfl, rfl⟩ := Prod.mk.inj (Option.some.inj h)
    simp [setInst, addLog, addOut, finish, replied, upd]

-- non-vacuity (a test, labelled as such): SUB, USB, SUB pipelined while the first subscribe runs; the middle
-- requests are handled, the late branch is taken, and the history is well-formed
example : ∃ s, Reach "i" s ∧ WF s.arr ∧ s.late ≠ [] := by
  refine ⟨_, ⟨[.lockMgr ⟨"1", true⟩, .addTask, .start 0, .pop 0, .setCode 0, .callBegin 0,
    .lockMgr ⟨"2", false⟩, .addTask, .lockMgr ⟨"3", true⟩, .addTask, .lockMgr ⟨"4", false⟩, .addTask,
    .callEnd 0 (.ret false), .callBegin 0, .callEnd 0 (.ret false), .put 0, .pop 0, .callBegin 0,
    .callEnd 0 (.ret false), .put 0, .clearCode 0, .pop 0], rfl⟩, ?_, ?_⟩ <;> decide

end Ari.Conc
