import AriVerif.Conc.PropLemmas
/-!
# C02 — per-item subscribe/unsubscribe calls are serialized, ordered and paired
(model and quantifiers as in Props/C01.lean)
-/
namespace Ari.Conc
open Ari

/-- **C02 (no overlap).** At most one thread is inside (or about to enter) an adapter call for the item. -/
theorem c02_no_overlap (s : IState) (h : Inv s) (k k' : Nat) (hk : k < s.ninst) (hk' : k' < s.ninst)
    (h1 : (s.insts k).pc.held ≠ none) (h2 : (s.insts k').pc.held ≠ none) : k = k' := by
  have a := h.cur_of_held hk h1
  have b := h.cur_of_held hk' h2
  rw [a] at b
  exact Option.some.inj b

/-- **C02 (arrival order).** Requests are processed strictly in arrival order: the completed ones are a
    prefix of the arrivals, and the one being processed is the next one. -/
theorem c02_order (s : IState) (h : Inv s) :
    (∃ rest, s.arr = s.fin ++ rest) ∧
    ∀ k, k < s.ninst → ∀ t, (s.insts k).pc.held = some t → s.arr[s.fin.length]? = some t := by
  refine ⟨⟨heldL s ++ qL s ++ rheldL s, by rw [h.seq]; simp [List.append_assoc]⟩, ?_⟩
  intro k hk t ht
  rw [h.seq, h.heldL_of_held hk ht]
  simp [List.append_assoc]

/-- **C02 (pairing).** `unsubscribe` begins only when the immediately preceding invocation for the item
    was the `subscribe` of the preceding request and it returned normally. -/
theorem c02_paired (s : IState) (h : Inv s) (k : Nat) (hk : k < s.ninst) (t : Task)
    (hpc : (s.insts k).pc = .callBegin .usb t) :
    ∃ p, s.fin.getLast? = some p ∧ p.isSub = true ∧ s.lastInv = some (.sub, p.id, true) :=
  h.usbPaired k (h.cur_of_looping hk (by rw [hpc]; rfl)) t hpc

/-- **C02 (no call after a failed or skipped subscription).** When an unsubscription is taken up and the
    preceding subscription was skipped, failed, or its snapshot query failed, the adapter is not called. -/
theorem c02_usb_after_failure (s s' : IState) (e : List Eff) (hi : Inv s) (hwf : WF s.arr)
    (k : Nat) (t : Task) (rest : List Task) (hk : k < s.ninst) (hpc : (s.insts k).pc = .atLoop)
    (hq : (s.mgrs (s.insts k).gen).q = t :: rest) (ht : t.isSub = false)
    (h : istep s (.pop k) = some (s', e)) :
    ∃ p, s.fin.getLast? = some p ∧ p.isSub = true ∧
      ((s'.insts k).pc = .callBegin .usb t ↔ s.lastInv = some (.sub, p.id, true)) := by
  have hloop : (s.insts k).pc.looping = true := by rw [hpc]; rfl
  have ha := hi.active_of_looping hk hloop
  have hc := hi.cur_of_looping hk hloop
  have hlo := hi.loopOf k hk hloop
  have hbt : betweenTasks s = true := by simp [betweenTasks, hc, hpc, Pc.between]
  have heff : effOk s =
      (if (s.insts k).deq = 0 then (s.mgrs (s.insts k).gen).lastOk else (s.insts k).ok) := by
    simp [effOk, ha, hlo]
  have hseq : s.arr = s.fin ++ t :: (rest ++ rheldL s) := by
    rw [hi.seq]; simp [heldL, hc, hpc, Pc.held, qL, ha, hq]
  have halt : Alt true (s.fin ++ t :: (rest ++ rheldL s)) := hseq ▸ hwf.2
  rcases halt.before with ⟨_, ht'⟩ | ⟨p, hp, hps⟩
  · rw [ht] at ht'; cases ht'
  · rw [ht] at hps
    refine ⟨p, hp, by simpa using hps, ?_⟩
    rw [← hi.outBetween hbt p hp (by simpa using hps), heff]
    cases hok : (if (s.insts k).deq = 0 then (s.mgrs (s.insts k).gen).lastOk else (s.insts k).ok) <;>
    · simp only [istep, hk, hpc, hq, ht, hok, if_true] at h
      simp at h
      obtain ⟨rfl, rfl⟩ := h
      simp [setInst, setMgr, addLog, upd]

/-- **C02 (skipped only if a later request had arrived).** -/
theorem c02_skip_only_if_later (s : IState) (h : Inv s) (p : Task) (hp : p ∈ s.late) :
    s.arr.getLast? ≠ some p := h.lateSucc p hp

/-- with pairwise distinct ids, the last request of the history occurs nowhere before. -/
theorem last_unique {l r : List Task} {t : Task} (hnd : ((l ++ t :: r).map (·.id)).Nodup)
    (hlast : (l ++ t :: r).getLast? = some t) : r = [] := by
  cases r with
  | nil => rfl
  | cons a r' =>
    exfalso
    have hl : (a :: r').getLast? = some t := by
      rw [← hlast]
      have he : l ++ t :: a :: r' = (l ++ [t]) ++ (a :: r') := by simp
      rw [he, List.getLast?_append]
      cases hx : (a :: r').getLast? with
      | none => simp at hx
      | some x => simp
    have hm : t ∈ a :: r' := List.mem_of_getLast? hl
    rw [List.map_append, List.nodup_append] at hnd
    have h2 := hnd.2.1
    rw [List.map_cons, List.nodup_cons] at h2
    exact h2.1 (List.mem_map_of_mem hm)

/-- **C02 (the latest request is executed).** A subscription that is the latest arrival for its item when
    it is taken up is executed, not skipped. -/
theorem c02_latest_executed (s s' : IState) (e : List Eff) (hi : Inv s) (hwf : WF s.arr)
    (k : Nat) (t : Task) (rest : List Task) (hk : k < s.ninst) (hpc : (s.insts k).pc = .atLoop)
    (hq : (s.mgrs (s.insts k).gen).q = t :: rest) (ht : t.isSub = true) (hlast : s.arr.getLast? = some t)
    (h : istep s (.pop k) = some (s', e)) : (s'.insts k).pc = .setCode t := by
  have hloop : (s.insts k).pc.looping = true := by rw [hpc]; rfl
  have ha := hi.active_of_looping hk hloop
  have hc := hi.cur_of_looping hk hloop
  have hseq : s.arr = s.fin ++ t :: (rest ++ rheldL s) := by
    rw [hi.seq]; simp [heldL, hc, hpc, Pc.held, qL, ha, hq]
  have hnd := hwf.1
  rw [hseq] at hnd hlast
  have hnil := last_unique hnd hlast
  have hrest : rest = [] := (List.append_eq_nil_iff.mp hnil).1
  subst hrest
  simp only [istep, hk, hpc, hq, ht, if_true] at h
  simp at h
  obtain ⟨rfl, rfl⟩ := h
  simp [setInst, setMgr, addLog, upd]

end Ari.Conc
