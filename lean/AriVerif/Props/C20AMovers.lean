import AriVerif.Conc.AppClose
/-!
# The two inferences the trace-acceptance check of `Conc/AppClose` makes are sound (right movers)

The real writer's *dequeue* and the reader's return from `on_exception` leave no event in the log; `harness/s_appclose.py`
places the dequeue immediately before the write it leads to, and the return at the end of the reader's actions.  That is
sound if moving these two steps to the right over any step of another thread changes nothing: whenever the real order
(step first, then the other thread's action) is a run of the model, so is the order the harness replays, with the same
resulting state.  (A dequeue of the *stop pill* is not moved: the harness places it before the `join` it enables.  A step
after which the process has exited ends the comparison: only the reports are compared then.)
-/
namespace Ari.AppClose

/-- **the writer's dequeue of a line is a right mover**: over any action of another thread that does not end the process. -/
theorem c20a_get_right_mover (s s1 s2 : St) (a : Act) (n : Nat) (rest : List Msg)
    (ha : a ≠ .wr) (hw : s.w = .get) (hq : s.q = .line n :: rest)
    (h1 : step s .wr = some s1) (h2 : step s1 a = some s2) (hx : s2.exited = false) :
    ∃ s1', step s a = some s1' ∧ step s1' .wr = some s2 := by
  obtain ⟨hnd, failAt, closes, inbound, peerFault, stop, q, w, nw, wrote, r, sockClosed, poolShut, tasks, fin, acc, app,
    next, enq, ioRep, excRep, exited⟩ := s
  simp only at hw hq
  subst hw hq
  cases exited with
  | true => simp [step] at h1
  | false =>
    simp [step, wrStep] at h1
    subst h1
    cases a with
    | wr => exact absurd rfl ha
    | app =>
      simp only [step, appStep] at h2 ⊢
      simp at h2 ⊢
      obtain ⟨hlt, h2⟩ := h2
      split at h2 <;> simp_all [wrStep]
    | rd =>
      rcases r with _ | _ | rs | _ | _
      · cases stop <;> simp [step, rdStep] at h2 ⊢ <;> subst h2 <;> simp [wrStep]
      · rcases inbound with _ | ⟨c, inb⟩
        · cases sockClosed <;> cases stop <;> cases hnd <;> cases peerFault <;>
            simp [step, rdStep, recvFail, report] at h2 ⊢ <;> subst h2 <;>
            first | (simp at hx; done) | simp [wrStep]
        · cases c <;> cases sockClosed <;> cases stop <;> cases hnd <;>
            simp [step, rdStep, recvFail, report, afterReq] at h2 ⊢ <;> subst h2 <;>
            first | (simp at hx; done) | simp [wrStep]
      · rcases rs with _ | ⟨_ | _, rs⟩
        · simp [step, rdStep] at h2 ⊢; subst h2; simp [wrStep]
        · cases rs <;> simp [step, rdStep, afterReq, put] at h2 ⊢ <;> subst h2 <;> simp [wrStep]
        · cases rs <;> cases poolShut <;> simp [step, rdStep, afterReq] at h2 ⊢ <;> subst h2 <;> simp [wrStep]
      · simp [step, rdStep] at h2 ⊢; subst h2; simp [wrStep]
      · simp [step, rdStep] at h2
    | rfal =>
      simp [step, put] at h2 ⊢
      obtain ⟨hr, h2⟩ := h2
      subst h2
      simp [hr, wrStep]
    | tenq =>
      simp [step, put] at h2 ⊢
      obtain ⟨hr, h2⟩ := h2
      subst h2
      simp [hr, wrStep]
    | tfin =>
      simp [step] at h2 ⊢
      obtain ⟨hr, h2⟩ := h2
      subst h2
      simp [hr, wrStep]

/-- **the reader's return from `on_exception` is a right mover**: over any action of another thread. -/
theorem c20a_exc_return_right_mover (s s1 s2 : St) (a : Act)
    (ha : a ≠ .rd) (hf : a ≠ .rfal) (hr : s.r = .exc)
    (h1 : step s .rd = some s1) (h2 : step s1 a = some s2) (hx : s2.exited = false) :
    ∃ s1', step s a = some s1' ∧ step s1' .rd = some s2 := by
  obtain ⟨hnd, failAt, closes, inbound, peerFault, stop, q, w, nw, wrote, r, sockClosed, poolShut, tasks, fin, acc, app,
    next, enq, ioRep, excRep, exited⟩ := s
  simp only at hr
  subst hr
  cases exited with
  | true => simp [step] at h1
  | false =>
    simp [step, rdStep] at h1
    subst h1
    cases a with
    | rd => exact absurd rfl ha
    | rfal => exact absurd rfl hf
    | app =>
      simp only [step, appStep] at h2 ⊢
      simp at h2 ⊢
      obtain ⟨hlt, h2⟩ := h2
      split at h2 <;> simp_all [rdStep]
    | wr =>
      rcases w with _ | m | _
      · rcases q with _ | ⟨_ | k, q⟩ <;> simp [step, wrStep] at h2 ⊢ <;> subst h2 <;> simp [rdStep]
      · cases hnd <;> simp [step, wrStep, report] at h2 ⊢ <;> split at h2 <;> simp at h2 <;> subst h2 <;>
          first | (simp at hx; done) | simp_all [rdStep]
      · simp [step, wrStep] at h2
    | tenq =>
      simp [step, put] at h2 ⊢
      obtain ⟨hr, h2⟩ := h2
      subst h2
      simp [hr, rdStep]
    | tfin =>
      simp [step] at h2 ⊢
      obtain ⟨hr, h2⟩ := h2
      subst h2
      simp [hr, rdStep]

end Ari.AppClose
