import AriVerif.Dispatch
import AriVerif.Props.C10
/-!
# C09 (server part) — a malformed request is reported once, never answered, and service continues
-/
namespace Ari

/-- **C09 (handling of a rejected request).** A request of one of the server's methods that does not decode
    produces exception handling only — no adapter call, no reply, no work — and leaves the state unchanged. -/
theorem c09_server_rejected (cfg : SrvCfg) (env : InitEnv) (st : RState) :
    act cfg env st .ownBad = (st, onException cfg) ∧
    ∀ a ∈ onException cfg, a.isInitialize = false ∧ a.isListener = false ∧ a.isReply = false ∧ a.isWork = false := by
  exact ⟨rfl, onException_no_work cfg⟩

/-- **C09 (reported exactly once; Data default = one failure notification).** The exception handler is
    notified exactly once iff one is installed; the default handling (for a Data server: one FAL notification;
    for a Metadata server: nothing) runs iff no handler is installed or it returns a true value. -/
theorem c09_reported_once (cfg : SrvCfg) :
    onException cfg =
      (match cfg.excHandler with | none => [] | some _ => [RAct.handlerExc]) ++
      (if cfg.kind = .dataK ∧ cfg.excHandler ≠ some false then [RAct.fal] else []) := by
  unfold onException
  cases cfg.kind <;> cases cfg.excHandler with
  | none => simp
  | some r => cases r <;> simp

/-- which lines are malformed requests in this sense: a request of one of the kind's own methods whose
    arguments the decoder rejects (C09 decoder part). -/
theorem c09_malformed_is_ownBad (cfg : SrvCfg) (ce : Bool) (line id m : String) (toks : List String) (e : ParseError)
    (hp : parseRequest line = some (id, m, toks)) (hnc : m ≠ "CLOSE") (hni : m ≠ cfg.kind.method)
    (hown : match cfg.kind with | .metaK => metaMethods.contains m = true | .dataK => m = "SUB" ∨ m = "USB")
    (hd : decodeRequest m toks = some (.error e)) :
    classify cfg ce line = .ownBad := by
  unfold classify
  simp only [hp, hnc, false_and, if_false, hni]
  cases hk : cfg.kind with
  | metaK =>
    rw [hk] at hown
    simp only [hown, if_true, hd]
  | dataK =>
    rw [hk] at hown
    simp only [hown, if_true, hd]

/-- **C09 (service continues).** Requests received afterwards are processed exactly as if the bad line had
    not been there. -/
theorem c09_continues (cfg : SrvCfg) (env : InitEnv) (st : RState) (bad : String) (rest : List String)
    (hb : classify cfg st.closeExpected bad = .ownBad) :
    dispatchAll cfg env st (bad :: rest) =
      ((dispatchAll cfg env st rest).1, onException cfg :: (dispatchAll cfg env st rest).2) := by
  simp only [dispatchAll, dispatch, hb, act]

end Ari
