import AriVerif.Gen.Skeleton
import AriVerif.Spec.Skeleton
/-!
# The structure the models assume is the structure of the current source — group **MetaPool**
`_handle_request` of both servers: init gating on the reader thread, pool submission (`Conc/Pool.lean`; C04, C10, C18).
-/
namespace Ari

theorem skel_metapool_from_source : Gen.skelMetaPool = Spec.expectedMetaPool := by decide +kernel

theorem writers_metapool_from_source :
    rowsOf Gen.writers ["init_expected", "_close_expected", "_executor"] = rowsOf Spec.expectedWriters ["init_expected", "_close_expected", "_executor"] := by
  decide +kernel

end Ari
