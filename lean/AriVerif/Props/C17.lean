import AriVerif.Conc.PropLemmas
/-!
# C17 — an empty snapshot is closed by the library before updates and the reply
-/
namespace Ari.Conc
open Ari

/-- **C17 (emits, tagged, in time).** When the availability query returned `False`, the instance's next
    steps are forced: read the id — which is the id of the subscription being executed — enqueue the EOS
    line built with it, and only then begin `subscribe()`. -/
theorem c17_emits (s s1 : IState) (e1 : List Eff) (hi : Inv s) (k : Nat) (t : Task)
    (hk : k < s.ninst) (hc : cur s = some k) (hpc : (s.insts k).pc = .eosRead t)
    (h1 : istep s (.eosRead k) = some (s1, e1)) :
    readCode s = some t.id ∧
    ∃ line, eventLine s.item t.id .eos = some line ∧
      (s1.insts k).pc = .put t line (.callBegin .sub t) := by
  have hrc : readCode s = some t.id := hi.codePublished k hc t (by rw [hpc]; simp [Pc.published])
  have hev : eventLine s.item t.id .eos = some (joinBar ["EOS", "S", encodeString (some s.item), "S",
      encodeString (some t.id)]) := by
    simp [eventLine, writeEos, encStr, bind, Except.bind, Except.toOption]
  refine ⟨hrc, _, hev, ?_⟩
  simp only [istep, hk, hpc, hrc, if_true, Option.bind_some, hev] at h1
  obtain ⟨rfl, rfl⟩ := Prod.mk.inj (Option.some.inj h1)
  simp [setInst, addLog, upd]

/-- the query returning `False` (and only that) leads to the EOS branch; anything else goes straight to
    `subscribe()` with no library EOS. -/
theorem c17_branch (s s' : IState) (e : List Eff) (k : Nat) (t : Task) (isF : Bool)
    (hk : k < s.ninst) (hpc : (s.insts k).pc = .inCall .snap t) (hl : (s.insts k).lsn = none)
    (h : istep s (.callEnd k (.ret isF)) = some (s', e)) :
    (s'.insts k).pc = (if isF then .eosRead t else .callBegin .sub t) := by
  simp only [istep, hk, hpc, hl, if_true] at h
  obtain ⟨rfl, rfl⟩ := Prod.mk.inj (Option.some.inj h)
  simp [setInst, upd]

/-- **C17 (query raises).** The subscription is answered with that error and `subscribe` is not called. -/
theorem c17_raises (s s' : IState) (e : List Eff) (k : Nat) (t : Task) (ex : Exc)
    (hk : k < s.ninst) (hpc : (s.insts k).pc = .inCall .snap t) (hl : (s.insts k).lsn = none)
    (h : istep s (.callEnd k (.raise ex)) = some (s', e)) :
    (s'.insts k).pc = .put t (t.id ++ "|" ++ writeError "SUB" ex) .atLoop ∧ (s'.insts k).ok = false := by
  simp only [istep, hk, hpc, hl, if_true] at h
  obtain ⟨rfl, rfl⟩ := Prod.mk.inj (Option.some.inj h)
  simp [setInst, upd, replyLine]

/-- the instance executing a subscription is the item's current looping instance (so `c17_emits` applies). -/
theorem c17_executor_is_current (s : IState) (hi : Inv s) (k : Nat) (hk : k < s.ninst)
    (hh : (s.insts k).pc.held ≠ none) : cur s = some k :=
  hi.cur_of_held hk hh

end Ari.Conc
