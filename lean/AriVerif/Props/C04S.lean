import AriVerif.Props.C04
import AriVerif.Conc.MetaProj
/-!
# C04 / C16 on the whole-Metadata-server model

`Conc.MetaSrv` is the model the real `MetadataProviderServer` is compared with chunk by chunk (start-up, reader
with framing and dispatch, pool threads, send queue, writer).  `Conc/MetaProj.lean` shows that its pool
component only ever moves by `pstep` runs, so the pool theorems of Props/C04.lean hold in every state the
server model can reach — for every schedule of reader, writer and pool threads, every pool size, every chunking
of the inbound bytes and every adapter outcome — and that a reply, once produced, is on its way to the wire.
-/
namespace Ari.Conc
open Ari

/-- **C04 on the server model: one outcome per request.** -/
theorem c04s_once {cfg : SrvCfg} {n : Nat} {s : MState} {log : List String} (h : MReach cfg n s log) :
    ∀ t ∈ s.pool.tasks, (t.pc.isDone = false → t.replied = 0 ∧ t.notified = 0) ∧
                        (t.pc.isDone = true → t.replied + t.notified = 1) :=
  c04_once n s.pool (mreach_pool h)

/-- **C04 on the server model: the reply is the closure's result under the request's own id.** -/
theorem c04s_reply_is_result {cfg : SrvCfg} {n : Nat} {s : MState} {log : List String} (h : MReach cfg n s log) :
    ∀ t ∈ s.pool.tasks, ∀ line, t.pc = .put line →
      ∃ body, taskNext t = .inr (.reply body) ∧ line = t.rid ++ "|" ++ body :=
  c04_reply_is_result n s.pool (mreach_pool h)

/-- **C04 on the server model: as many pool replies as tasks that replied, all of them enqueued, in order,
    and — once the writer has drained the queue, no write having failed (`wthr ≠ 4`: a failed write loses the message the
    writer held, Conc/MetaFault.lean) — all of them written.** -/
theorem c04s_replies_reach_the_wire {cfg : SrvCfg} {n : Nat} {s : MState} {log : List String}
    (h : MReach cfg n s log) :
    s.pool.out.length = (s.pool.tasks.map (·.replied)).sum ∧ s.pool.out.Sublist log ∧
    (s.wthr ≠ 4 → s.sendQ = [] → s.wsend = none → s.pool.out.Sublist s.written) :=
  ⟨c04_out_count n s.pool (mreach_pool h), mreach_out_sublist h, mreach_drained h⟩

/-- **C16 on the server model: written ++ held ++ queued is exactly what was enqueued, in enqueue order**
    (nothing lost, duplicated or reordered between any producer and the writer) as long as no write has failed; what is on
    the wire is always a prefix of what was enqueued; and a failed write (`wthr = 4`) loses at most the one message the
    writer held: the log is written ++ lost ++ held ++ queued with `lost` of length at most 1, empty if no write failed. -/
theorem c16s_meta_fifo {cfg : SrvCfg} {n : Nat} {s : MState} {log : List String} (h : MReach cfg n s log) :
    (s.wthr ≠ 4 → pending s = log) ∧ s.written <+: log ∧
    ∃ lost : List String, lost.length ≤ 1 ∧ (s.wthr ≠ 4 → lost = []) ∧
      log = s.written ++ lost ++ s.wsend.toList ++ s.sendQ.filterMap id :=
  ⟨mreach_pending h, mreach_written_prefix h, (mreach_pending_lost h).2⟩

/-- non-vacuity: a Metadata server that received an init request and one NSC request in a single read is
    `MReach`able with the credentials message and the init reply written and one pool task submitted (the pool
    thread's own steps parse the thread name with `String.toNat?`, which the kernel does not evaluate; pool-level
    runs are exercised in Props/C04.lean and by the co-simulation). -/
example : ∃ s log, MReach { kind := .metaK, excHandler := none, ioHandler := none, keepAlive := some 0 } 1 s log ∧
    s.written.length = 2 ∧ s.pool.tasks.length = 1 := by
  let cfg : SrvCfg := { kind := .metaK, excHandler := none, ioHandler := none, keepAlive := some 0 }
  let steps : List (String × MOp) :=
    [("M", .threadStart), ("M", .put), ("R", .threadStart), ("W", .threadStart),
     ("P", .deliver "1|MPI|S|ARI.version|S|1.8.3\r\n2|NSC|S|sess\r\n"), ("R", .recv), ("R", .put),
     ("W", .get), ("W", .send), ("W", .get), ("W", .send)]
  have key : ∀ (l : List (String × MOp)) (s : MState) (log : List String), MReach cfg 1 s log →
      ∀ s', (l.foldlM (fun (st : MState) (x : String × MOp) => (mstep st {} x.1 x.2).map (·.1)) s) = some s' →
      ∃ log', MReach cfg 1 s' log' := by
    intro l
    induction l with
    | nil => intro s log h s' hs; simp only [List.foldlM_nil, pure, Option.some.injEq] at hs; subst hs; exact ⟨log, h⟩
    | cons a l ih =>
      intro s log h s' hs
      rw [List.foldlM_cons] at hs
      cases hm : mstep s {} a.1 a.2 with
      | none => simp [hm, bind, Option.bind] at hs
      | some r =>
        obtain ⟨s1, e1⟩ := r
        simp only [hm, Option.map, bind, Option.bind] at hs
        exact ih s1 _ (MReach.step h hm) s' hs
  have hrun : ∃ s', (steps.foldlM (fun (st : MState) (x : String × MOp) => (mstep st {} x.1 x.2).map (·.1)) (MInit cfg 1)) = some s' ∧
      s'.written.length = 2 ∧ s'.pool.tasks.length = 1 := by
    decide +kernel
  obtain ⟨s', hs', h3, h1⟩ := hrun
  obtain ⟨log', hr⟩ := key steps _ _ MReach.init s' hs'
  exact ⟨s', log', hr, h3, h1⟩

end Ari.Conc
