import AriVerif.Gen.State
import AriVerif.Spec.State
/-!
# Every server / connection / sender owns its state (server.py)

The whole-server models describe ONE server; two servers in a process (the usual Metadata + Data pair) are two independent
copies only if `server.py` keeps nothing at module or class level beyond the recorded instance counter.
-/
namespace Ari

theorem state_server_from_source :
    Spec.stateRows Gen.sharedState ["server.py"] = Spec.stateRows Spec.sharedState ["server.py"] := by
  decide +kernel

end Ari
