import AriVerif.Props.C11
import AriVerif.Props.C12
/-!
# C12 — "… whether or not initialization itself succeeds"

`Ari.onInit` (Init.lean) composes the version prologue / epilogue **generated from `_on_init` on every run**
with the adapter outcomes; the translator additionally checks that `_use_keep_alive_hint(keep_alive_hint)` is
the statement following the `try` of `_on_init` (constant `Gen.hintAppliedOnEveryPath`; a different shape is a
broken tie).  Whatever the announced version (accepted, refused, absent), whatever `initialize` and
`set_listener` do, the interval in force after the init request is the one of `c12_rule`.
-/
namespace Ari

/-- the hint the Proxy Adapter sent, if any (`hintValue` is its numeric value as `float()` reads it). -/
def InitIn.hint (i : InitIn) : Option Rat :=
  if (match pdGet (dictOf i.pairs) keepaliveKey with | some (.str (some _)) => true | _ => false)
  then i.hintValue else none

/-- **C12 (every init outcome).** For every init request and every outcome of the version negotiation and of
    the adapter's `initialize` / `set_listener`, the keepalive interval in force afterwards (published value
    and writer's wait) is the specified function of the configured value and the hint alone. -/
theorem c12_every_init_outcome (i : InitIn) :
    (onInit i).keepAlive = (specInterval i.keepAlive i.hint, specInterval i.keepAlive i.hint) := by
  rw [c11_hint_independent, c12_rule]; rfl

/-- the structural fact checked by the translator on the current source. -/
theorem c12_hint_applied_on_every_path : Gen.hintAppliedOnEveryPath = true := rfl

-- non-vacuity (a test, labelled as such): a Data init request without version is refused, and the strict 1 s
-- default is in force afterwards
example : (onInit ⟨.dataK, [], none, none, true, none, none, .ret .none, .ret .none⟩).keepAlive = (1, 1) ∧
    (onInit ⟨.dataK, [], none, none, true, none, none, .ret .none, .ret .none⟩).initArgs = none := by
  decide +kernel

end Ari
