import AriVerif.Gen.Skeleton
import AriVerif.Spec.Skeleton
/-!
# The structure the models assume is the structure of the current source — group **Lifecycle**
`start()` and `close()` (`Startup.lean`, `Dispatch.act`; C10, C14, C20): in particular nothing but `__init__` and `_handle_request` assigns `init_expected`.
-/
namespace Ari

theorem skel_lifecycle_from_source : Gen.skelLifecycle = Spec.expectedLifecycle := by decide +kernel

theorem writers_lifecycle_from_source :
    rowsOf Gen.writers ["_request_manager", "_server_sock", "_executor", "init_expected", "_close_expected"] = rowsOf Spec.expectedWriters ["_request_manager", "_server_sock", "_executor", "init_expected", "_close_expected"] := by
  decide +kernel

end Ari
