import AriVerif.Spec.Ari
import AriVerif.Meta
import AriVerif.Lemmas.Wire
import AriVerif.Gen.Layouts
/-!
# C06 — request decoding inverts the ARI encoding for all 18 request kinds

`Spec.encodeArgs` / `Spec.encodeRequest` (Spec/Ari.lean) is the conforming Proxy Adapter; the
theorems say that the library's decoders (`parseRequest`, `decodeWith`, `decodeRequest`, tied to
protocol.parse_request and the 18 read_* functions by the `requests` differential) invert it for
**all** argument values: every string / None / "" in every text slot, every `Int`, every mode and
platform code incl. null, maps, lists and table lists of any length, and both line terminators.
-/
namespace Ari

/-- a token a conforming encoder may put on the wire: non-empty, no separator, no whitespace. -/
def CleanTok (t : String) : Prop := t ≠ "" ∧ ∀ c ∈ t.toList, c ≠ '|' ∧ isSpace c = false

/-- **C06 (tokenisation, both terminators).** -/
theorem c06_tokenize (id m : String) (toks : List String) (term : String)
    (hterm : term = "\r\n" ∨ term = "\n")
    (hid : CleanTok id) (hm : CleanTok m) (htoks : ∀ t ∈ toks, CleanTok t) :
    parseRequest (joinBar (id :: m :: toks) ++ term) = some (id, m, toks) := by
  apply parseRequest_joinBar
  · rcases hterm with rfl | rfl <;> decide
  · intro t ht
    simp only [List.mem_cons] at ht
    rcases ht with rfl | rfl | ht
    · exact hid
    · exact hm
    · exact htoks t ht

/-- every token the conforming encoder produces is clean (so `c06_tokenize` applies to its lines). -/
theorem c06_encoder_tokens_clean (σ : Schema) (a : Args) (toks : List String)
    (h : Spec.encodeArgs σ a = some toks) : ∀ t ∈ toks, CleanTok t := by
  exact encodeArgs_clean σ a toks h

/-- **C06 (generic layout round trip).** For every layout and all arguments that fit it, decoding
    the conforming encoding returns exactly the arguments. -/
theorem c06_generic (σ : Schema) (a : Args) (toks : List String)
    (h : Spec.encodeArgs σ a = some toks) : decodeWith σ toks = .ok a := by
  exact decodeWith_encodeArgs σ a toks h

/-- the 18 layouts are found by their method name. -/
theorem c06_schemas_lookup : ∀ σ ∈ schemas, schemaOf σ.method = some σ := by
  decide

/-- the 18 method names are clean tokens. -/
theorem c06_method_clean : ∀ σ ∈ schemas, CleanTok σ.method := by
  unfold CleanTok; decide

/-- **C06 (all 18 request kinds, whole line).** Decoding a conforming request line yields the request
    id, the method and exactly the encoded arguments, whichever terminator ends the line. -/
theorem c06_all (σ : Schema) (hσ : σ ∈ schemas) (id : String) (a : Args) (term line : String)
    (hterm : term = "\r\n" ∨ term = "\n") (hid : CleanTok id)
    (h : Spec.encodeRequest id σ a term = some line) :
    ∃ toks, parseRequest line = some (id, σ.method, toks) ∧
      decodeRequest σ.method toks = some (.ok a) := by
  unfold Spec.encodeRequest at h
  cases ha : Spec.encodeArgs σ a with
  | none => simp [ha] at h
  | some toks =>
    simp only [ha, Option.map_some, Option.some.injEq] at h
    subst h
    refine ⟨toks, c06_tokenize id σ.method toks term hterm hid (c06_method_clean σ hσ)
      (c06_encoder_tokens_clean σ a toks ha), ?_⟩
    unfold decodeRequest
    rw [c06_schemas_lookup σ hσ]
    simp only [Option.map_some, c06_generic σ a toks ha]

/-- the null mode may also arrive as `$` (the repository's tests send both). -/
theorem c06_mode_null_alternatives : decodeModes "#" = .ok none ∧ decodeModes "$" = .ok none := by
  decide

-- the layouts agree with request literals of the repository's own tests (tests, labelled as such)
example : (parseRequest "10000010c3e4d0462|NUS|S|user|S|password|S|host|S|www.mycompany.com\r\n").map
    (fun (_, m, d) => decodeRequest m d) =
    some (some (.ok ⟨[.str (some "user"), .str (some "password")],
      .map [(.str (some "host"), .str (some "www.mycompany.com"))]⟩)) := by decide +kernel
example : decodeRequest "NNT" ["S", "#", "S", "S8f3da29cfc463220T5454537", "I", "1", "M", "M", "S",
    "nasdaq100_AA_AL", "S", "short", "I", "1", "I", "5", "S", "#"] =
    some (.ok ⟨[.str none, .str (some "S8f3da29cfc463220T5454537")],
      .tables [[.int 1, .mode (some .merge), .str (some "nasdaq100_AA_AL"), .str (some "short"),
                .int 1, .int 5, .str none]]⟩) := by decide +kernel

/-! ## the layouts are the ones the source code reads (regenerated from the source on every run) -/

/-- the typed reads a layout prescribes: field `i` of type `ty` at token offset `2 * i`, then the variable part. -/
def layoutOf (σ : Schema) : List (Char × Nat) × Option (String × Nat) :=
  ((List.range σ.fixed.length).zip σ.fixed |>.map fun (i, ty) => (ty.marker, 2 * i),
   match σ.tail with
   | .none => none
   | .map => some ("map", 2 * σ.fixed.length)
   | .seq => some ("seq", 2 * σ.fixed.length)
   | .tables => some ("tables", 2 * σ.fixed.length))

/-- **C06 / C09 (layouts tied to the source by translation).** `Gen.layouts` is extracted on every run from the
    AST of the 18 `read_*` functions (every `read(data, T, k)` / `read_map` / `read_seq` / `_read_tables` call in
    evaluation order, helper functions inlined, offsets constant-folded).  It equals the hand-written layout
    table the decoding theorems are about — so a changed offset, type marker, field order or tail in the source
    breaks this theorem instead of silently leaving the model behind. -/
theorem c06_layouts_from_source :
    Gen.layouts = schemas.map (fun σ => (σ.method, layoutOf σ)) := by decide +kernel

theorem c06_table_layout_from_source :
    Gen.tableLayout = ((List.range tableTys.length).zip tableTys |>.map fun (i, ty) => (ty.marker, 2 * i)) ∧
    Gen.tableChunk = 2 * tableTys.length := by decide +kernel

end Ari
