import AriVerif.Conc.AppClose
import AriVerif.Conc.AppCloseLemmas
/-!
# C20 — the application's own `close()` (from another thread, possibly repeated)

Clauses of C20 decided here, on the model `Conc/AppClose.lean`, for **every** schedule of the application thread, the
reader, the writer and the pool tasks, every inbound stream, every position of a peer failure and of a failing write,
every handler configuration and any number of `close()` calls:

* "a read failure caused by the server's own `close()` is not reported" — `c20a_own_close_not_reported`,
  `c20a_no_fault_no_report`, `c20a_writer_never_writes_closed`;
* "`close()` may be called again without error" — `c20a_again` (every step of a repeated call is enabled at once and
  changes nothing but one more stop pill in the queue);
* "already accepted worker tasks complete, the writer stops, the socket is closed" — `c20a_closed`, `c20a_fifo`,
  `c20a_flushed`, `c20a_app_progress`, `c20a_reader_ends`;
* the report discipline under a concurrent `close()` — `c20a_report_once`, `c20a_exit_iff`.
-/
namespace Ari.AppClose

/-- the message the writer holds / consumed, as a list (for the FIFO statement). -/
def rmeasure : RPc → Nat
  | .done => 0
  | .exc => 1
  | .test => 1
  | .recv => 1
  | .proc rs => rs.length + 2

variable {hnd : Hnd} {failAt : Option Nat} {closes : Nat} {inbound : List (List Req)} {peerFault : Bool} {s : St}

/-- **A read failure caused by the server's own close() is not reported.** Whenever the reader reports an I/O failure, the
    stop flag was clear and the socket had not been closed by `close()`: the peer had failed. -/
theorem c20a_own_close_not_reported (h : Reach (init hnd failAt closes inbound peerFault) s) :
    ∀ rep ∈ s.ioRep, rep.who = .reader → rep.stop = false ∧ rep.sockClosed = false ∧ rep.peerFault = true := by
  exact (inv_reach h).c.rrep

/-- With a healthy peer and healthy writes nothing is ever reported and the process never exits, however the application's
    `close()` calls interleave with the library threads. -/
theorem c20a_no_fault_no_report (h : Reach (init hnd none closes inbound false) s) :
    s.ioRep = [] ∧ s.exited = false := by
  have i := inv_reach h
  have hnil : s.ioRep = [] := by
    apply rep_nil
    · intro rep hm hw
      have h1 := (i.c.rrep rep hm hw).2.2
      have h2 := i.c.prep rep hm
      have h3 := i.c.cP
      simp_all
    · intro rep hm hw
      have h1 := (i.c.wrep rep hm hw).2
      exact h1 i.c.cF
  refine ⟨hnil, ?_⟩
  have h4 := i.c.exit
  simp_all

/-- The writer has ended before `close()` closes the socket: a write failure is never self-inflicted. -/
theorem c20a_writer_never_writes_closed (h : Reach (init hnd failAt closes inbound peerFault) s) :
    (s.sockClosed = true → s.w = .done) ∧ (∀ rep ∈ s.ioRep, rep.who = .writer → rep.sockClosed = false ∧ failAt ≠ none) := by
  have i := inv_reach h
  refine ⟨fun hc => i.a.wdone (by have := i.a.sock.1 hc; omega), fun rep hm hw => ?_⟩
  have h1 := i.c.wrep rep hm hw
  exact ⟨h1.1, i.c.cF ▸ h1.2⟩

/-- Each thread reports at most once. -/
theorem c20a_report_once (h : Reach (init hnd failAt closes inbound peerFault) s) :
    (s.ioRep.filter (fun r => r.who = .reader)).length ≤ 1 ∧ (s.ioRep.filter (fun r => r.who = .writer)).length ≤ 1 := by
  exact ⟨(inv_reach h).c.rcnt, (inv_reach h).c.wcnt⟩

/-- The default reaction (process exit) happens iff something was reported and no handler is installed or it returned True. -/
theorem c20a_exit_iff (h : Reach (init hnd failAt closes inbound peerFault) s) :
    s.exited = true ↔ (s.ioRep ≠ [] ∧ hnd ≠ .no) := by
  have i := inv_reach h
  have h1 := i.c.exit
  rw [i.c.cH] at h1
  exact h1

/-- **After the first `close()` has returned**: the stop flag is set, the writer has ended, the pool refuses new tasks and
    every accepted task has finished, the socket is closed. -/
theorem c20a_closed (h : Reach (init hnd failAt closes inbound peerFault) s) (hc : 6 ≤ s.app) :
    s.stop = true ∧ s.w = .done ∧ s.poolShut = true ∧ s.tasks = 0 ∧ s.fin = s.acc ∧ s.sockClosed = true := by
  have i := inv_reach h
  have h1 := i.a.tasks0 (by omega)
  have h2 := i.a.acc
  exact ⟨i.a.stop (by omega), i.a.wdone (by omega), i.a.shut (by omega), h1, by omega, i.a.sock.2 hc⟩

/-- every accepted task is either finished or still counted: none is dropped, at any time. -/
theorem c20a_tasks_accounted (h : Reach (init hnd failAt closes inbound peerFault) s) : s.acc = s.fin + s.tasks := by
  exact (inv_reach h).a.acc

/-- **close() may be called again.** Once one `close()` has returned, every step of a further call is enabled at once (it
    waits for nothing) and changes nothing but the queue, which receives one more stop pill nobody reads. -/
theorem c20a_again (h : Reach (init hnd failAt closes inbound peerFault) s) (hc : 6 ≤ s.app) (hm : s.app < 6 * s.closes)
    (hx : s.exited = false) :
    ∃ s', step s .app = some s' ∧ s'.app = s.app + 1 ∧ s'.stop = s.stop ∧ s'.w = s.w ∧ s'.wrote = s.wrote ∧ s'.r = s.r ∧
      s'.sockClosed = s.sockClosed ∧ s'.poolShut = s.poolShut ∧ s'.tasks = s.tasks ∧ s'.fin = s.fin ∧
      s'.ioRep = s.ioRep ∧ s'.excRep = s.excRep ∧ s'.exited = s.exited ∧
      (s'.q = s.q ∨ s'.q = s.q ++ [.pill]) := by
  have i := inv_reach h
  have h1 := i.a.stop (by omega)
  have h2 := i.a.wdone (by omega)
  have h3 := i.a.shut (by omega)
  have h4 := i.a.tasks0 (by omega)
  have h5 := i.a.sock.2 hc
  rw [step_app_eq hx]
  unfold appStep
  rw [if_pos hm]
  simp only [h2, h4, if_true]
  split <;> refine ⟨_, rfl, ?_⟩ <;> simp [h1, h3, h5]

/-- FIFO, no loss, no duplication under a concurrent close: what was written, the line in hand and the queue are the log
    of everything enqueued; a writer that ended consumed exactly one more message — the stop pill, or the line whose write
    failed (and then it reported). -/
theorem c20a_fifo (h : Reach (init hnd failAt closes inbound peerFault) s) :
    match s.w with
    | .get => s.wrote.map Msg.line ++ s.q = s.enq
    | .send n => s.wrote.map Msg.line ++ Msg.line n :: s.q = s.enq
    | .done => s.wrote.map Msg.line ++ Msg.pill :: s.q = s.enq ∨
        ((∃ n, s.wrote.map Msg.line ++ Msg.line n :: s.q = s.enq) ∧ ∃ rep ∈ s.ioRep, rep.who = .writer) := by
  exact (inv_reach h).fifo

/-- The writer stops only behind everything enqueued before `close()`'s pill: if no write failed, every line enqueued
    before the first stop pill has been written, in order. -/
theorem c20a_flushed (h : Reach (init hnd none closes inbound peerFault) s) (hw : s.w = .done) :
    s.wrote.map Msg.line = s.enq.takeWhile (fun m => m != Msg.pill) := by
  have i := inv_reach h
  have hf := i.fifo
  unfold Fifo at hf
  rw [hw] at hf
  simp only at hf
  rcases hf with hf | ⟨_, rep, hm, hwho⟩
  · rw [← hf, takeWhile_lines]
  · exact absurd i.c.cF (i.c.wrep rep hm hwho).2

/-- `close()` waits only for library work that can proceed: when its next step is not enabled it is the `join` with the
    writer able to step, or the pool shutdown with an unfinished task. -/
theorem c20a_app_progress (h : Reach (init hnd failAt closes inbound peerFault) s) (hx : s.exited = false)
    (hm : s.app < 6 * s.closes) (hn : step s .app = none) :
    (s.app % 6 = 2 ∧ ∃ s', step s .wr = some s') ∨ (s.app % 6 = 4 ∧ ∃ s', step s .tfin = some s') := by
  have i := inv_reach h
  rw [step_app_eq hx] at hn
  unfold appStep at hn
  rw [if_pos hm] at hn
  split at hn
  all_goals (try split at hn)
  all_goals (try (simp at hn; done))
  · rename_i h2 hwd
    left
    refine ⟨h2, ?_⟩
    have hp := i.a.pill (by omega) hwd
    rw [step_wr_eq hx]
    unfold wrStep
    cases hw' : s.w with
    | done => exact absurd hw' hwd
    | send n => simp only []; split <;> exact ⟨_, rfl⟩
    | get =>
      simp only []
      cases hq : s.q with
      | nil => simp [hq] at hp
      | cons m rest => cases m <;> exact ⟨_, rfl⟩
  · rename_i h4 ht
    right
    refine ⟨h4, ?_⟩
    have : s.tasks > 0 := by omega
    rw [step_tfin_eq hx, if_pos this]
    exact ⟨_, rfl⟩

/-- Once `close()` has closed the socket the reader ends within a bounded number of its own steps, each enabled. -/
theorem c20a_reader_ends (h : Reach (init hnd failAt closes inbound peerFault) s) (hc : s.sockClosed = true)
    (hx : s.exited = false) (hr : s.r ≠ .done) :
    ∃ s', step s .rd = some s' ∧ rmeasure s'.r < rmeasure s.r ∧ s'.ioRep = s.ioRep := by
  have i := inv_reach h
  have h6 := i.a.sock.1 hc
  have h1 := i.a.stop (by omega)
  have h3 := i.a.shut (by omega)
  rw [step_rd_eq hx]
  unfold rdStep
  cases hr' : s.r with
  | done => exact absurd hr' hr
  | test => simp [h1, rmeasure]
  | recv => simp [hc, recvFail, h1, rmeasure]
  | exc => simp [rmeasure]
  | proc rs =>
    cases rs with
    | nil => simp [rmeasure]
    | cons x rs =>
      cases x
      · cases rs <;> simp [afterReq, put, rmeasure]
      · simp [h3, rmeasure]

/-- a request dispatched after `shutdown()` is the only way the exception handler is involved, and it ends the reader. -/
theorem c20a_exc_only_after_shutdown (h : Reach (init hnd failAt closes inbound peerFault) s) :
    (s.excRep ≤ 1) ∧ (0 < s.excRep → s.poolShut = true ∧ (s.r = .exc ∨ s.r = .done)) := by
  exact ⟨(inv_reach h).c.exc1, (inv_reach h).c.exc⟩

set_option linter.unnecessarySimpa false in
theorem lines_prefix_takeWhile (l : List Nat) (t : List Msg) :
    l.map Msg.line <+: (l.map Msg.line ++ t).takeWhile (fun m => m != Msg.pill) := by
  induction l with
  | nil => simp
  | cons x xs ih => simpa using ih

/-- **Nothing enqueued behind a stop pill is ever written**: at every moment what has been written is a prefix of what was
    enqueued before the first `close()` put its pill — the writer never overtakes the pill, whatever tasks and adapter threads
    go on enqueueing afterwards, and whether or not a write fails. -/
theorem c20a_nothing_after_pill (h : Reach (init hnd failAt closes inbound peerFault) s) :
    s.wrote.map Msg.line <+: s.enq.takeWhile (fun m => m != Msg.pill) := by
  have hf := c20a_fifo h
  cases hw : s.w with
  | get => rw [hw] at hf; simp only at hf; rw [← hf]; exact lines_prefix_takeWhile _ _
  | send n => rw [hw] at hf; simp only at hf; rw [← hf]; exact lines_prefix_takeWhile _ _
  | done =>
    rw [hw] at hf; simp only at hf
    rcases hf with hf | ⟨⟨n, hf⟩, _⟩
    · rw [← hf]; exact lines_prefix_takeWhile _ _
    · rw [← hf]; exact lines_prefix_takeWhile _ _

-- non-vacuity (tests, labelled as such): the reader blocked in recv while the application closes twice; nothing reported
example : (run (init .absent none 2 [[.init, .task]] false)
    [.rd, .rd, .rd, .rd, .wr, .wr, .rd, .app, .app, .wr, .wr, .tenq, .tfin, .wr, .app, .app, .app, .app, .rd,
     .app, .app, .app, .app, .app, .app]).map (fun s => (s.app, s.r, s.w, s.ioRep, s.exited, s.sockClosed, s.wrote, s.fin))
    = some (12, .done, .done, [], false, true, [0, 1], 1) := by rfl
-- a peer failure before the close is reported (handler returns False: no exit), the later close stays silent
example : (run (init .no none 1 [] true) [.rd, .rd, .app, .app, .wr, .wr, .wr, .app, .app, .app, .app]).map
    (fun s => (s.ioRep, s.exited, s.sockClosed)) = some ([⟨.reader, false, false, true⟩], false, true) := by rfl
-- a request dispatched after shutdown: exception report, reader ends
example : (run (init .yes none 1 [[.task]] false) [.rd, .app, .app, .wr, .wr, .wr, .app, .app, .rd, .rd, .rd]).map
    (fun s => (s.excRep, s.r, s.ioRep)) = some (1, .done, []) := by rfl

end Ari.AppClose
