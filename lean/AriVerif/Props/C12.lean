import AriVerif.KeepAlive
/-!
# C12 — keepalive negotiation: a positive Proxy hint is always honoured (1 s floor)

Stated over `Ari.effective`, which is composed of definitions *generated from server.py on every
run* (`Gen.useHint`, `Gen.configuredMs`, `Gen.initialKeepAlive`, `Gen.changeKeepAlive`), for every
configured value and every hint in `Rat` (all fractions, negatives, zero).
-/
namespace Ari

/-- the specification, written from the property text (seconds). -/
def specInterval (keepAlive : Option Rat) (hint : Option Rat) : Rat :=
  let floor (h : Rat) : Rat := (max h 1000) / 1000
  match hint with
  | none => (match keepAlive with | none => 1 | some k => max 0 k)          -- configured stands (1 s if none)
  | some h =>
    if h ≤ 0 then (match keepAlive with | none => 10 | some k => max 0 k)   -- changes nothing
    else match keepAlive with
      | none => if h < 10000 then floor h else 10                           -- stricter than default 10 s
      | some k => if 0 < k then (if h < k * 1000 then floor h else k)       -- stricter than configured
                  else floor h                                              -- configured off: hint forces them on

/-- **C12 (the whole rule).** For every configuration and every hint, the interval in force (both the
    published property and the writer's wait) is the specified one. -/
theorem c12_rule (ka hint : Option Rat) :
    effective ka hint = (specInterval ka hint, specInterval ka hint) := by
  unfold effective specInterval Gen.useHint Gen.configuredMs Gen.initialKeepAlive Gen.changeKeepAlive
  cases ka <;> cases hint <;> simp only [] <;> grind

/-- **C12 (no hint).** -/
theorem c12_no_hint (ka : Option Rat) :
    (effective ka none).2 = (match ka with | none => 1 | some k => max 0 k) := by
  rw [c12_rule]; rfl

/-- **C12 (non-positive hint changes nothing).** -/
theorem c12_nonpositive (ka : Option Rat) (h : Rat) (hh : h ≤ 0) :
    effective ka (some h) = (Gen.initialKeepAlive ka, Gen.initialKeepAlive ka) := by
  rw [c12_rule]
  unfold specInterval Gen.initialKeepAlive
  cases ka <;> simp only [] <;> grind

/-- **C12 (a positive hint is always honoured).** Whenever the Proxy Adapter asks for a positive
    interval, keepalives are enabled afterwards (the writer takes the timed wait) and the interval in
    force never exceeds `max(hint, 1 s)` — even if keepalives were configured off. -/
theorem c12_honoured (ka : Option Rat) (h : Rat) (hh : 0 < h) :
    0 < (effective ka (some h)).2 ∧ (effective ka (some h)).2 * 1000 ≤ max h 1000 ∧
    Gen.senderTimed (effective ka (some h)).2 = true ∧
    (effective ka (some h)).1 = (effective ka (some h)).2 := by
  rw [c12_rule]
  unfold specInterval Gen.senderTimed
  cases ka <;> simp only [] <;> grind

-- non-vacuity / concrete instances (tests, labelled as such)
example : (effective (some 0) (some 300)).2 = 1 := by rw [c12_rule]; decide +kernel
example : (effective none (some 2500)).2 = 5/2 := by rw [c12_rule]; decide +kernel
example : (effective (some 5) (some 7000)).2 = 5 := by rw [c12_rule]; decide +kernel

end Ari
