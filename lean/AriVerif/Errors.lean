import AriVerif.Codec
import AriVerif.Py.Text
import AriVerif.Gen.Exc
/-
  Errors.lean — model of protocol._append_exceptions / _handle_exception over the *generated*
  tables (Gen.excMap, Gen.parents, Gen.designated).
-/
namespace Ari

/-- an exception instance as the error writers see it. -/
structure Exc where
  /-- class name followed by its superclasses, nearest first (`type(e).__mro__` names). -/
  mro : List String
  /-- `str(e)` -/
  msg : String
  /-- `client_error_code` (CreditsError / ConflictingSessionError) -/
  code : Int := 0
  /-- `client_user_msg` -/
  userMsg : Option String := none
  /-- `conflicting_session_id` -/
  sessionId : Option String := none
deriving DecidableEq, Repr

def lookup {β} (k : String) : List (String × β) → Option β
  | [] => none
  | (a, b) :: rest => if a = k then some b else lookup k rest

/-- MRO of a library class from the generated `parents` table (fuel = table length). -/
def mroOf (cls : String) : List String :=
  go Gen.parents.length cls
where
  go : Nat → String → List String
    | 0, c => [c]
    | n + 1, c => match lookup c Gen.parents with
      | some p => c :: go n p
      | none => [c]

/-- `_append_exceptions(response, error, subtype)`. -/
def appendExceptions (response : String) (e : Exc) (subtype : Bool) : String :=
  let code : Option Char := if subtype then lookup (e.mro.headD "") Gen.excMap else none
  let response := if code.isSome then response else response ++ "|"
  let tokens : List String := (match code with | some c => [String.singleton c] | none => [])
    ++ [encodeString (some e.msg)]
    ++ (if code = some 'C' ∨ code = some 'X' then [pyStrInt e.code, encodeString e.userMsg] else [])
    ++ (if code = some 'X' then [encodeString e.sessionId] else [])
  response ++ joinBar tokens

/-- `_handle_exception(exception, method, *excepted_errors)`: the `except excepted_errors` clause
    matches iff some class of the MRO is designated. -/
def handleException (e : Exc) (response : String) (designated : List String) : String :=
  appendExceptions response e (e.mro.any (designated.contains ·))

/-- designated classes of a wire method (generated). -/
def designatedOf (m : String) : List String :=
  match Gen.designated.find? (·.1 = m) with
  | some (_, _, cls) => cls
  | none => []

/-- the error reply body of wire method `m` (`<m>|E…`). -/
def writeError (m : String) (e : Exc) : String :=
  handleException e (joinBar [m, "E"]) (designatedOf m)

/-- subtype code the error reply of `m` carries for class MRO `mro`. -/
def subtypeCode (m : String) (mro : List String) : Option Char :=
  if mro.any ((designatedOf m).contains ·) then lookup (mro.headD "") Gen.excMap else none

end Ari
