/-
  Codec.lean — model of `lightstreamer_adapter.protocol.encode_string / decode_string`
  (urllib.parse.quote_plus / unquote_plus over UTF-8), core Lean only.

  Python `str` (without lone surrogates)  = Lean `String`
  Python `bytes`                          = `List UInt8`
-/
namespace Ari

abbrev Bytes := List UInt8

/-- UTF-8 bytes of a string (`s.encode('utf-8')`). -/
def utf8 (s : String) : Bytes := s.toByteArray.data.toList

/-- strict UTF-8 decoding (`bytes.decode('utf-8')`, `none` = UnicodeDecodeError). -/
def fromUtf8? (bs : Bytes) : Option String := String.fromUTF8? ⟨bs.toArray⟩

/-- upper-case hex digit of a nibble (quote uses `'%{:02X}'`). -/
def hexU (n : Nat) : Char :=
  if n < 10 then Char.ofNat (48 + n) else Char.ofNat (55 + n)

/-- value of a hex digit, either case (`_hextobyte` table of urllib). -/
def hexVal? (c : Char) : Option Nat :=
  let n := c.toNat
  if 48 ≤ n ∧ n ≤ 57 then some (n - 48)
  else if 65 ≤ n ∧ n ≤ 70 then some (n - 55)
  else if 97 ≤ n ∧ n ≤ 102 then some (n - 87)
  else none

/-- `_ALWAYS_SAFE` of urllib.parse: letters, digits and `_.-~`. -/
def unreserved (b : UInt8) : Bool :=
  let n := b.toNat
  (65 ≤ n && n ≤ 90) || (97 ≤ n && n ≤ 122) || (48 ≤ n && n ≤ 57) ||
  n == 95 || n == 46 || n == 45 || n == 126

/-- quote_plus of one byte. -/
def encByte (b : UInt8) : List Char :=
  if unreserved b then [Char.ofNat b.toNat]
  else if b.toNat == 32 then ['+']
  else ['%', hexU (b.toNat / 16), hexU (b.toNat % 16)]

/-- `urllib.parse.quote_plus` on bytes (and on `str` through UTF-8). -/
def quotePlus (bs : Bytes) : List Char := bs.flatMap encByte

/-- `unquote_plus` then `unquote_to_bytes` on an ASCII token: `+` → space, `%hh` → byte
    (either hex case), a `%` not followed by two hex digits stays a literal `%`, any other
    character is itself (its UTF-8 bytes). -/
def unq : List Char → Bytes
  | [] => []
  | c :: rest =>
    if c = '+' then 32 :: unq rest
    else if c = '%' then
      match rest with
      | h1 :: h2 :: rest' =>
        match hexVal? h1, hexVal? h2 with
        | some a, some b => UInt8.ofNat (a * 16 + b) :: unq rest'
        | _, _ => 37 :: unq (h1 :: h2 :: rest')
      | [h1] => 37 :: unq [h1]
      | [] => [37]
    else String.utf8EncodeChar c ++ unq rest
termination_by l => l.length

/-- Result of `decode_string`: Python never fails (it substitutes U+FFFD); the model says
    `invalid` exactly there. -/
inductive Dec where
  | val (v : Option String)
  | invalid
deriving DecidableEq, Repr

/-- `protocol.encode_string` on `None | str`. -/
def encodeString : Option String → String
  | none => "#"
  | some s => if s = "" then "$" else String.ofList (quotePlus (utf8 s))

/-- `protocol.decode_string`. -/
def decodeString (t : String) : Dec :=
  if t = "#" then .val none
  else if t = "$" then .val (some "")
  else match fromUtf8? (unq t.toList) with
    | some s => .val (some s)
    | none => .invalid

/-- characters allowed in a text token. -/
def tokenChar (c : Char) : Bool :=
  let n := c.toNat
  (65 ≤ n && n ≤ 90) || (97 ≤ n && n ≤ 122) || (48 ≤ n && n ≤ 57) ||
  n == 95 || n == 46 || n == 45 || n == 126 || n == 43 || n == 37

end Ari
