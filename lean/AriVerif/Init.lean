import AriVerif.Meta
import AriVerif.KeepAlive
import AriVerif.Gen.Version
/-
  Init.lean — model of Server._on_init (hand-written composition of the *generated* version
  functions `Gen.prologue / metaSupported / dataSupported / epilogue` and the keepalive pieces).
-/
namespace Ari

inductive Kind | dataK | metaK
deriving DecidableEq, Repr

def Kind.method : Kind → String
  | .dataK => "DPI" | .metaK => "MPI"

/-- agreed (advertised) version; `none` = the request is refused. -/
def negotiate (k : Kind) (pv : Option String) : Option String :=
  (Gen.prologue pv).bind fun v =>
    match k with
    | .metaK => Gen.metaSupported v Gen.maxVersion
    | .dataK => Gen.dataSupported v Gen.maxVersion

abbrev PDict := List (Val × Val)

def pdGet (d : PDict) (k : Val) : Option Val := (d.find? (·.1 == k)).map (·.2)
def pdErase (d : PDict) (k : Val) : PDict := d.filter (·.1 != k)
/-- `d.update(e)`: existing keys keep their position and take the new value, new keys are appended. -/
def pdUpdate (d e : PDict) : PDict := dictOf (d ++ e)

def ariVersionKey : Val := .str (some "ARI.version")
def keepaliveKey : Val := .str (some "keepalive_hint.millis")

structure InitIn where
  kind : Kind
  /-- decoded pairs of the init request, in request order -/
  pairs : List (Val × Val)
  /-- `adapter_params` (`None` or a dict) -/
  localParams : Option PDict
  configFile : Option String
  closeBefore : Bool
  /-- constructor argument `keep_alive` -/
  keepAlive : Option Rat
  /-- numeric value of the hint token, as `float()` reads it (supplied by the environment) -/
  hintValue : Option Rat
  /-- outcome of `adapter.initialize`, then of `adapter.set_listener` (consulted only if called) -/
  initOutcome : Outcome
  listenerOutcome : Outcome

structure InitOut where
  /-- arguments `adapter.initialize` received (`none` = not called) -/
  initArgs : Option (PDict × Option String)
  listenerCalled : Bool
  /-- reply body; a version refusal is a generic error whose message is not modelled: `<M>|E|*` -/
  reply : String
  closeExpected : Bool
  /-- keepalive interval in force afterwards (config value, writer value), seconds -/
  keepAlive : Rat × Rat

def asVersion : Option Val → Option String
  | some (.str (some v)) => some v
  | _ => none

def onInit (i : InitIn) : InitOut :=
  let m := i.kind.method
  let parsed := dictOf i.pairs
  let pv := asVersion (pdGet parsed ariVersionKey)
  let hintPresent := match pdGet parsed keepaliveKey with
    | some (.str (some _)) => true
    | _ => false
  let parsed := pdErase (pdErase parsed ariVersionKey) keepaliveKey
  let ka := effective i.keepAlive (if hintPresent then i.hintValue else none)
  match negotiate i.kind pv with
  | none => ⟨none, false, joinBar [m, "E", "*"], i.closeBefore, ka⟩
  | some adv =>
    let args := match i.localParams with
      | some p => pdUpdate parsed p
      | none => parsed
    match i.initOutcome with
    | .raise e => ⟨some (args, i.configFile), false, writeError m e, i.closeBefore, ka⟩
    | .ret _ =>
      let failed : Option Exc := if i.kind = .dataK then
          (match i.listenerOutcome with | .raise e => some e | .ret _ => none) else none
      match failed with
      | some e => ⟨some (args, i.configFile), true, writeError m e, i.closeBefore, ka⟩
      | none =>
        let (close, ver) := Gen.epilogue adv i.closeBefore
        ⟨some (args, i.configFile), i.kind = .dataK, writeInitOk m ver, close, ka⟩

end Ari
