import AriVerif.Py.Value
import AriVerif.Py.Text
import AriVerif.Errors
/-
  Replies.lean — model of every writer: protocol.encode_* , data_protocol.write_* / _encode_value,
  metadata_protocol.write_* , protocol._write_init / write_credentials.
-/
namespace Ari

/-- what the real writer raises: the library's protocol error, or a `TypeError`/`AttributeError`
    escaping because a *container* has the wrong shape (DESIGN I-5). -/
inductive WErr | remoting | pyType
deriving DecidableEq, Repr

abbrev W := Except WErr

/-- `encode_string` on an arbitrary value (text slots accept `str` and, as the repository's tests
    fix, `bytes`). -/
def encStr : PyVal → W String
  | .none => .ok "#"
  | .str s => .ok (encodeString (some s))
  | .bytes b => .ok (if b.isEmpty then "$" else String.ofList (quotePlus b))
  | _ => .error .remoting

def encBool : PyVal → W String
  | .bool b => .ok (if b then "1" else "0")
  | _ => .error .remoting

def encInt : PyVal → W String
  | .int i => .ok (pyStrInt i)
  | _ => .error .remoting

def encDouble : PyVal → W String
  | .float r _ => .ok r
  | _ => .error .remoting

/-- `encode_modes`. -/
def encModes (v : PyVal) : W String :=
  match v with
  | .none => .ok "#"
  | .list xs =>
    if xs.isEmpty then .ok "$" else
    xs.foldlM (fun acc x => match x with
      | .mode c => .ok (acc ++ String.singleton c)
      | _ => .error .pyType) ""
  | v => if v.truthy then .error .pyType else .ok "$"

/-- base64 alphabet. -/
def b64Char (n : Nat) : Char :=
  if n < 26 then Char.ofNat (65 + n)
  else if n < 52 then Char.ofNat (71 + n)
  else if n < 62 then Char.ofNat (n - 4)
  else if n = 62 then '+' else '/'

/-- `base64.b64encode`. -/
def b64encode : Bytes → List Char
  | [] => []
  | [a] =>
    let n := a.toNat
    [b64Char (n / 4), b64Char (n % 4 * 16), '=', '=']
  | [a, b] =>
    let n := a.toNat; let m := b.toNat
    [b64Char (n / 4), b64Char (n % 4 * 16 + m / 16), b64Char (m % 16 * 4), '=']
  | a :: b :: c :: rest =>
    let n := a.toNat; let m := b.toNat; let k := c.toNat
    b64Char (n / 4) :: b64Char (n % 4 * 16 + m / 16) :: b64Char (m % 16 * 4 + k / 64) :: b64Char (k % 64)
      :: b64encode rest

def encBytes64 : PyVal → W String
  | .bytes b => .ok (String.ofList (b64encode b))
  | _ => .error .remoting

/-- `data_protocol._encode_value`: the two tokens `S|<text>` or `Y|<base64>`. -/
def encodeValue : PyVal → W String
  | .none => .ok "S|#"
  | .str s => .ok ("S|" ++ encodeString (some s))
  | .bytes b => (encBytes64 (.bytes b)).map ("Y|" ++ ·)
  | _ => .error .remoting

/-- event map argument of `update`: a dict (ordered pairs), `None`, or something else. -/
inductive EvMap
  | none
  | dict (kvs : List (PyVal × PyVal))
  | other (truthy : Bool)

def writeUpdateMap (item reqId snap : PyVal) (ev : EvMap) : W String := do
  let i ← encStr item
  let r ← encStr reqId
  let b ← encBool snap
  let head := joinBar ["UD3", "S", i, "S", r, "B", b]
  match ev with
  | .none => .ok head
  | .other t => if t then .error .pyType else .ok head
  | .dict [] => .ok head
  | .dict kvs => do
    let toks ← kvs.mapM fun (k, v) => do
      let f ← encStr k
      let x ← encodeValue v
      .ok (joinBar ["S", f, x])
    .ok (head ++ "|" ++ joinBar toks)

def writeEos (item reqId : PyVal) : W String := do
  let i ← encStr item
  let r ← encStr reqId
  .ok (joinBar ["EOS", "S", i, "S", r])

def writeCls (item reqId : PyVal) : W String := do
  let i ← encStr item
  let r ← encStr reqId
  .ok (joinBar ["CLS", "S", i, "S", r])

/-- `write_failure(exception)` with `msg = str(exception)`. -/
def writeFailure (msg : String) : String := joinBar ["FAL", "E", encodeString (some msg)]

/-- iteration of a value used as a list of names (`for x in items`). -/
def iterNames : PyVal → W (List PyVal)
  | .list xs => .ok xs
  | .str s => .ok (s.toList.map fun c => .str (String.singleton c))
  | .bytes b => .ok (b.map fun x => .int x.toNat)
  | _ => .error .pyType

/-- `write_get_items` / `write_get_schema` (method `GIS` / `GSC`), success form. -/
def writeNames (m : String) (items : PyVal) : W String :=
  if !items.truthy then .ok m else do
    let xs ← iterNames items
    let toks ← xs.mapM encStr
    .ok (m ++ "|S|" ++ String.intercalate "|S|" toks)

/-- one per-item record of GIT / GUI: (int slot, float slot, mode list). -/
structure ItemData where
  n : PyVal
  f : PyVal
  modes : PyVal

/-- `write_get_item_data` / `write_get_user_item_data` (method `GIT` / `GUI`), success form. -/
def writeItemData (m : String) (items : List ItemData) : W String :=
  if items.isEmpty then .ok m else do
    let toks ← items.mapM fun d => do
      let a ← encInt d.n
      let b ← encDouble d.f
      let c ← encModes d.modes
      .ok (joinBar ["I", a, "D", b, "M", c])
    .ok (m ++ "|" ++ joinBar toks)

/-- `write_notiy_user` (method `NUS` / `NUA`), success form. -/
def writeNotifyUser (m : String) (bw wtn : PyVal) : W String := do
  let a ← encDouble bw
  let b ← encBool wtn
  .ok (joinBar [m, "D", a, "B", b])

/-- the void success reply `<M>|V`. -/
def writeVoid (m : String) : String := joinBar [m, "V"]

/-- `_write_init` success form: `proxy_parameters` = the `ARI.version` value, if any. -/
def writeInitOk (m : String) (ariVersion : Option String) : String :=
  match ariVersion with
  | some v => joinBar [m, "S", "ARI.version", "S", encodeString (some v)]
  | none => writeVoid m

/-- `write_credentials(username, password)` (well-typed: `None | str`). -/
def writeCredentials (user password : Option String) : String :=
  let ps : List String :=
    (match user with | some u => ["user", encodeString (some u)] | none => []) ++
    (match password with | some p => ["password", encodeString (some p)] | none => []) ++
    ["enableClosePacket", encodeString (some "true"), "SDK", encodeString (some "Python Adapter SDK")]
  "RAC|S|" ++ String.intercalate "|S|" ps

end Ari
