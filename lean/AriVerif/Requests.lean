import AriVerif.Wire
/-
  Requests.lean — the 18 request layouts as data (`Schema`) and one generic decoder.
  Model of data_protocol.read_init/read_sub/read_usub and metadata_protocol.read_* (NUS … MDC).
-/
namespace Ari

inductive Ty | S | I | M | P
deriving DecidableEq, Repr

def Ty.marker : Ty → Char
  | .S => 'S' | .I => 'I' | .M => 'M' | .P => 'P'

inductive Tail | none | map | seq | tables
deriving DecidableEq, Repr

structure Schema where
  method : String
  fixed : List Ty
  tail : Tail
deriving DecidableEq, Repr

/-- field types of one table descriptor in NNT / NTC (`_read_table(chunk, 0)`, 14 tokens). -/
def tableTys : List Ty := [.I, .M, .S, .S, .I, .I, .S]

inductive TailVal
  | none
  | map (kvs : List (Val × Val))
  | seq (xs : List Val)
  | tables (ts : List (List Val))
deriving DecidableEq, Repr

structure Args where
  fixed : List Val
  tail : TailVal
deriving DecidableEq, Repr

/-- the 18 request layouts. -/
def schemas : List Schema := [
  ⟨"DPI", [], .map⟩,
  ⟨"SUB", [.S], .none⟩,
  ⟨"USB", [.S], .none⟩,
  ⟨"MPI", [], .map⟩,
  ⟨"NUS", [.S, .S], .map⟩,                              -- user, password, headers
  ⟨"NUA", [.S, .S, .S], .map⟩,                          -- user, password, principal, headers
  ⟨"NNS", [.S, .S], .map⟩,                              -- user, session, context
  ⟨"NSC", [.S], .none⟩,                                 -- session
  ⟨"GIS", [.S, .S, .S], .none⟩,                         -- user, group, session
  ⟨"GSC", [.S, .S, .S, .S], .none⟩,                     -- user, group, schema, session
  ⟨"GIT", [], .seq⟩,                                    -- items
  ⟨"GUI", [.S], .seq⟩,                                  -- user, items
  ⟨"NUM", [.S, .S, .S], .none⟩,                         -- user, session, message
  ⟨"NNT", [.S, .S], .tables⟩,                           -- user, session, tables
  ⟨"NTC", [.S], .tables⟩,                               -- session, tables
  ⟨"MDA", [.S, .S, .P, .S, .S], .none⟩,                 -- user, session, platform, appId, token
  ⟨"MSA", [.S, .S, .I, .M, .S, .S, .I, .I, .P, .S, .S, .S, .S], .none⟩,
      -- user, session, (winIndex, mode, group, schema, min, max), (platform, appId, token), trigger, format
  ⟨"MDC", [.S, .S, .P, .S, .S, .S], .none⟩              -- user, session, platform, appId, token, newToken
]

def schemaOf (m : String) : Option Schema := schemas.find? (·.method = m)

/-- typed fields at consecutive two-token slots starting at token offset `off`. -/
def decodeFixed (toks : List String) : List Ty → Nat → R (List Val)
  | [], _ => .ok []
  | ty :: tys, off => do
    let v ← read toks ty.marker off
    let vs ← decodeFixed toks tys (off + 2)
    .ok (v :: vs)

/-- `_read_tables(data, offset)`: chunks of 14 tokens, each read with `_read_table(chunk, 0)`. -/
def decodeTables (fuel : Nat) (data : List String) : R (List (List Val)) :=
  match fuel, data with
  | _, [] => .ok []
  | 0, _ => .error ()
  | fuel + 1, data => do
    let t ← decodeFixed (data.take 14) tableTys 0
    let ts ← decodeTables fuel (data.drop 14)
    .ok (t :: ts)

def decodeWith (σ : Schema) (toks : List String) : R Args := do
  let fixed ← decodeFixed toks σ.fixed 0
  let off := 2 * σ.fixed.length
  let tail ← match σ.tail with
    | .none => pure TailVal.none
    | .map => (readMap toks off).map TailVal.map
    | .seq => (readSeq toks off).map TailVal.seq
    | .tables => (decodeTables toks.length (toks.drop off)).map TailVal.tables
  .ok ⟨fixed, tail⟩

/-- error of a request decoder = `RemotingException("… while parsing <method> request")`. -/
structure ParseError where
  method : String
deriving DecidableEq, Repr

/-- `read_*` of the given protocol method; `none` = not one of the 18 request methods. -/
def decodeRequest (m : String) (toks : List String) : Option (Except ParseError Args) :=
  (schemaOf m).map fun σ =>
    match decodeWith σ toks with
    | .ok a => .ok a
    | .error () => .error ⟨m⟩

end Ari
