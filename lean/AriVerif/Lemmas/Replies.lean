import AriVerif.Replies
import AriVerif.Spec.Reply
import AriVerif.Lemmas.Wire
import AriVerif.Props.C08
/-! helper lemmas for C07 (writers, base64, joinBar) -/
namespace Ari

/-! ## `joinBar` algebra -/

theorem joinBarL_cons_cons (a b : List Char) (rest : List (List Char)) :
    joinBarL (a :: b :: rest) = a ++ '|' :: joinBarL (b :: rest) := by
  rw [joinBarL]
  simp

theorem joinBarL_append (as bs : List (List Char)) (ha : as ≠ []) (hb : bs ≠ []) :
    joinBarL (as ++ bs) = joinBarL as ++ '|' :: joinBarL bs := by
  induction as with
  | nil => exact absurd rfl ha
  | cons a as ih =>
    cases as with
    | nil =>
      cases bs with
      | nil => exact absurd rfl hb
      | cons b bs => simp [joinBarL]
    | cons a' as =>
      rw [List.cons_append, List.cons_append, joinBarL_cons_cons, ← List.cons_append, ih (by simp),
        joinBarL_cons_cons]
      simp

theorem joinBar_toList (ts : List String) : (joinBar ts).toList = joinBarL (ts.map String.toList) := by
  unfold joinBar; rw [String.toList_ofList]

theorem joinBar_append (as bs : List String) (ha : as ≠ []) (hb : bs ≠ []) :
    joinBar (as ++ bs) = joinBar as ++ "|" ++ joinBar bs := by
  rw [← String.toList_inj]
  simp only [String.toList_append, joinBar_toList, List.map_append]
  rw [joinBarL_append _ _ (by simpa using ha) (by simpa using hb)]
  simp

/-- the `|S|`-intercalation of the names writers is `joinBar` of the `S`-marked tokens. -/
theorem joinBarL_S (m : List Char) (t : List Char) (toks : List (List Char)) :
    joinBarL (m :: (t :: toks).flatMap (fun t => [['S'], t]))
      = m ++ ['|', 'S', '|'] ++ List.intercalate ['|', 'S', '|'] (t :: toks) := by
  induction toks generalizing m t with
  | nil => simp [joinBarL, List.intercalate]
  | cons t' rest ih =>
    have := ih t t'
    simp only [List.flatMap_cons] at this ⊢
    simp only [List.cons_append, List.nil_append] at this ⊢
    rw [joinBarL_cons_cons, joinBarL_cons_cons, this]
    simp [List.intercalate]

theorem joinBar_S (m : String) (toks : List String) (hne : toks ≠ []) :
    m ++ "|S|" ++ String.intercalate "|S|" toks = joinBar (m :: toks.flatMap fun t => ["S", t]) := by
  cases toks with
  | nil => exact absurd rfl hne
  | cons t toks =>
    rw [← String.toList_inj]
    simp only [String.toList_append, String.toList_intercalate, joinBar_toList]
    have h2 : List.map String.toList ((t :: toks).flatMap fun t => ["S", t])
        = (t.toList :: toks.map String.toList).flatMap (fun t => [['S'], t]) := by
      rw [List.map_flatMap, ← List.map_cons, List.flatMap_map]
      rfl
    simp only [List.map_cons]
    rw [h2, joinBarL_S]
    simp

theorem joinBar_nil : joinBar [] = "" := by
  unfold joinBar; simp [joinBarL]

theorem joinBar_map_joinBar (tss : List (List String)) (h : ∀ ts ∈ tss, ts ≠ []) :
    joinBar (tss.map joinBar) = joinBar tss.flatten := by
  induction tss with
  | nil => rfl
  | cons ts tss ih =>
    cases tss with
    | nil => simp [joinBar_singleton]
    | cons ts' rest =>
      have ih' := ih (fun u hu => h u (List.mem_cons_of_mem _ hu))
      have h' := h ts' (by simp)
      rw [List.map_cons, List.map_cons, joinBar_cons_cons, ← List.map_cons, ih',
        List.flatten_cons (l := ts),
        joinBar_append _ _ (h ts (List.mem_cons_self ..)) (by simp [h'])]

theorem joinBar_line {α} (hd : List String) (xs : List α) (f : α → List String) (hhd : hd ≠ [])
    (hne : xs ≠ []) (hf : ∀ x ∈ xs, f x ≠ []) :
    joinBar hd ++ "|" ++ joinBar (xs.map fun x => joinBar (f x)) = joinBar (hd ++ xs.flatMap f) := by
  have h1 : (xs.map fun x => joinBar (f x)) = (xs.map f).map joinBar := by simp
  rw [h1, joinBar_map_joinBar, joinBar_append _ _ hhd, List.flatMap_def]
  · cases xs with
    | nil => exact absurd rfl hne
    | cons x xs =>
      have := hf x (List.mem_cons_self ..)
      simp [this]
  · intro ts hts
    simp only [List.mem_map] at hts
    obtain ⟨x, hx, rfl⟩ := hts
    exact hf x hx

/-! ## `Except` plumbing -/

theorem mapM_ok {ε α β} (f : α → Except ε β) (g : α → β) (xs : List α)
    (h : ∀ x ∈ xs, f x = .ok (g x)) : xs.mapM f = .ok (xs.map g) := by
  induction xs with
  | nil => rfl
  | cons x xs ih =>
    rw [List.mapM_cons, h x (List.mem_cons_self ..), ih (fun y hy => h y (List.mem_cons_of_mem _ hy))]
    rfl

theorem mapM_map_ok {ε α β γ} (f : β → Except ε γ) (h : α → β) (g : α → γ) (xs : List α)
    (H : ∀ x ∈ xs, f (h x) = .ok (g x)) : (xs.map h).mapM f = .ok (xs.map g) := by
  induction xs with
  | nil => rfl
  | cons x xs ih =>
    rw [List.map_cons, List.mapM_cons, H x (List.mem_cons_self ..),
      ih (fun y hy => H y (List.mem_cons_of_mem _ hy))]
    rfl

theorem mapM_error {ε α β} (f : α → Except ε β) (e : ε) (xs : List α) (x : α) (hx : x ∈ xs)
    (hbad : f x = .error e) (h : ∀ y ∈ xs, (∃ b, f y = .ok b) ∨ f y = .error e) :
    xs.mapM f = .error e := by
  induction xs with
  | nil => simp at hx
  | cons y ys ih =>
    rw [List.mapM_cons]
    rcases h y (List.mem_cons_self ..) with ⟨b, hb⟩ | hb
    · rcases List.mem_cons.mp hx with rfl | hx'
      · rw [hb] at hbad; cases hbad
      · rw [hb, ih hx' (fun z hz => h z (List.mem_cons_of_mem _ hz))]; rfl
    · rw [hb]; rfl

/-! ## base64 -/

open Spec in
theorem b64Val_b64Char : ∀ n, n < 64 → b64Val? (b64Char n) = some n := by decide +kernel
theorem b64Char_ne_pad : ∀ n, n < 64 → b64Char n ≠ '=' := by decide +kernel

theorem u8_ofNat_eq (a : UInt8) (k : Nat) (h : k = a.toNat) : UInt8.ofNat k = a := by
  subst h; exact UInt8.ofNat_toNat

open Spec in
theorem b64decode_b64encode (b : Bytes) : b64decode (b64encode b) = some b := by
  fun_induction b64encode b with
  | case1 => rfl
  | case2 a n =>
    have hn : n < 256 := a.toNat_lt
    rw [b64decode.eq_2, b64Val_b64Char _ (by omega), b64Val_b64Char _ (by omega)]
    simp only [Option.bind_eq_bind, Option.bind_some, Option.some.injEq, List.cons.injEq, and_true]
    exact u8_ofNat_eq _ _ (by omega)
  | case3 a b n m =>
    have hn : n < 256 := a.toNat_lt
    have hm : m < 256 := b.toNat_lt
    rw [b64decode.eq_3 _ _ _ (b64Char_ne_pad _ (by omega)), b64Val_b64Char _ (by omega),
      b64Val_b64Char _ (by omega), b64Val_b64Char _ (by omega)]
    simp only [Option.bind_eq_bind, Option.bind_some, Option.some.injEq, List.cons.injEq, and_true]
    exact ⟨u8_ofNat_eq _ _ (by omega), u8_ofNat_eq _ _ (by omega)⟩
  | case4 a b c rest n m k ih =>
    have hn : n < 256 := a.toNat_lt
    have hm : m < 256 := b.toNat_lt
    have hk : k < 256 := c.toNat_lt
    have hd := b64Char_ne_pad (k % 64) (by omega)
    rw [b64decode.eq_4 _ _ _ _ _ (fun _ h _ => hd h) (fun h _ => hd h), b64Val_b64Char _ (by omega),
      b64Val_b64Char _ (by omega), b64Val_b64Char _ (by omega), b64Val_b64Char _ (by omega), ih]
    simp only [Option.bind_eq_bind, Option.bind_some, Option.some.injEq, List.cons.injEq, and_true]
    exact ⟨u8_ofNat_eq _ _ (by omega), u8_ofNat_eq _ _ (by omega), u8_ofNat_eq _ _ (by omega)⟩

theorem b64Char_clean : ∀ n, n < 64 → b64Char n ≠ '|' ∧ b64Char n ≠ '\r' ∧ b64Char n ≠ '\n' := by
  decide +kernel

theorem b64encode_clean (b : Bytes) : ∀ c ∈ b64encode b, c ≠ '|' ∧ c ≠ '\r' ∧ c ≠ '\n' := by
  fun_induction b64encode b with
  | case1 => simp
  | case2 a n =>
    have hn : n < 256 := a.toNat_lt
    intro c hc
    simp only [List.mem_cons, List.not_mem_nil, or_false] at hc
    rcases hc with rfl | rfl | rfl | rfl
    · exact b64Char_clean _ (by omega)
    · exact b64Char_clean _ (by omega)
    · decide
    · decide
  | case3 a b n m =>
    have hn : n < 256 := a.toNat_lt
    have hm : m < 256 := b.toNat_lt
    intro c hc
    simp only [List.mem_cons, List.not_mem_nil, or_false] at hc
    rcases hc with rfl | rfl | rfl | rfl
    · exact b64Char_clean _ (by omega)
    · exact b64Char_clean _ (by omega)
    · exact b64Char_clean _ (by omega)
    · decide
  | case4 a b c rest n m k ih =>
    have hn : n < 256 := a.toNat_lt
    have hm : m < 256 := b.toNat_lt
    have hk : k < 256 := c.toNat_lt
    intro c hc
    simp only [List.mem_cons] at hc
    rcases hc with rfl | rfl | rfl | rfl | hc
    · exact b64Char_clean _ (by omega)
    · exact b64Char_clean _ (by omega)
    · exact b64Char_clean _ (by omega)
    · exact b64Char_clean _ (by omega)
    · exact ih _ hc

end Ari
