import AriVerif.Wire
import AriVerif.Lemmas.Codec
/-! helper lemmas about splitBarL / joinBarL / rstripL / pyInt? / read (shared by C06, C07, C09) -/
namespace Ari

end Ari
