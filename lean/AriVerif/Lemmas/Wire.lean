import AriVerif.Wire
import AriVerif.Requests
import AriVerif.Spec.Ari
import AriVerif.Lemmas.Codec
import AriVerif.Props.C05
/-! helper lemmas about splitBarL / joinBarL / rstripL / pyInt? / read (shared by C06, C07, C09) -/
namespace Ari

/-! ## `Except` plumbing -/

theorem R.bind_ok {α β} (a : α) (f : α → R β) : (Except.ok a >>= f) = f a := rfl
theorem R.bind_error {α β} (f : α → R β) : ((Except.error () : R α) >>= f) = .error () := rfl

theorem R.eq_error_or {α} (x : R α) : x = .error () ∨ ∃ a, x = .ok a := by
  cases x with
  | error e => left; rfl
  | ok a => right; exact ⟨a, rfl⟩

/-! ## `read` -/

theorem read_error_of_marker (toks : List String) (c : Char) (i : Nat)
    (h : toks[i]? ≠ some (String.singleton c)) : read toks c i = .error () := by
  unfold read readToken
  cases ht : toks[i]? with
  | none => rfl
  | some t =>
    have hne : t ≠ String.singleton c := by intro e; apply h; rw [ht, e]
    simp only [R.bind_ok, if_neg hne]

theorem read_error_of_short (toks : List String) (c : Char) (i : Nat)
    (h : toks.length < i + 2) : read toks c i = .error () := by
  unfold read readToken
  cases ht : toks[i]? with
  | none => rfl
  | some t =>
    have h1 : toks[i + 1]? = none := by
      rw [List.getElem?_eq_none_iff]; omega
    simp only [R.bind_ok, h1]
    split <;> rfl

theorem read_I_error (toks : List String) (i : Nat) (t : String)
    (ht : toks[i + 1]? = some t) (h : pyInt? t = none) : read toks 'I' i = .error () := by
  unfold read readToken
  cases h0 : toks[i]? with
  | none => rfl
  | some t0 =>
    simp only [R.bind_ok, ht]
    split
    · simp [h]
    · rfl

theorem read_M_error (toks : List String) (i : Nat) (t : String)
    (ht : toks[i + 1]? = some t) (h : decodeModes t = .error ()) : read toks 'M' i = .error () := by
  unfold read readToken
  cases h0 : toks[i]? with
  | none => rfl
  | some t0 =>
    simp only [R.bind_ok, ht]
    split
    · simp [h, Except.map]
    · rfl

theorem read_P_error (toks : List String) (i : Nat) (t : String)
    (ht : toks[i + 1]? = some t) (h : decodePlat t = .error ()) : read toks 'P' i = .error () := by
  unfold read readToken
  cases h0 : toks[i]? with
  | none => rfl
  | some t0 =>
    simp only [R.bind_ok, ht]
    split
    · simp [h, Except.map]
    · rfl

/-- an error at any fixed field makes `decodeFixed` fail. -/
theorem decodeFixed_error (toks : List String) (tys : List Ty) (off i : Nat) (ty : Ty)
    (hi : tys[i]? = some ty) (h : read toks ty.marker (off + 2 * i) = .error ()) :
    decodeFixed toks tys off = .error () := by
  induction tys generalizing off i with
  | nil => simp at hi
  | cons ty0 tys ih =>
    unfold decodeFixed
    cases i with
    | zero =>
      simp at hi; subst hi
      simp at h
      rw [h]; rfl
    | succ i =>
      simp at hi
      have := ih (off + 2) i hi (by rw [← h]; congr 1; omega)
      rw [this]
      rcases R.eq_error_or (read toks ty0.marker off) with h1 | ⟨a, h1⟩ <;> rw [h1] <;> rfl

theorem decodeFixed_short (toks : List String) (tys : List Ty) (off : Nat) (hne : tys ≠ [])
    (h : toks.length < off + 2 * tys.length) : decodeFixed toks tys off = .error () := by
  have hlen : 0 < tys.length := List.length_pos_iff.mpr hne
  have hi : tys[tys.length - 1]? = some (tys[tys.length - 1]'(by omega)) := by
    rw [List.getElem?_eq_getElem]
  exact decodeFixed_error toks tys off _ _ hi (read_error_of_short _ _ _ (by omega))

theorem decodeWith_error_of_fixed (σ : Schema) (toks : List String)
    (h : decodeFixed toks σ.fixed 0 = .error ()) : decodeWith σ toks = .error () := by
  unfold decodeWith
  rw [h]; rfl

theorem readSeqL_odd (data : List String) (h : data.length % 2 = 1) : readSeqL data = .error () := by
  fun_induction readSeqL data with
  | case1 => simp at h
  | case2 t => rw [read_error_of_short _ _ _ (by simp)]; rfl
  | case3 a b rest ih =>
    have := ih (by simp at h; omega)
    rw [this]
    rcases R.eq_error_or (read (a :: b :: rest) 'S' 0) with h1 | ⟨a, h1⟩ <;> rw [h1] <;> rfl

theorem decodeTables_partial (fuel : Nat) (data : List String) (h : data.length % 14 ≠ 0) :
    decodeTables fuel data = .error () := by
  induction fuel generalizing data with
  | zero =>
    cases data with
    | nil => simp at h
    | cons a b => rfl
  | succ fuel ih =>
    cases data with
    | nil => simp at h
    | cons a b =>
      unfold decodeTables
      by_cases hl : (a :: b).length < 14
      · rw [decodeFixed_short _ _ _ (by decide) (by simp [tableTys]; simp at hl; omega)]; rfl
      · rw [ih _ (by simp only [List.length_drop, List.length_cons] at hl h ⊢; omega)]
        rcases R.eq_error_or (decodeFixed (List.take 14 (a :: b)) tableTys 0) with h1 | ⟨a, h1⟩ <;> rw [h1] <;> rfl

/-! ## `rstripL` -/

theorem rstripL_spaces (l : List Char) (h : ∀ c ∈ l, isSpace c = true) : rstripL l = [] := by
  induction l with
  | nil => rfl
  | cons c cs ih =>
    simp only [rstripL, ih (fun c hc => h c (List.mem_cons_of_mem _ hc)), h c (List.mem_cons_self ..), if_true]

theorem rstripL_append_spaces (l sp : List Char) (h : ∀ c ∈ sp, isSpace c = true) :
    rstripL (l ++ sp) = rstripL l := by
  induction l with
  | nil => simp [rstripL_spaces sp h, rstripL]
  | cons c cs ih => simp only [List.cons_append, rstripL, ih]

theorem rstripL_nospace (l : List Char) (h : ∀ c ∈ l, isSpace c = false) : rstripL l = l := by
  induction l with
  | nil => rfl
  | cons c cs ih =>
    simp only [rstripL, ih (fun c hc => h c (List.mem_cons_of_mem _ hc))]
    cases cs with
    | nil => simp [h c (List.mem_cons_self ..)]
    | cons d ds => rfl

/-! ## `splitBarL` / `joinBarL` -/

theorem splitBarL_ne_nil (l : List Char) : splitBarL l ≠ [] := by
  induction l with
  | nil => simp [splitBarL]
  | cons c cs ih =>
    unfold splitBarL
    split
    · simp
    · split <;> simp

theorem splitBarL_nobar (t : List Char) (h : ∀ c ∈ t, c ≠ '|') : splitBarL t = [t] := by
  induction t with
  | nil => rfl
  | cons c cs ih =>
    unfold splitBarL
    rw [if_neg (h c (List.mem_cons_self ..)), ih (fun c hc => h c (List.mem_cons_of_mem _ hc))]

theorem splitBarL_append_bar (t rest : List Char) (h : ∀ c ∈ t, c ≠ '|') :
    splitBarL (t ++ '|' :: rest) = t :: splitBarL rest := by
  induction t with
  | nil => simp [splitBarL]
  | cons c cs ih =>
    rw [List.cons_append, splitBarL, if_neg (h c (List.mem_cons_self ..)), ih (fun c hc => h c (List.mem_cons_of_mem _ hc))]

theorem splitBarL_joinBarL (ts : List (List Char)) (hne : ts ≠ [])
    (h : ∀ t ∈ ts, ∀ c ∈ t, c ≠ '|') : splitBarL (joinBarL ts) = ts := by
  induction ts with
  | nil => exact absurd rfl hne
  | cons t ts ih =>
    cases ts with
    | nil => exact splitBarL_nobar t (h t (List.mem_cons_self ..))
    | cons t' ts =>
      rw [joinBarL, splitBarL_append_bar _ _ (h t (List.mem_cons_self ..)),
        ih (by simp) (fun t ht => h t (List.mem_cons_of_mem _ ht))]
      simp

theorem joinBarL_mem (ts : List (List Char)) (c : Char) (hc : c ∈ joinBarL ts) :
    c = '|' ∨ ∃ t ∈ ts, c ∈ t := by
  induction ts with
  | nil => simp [joinBarL] at hc
  | cons t ts ih =>
    cases ts with
    | nil => right; exact ⟨t, List.mem_cons_self .., hc⟩
    | cons t' ts =>
      rw [joinBarL] at hc
      simp only [List.mem_append, List.mem_cons] at hc
      rcases hc with hc | hc | hc
      · right; exact ⟨t, List.mem_cons_self .., hc⟩
      · left; exact hc
      · rcases ih hc with h | ⟨u, hu, hcu⟩
        · left; exact h
        · right; exact ⟨u, List.mem_cons_of_mem _ hu, hcu⟩
      · simp

/-! ## string level -/

theorem rstrip_nospace (t : String) (h : ∀ c ∈ t.toList, isSpace c = false) : rstrip t = t := by
  unfold rstrip
  rw [rstripL_nospace _ h, String.ofList_toList]

theorem splitBar_joinBar (ts : List String) (hne : ts ≠ [])
    (h : ∀ t ∈ ts, ∀ c ∈ t.toList, c ≠ '|') : splitBar (joinBar ts) = ts := by
  unfold splitBar joinBar
  rw [String.toList_ofList, splitBarL_joinBarL]
  · simp [List.map_map]
  · simpa using hne
  · intro t ht
    simp only [List.mem_map] at ht
    obtain ⟨s, hs, rfl⟩ := ht
    exact h s hs

theorem rstrip_joinBar_append (ts : List String) (term : String)
    (hterm : ∀ c ∈ term.toList, isSpace c = true)
    (h : ∀ t ∈ ts, ∀ c ∈ t.toList, isSpace c = false) :
    rstrip (joinBar ts ++ term) = joinBar ts := by
  unfold rstrip joinBar
  rw [String.toList_append, String.toList_ofList, rstripL_append_spaces _ _ hterm, rstripL_nospace]
  intro c hc
  rcases joinBarL_mem _ c hc with rfl | ⟨t, ht, hct⟩
  · decide
  · simp only [List.mem_map] at ht
    obtain ⟨s, hs, rfl⟩ := ht
    exact h s hs c hct

theorem parseRequest_joinBar (id m : String) (toks : List String) (term : String)
    (hterm : ∀ c ∈ term.toList, isSpace c = true)
    (h : ∀ t ∈ id :: m :: toks, t ≠ "" ∧ ∀ c ∈ t.toList, c ≠ '|' ∧ isSpace c = false) :
    parseRequest (joinBar (id :: m :: toks) ++ term) = some (id, m, toks) := by
  unfold parseRequest
  rw [rstrip_joinBar_append _ _ hterm (fun t ht c hc => ((h t ht).2 c hc).2),
    splitBar_joinBar _ (by simp) (fun t ht c hc => ((h t ht).2 c hc).1)]
  have hf : (id :: m :: toks).filter (fun t => rstrip t != "") = id :: m :: toks := by
    rw [List.filter_eq_self]
    intro t ht
    rw [rstrip_nospace t (fun c hc => ((h t ht).2 c hc).2)]
    simpa using (h t ht).1
  simp only [hf]

/-! ## clean characters -/

theorem tokenChar_clean (c : Char) (h : tokenChar c = true) : c ≠ '|' ∧ isSpace c = false := by
  constructor
  · intro e; subst e; revert h; decide
  · unfold tokenChar at h
    unfold isSpace
    simp only [Bool.or_eq_true, Bool.and_eq_true, decide_eq_true_eq, beq_iff_eq] at h
    simp only [Bool.or_eq_false_iff, Bool.and_eq_false_iff, decide_eq_false_iff_not]
    omega

theorem isDigit_clean (c : Char) (h : c.isDigit = true) : c ≠ '|' ∧ isSpace c = false := by
  constructor
  · intro e; subst e; revert h; decide
  · unfold Char.isDigit at h
    unfold isSpace
    simp only [Bool.and_eq_true, decide_eq_true_eq] at h
    have h1 : 48 ≤ c.toNat := by
      have := h.1; rw [ge_iff_le, UInt32.le_iff_toNat_le] at this; simpa using this
    simp only [Bool.or_eq_false_iff, Bool.and_eq_false_iff, decide_eq_false_iff_not]
    have h2 : c.toNat ≤ 57 := by
      have := h.2; rw [UInt32.le_iff_toNat_le] at this; simpa using this
    omega


/-! ## decimal round trip -/

theorem digitsVal?_go_digits (l : List Char) (acc : Nat) (h : ∀ c ∈ l, c.isDigit = true) :
    digitsVal?.go acc l = some (Nat.ofDigitChars 10 l acc) := by
  induction l generalizing acc with
  | nil => simp [digitsVal?.go, Nat.ofDigitChars_nil]
  | cons d rest ih =>
    have hd := h d (List.mem_cons_self ..)
    have hne : d ≠ '_' := by intro e; subst e; revert hd; decide
    unfold digitsVal?.go
    split
    · rename_i heq; simp at heq
    · rename_i heq; simp at heq; exact absurd heq.1 hne
    · rename_i d' rest' _ heq
      simp only [List.cons.injEq] at heq
      obtain ⟨rfl, rfl⟩ := heq
      rw [if_pos hd, ih _ (fun c hc => h c (List.mem_cons_of_mem _ hc)), Nat.ofDigitChars_cons]
      congr 2
      simp [Nat.mul_comm]

theorem digitsVal?_digits (l : List Char) (hne : l ≠ []) (h : ∀ c ∈ l, c.isDigit = true) :
    digitsVal? l = some (Nat.ofDigitChars 10 l 0) := by
  cases l with
  | nil => exact absurd rfl hne
  | cons c cs =>
    rw [digitsVal?, if_pos (h c (List.mem_cons_self ..)), digitsVal?_go_digits _ _ (fun c hc => h c (List.mem_cons_of_mem _ hc)),
      Nat.ofDigitChars_cons]
    simp

theorem digitsVal?_toDigits (n : Nat) : digitsVal? (Nat.toDigits 10 n) = some n := by
  rw [digitsVal?_digits _ Nat.toDigits_ne_nil
    (fun c hc => Nat.isDigit_of_mem_toDigits (by decide) (by decide) hc), Nat.ofDigitChars_ten_toDigits]


theorem pyStrInt_toList (i : Int) : (pyStrInt i).toList =
    if 0 ≤ i then Nat.toDigits 10 i.toNat else '-' :: Nat.toDigits 10 (-i).toNat := by
  unfold pyStrInt
  rw [Int.toString_eq_repr, Int.repr_eq_if]
  split <;> simp [Nat.toList_repr, String.toList_append]

theorem lstripL_head (c : Char) (cs : List Char) (h : isSpace c = false) :
    lstripL (c :: cs) = c :: cs := by
  simp [lstripL, h]

theorem toDigits_isDigit (n : Nat) : ∀ c ∈ Nat.toDigits 10 n, c.isDigit = true :=
  fun _ hc => Nat.isDigit_of_mem_toDigits (by decide) (by decide) hc

/-- `int(str(i)) == i`. -/
theorem pyInt?_pyStrInt (i : Int) : pyInt? (pyStrInt i) = some i := by
  unfold pyInt?
  rw [pyStrInt_toList]
  by_cases h : 0 ≤ i
  · rw [if_pos h]
    have hd := toDigits_isDigit i.toNat
    have hv := digitsVal?_toDigits i.toNat
    generalize Nat.toDigits 10 i.toNat = ds at hd hv
    cases ds with
    | nil => simp [digitsVal?] at hv
    | cons d rest =>
      have hd0 := hd d (List.mem_cons_self ..)
      rw [rstripL_nospace _ (fun c hc => (isDigit_clean c (hd c hc)).2),
        lstripL_head _ _ (isDigit_clean d hd0).2]
      split
      · rename_i heq; simp only [List.cons.injEq] at heq; rw [heq.1] at hd0; exact absurd hd0 (by decide)
      · rename_i heq; simp only [List.cons.injEq] at heq; rw [heq.1] at hd0; exact absurd hd0 (by decide)
      · rw [hv]; simp; omega
  · rw [if_neg h]
    have hd := toDigits_isDigit (-i).toNat
    have hv := digitsVal?_toDigits (-i).toNat
    generalize Nat.toDigits 10 (-i).toNat = ds at hd hv
    have hclean : ∀ c ∈ '-' :: ds, isSpace c = false := by
      intro c hc
      rcases List.mem_cons.mp hc with rfl | hc
      · decide
      · exact (isDigit_clean c (hd c hc)).2
    rw [rstripL_nospace _ hclean, lstripL_head _ _ (by decide)]
    simp only [hv, Option.map_some, Option.some.injEq, Int.ofNat_eq_natCast]
    omega

theorem pyStrInt_clean (i : Int) :
    pyStrInt i ≠ "" ∧ ∀ c ∈ (pyStrInt i).toList, c ≠ '|' ∧ isSpace c = false := by
  constructor
  · intro e
    have := congrArg String.toList e
    rw [pyStrInt_toList] at this
    split at this
    · simp at this
    · simp at this
  · rw [pyStrInt_toList]
    intro c hc
    split at hc
    · exact isDigit_clean c (toDigits_isDigit _ c hc)
    · rcases List.mem_cons.mp hc with rfl | hc
      · decide
      · exact isDigit_clean c (toDigits_isDigit _ c hc)

/-! ## encoder tokens are clean -/

/-- the property of a wire token the tokeniser relies on. -/
def Clean (t : String) : Prop := t ≠ "" ∧ ∀ c ∈ t.toList, c ≠ '|' ∧ isSpace c = false

theorem encodeString_clean (v : Option String) : Clean (encodeString v) := by
  match v with
  | none => simp [encodeString, Clean]; decide
  | some s =>
    by_cases h : s = ""
    · subst h; simp [encodeString, Clean]; decide
    · obtain ⟨h1, h2⟩ := c05_charset s h
      refine ⟨fun e => h1 (by rw [e]; rfl), fun c hc => tokenChar_clean c (h2 c hc)⟩

theorem marker_clean (ty : Ty) : Clean (String.singleton ty.marker) := by
  cases ty <;> simp [Clean, Ty.marker] <;> decide

theorem encVal_clean (ty : Ty) (v : Val) (t : String) (h : Spec.encVal ty v = some t) : Clean t := by
  cases ty <;> cases v <;> simp only [Spec.encVal, Option.some.injEq, reduceCtorEq] at h
  · subst h; exact encodeString_clean _
  · subst h; exact pyStrInt_clean _
  · rename_i m
    cases m with
    | none => simp at h; subst h; simp [Clean]; decide
    | some m => simp at h; subst h; cases m <;> simp [Clean, Mode.code] <;> decide
  · rename_i p
    match p with
    | none => simp at h; subst h; simp [Clean]; decide
    | some .empty => simp at h; subst h; simp [Clean]; decide
    | some .apple => simp at h; subst h; simp [Clean]; decide
    | some .google => simp at h; subst h; simp [Clean]; decide


theorem encField_eq (ty : Ty) (v : Val) (a : List String) (h : Spec.encField ty v = some a) :
    ∃ t, Spec.encVal ty v = some t ∧ a = [String.singleton ty.marker, t] := by
  unfold Spec.encField at h
  cases hv : Spec.encVal ty v with
  | none => simp [hv] at h
  | some t => simp [hv] at h; exact ⟨t, rfl, h.symm⟩

theorem encField_clean (ty : Ty) (v : Val) (a : List String) (h : Spec.encField ty v = some a) :
    ∀ t ∈ a, Clean t := by
  obtain ⟨t, hv, rfl⟩ := encField_eq ty v a h
  intro u hu
  simp only [List.mem_cons, List.not_mem_nil, or_false] at hu
  rcases hu with rfl | rfl
  · exact marker_clean ty
  · exact encVal_clean ty v _ hv

theorem encFields_clean (tys : List Ty) (vs : List Val) (enc : List String)
    (h : Spec.encFields tys vs = some enc) : ∀ t ∈ enc, Clean t := by
  induction tys generalizing vs enc with
  | nil =>
    cases vs with
    | nil => simp [Spec.encFields] at h; subst h; simp
    | cons v vs => simp [Spec.encFields] at h
  | cons ty tys ih =>
    cases vs with
    | nil => simp [Spec.encFields] at h
    | cons v vs =>
      simp only [Spec.encFields, Option.bind_eq_bind, Option.bind_eq_some_iff, Option.some.injEq] at h
      obtain ⟨a, ha, b, hb, rfl⟩ := h
      intro t ht
      rcases List.mem_append.mp ht with ht | ht
      · exact encField_clean ty v a ha t ht
      · exact ih vs b hb t ht

theorem encPairs_clean (kvs : List (Val × Val)) (enc : List String)
    (h : Spec.encPairs kvs = some enc) : ∀ t ∈ enc, Clean t := by
  induction kvs generalizing enc with
  | nil => simp [Spec.encPairs] at h; subst h; simp
  | cons kv rest ih =>
    obtain ⟨k, v⟩ := kv
    simp only [Spec.encPairs, Option.bind_eq_bind, Option.bind_eq_some_iff, Option.some.injEq] at h
    obtain ⟨a, ha, b, hb, c, hc, rfl⟩ := h
    intro t ht
    simp only [List.mem_append] at ht
    rcases ht with (ht | ht) | ht
    · exact encField_clean _ _ a ha t ht
    · exact encField_clean _ _ b hb t ht
    · exact ih c hc t ht

theorem encSeq_clean (xs : List Val) (enc : List String)
    (h : Spec.encSeq xs = some enc) : ∀ t ∈ enc, Clean t := by
  induction xs generalizing enc with
  | nil => simp [Spec.encSeq] at h; subst h; simp
  | cons v rest ih =>
    simp only [Spec.encSeq, Option.bind_eq_bind, Option.bind_eq_some_iff, Option.some.injEq] at h
    obtain ⟨a, ha, c, hc, rfl⟩ := h
    intro t ht
    rcases List.mem_append.mp ht with ht | ht
    · exact encField_clean _ _ a ha t ht
    · exact ih c hc t ht

theorem encTables_clean (ts : List (List Val)) (enc : List String)
    (h : Spec.encTables ts = some enc) : ∀ t ∈ enc, Clean t := by
  induction ts generalizing enc with
  | nil => simp [Spec.encTables] at h; subst h; simp
  | cons row rest ih =>
    simp only [Spec.encTables, Option.bind_eq_bind, Option.bind_eq_some_iff, Option.some.injEq] at h
    obtain ⟨a, ha, c, hc, rfl⟩ := h
    intro t ht
    rcases List.mem_append.mp ht with ht | ht
    · exact encFields_clean _ _ a ha t ht
    · exact ih c hc t ht

theorem encTail_clean (tl : Tail) (tv : TailVal) (enc : List String)
    (h : Spec.encTail tl tv = some enc) : ∀ t ∈ enc, Clean t := by
  cases tl <;> cases tv <;> simp only [Spec.encTail, reduceCtorEq, Option.some.injEq] at h
  · subst h; simp
  · exact encPairs_clean _ _ h
  · exact encSeq_clean _ _ h
  · exact encTables_clean _ _ h

theorem encodeArgs_eq (σ : Schema) (a : Args) (toks : List String)
    (h : Spec.encodeArgs σ a = some toks) :
    ∃ f t, Spec.encFields σ.fixed a.fixed = some f ∧ Spec.encTail σ.tail a.tail = some t ∧
      toks = f ++ t := by
  simp only [Spec.encodeArgs, Option.bind_eq_bind, Option.bind_eq_some_iff, Option.some.injEq] at h
  obtain ⟨f, hf, t, ht, rfl⟩ := h
  exact ⟨f, t, hf, ht, rfl⟩

theorem encodeArgs_clean (σ : Schema) (a : Args) (toks : List String)
    (h : Spec.encodeArgs σ a = some toks) : ∀ t ∈ toks, Clean t := by
  obtain ⟨f, t, hf, ht, rfl⟩ := encodeArgs_eq σ a toks h
  intro u hu
  rcases List.mem_append.mp hu with hu | hu
  · exact encFields_clean _ _ f hf u hu
  · exact encTail_clean _ _ t ht u hu

/-! ## decoding inverts encoding -/

theorem decodeModes_code (m : Mode) : decodeModes (String.singleton m.code) = .ok (some m) := by
  cases m <;> decide

theorem read_encVal (toks : List String) (i : Nat) (ty : Ty) (v : Val) (t : String)
    (h0 : toks[i]? = some (String.singleton ty.marker)) (h1 : toks[i + 1]? = some t)
    (h : Spec.encVal ty v = some t) : read toks ty.marker i = .ok v := by
  unfold read readToken
  simp only [h0, h1, R.bind_ok, if_true]
  cases ty <;> cases v <;> simp only [Spec.encVal, Option.some.injEq, reduceCtorEq] at h
  · subst h; simp [Ty.marker, c05_roundtrip]
  · subst h; simp [Ty.marker, pyInt?_pyStrInt]
  · rename_i m
    cases m with
    | none => simp at h; subst h; simp [Ty.marker]; decide
    | some m => simp at h; subst h; simp [Ty.marker, decodeModes_code, Except.map]
  · rename_i p
    match p with
    | none => simp at h; subst h; simp [Ty.marker]; decide
    | some .empty => simp at h; subst h; simp [Ty.marker]; decide
    | some .apple => simp at h; subst h; simp [Ty.marker]; decide
    | some .google => simp at h; subst h; simp [Ty.marker]; decide

theorem read_encField (pre post a : List String) (ty : Ty) (v : Val)
    (h : Spec.encField ty v = some a) :
    read (pre ++ a ++ post) ty.marker pre.length = .ok v := by
  obtain ⟨t, hv, rfl⟩ := encField_eq ty v a h
  apply read_encVal _ _ _ _ t _ _ hv
  · simp
  · simp

theorem encFields_length (tys : List Ty) (vs : List Val) (enc : List String)
    (h : Spec.encFields tys vs = some enc) : enc.length = 2 * tys.length := by
  induction tys generalizing vs enc with
  | nil =>
    cases vs with
    | nil => simp [Spec.encFields] at h; subst h; simp
    | cons v vs => simp [Spec.encFields] at h
  | cons ty tys ih =>
    cases vs with
    | nil => simp [Spec.encFields] at h
    | cons v vs =>
      simp only [Spec.encFields, Option.bind_eq_bind, Option.bind_eq_some_iff, Option.some.injEq] at h
      obtain ⟨a, ha, b, hb, rfl⟩ := h
      obtain ⟨t, _, rfl⟩ := encField_eq ty v a ha
      have := ih vs b hb
      simp only [List.length_append, List.length_cons, List.length_nil, this]
      omega

theorem decodeFixed_encFields (pre post : List String) (tys : List Ty) (vs : List Val)
    (enc : List String) (h : Spec.encFields tys vs = some enc) :
    decodeFixed (pre ++ enc ++ post) tys pre.length = .ok vs := by
  induction tys generalizing vs enc pre with
  | nil =>
    cases vs with
    | nil => rfl
    | cons v vs => simp [Spec.encFields] at h
  | cons ty tys ih =>
    cases vs with
    | nil => simp [Spec.encFields] at h
    | cons v vs =>
      simp only [Spec.encFields, Option.bind_eq_bind, Option.bind_eq_some_iff, Option.some.injEq] at h
      obtain ⟨a, ha, b, hb, rfl⟩ := h
      unfold decodeFixed
      have h1 : read (pre ++ (a ++ b) ++ post) ty.marker pre.length = .ok v := by
        have := read_encField pre (b ++ post) a ty v ha
        simpa [List.append_assoc] using this
      have h2 : decodeFixed (pre ++ (a ++ b) ++ post) tys (pre.length + 2) = .ok vs := by
        obtain ⟨t, _, rfl⟩ := encField_eq ty v a ha
        have := ih (pre ++ [String.singleton ty.marker, t]) vs b hb
        simpa [List.append_assoc] using this
      rw [h1, h2]; rfl


theorem readPairs_encPairs (kvs : List (Val × Val)) (enc : List String)
    (h : Spec.encPairs kvs = some enc) : readPairs enc = .ok kvs ∧ enc.length % 2 = 0 := by
  induction kvs generalizing enc with
  | nil => simp [Spec.encPairs] at h; subst h; exact ⟨rfl, rfl⟩
  | cons kv rest ih =>
    obtain ⟨k, v⟩ := kv
    simp only [Spec.encPairs, Option.bind_eq_bind, Option.bind_eq_some_iff, Option.some.injEq] at h
    obtain ⟨a, ha, b, hb, c, hc, rfl⟩ := h
    have hk : read (a ++ b ++ c) 'S' 0 = .ok k := by
      simpa [Ty.marker] using read_encField [] (b ++ c) a .S k ha
    have hv : read (a ++ b ++ c) 'S' a.length = .ok v := by
      simpa [Ty.marker] using read_encField a c b .S v hb
    obtain ⟨tk, _, rfl⟩ := encField_eq _ _ a ha
    obtain ⟨tv, _, rfl⟩ := encField_eq _ _ b hb
    obtain ⟨ih1, ih2⟩ := ih c hc
    simp only [List.cons_append, List.nil_append, List.length_cons, List.length_nil] at hk hv ⊢
    refine ⟨?_, by omega⟩
    rw [readPairs, hk, hv, ih1]; rfl

theorem readSeqL_encSeq (xs : List Val) (enc : List String)
    (h : Spec.encSeq xs = some enc) : readSeqL enc = .ok xs := by
  induction xs generalizing enc with
  | nil => simp [Spec.encSeq] at h; subst h; rfl
  | cons v rest ih =>
    simp only [Spec.encSeq, Option.bind_eq_bind, Option.bind_eq_some_iff, Option.some.injEq] at h
    obtain ⟨a, ha, c, hc, rfl⟩ := h
    have hk : read (a ++ c) 'S' 0 = .ok v := by
      simpa [Ty.marker] using read_encField [] c a .S v ha
    obtain ⟨tk, _, rfl⟩ := encField_eq _ _ a ha
    simp only [List.cons_append, List.nil_append] at hk ⊢
    rw [readSeqL, hk, ih c hc]; rfl

theorem decodeTables_encTables (ts : List (List Val)) (enc : List String) (fuel : Nat)
    (h : Spec.encTables ts = some enc) (hfuel : ts.length ≤ fuel) :
    decodeTables fuel enc = .ok ts ∧ enc.length = 14 * ts.length := by
  induction ts generalizing enc fuel with
  | nil => simp [Spec.encTables] at h; subst h; exact ⟨by unfold decodeTables; rfl, rfl⟩
  | cons row rest ih =>
    simp only [Spec.encTables, Option.bind_eq_bind, Option.bind_eq_some_iff, Option.some.injEq] at h
    obtain ⟨a, ha, c, hc, rfl⟩ := h
    have hlen : a.length = 14 := by rw [encFields_length _ _ _ ha]; rfl
    cases fuel with
    | zero => simp at hfuel
    | succ fuel =>
      obtain ⟨ih1, ih2⟩ := ih c fuel hc (by simpa using hfuel)
      refine ⟨?_, by simp only [List.length_append, List.length_cons, hlen, ih2]; omega⟩
      have hrow : decodeFixed a tableTys 0 = .ok row := by
        simpa using decodeFixed_encFields [] [] tableTys row a ha
      cases a with
      | nil => simp at hlen
      | cons x a' =>
        rw [List.cons_append, decodeTables]
        · have e1 : List.take 14 (x :: (a' ++ c)) = x :: a' := by
            rw [← List.cons_append, List.take_left' hlen]
          have e2 : List.drop 14 (x :: (a' ++ c)) = c := by
            rw [← List.cons_append, List.drop_left' hlen]
          rw [e1, e2, hrow, ih1]; rfl
        · simp


theorem decodeWith_encodeArgs (σ : Schema) (a : Args) (toks : List String)
    (h : Spec.encodeArgs σ a = some toks) : decodeWith σ toks = .ok a := by
  obtain ⟨f, t, hf, ht, rfl⟩ := encodeArgs_eq σ a toks h
  have hfl := encFields_length _ _ _ hf
  have h1 : decodeFixed (f ++ t) σ.fixed 0 = .ok a.fixed := by
    simpa using decodeFixed_encFields [] t _ _ f hf
  have hdrop : (f ++ t).drop (2 * σ.fixed.length) = t := by rw [← hfl]; simp
  obtain ⟨m, fx, tl⟩ := σ
  obtain ⟨afx, atl⟩ := a
  unfold decodeWith
  simp only at h1 hdrop ht ⊢
  rw [h1]
  cases tl <;> cases atl <;> simp only [Spec.encTail, reduceCtorEq, Option.some.injEq] at ht
  · rfl
  · rename_i kvs
    obtain ⟨h2, h3⟩ := readPairs_encPairs _ _ ht
    have : readMap (f ++ t) (2 * fx.length) = .ok kvs := by
      unfold readMap
      simp only [hdrop]
      rw [if_neg (by omega), h2]
    simp only [this]; rfl
  · rename_i xs
    have : readSeq (f ++ t) (2 * fx.length) = .ok xs := by
      unfold readSeq
      rw [hdrop, readSeqL_encSeq _ _ ht]
    simp only [this]; rfl
  · obtain ⟨h2, h3⟩ := decodeTables_encTables _ t (f ++ t).length ht
      (by have := (decodeTables_encTables _ t _ ht (Nat.le_refl _)).2; simp only [List.length_append]; omega)
    simp only [hdrop, h2]; rfl

end Ari
