import AriVerif.Codec
namespace Ari

/-- shape of the encoding of one byte, as a decidable check. -/
def shapeB (n : Nat) (cs : List Char) : Bool :=
  match cs with
  | [c] => (c != '+' && c != '%' && tokenChar c && String.utf8EncodeChar c == [UInt8.ofNat n])
           || (c == '+' && n == 32)
  | [p, h1, h2] =>
      p == '%' && tokenChar h1 && tokenChar h2 &&
      (match hexVal? h1, hexVal? h2 with
       | some a, some b => a * 16 + b == n
       | _, _ => false)
  | _ => false

theorem shapeB_all : ∀ n, n < 256 → shapeB n (encByte (UInt8.ofNat n)) = true := by
  decide +kernel

theorem unq_nil : unq [] = [] := by rw [unq.eq_def]

theorem unq_plus (rest : List Char) : unq ('+' :: rest) = 32 :: unq rest := by
  rw [unq.eq_def]; simp

theorem unq_lit (c : Char) (rest : List Char) (h1 : c ≠ '+') (h2 : c ≠ '%') :
    unq (c :: rest) = String.utf8EncodeChar c ++ unq rest := by
  rw [unq.eq_def]; simp [h1, h2]

theorem unq_pct (h1 h2 : Char) (a b : Nat) (rest : List Char)
    (ha : hexVal? h1 = some a) (hb : hexVal? h2 = some b) :
    unq ('%' :: h1 :: h2 :: rest) = UInt8.ofNat (a * 16 + b) :: unq rest := by
  rw [unq.eq_def]; simp [ha, hb]

theorem unq_encByte (b : UInt8) (rest : List Char) :
    unq (encByte b ++ rest) = b :: unq rest := by
  have h := shapeB_all b.toNat (by have := b.toNat_lt; omega)
  have hb : UInt8.ofNat b.toNat = b := by simp
  rw [hb] at h
  generalize encByte b = cs at h
  match cs, h with
  | [c], h =>
    simp only [shapeB, Bool.or_eq_true, Bool.and_eq_true, bne_iff_ne, ne_eq, beq_iff_eq] at h
    rcases h with ⟨⟨⟨h1, h2⟩, _⟩, h3⟩ | ⟨h1, h2⟩
    · rw [List.cons_append, List.nil_append, unq_lit c rest h1 h2, h3, hb]; rfl
    · subst h1
      have : b = 32 := by
        apply UInt8.toNat_inj.mp; simpa using h2
      rw [List.cons_append, List.nil_append, unq_plus, this]
  | [p, h1, h2], h =>
    simp only [shapeB, Bool.and_eq_true, beq_iff_eq] at h
    obtain ⟨⟨⟨hp, _⟩, _⟩, hm⟩ := h
    subst hp
    cases ha : hexVal? h1 <;> cases hb' : hexVal? h2 <;> simp [ha, hb'] at hm
    rename_i a b'
    have : UInt8.ofNat (a * 16 + b') = b := by rw [hm]; exact hb
    rw [List.cons_append, List.cons_append, List.cons_append, List.nil_append, unq_pct h1 h2 a b' rest ha hb', this]

theorem unq_quotePlus (bs : Bytes) : unq (quotePlus bs) = bs := by
  induction bs with
  | nil => simp [quotePlus, unq_nil]
  | cons b bs ih =>
    simp only [quotePlus, List.flatMap_cons] at *
    rw [unq_encByte, ih]

theorem encByte_tokenChar (b : UInt8) : ∀ c ∈ encByte b, tokenChar c = true := by
  have h := shapeB_all b.toNat (by have := b.toNat_lt; omega)
  have hb : UInt8.ofNat b.toNat = b := by simp
  rw [hb] at h
  generalize encByte b = cs at h
  match cs, h with
  | [c], h =>
    simp only [shapeB, Bool.or_eq_true, Bool.and_eq_true, bne_iff_ne, ne_eq, beq_iff_eq] at h
    rcases h with ⟨⟨⟨_, _⟩, h3⟩, _⟩ | ⟨h1, _⟩
    · simpa using h3
    · subst h1; simp [tokenChar]
  | [p, h1, h2], h =>
    simp only [shapeB, Bool.and_eq_true, beq_iff_eq] at h
    obtain ⟨⟨⟨hp, t1⟩, t2⟩, _⟩ := h
    subst hp
    intro c hc
    simp at hc
    rcases hc with rfl | rfl | rfl
    · simp [tokenChar]
    · exact t1
    · exact t2

theorem encByte_ne_nil (b : UInt8) : encByte b ≠ [] := by
  unfold encByte; split <;> (try split) <;> simp

theorem quotePlus_tokenChar (bs : Bytes) : ∀ c ∈ quotePlus bs, tokenChar c = true := by
  intro c hc
  simp only [quotePlus, List.mem_flatMap] at hc
  obtain ⟨b, _, hcb⟩ := hc
  exact encByte_tokenChar b c hcb

theorem quotePlus_ne_nil (bs : Bytes) (h : bs ≠ []) : quotePlus bs ≠ [] := by
  cases bs with
  | nil => exact absurd rfl h
  | cons b bs =>
    simp only [quotePlus, List.flatMap_cons]
    intro hh
    exact encByte_ne_nil b (List.append_eq_nil_iff.mp hh).1

end Ari
