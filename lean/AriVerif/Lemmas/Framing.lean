import AriVerif.Framing
/-!
  Lemmas about the framing model (`splitLinesAux`, `feedL`, `feedAllL`) on well-formed streams,
  used by `Props/C15.lean`.
-/
namespace Ari
namespace FramingLemmas

/-- break-free text (same body as `NoBreak` in `Props/C15.lean`). -/
def NoBrk (l : List Char) : Prop := ∀ c ∈ l, c ≠ '\r' ∧ isLineBreak c = false

/-- complete line (same body as `IsLine`). -/
def IsLn (l : List Char) : Prop := ∃ body, NoBrk body ∧ (l = body ++ ['\r', '\n'] ∨ l = body ++ ['\n'])

/-- admissible partial line: break-free, or break-free followed by a single CR. -/
def Adm (r : List Char) : Prop := NoBrk r ∨ ∃ body, NoBrk body ∧ r = body ++ ['\r']

/-! ## `splitLinesAux` -/

theorem aux_nil (cur : List Char) :
    splitLinesAux [] cur = if cur.isEmpty then [] else [cur.reverse] := by
  rw [splitLinesAux]

theorem aux_crlf (rest cur : List Char) :
    splitLinesAux ('\r' :: '\n' :: rest) cur = ('\n' :: '\r' :: cur).reverse :: splitLinesAux rest [] := by
  rw [splitLinesAux]

theorem aux_lf (rest cur : List Char) :
    splitLinesAux ('\n' :: rest) cur = ('\n' :: cur).reverse :: splitLinesAux rest [] := by
  rw [splitLinesAux.eq_3 _ _ _ (by intro _ h; exact absurd h (by decide))]
  simp [show isLineBreak '\n' = true by decide]

theorem aux_cr_end (cur : List Char) : splitLinesAux ['\r'] cur = [('\r' :: cur).reverse] := by
  rw [splitLinesAux.eq_3 _ _ _ (by intro _ _ h; cases h)]
  simp [aux_nil]

theorem aux_plain (c : Char) (hc : c ≠ '\r') (hb : isLineBreak c = false) (rest cur : List Char) :
    splitLinesAux (c :: rest) cur = splitLinesAux rest (c :: cur) := by
  rw [splitLinesAux.eq_3 _ _ _ (by intro _ h; exact absurd h hc)]
  simp [hc, hb]

theorem aux_nobreak (body : List Char) (h : NoBrk body) (rest cur : List Char) :
    splitLinesAux (body ++ rest) cur = splitLinesAux rest (body.reverse ++ cur) := by
  induction body generalizing cur with
  | nil => simp
  | cons c body ih =>
    have hc := h c (by simp)
    have hb : NoBrk body := fun d hd => h d (by simp [hd])
    rw [List.cons_append, aux_plain c hc.1 hc.2, ih hb]
    simp

/-! ## basic facts about the predicates -/

theorem NoBrk.nil : NoBrk [] := by intro c hc; cases hc

theorem Adm.nil : Adm [] := Or.inl NoBrk.nil

theorem NoBrk.left {x y : List Char} (h : NoBrk (x ++ y)) : NoBrk x :=
  fun c hc => h c (by simp [hc])

theorem NoBrk.lf_not_mem {l : List Char} (h : NoBrk l) : '\n' ∉ l := by
  intro hm
  have := (h _ hm).2
  exact absurd this (by decide)

theorem Adm.lf_not_mem {l : List Char} (h : Adm l) : '\n' ∉ l := by
  rcases h with h | ⟨body, hb, rfl⟩
  · exact h.lf_not_mem
  · intro hm
    rcases List.mem_append.1 hm with hm | hm
    · exact hb.lf_not_mem hm
    · simp at hm

theorem IsLn.lf_mem {l : List Char} (h : IsLn l) : '\n' ∈ l := by
  rcases h with ⟨body, _, rfl | rfl⟩ <;> simp

theorem Adm.getLast_ne {r : List Char} (h : Adm r) : r.getLast? ≠ some '\n' := by
  intro hl
  exact h.lf_not_mem (List.mem_of_getLast? hl)

theorem IsLn.getLast {l : List Char} (h : IsLn l) : l.getLast? = some '\n' := by
  rcases h with ⟨body, _, rfl | rfl⟩ <;> simp [List.getLast?_append]

/-- splitting off a last character. -/
theorem append_eq_concat {x y body : List Char} {c : Char} (h : x ++ y = body ++ [c]) :
    y = [] ∨ ∃ y', y = y' ++ [c] ∧ x ++ y' = body := by
  rcases List.eq_nil_or_concat y with rfl | ⟨y', d, rfl⟩
  · exact Or.inl rfl
  · right
    rw [List.concat_eq_append] at h ⊢
    rw [← List.append_assoc] at h
    have := List.append_inj' h rfl
    have hd : d = c := by simpa using this.2
    subst hd
    exact ⟨y', rfl, this.1⟩

theorem Adm.left {x y : List Char} (h : Adm (x ++ y)) : Adm x := by
  rcases h with h | ⟨body, hb, he⟩
  · exact Or.inl h.left
  · rcases append_eq_concat he with rfl | ⟨y', rfl, he'⟩
    · exact Or.inr ⟨body, hb, by simpa using he⟩
    · subst he'
      exact Or.inl hb.left

/-- a strict prefix of a complete line is an admissible partial line. -/
theorem IsLn.strict_prefix {x z : List Char} (h : IsLn (x ++ z)) (hz : z ≠ []) : Adm x := by
  rcases h with ⟨body, hb, he | he⟩
  · have he' : x ++ z = (body ++ ['\r']) ++ ['\n'] := by simpa using he
    rcases append_eq_concat he' with rfl | ⟨z', rfl, hz'⟩
    · exact absurd rfl hz
    · have : Adm (x ++ z') := hz' ▸ Or.inr ⟨body, hb, rfl⟩
      exact this.left
  · rcases append_eq_concat he with rfl | ⟨z', rfl, hz'⟩
    · exact absurd rfl hz
    · subst hz'
      exact Or.inl hb.left

/-! ## `splitLinesKeep` on a well-formed stream -/

theorem split_adm (r : List Char) (hr : Adm r) :
    splitLinesAux r [] = if r = [] then [] else [r] := by
  rcases hr with h | ⟨body, hb, rfl⟩
  · have := aux_nobreak r h [] []
    rw [List.append_nil] at this
    rw [this, aux_nil]
    by_cases hr : r = [] <;> simp [hr]
  · rw [aux_nobreak body hb, aux_cr_end]
    simp

theorem split_wf (lines : List (List Char)) (rem : List Char)
    (hl : ∀ l ∈ lines, IsLn l) (hr : Adm rem) :
    splitLinesKeep (lines.flatten ++ rem) = lines ++ (if rem = [] then [] else [rem]) := by
  unfold splitLinesKeep
  induction lines with
  | nil => simpa using split_adm rem hr
  | cons l ls ih =>
    have ih' := ih (fun l' hl' => hl l' (by simp [hl']))
    rcases hl l (by simp) with ⟨body, hb, rfl | rfl⟩
    · have : ((body ++ ['\r', '\n']) :: ls).flatten ++ rem
          = body ++ ('\r' :: '\n' :: (ls.flatten ++ rem)) := by simp
      rw [this, aux_nobreak body hb, aux_crlf, ih']
      simp
    · have : ((body ++ ['\n']) :: ls).flatten ++ rem
          = body ++ ('\n' :: (ls.flatten ++ rem)) := by simp
      rw [this, aux_nobreak body hb, aux_lf, ih']
      simp

/-! ## the fold of `feedL` -/

/-- the step function of the fold in `feedL`. -/
def step (acc : List (List Char) × List Char) (tok : List Char) : List (List Char) × List Char :=
  if tok.getLast? = some '\n' then (acc.1 ++ [tok], []) else (acc.1, tok)

theorem feedL_eq (b c : List Char) : feedL b c = (splitLinesKeep (b ++ c)).foldl step ([], []) := rfl

theorem fold_lines (lines : List (List Char)) (hl : ∀ l ∈ lines, IsLn l)
    (acc : List (List Char)) (buf : List Char) (hne : lines ≠ [] ∨ buf = []) :
    lines.foldl step (acc, buf) = (acc ++ lines, []) := by
  induction lines generalizing acc buf with
  | nil =>
    rcases hne with h | h
    · exact absurd rfl h
    · simp [h]
  | cons l ls ih =>
    have h1 : step (acc, buf) l = (acc ++ [l], []) := by
      simp [step, (hl l (by simp)).getLast]
    rw [List.foldl_cons, h1, ih (fun l' hl' => hl l' (by simp [hl'])) _ _ (Or.inr rfl)]
    simp

theorem feedL_wf (b c : List Char) (lines : List (List Char)) (rem : List Char)
    (hl : ∀ l ∈ lines, IsLn l) (hr : Adm rem) (h : b ++ c = lines.flatten ++ rem) :
    feedL b c = (lines, rem) := by
  rw [feedL_eq, h, split_wf lines rem hl hr, List.foldl_append,
    fold_lines lines hl [] [] (Or.inr rfl)]
  by_cases hrem : rem = []
  · simp [hrem]
  · simp [hrem, step, hr.getLast_ne]

/-! ## cutting a well-formed stream -/

theorem cut_wf (lines : List (List Char)) (rem : List Char)
    (hl : ∀ l ∈ lines, IsLn l) (hr : Adm rem) (x y : List Char)
    (h : x ++ y = lines.flatten ++ rem) :
    ∃ ls₁ ls₂ p, lines = ls₁ ++ ls₂ ∧ x = ls₁.flatten ++ p ∧ Adm p ∧ p ++ y = ls₂.flatten ++ rem := by
  induction lines generalizing x with
  | nil =>
    refine ⟨[], [], x, rfl, by simp, ?_, by simpa using h⟩
    have : x ++ y = rem := by simpa using h
    exact (this ▸ hr : Adm (x ++ y)).left
  | cons l ls ih =>
    have hls : ∀ l' ∈ ls, IsLn l' := fun l' hl' => hl l' (by simp [hl'])
    have hline := hl l (by simp)
    have h' : x ++ y = l ++ (ls.flatten ++ rem) := by simpa using h
    have key : ∀ x', x = l ++ x' → x' ++ y = ls.flatten ++ rem →
        ∃ ls₁ ls₂ p, l :: ls = ls₁ ++ ls₂ ∧ x = ls₁.flatten ++ p ∧ Adm p ∧
          p ++ y = ls₂.flatten ++ rem := by
      intro x' hx hx'
      obtain ⟨ls₁, ls₂, p, e1, e2, e3, e4⟩ := ih hls x' hx'
      exact ⟨l :: ls₁, ls₂, p, by simp [e1], by simp [hx, e2], e3, e4⟩
    rcases List.append_eq_append_iff.1 h' with ⟨a', ha1, ha2⟩ | ⟨c', hc1, hc2⟩
    · by_cases ha : a' = []
      · subst ha
        exact key [] (by simpa using ha1.symm) (by simpa using ha2)
      · refine ⟨[], l :: ls, x, rfl, by simp, ?_, h⟩
        exact (ha1 ▸ hline : IsLn (x ++ a')).strict_prefix ha
    · exact key c' hc1 hc2.symm

/-! ## the loop -/

theorem feedAll_wf (chunks : List (List Char)) (b : List Char) (lines : List (List Char))
    (rem : List Char) (hl : ∀ l ∈ lines, IsLn l) (hr : Adm rem) (hb : Adm b)
    (h : b ++ chunks.flatten = lines.flatten ++ rem) :
    feedAllL b chunks = (lines, rem) := by
  induction chunks generalizing b lines with
  | nil =>
    have hb' : b = lines.flatten ++ rem := by simpa using h
    cases lines with
    | nil => simp [feedAllL, hb']
    | cons l ls =>
      exfalso
      apply hb.lf_not_mem
      rw [hb']
      have := (hl l (by simp)).lf_mem
      simp [this]
  | cons c cs ih =>
    have h' : (b ++ c) ++ cs.flatten = lines.flatten ++ rem := by simpa using h
    obtain ⟨ls₁, ls₂, p, e1, e2, e3, e4⟩ := cut_wf lines rem hl hr (b ++ c) cs.flatten h'
    subst e1
    have h1 : feedL b c = (ls₁, p) :=
      feedL_wf b c ls₁ p (fun l hl' => hl l (by simp [hl'])) e3 e2
    have h2 : feedAllL p cs = (ls₂, rem) :=
      ih p ls₂ (fun l hl' => hl l (by simp [hl'])) e3 e4
    simp [feedAllL, h1, h2]

theorem feedAll_hom (b : List Char) (cs₁ cs₂ : List (List Char)) :
    feedAllL b (cs₁ ++ cs₂) =
      ((feedAllL b cs₁).1 ++ (feedAllL (feedAllL b cs₁).2 cs₂).1,
        (feedAllL (feedAllL b cs₁).2 cs₂).2) := by
  induction cs₁ generalizing b with
  | nil => simp [feedAllL]
  | cons c cs ih =>
    simp only [List.cons_append, feedAllL]
    rw [ih]
    simp

end FramingLemmas
end Ari
