import AriVerif.Sender
/-!
# Lemmas about the virtual-time writer model (`AriVerif.Sender`)

`Chain P ws wk l`: every record of `l` satisfies `P ws' wk' w`, where `(ws', wk')` is the (time, nextK) of
the record before it (`(ws, wk)` for the first one).  `lastT` / `lastK` give the (time, nextK) of the last
record (or the initial values for the empty list).
-/
namespace Ari

def lastT : Nat → List Written → Nat
  | t, [] => t
  | _, w :: l => lastT w.time l

def lastK : Nat → List Written → Nat
  | k, [] => k
  | _, w :: l => lastK w.nextK l

def Chain (P : Nat → Nat → Written → Prop) : Nat → Nat → List Written → Prop
  | _, _, [] => True
  | ws, wk, w :: l => P ws wk w ∧ Chain P w.time w.nextK l

theorem lastT_append (t : Nat) (l₁ l₂ : List Written) : lastT t (l₁ ++ l₂) = lastT (lastT t l₁) l₂ := by
  induction l₁ generalizing t with
  | nil => rfl
  | cons w l ih => simp [lastT, ih]

theorem lastK_append (k : Nat) (l₁ l₂ : List Written) : lastK k (l₁ ++ l₂) = lastK (lastK k l₁) l₂ := by
  induction l₁ generalizing k with
  | nil => rfl
  | cons w l ih => simp [lastK, ih]

theorem chain_append {P : Nat → Nat → Written → Prop} (ws wk : Nat) (l₁ l₂ : List Written) :
    Chain P ws wk (l₁ ++ l₂) ↔ Chain P ws wk l₁ ∧ Chain P (lastT ws l₁) (lastK wk l₁) l₂ := by
  induction l₁ generalizing ws wk with
  | nil => simp [Chain, lastT, lastK]
  | cons w l ih => simp [Chain, lastT, lastK, ih, and_assoc]

theorem chain_mono {P Q : Nat → Nat → Written → Prop} (h : ∀ ws wk w, P ws wk w → Q ws wk w)
    (ws wk : Nat) (l : List Written) : Chain P ws wk l → Chain Q ws wk l := by
  induction l generalizing ws wk with
  | nil => intro _; trivial
  | cons w l ih => intro hc; exact ⟨h _ _ _ hc.1, ih _ _ hc.2⟩

theorem chain_mem {P : Nat → Nat → Written → Prop} (ws wk : Nat) (l : List Written)
    (hc : Chain P ws wk l) : ∀ w ∈ l, ∃ ws' wk', P ws' wk' w := by
  induction l generalizing ws wk with
  | nil => intro w hw; cases hw
  | cons a l ih =>
    intro w hw
    rcases List.mem_cons.mp hw with rfl | hw
    · exact ⟨_, _, hc.1⟩
    · exact ih _ _ hc.2 w hw

theorem chain_consec {P : Nat → Nat → Written → Prop} (ws wk : Nat) (pre post : List Written) (a b : Written)
    (hc : Chain P ws wk (pre ++ a :: b :: post)) : P a.time a.nextK b := by
  have h := ((chain_append ws wk pre (a :: b :: post)).mp hc).2
  exact h.2.1

theorem lastT_snoc (t : Nat) (pre : List Written) (a : Written) : lastT t (pre ++ [a]) = a.time := by
  simp [lastT_append, lastT]

theorem lastK_snoc (k : Nat) (pre : List Written) (a : Written) : lastK k (pre ++ [a]) = a.nextK := by
  simp [lastK_append, lastK]

/-! ## `fireUntil` -/

theorem fireUntil_zero (s : SState) (te : Nat) (incl : Bool) : fireUntil 0 s te incl = (s, []) := rfl

theorem fireUntil_succ (fuel : Nat) (s : SState) (te : Nat) (incl : Bool) :
    fireUntil (fuel + 1) s te incl =
      if s.stopped = true ∨ s.wk = 0 then (s, []) else
      if s.ws + s.wk < te ∨ (incl = true ∧ s.ws + s.wk = te) then
        ((fireUntil fuel { s with ws := s.ws + s.wk, wk := s.k } te incl).1,
          ⟨s.ws + s.wk, "KEEPALIVE", .timeout s.ws s.wk, s.k⟩ ::
            (fireUntil fuel { s with ws := s.ws + s.wk, wk := s.k } te incl).2)
      else (s, []) := by
  rfl

theorem fireUntil_idle (fuel : Nat) (s : SState) (te : Nat) (incl : Bool) (h : s.stopped = true ∨ s.wk = 0) :
    fireUntil fuel s te incl = (s, []) := by
  cases fuel with
  | zero => rfl
  | succ f => rw [fireUntil_succ, if_pos h]

/-- what a keepalive written on a timeout looks like. -/
def PFire (ws wk : Nat) (w : Written) : Prop :=
  w.cause = .timeout ws wk ∧ w.time = ws + wk ∧ 0 < wk ∧ w.line = "KEEPALIVE"

/-- the wait (ws, wk) is overdue w.r.t. `te`. -/
def Due (ws wk te : Nat) (incl : Bool) : Prop := ws + wk < te ∨ (incl = true ∧ ws + wk = te)

theorem fireUntil_spec (fuel : Nat) (s : SState) (te : Nat) (incl : Bool) :
    (fireUntil fuel s te incl).1.k = s.k ∧
    (fireUntil fuel s te incl).1.stopped = s.stopped ∧
    Chain PFire s.ws s.wk (fireUntil fuel s te incl).2 ∧
    (fireUntil fuel s te incl).1.ws = lastT s.ws (fireUntil fuel s te incl).2 ∧
    (fireUntil fuel s te incl).1.wk = lastK s.wk (fireUntil fuel s te incl).2 ∧
    (s.ws ≤ te → (fireUntil fuel s te incl).1.ws ≤ te) ∧
    (te < fuel + s.ws → (fireUntil fuel s te incl).1.stopped = false →
      (fireUntil fuel s te incl).1.wk = 0 ∨
        ¬ Due (fireUntil fuel s te incl).1.ws (fireUntil fuel s te incl).1.wk te incl) := by
  induction fuel generalizing s with
  | zero =>
    refine ⟨rfl, rfl, trivial, rfl, rfl, fun h => h, ?_⟩
    intro h _; right; show ¬ Due s.ws s.wk te incl; unfold Due; omega
  | succ f ih =>
    rw [fireUntil_succ]
    by_cases h1 : s.stopped = true ∨ s.wk = 0
    · rw [if_pos h1]
      refine ⟨rfl, rfl, trivial, rfl, rfl, fun h => h, ?_⟩
      intro _ hs
      rcases h1 with h1 | h1
      · rw [h1] at hs; cases hs
      · exact Or.inl h1
    · rw [if_neg h1]
      by_cases h2 : s.ws + s.wk < te ∨ (incl = true ∧ s.ws + s.wk = te)
      · rw [if_pos h2]
        have hwk : 0 < s.wk := by
          rcases Nat.eq_zero_or_pos s.wk with h | h
          · exact absurd (Or.inr h) h1
          · exact h
        obtain ⟨i1, i2, i3, i4, i5, i6, i7⟩ := ih { s with ws := s.ws + s.wk, wk := s.k }
        simp only [Chain, lastT, lastK] at *
        refine ⟨i1, i2, ⟨⟨rfl, rfl, hwk, rfl⟩, i3⟩, i4, i5, ?_, ?_⟩
        · intro _; apply i6; omega
        · intro hf; apply i7; omega
      · rw [if_neg h2]
        refine ⟨rfl, rfl, trivial, rfl, rfl, fun h => h, ?_⟩
        intro _ _; exact Or.inr h2

theorem fireUntil_no_msg (fuel : Nat) (s : SState) (te : Nat) (incl : Bool) :
    ∀ w ∈ (fireUntil fuel s te incl).2, ∃ ws wk, w.cause = .timeout ws wk := by
  intro w hw
  obtain ⟨ws, wk, h⟩ := chain_mem _ _ _ (fireUntil_spec fuel s te incl).2.2.1 w hw
  exact ⟨ws, wk, h.1⟩

/-! ## `onEvent` -/

theorem onEvent_eq (tie : Bool) (s : SState) (te : Nat) (a : SAct) :
    onEvent tie s te a =
      if (fireUntil (te + 1) s te tie).1.stopped = true then fireUntil (te + 1) s te tie else
      match a with
      | .setK k => ({ (fireUntil (te + 1) s te tie).1 with k := k }, (fireUntil (te + 1) s te tie).2)
      | .put m => ({ (fireUntil (te + 1) s te tie).1 with ws := te, wk := (fireUntil (te + 1) s te tie).1.k },
          (fireUntil (te + 1) s te tie).2 ++ [⟨te, m, .msg, (fireUntil (te + 1) s te tie).1.k⟩])
      | .pill => ({ (fireUntil (te + 1) s te tie).1 with ws := te, wk := (fireUntil (te + 1) s te tie).1.k },
          (fireUntil (te + 1) s te tie).2 ++ [⟨te, "KEEPALIVE", .pill, (fireUntil (te + 1) s te tie).1.k⟩])
      | .stop => ({ (fireUntil (te + 1) s te tie).1 with stopped := true }, (fireUntil (te + 1) s te tie).2) := by
  rfl

/-- the per-record property of a whole run; `g` switches the "no gap longer than the interval" clause on
    (it needs the absence of stop pills). -/
def PAll (g : Prop) (ws wk : Nat) (w : Written) : Prop :=
  (∀ ws' d, w.cause = .timeout ws' d →
    ws' = ws ∧ d = wk ∧ w.time = ws' + d ∧ 0 < d ∧ w.line = "KEEPALIVE") ∧
  (g → 0 < wk → w.time ≤ ws + wk) ∧ ws ≤ w.time

theorem PFire.toPAll (g : Prop) (ws wk : Nat) (w : Written) (h : PFire ws wk w) : PAll g ws wk w := by
  obtain ⟨h1, h2, h3, h4⟩ := h
  refine ⟨?_, ?_, ?_⟩
  · intro ws' d hc
    rw [h1] at hc
    injection hc with e1 e2
    subst e1; subst e2
    exact ⟨rfl, rfl, h2, h3, h4⟩
  · intro _ _; omega
  · omega

theorem onEvent_spec (g : Prop) (tie : Bool) (s : SState) (te : Nat) (a : SAct)
    (hws : s.ws ≤ te) (hg : g → a ≠ .stop ∧ s.stopped = false) :
    Chain (PAll g) s.ws s.wk (onEvent tie s te a).2 ∧
    (onEvent tie s te a).1.ws = lastT s.ws (onEvent tie s te a).2 ∧
    (onEvent tie s te a).1.wk = lastK s.wk (onEvent tie s te a).2 ∧
    (onEvent tie s te a).1.ws ≤ te ∧
    (g → (onEvent tie s te a).1.stopped = false) := by
  obtain ⟨f1, f2, f3, f4, f5, f6, f7⟩ := fireUntil_spec (te + 1) s te tie
  have f3' := chain_mono (PFire.toPAll g) _ _ _ f3
  have f6' := f6 hws
  have f7' := f7 (by omega)
  rw [onEvent_eq]
  generalize fireUntil (te + 1) s te tie = r at *
  obtain ⟨s1, o1⟩ := r
  simp only at *
  by_cases hst : s1.stopped = true
  · rw [if_pos hst]
    refine ⟨f3', f4, f5, f6', ?_⟩
    intro hgg
    have := (hg hgg).2
    rw [← f2, hst] at this; cases this
  · rw [if_neg hst]
    have hst' : s1.stopped = false := by
      cases h : s1.stopped with
      | true => exact absurd h hst
      | false => rfl
    have key : ∀ (m : String) (c : Cause), (∀ ws d, c ≠ .timeout ws d) →
        Chain (PAll g) s.ws s.wk (o1 ++ [⟨te, m, c, s1.k⟩]) := by
      intro m c hc
      rw [chain_append]
      refine ⟨f3', ?_, trivial⟩
      rw [← f4, ← f5]
      refine ⟨?_, ?_, f6'⟩
      · intro ws' d h; exact absurd h (hc ws' d)
      · intro _ hpos
        rcases f7' hst' with h | h
        · omega
        · show te ≤ s1.ws + s1.wk
          unfold Due at h
          omega
    cases a with
    | setK k => exact ⟨f3', f4, f5, f6', fun _ => hst'⟩
    | put m =>
      refine ⟨key m .msg (fun _ _ h => by cases h), ?_, ?_, Nat.le_refl _, fun _ => hst'⟩
      · show te = _; rw [lastT_snoc]
      · show s1.k = _; rw [lastK_snoc]
    | pill =>
      refine ⟨key _ .pill (fun _ _ h => by cases h), ?_, ?_, Nat.le_refl _, fun _ => hst'⟩
      · show te = _; rw [lastT_snoc]
      · show s1.k = _; rw [lastK_snoc]
    | stop =>
      refine ⟨f3', f4, f5, f6', ?_⟩
      intro hgg; exact absurd rfl (hg hgg).1

/-! ## `runEvents` -/

theorem runEvents_nil (tie : Bool) (s : SState) : runEvents tie s [] = (s, []) := rfl

theorem runEvents_cons (tie : Bool) (s : SState) (te : Nat) (a : SAct) (rest : List (Nat × SAct)) :
    runEvents tie s ((te, a) :: rest) =
      ((runEvents tie (onEvent tie s te a).1 rest).1,
        (onEvent tie s te a).2 ++ (runEvents tie (onEvent tie s te a).1 rest).2) := rfl

/-! ## transparency -/

theorem fireUntil_filter_msg (fuel : Nat) (s : SState) (te : Nat) (incl : Bool) :
    (fireUntil fuel s te incl).2.filter (fun w => w.cause == .msg) = [] := by
  rw [List.filter_eq_nil_iff]
  intro w hw
  obtain ⟨ws, wk, h⟩ := fireUntil_no_msg fuel s te incl w hw
  simp [h]

theorem onEvent_msgs (tie : Bool) (s : SState) (te : Nat) (a : SAct)
    (hs : s.stopped = false) (ha : a ≠ .stop) :
    ((onEvent tie s te a).2.filter (fun w => w.cause == .msg)).map (fun w => (w.time, w.line)) =
      (match a with | .put m => [(te, m)] | _ => []) ∧
    (onEvent tie s te a).1.stopped = false := by
  have hf := fireUntil_filter_msg (te + 1) s te tie
  have hst : (fireUntil (te + 1) s te tie).1.stopped = false := by
    rw [(fireUntil_spec (te + 1) s te tie).2.1]; exact hs
  rw [onEvent_eq]
  generalize fireUntil (te + 1) s te tie = r at *
  obtain ⟨s1, o1⟩ := r
  simp only at *
  rw [if_neg (by rw [hst]; exact Bool.false_ne_true)]
  cases a with
  | setK k => simp [hf, hst]
  | put m => simp [hf, hst]
  | pill => simp [hf, hst]
  | stop => exact absurd rfl ha

theorem runEvents_msgs (tie : Bool) (s : SState) (evs : List (Nat × SAct))
    (hs : s.stopped = false) (hns : ∀ e ∈ evs, e.2 ≠ .stop) :
    ((runEvents tie s evs).2.filter (fun w => w.cause == .msg)).map (fun w => (w.time, w.line)) =
      evs.filterMap (fun e => match e.2 with | .put m => some (e.1, m) | _ => none) ∧
    (runEvents tie s evs).1.stopped = false := by
  induction evs generalizing s with
  | nil => exact ⟨rfl, hs⟩
  | cons e rest ih =>
    obtain ⟨te, a⟩ := e
    have ha : a ≠ .stop := hns (te, a) (List.mem_cons_self ..)
    obtain ⟨h1, h2⟩ := onEvent_msgs tie s te a hs ha
    obtain ⟨h3, h4⟩ := ih (onEvent tie s te a).1 h2 (fun e he => hns e (List.mem_cons_of_mem _ he))
    rw [runEvents_cons]
    refine ⟨?_, h4⟩
    simp only [List.filter_append, List.map_append, h1, h3]
    cases a with
    | setK k => simp
    | put m => simp
    | pill => simp
    | stop => exact absurd rfl ha

/-! ## disabled -/

theorem onEvent_disabled (tie : Bool) (s : SState) (te : Nat) (a : SAct)
    (hk : s.k = 0) (hwk : s.wk = 0) (ha : ∀ k, a = .setK k → k = 0) :
    (onEvent tie s te a).1.k = 0 ∧ (onEvent tie s te a).1.wk = 0 ∧
    ∀ w ∈ (onEvent tie s te a).2, ∀ ws d, w.cause ≠ .timeout ws d := by
  rw [onEvent_eq, fireUntil_idle _ _ _ _ (Or.inr hwk)]
  simp only
  by_cases hst : s.stopped = true
  · rw [if_pos hst]; exact ⟨hk, hwk, fun w hw => by cases hw⟩
  · rw [if_neg hst]
    cases a with
    | setK k => exact ⟨ha k rfl, hwk, fun w hw => by cases hw⟩
    | put m =>
      refine ⟨hk, hk, ?_⟩
      intro w hw ws d h
      simp at hw; subst hw; cases h
    | pill =>
      refine ⟨hk, hk, ?_⟩
      intro w hw ws d h
      simp at hw; subst hw; cases h
    | stop => exact ⟨hk, hwk, fun w hw => by cases hw⟩

theorem runEvents_disabled (tie : Bool) (s : SState) (evs : List (Nat × SAct))
    (hk : s.k = 0) (hwk : s.wk = 0) (ha : ∀ e ∈ evs, ∀ k, e.2 = .setK k → k = 0) :
    (runEvents tie s evs).1.k = 0 ∧ (runEvents tie s evs).1.wk = 0 ∧
    ∀ w ∈ (runEvents tie s evs).2, ∀ ws d, w.cause ≠ .timeout ws d := by
  induction evs generalizing s with
  | nil => exact ⟨hk, hwk, fun w hw => by cases hw⟩
  | cons e rest ih =>
    obtain ⟨te, a⟩ := e
    obtain ⟨h1, h2, h3⟩ := onEvent_disabled tie s te a hk hwk (ha (te, a) (List.mem_cons_self ..))
    obtain ⟨h4, h5, h6⟩ := ih (onEvent tie s te a).1 h1 h2 (fun e he => ha e (List.mem_cons_of_mem _ he))
    rw [runEvents_cons]
    refine ⟨h4, h5, ?_⟩
    intro w hw
    rcases List.mem_append.mp hw with hw | hw
    · exact h3 w hw
    · exact h6 w hw

theorem senderRun_eq (tie : Bool) (k0 : Nat) (evs : List (Nat × SAct)) (hz : Nat) :
    senderRun tie k0 evs hz =
      (runEvents tie { k := k0, ws := 0, wk := k0 } evs).2 ++
        (fireUntil (hz + 1) (runEvents tie { k := k0, ws := 0, wk := k0 } evs).1 hz true).2 := rfl

end Ari
