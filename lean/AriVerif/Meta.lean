import AriVerif.Requests
import AriVerif.Replies
/-
  Meta.lean — model of MetadataProviderServer._on_nus … _on_mdc: which adapter methods a decoded
  request invokes, with which arguments, in which order, and which reply results from the adapter's
  outcomes.  The adapter is an oracle: every call consumes the next entry of a script.
-/
namespace Ari

/-- a value handed to an adapter method. -/
inductive AV
  | v (x : Val)
  | dict (kvs : List (Val × Val))
  | list (xs : List AV)
  | obj (cls : String) (fields : List AV)
  | mode (m : Mode)
deriving Repr

structure Call where
  name : String
  args : List AV
deriving Repr

inductive Outcome
  | ret (v : PyVal)
  | raise (e : Exc)
deriving Repr

/-- result of the pool task `execute_and_reply` for one request. -/
inductive ExecResult
  | reply (line : String)   -- sent with the request id
  | remoting                -- RemotingException (a value of an unsupported type): exception handler, no reply
  | pyError                 -- a TypeError/AttributeError escapes (container of the wrong shape, DESIGN I-5/F4)
deriving DecidableEq, Repr

/-- Python dict built from pairs in order: a later duplicate key overwrites the value in place. -/
def dictOf (kvs : List (Val × Val)) : List (Val × Val) :=
  kvs.foldl (fun d (k, v) =>
    if d.any (·.1 == k) then d.map (fun (k', v') => if k' == k then (k', v) else (k', v'))
    else d ++ [(k, v)]) []

abbrev AdapterM := StateM (List Outcome × List Call)

/-- one adapter invocation: logs the call, consumes the next scripted outcome (default: returns None). -/
def callA (name : String) (args : List AV) : ExceptT Exc AdapterM PyVal := do
  let (script, calls) ← get
  let (o, rest) := match script with
    | [] => (Outcome.ret .none, [])
    | o :: r => (o, r)
  set (rest, calls ++ [Call.mk name args])
  match o with
  | .ret v => pure v
  | .raise e => throw e

def ofW : W String → ExecResult
  | .ok l => .reply l
  | .error .remoting => .remoting
  | .error .pyType => .pyError

def allModes : List Mode := [.raw, .merge, .distinct, .command]

def tableObj (fs : List Val) : AV := .obj "TableInfo" (fs.map .v)

/-- the closure returned by `_on_<method>(data)` for decoded arguments `a`, run against the script. -/
def metaExec (m : String) (a : Args) : AdapterM ExecResult := do
  let void (r : Except Exc PyVal) : ExecResult :=
    match r with
    | .ok _ => .reply (writeVoid m)
    | .error e => .reply (writeError m e)
  match m, a.fixed, a.tail with
  | "NUS", [user, password], .map kvs =>
    let r ← (do
      let _ ← callA "notify_user" [.v user, .v password, .dict (dictOf kvs)]
      let bw ← callA "get_allowed_max_bandwidth" [.v user]
      let w ← callA "wants_tables_notification" [.v user]
      pure (bw, w) : ExceptT Exc AdapterM (PyVal × PyVal)).run
    pure (match r with
      | .error e => .reply (writeError m e)
      | .ok (bw, w) => ofW (writeNotifyUser m bw w))
  | "NUA", [user, password, principal], .map kvs =>
    let r ← (do
      let _ ← callA "notify_user_with_principal" [.v user, .v password, .dict (dictOf kvs), .v principal]
      let bw ← callA "get_allowed_max_bandwidth" [.v user]
      let w ← callA "wants_tables_notification" [.v user]
      pure (bw, w) : ExceptT Exc AdapterM (PyVal × PyVal)).run
    pure (match r with
      | .error e => .reply (writeError m e)
      | .ok (bw, w) => ofW (writeNotifyUser m bw w))
  | "NNS", [user, session], .map kvs =>
    return void (← (callA "notify_new_session" [.v user, .v session, .dict (dictOf kvs)]).run)
  | "NSC", [session], .none =>
    return void (← (callA "notify_session_close" [.v session]).run)
  | "GIS", [user, group, session], .none =>
    let r ← (callA "get_items" [.v user, .v session, .v group]).run
    pure (match r with
      | .error e => .reply (writeError m e)
      | .ok items => ofW (writeNames m items))
  | "GSC", [user, group, schema, session], .none =>
    let r ← (callA "get_schema" [.v user, .v session, .v group, .v schema]).run
    pure (match r with
      | .error e => .reply (writeError m e)
      | .ok fields => ofW (writeNames m fields))
  | "GIT", [], .seq items =>
    let r ← (items.mapM fun item => do
      let ms ← allModes.filterMapM fun md => do
        let ok ← callA "mode_may_be_allowed" [.v item, .mode md]
        pure (if ok.truthy then some (PyVal.mode md.code) else none)
      let dsl ← callA "get_distinct_snapshot_length" [.v item]
      let msf ← callA "get_min_source_frequency" [.v item]
      pure (ItemData.mk dsl msf (.list ms)) : ExceptT Exc AdapterM (List ItemData)).run
    pure (match r with
      | .error e => .reply (writeError m e)
      | .ok ds => ofW (writeItemData m ds))
  | "GUI", [user], .seq items =>
    let r ← (items.mapM fun item => do
      let ms ← allModes.filterMapM fun md => do
        let ok ← callA "ismode_allowed" [.v user, .v item, .mode md]
        pure (if ok.truthy then some (PyVal.mode md.code) else none)
      let bs ← callA "get_allowed_buffer_size" [.v user, .v item]
      let mf ← callA "get_allowed_max_item_frequency" [.v user, .v item]
      pure (ItemData.mk bs mf (.list ms)) : ExceptT Exc AdapterM (List ItemData)).run
    pure (match r with
      | .error e => .reply (writeError m e)
      | .ok ds => ofW (writeItemData m ds))
  | "NUM", [user, session, message], .none =>
    return void (← (callA "notify_user_message" [.v user, .v session, .v message]).run)
  | "NNT", [user, session], .tables ts =>
    return void (← (callA "notify_new_tables" [.v user, .v session, .list (ts.map tableObj)]).run)
  | "NTC", [session], .tables ts =>
    return void (← (callA "notify_tables_close" [.v session, .list (ts.map tableObj)]).run)
  | "MDA", [user, session, plat, app, tok], .none =>
    return void (← (callA "notify_mpn_device_access"
      [.v user, .v session, .obj "MpnDeviceInfo" [.v plat, .v app, .v tok]]).run)
  | "MSA", [user, session, win, mode, group, schema, mn, mx, plat, app, tok, trigger, fmt], .none =>
    return void (← (callA "notify_mpn_subscription_activation"
      [.v user, .v session,
       tableObj [win, mode, group, schema, mn, mx, .str none],
       .obj "MpnSubscriptionInfo" [.obj "MpnDeviceInfo" [.v plat, .v app, .v tok], .v trigger, .v fmt]]).run)
  | "MDC", [user, session, plat, app, tok, newTok], .none =>
    return void (← (callA "notify_mpn_device_token_change"
      [.v user, .v session, .obj "MpnDeviceInfo" [.v plat, .v app, .v tok], .v newTok]).run)
  | _, _, _ => pure .pyError

/-- what a Metadata request line's arguments lead to: a parse error (no adapter call, no reply) or the
    adapter calls made and the task's result. -/
def metaHandle (m : String) (toks : List String) (script : List Outcome) :
    Option (Except ParseError (List Call × ExecResult)) :=
  (decodeRequest m toks).map fun r =>
    match r with
    | .error e => .error e
    | .ok a =>
      let (res, (_, calls)) := (metaExec m a).run (script, [])
      .ok (calls, res)

end Ari
