/- Hex helpers for the line protocol between harness and driver (not part of any theorem). -/
namespace Ari.Hex

def nib (c : Char) : Nat :=
  let n := c.toNat
  if 48 ≤ n ∧ n ≤ 57 then n - 48 else if 97 ≤ n ∧ n ≤ 102 then n - 87 else 0

def toBytes (s : String) : List UInt8 :=
  let rec go : List Char → List UInt8
    | a :: b :: rest => UInt8.ofNat (nib a * 16 + nib b) :: go rest
    | _ => []
  if s = "-" then [] else go s.toList

def hexDigit (n : Nat) : Char := if n < 10 then Char.ofNat (48 + n) else Char.ofNat (87 + n)

def ofBytes (bs : List UInt8) : String :=
  if bs.isEmpty then "-" else
  String.ofList (bs.flatMap fun b => [hexDigit (b.toNat / 16), hexDigit (b.toNat % 16)])

/-- hex of UTF-8 → String (`none` if not UTF-8). -/
def toStr? (s : String) : Option String := String.fromUTF8? ⟨(toBytes s).toArray⟩

def ofStr (s : String) : String := ofBytes s.toByteArray.data.toList

end Ari.Hex
