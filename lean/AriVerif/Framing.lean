import AriVerif.Py.Text
/-
  Framing.lean — model of the reader loop's framing (`_RequestManager._do_run`):
  `buffer += data; tokens = buffer.splitlines(keepends=True); dispatch those ending in '\n'; keep the rest`.
-/
namespace Ari

/-- line boundaries of `str.splitlines` for ASCII text: LF, VT, FF, FS, GS, RS (CR handled apart: CR LF is one). -/
def isLineBreak (c : Char) : Bool :=
  let n := c.toNat
  n == 10 || n == 11 || n == 12 || n == 28 || n == 29 || n == 30

/-- `s.splitlines(keepends=True)` on a character list; `cur` = current line reversed. -/
def splitLinesAux : List Char → List Char → List (List Char)
  | [], cur => if cur.isEmpty then [] else [cur.reverse]
  | '\r' :: '\n' :: rest, cur => ('\n' :: '\r' :: cur).reverse :: splitLinesAux rest []
  | c :: rest, cur =>
    if c = '\r' ∨ isLineBreak c then (c :: cur).reverse :: splitLinesAux rest []
    else splitLinesAux rest (c :: cur)

def splitLinesKeep (s : List Char) : List (List Char) := splitLinesAux s []

/-- one iteration of the reader loop body after `recv`: returns (dispatched lines, new buffer). -/
def feedL (buffer chunk : List Char) : List (List Char) × List Char :=
  let toks := splitLinesKeep (buffer ++ chunk)
  toks.foldl (fun (acc : List (List Char) × List Char) tok =>
    if tok.getLast? = some '\n' then (acc.1 ++ [tok], []) else (acc.1, tok)) ([], [])

def feed (buffer chunk : String) : List String × String :=
  let (ls, b) := feedL buffer.toList chunk.toList
  (ls.map String.ofList, String.ofList b)

/-- all chunks in order. -/
def feedAllL : List Char → List (List Char) → List (List Char) × List Char
  | b, [] => ([], b)
  | b, c :: cs =>
    let (l1, b1) := feedL b c
    let (l2, b2) := feedAllL b1 cs
    (l1 ++ l2, b2)

end Ari
