import AriVerif.Replies
/-
  Startup.lean — model of `Server.start()` against everything that can enqueue a message:
  the starting thread runs `create socket; create _RequestManager (writer thread started); enqueue the
  credentials message; startReceiving (reader thread started); hook`.  Every other producer of messages —
  the reader, pool tasks, listener calls (the adapter receives its listener while the reader processes the
  init request) — exists only after the reader thread was started.
-/
namespace Ari

structure SUState where
  /-- progress of the starting thread: 0 = nothing, 1 = writer started, 2 = credentials enqueued,
      3 = reader started -/
  mpc : Nat := 0
  q : List String := []
  written : List String := []
  user : Option String
  password : Option String

def racLine (s : SUState) : String := "1|" ++ writeCredentials s.user s.password

inductive SUAct
  | main                      -- next step of `start()`
  | enqueue (msg : String)    -- any reader-side producer (reader, pool task, listener call)
  | write                     -- writer: take the head of the queue and write it

def suStep (s : SUState) : SUAct → Option SUState
  | .main =>
    if s.mpc = 0 then some { s with mpc := 1 }
    else if s.mpc = 1 then some { s with mpc := 2, q := s.q ++ [racLine s] }
    else if s.mpc = 2 then some { s with mpc := 3 }
    else none
  | .enqueue m => if s.mpc = 3 then some { s with q := s.q ++ [m] } else none
  | .write =>
    if 1 ≤ s.mpc then
      match s.q with
      | m :: rest => some { s with q := rest, written := s.written ++ [m] }
      | [] => none
    else none

def suRun (s : SUState) : List SUAct → Option SUState
  | [] => some s
  | a :: rest => match suStep s a with
    | some s' => suRun s' rest
    | none => none

end Ari
