import AriVerif.Requests
/-
  Spec/Ari.lean — the *conforming Proxy Adapter*: how ARI encodes requests.  Hand-written from the
  ARI protocol description and the request literals in the repository's tests; not derived from the
  library's code.
-/
namespace Ari.Spec

/-- wire token of a value in a slot of type `ty` (`none` if the value does not fit the slot). -/
def encVal : Ty → Val → Option String
  | .S, .str v => some (encodeString v)
  | .I, .int i => some (pyStrInt i)
  | .M, .mode none => some "#"
  | .M, .mode (some m) => some (String.singleton m.code)
  | .P, .plat none => some "#"
  | .P, .plat (some .empty) => some "$"
  | .P, .plat (some .apple) => some "A"
  | .P, .plat (some .google) => some "G"
  | _, _ => none

def encField (ty : Ty) (v : Val) : Option (List String) :=
  (encVal ty v).map fun t => [String.singleton ty.marker, t]

def encFields : List Ty → List Val → Option (List String)
  | [], [] => some []
  | ty :: tys, v :: vs => do
    let a ← encField ty v
    let b ← encFields tys vs
    some (a ++ b)
  | _, _ => none

def encPairs : List (Val × Val) → Option (List String)
  | [] => some []
  | (k, v) :: rest => do
    let a ← encField .S k
    let b ← encField .S v
    let c ← encPairs rest
    some (a ++ b ++ c)

def encSeq : List Val → Option (List String)
  | [] => some []
  | v :: rest => do
    let a ← encField .S v
    let c ← encSeq rest
    some (a ++ c)

def encTables : List (List Val) → Option (List String)
  | [] => some []
  | t :: rest => do
    let a ← encFields tableTys t
    let c ← encTables rest
    some (a ++ c)

def encTail : Tail → TailVal → Option (List String)
  | .none, .none => some []
  | .map, .map kvs => encPairs kvs
  | .seq, .seq xs => encSeq xs
  | .tables, .tables ts => encTables ts
  | _, _ => none

/-- argument tokens of a request (`none` = the arguments do not fit the layout). -/
def encodeArgs (σ : Schema) (a : Args) : Option (List String) := do
  let f ← encFields σ.fixed a.fixed
  let t ← encTail σ.tail a.tail
  some (f ++ t)

/-- a complete request line. -/
def encodeRequest (id : String) (σ : Schema) (a : Args) (term : String) : Option String :=
  (encodeArgs σ a).map fun toks => joinBar (id :: σ.method :: toks) ++ term

end Ari.Spec
