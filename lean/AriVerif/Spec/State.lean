/-
  Spec/State.lean — the hand-maintained record of the state the library keeps OUTSIDE its instances.

  The Lean models treat the codec layer (protocol.py, data_protocol.py, metadata_protocol.py) as pure functions and every
  server, connection, sender and item manager as the sole owner of its state.  The only exception in the source is the
  instance counter `Server._number`, read and incremented once in `Server.__init__` to build the default server name
  ("#1", "#2", …); no property speaks about default names and no model contains them.

  Re-record ONLY after review (a new row means: some function now writes module-level / class-level state, or carries a
  caching decorator, a mutable default argument, a class-level container, a descriptor).
-/
namespace Ari.Spec

def sharedState : List (String × String) :=
 [("server.py:Server.__init__", "store Server._number")]

/-- the rows that belong to one of the given files. -/
def stateRows (rows : List (String × String)) (files : List String) : List (String × String) :=
  rows.filter fun r => files.any fun f => (f ++ ":").isPrefixOf r.1

end Ari.Spec
