import AriVerif.Replies
/-
  Spec/Reply.lean — the *conforming Proxy Adapter*'s decoder of replies and notifications, on the
  token list obtained by splitting the line at `|`.  Hand-written from the ARI protocol; not derived
  from the library's code.
-/
namespace Ari.Spec
open Ari

/-- value of a base64 alphabet character. -/
def b64Val? (c : Char) : Option Nat :=
  let n := c.toNat
  if 65 ≤ n ∧ n ≤ 90 then some (n - 65)
  else if 97 ≤ n ∧ n ≤ 122 then some (n - 71)
  else if 48 ≤ n ∧ n ≤ 57 then some (n + 4)
  else if c = '+' then some 62
  else if c = '/' then some 63
  else none

/-- standard base64 decoding with padding (`none` = malformed). -/
def b64decode : List Char → Option Bytes
  | [] => some []
  | [a, b, '=', '='] => do
    let x ← b64Val? a; let y ← b64Val? b
    some [UInt8.ofNat (x * 4 + y / 16)]
  | [a, b, c, '='] => do
    let x ← b64Val? a; let y ← b64Val? b; let z ← b64Val? c
    some [UInt8.ofNat (x * 4 + y / 16), UInt8.ofNat (y % 16 * 16 + z / 4)]
  | a :: b :: c :: d :: rest => do
    let x ← b64Val? a; let y ← b64Val? b; let z ← b64Val? c; let w ← b64Val? d
    let more ← b64decode rest
    some (UInt8.ofNat (x * 4 + y / 16) :: UInt8.ofNat (y % 16 * 16 + z / 4) :: UInt8.ofNat (z % 4 * 64 + w) :: more)
  | _ => none

/-- `S|v S|v …` -/
def decodeNames : List String → Option (List Dec)
  | [] => some []
  | "S" :: v :: rest => (decodeNames rest).map (decodeString v :: ·)
  | _ => none

/-- mode-set token: `#` = null, `$` = empty, else mode letters. -/
def decodeModeSet (t : String) : Option (Option (List Char)) :=
  if t = "#" then some none
  else if t = "$" then some (some [])
  else if t.toList.all (fun c => c = 'R' ∨ c = 'M' ∨ c = 'D' ∨ c = 'C') then some (some t.toList) else none

/-- `I|n D|f M|modes …` : (integer, float token as written, mode set). -/
def decodeItemData : List String → Option (List (Int × String × Option (List Char)))
  | [] => some []
  | "I" :: n :: "D" :: f :: "M" :: ms :: rest => do
    let i ← pyInt? n
    let m ← decodeModeSet ms
    let more ← decodeItemData rest
    some ((i, f, m) :: more)
  | _ => none

/-- value of an update field: text (or None) or bytes. -/
inductive FieldVal
  | text (d : Dec)
  | bytes (b : Bytes)
deriving DecidableEq

/-- `S|field S|text` or `S|field Y|base64` … -/
def decodeEvents : List String → Option (List (Dec × FieldVal))
  | [] => some []
  | "S" :: f :: "S" :: v :: rest => (decodeEvents rest).map ((decodeString f, .text (decodeString v)) :: ·)
  | "S" :: f :: "Y" :: v :: rest => do
    let b ← b64decode v.toList
    let more ← decodeEvents rest
    some ((decodeString f, .bytes b) :: more)
  | _ => none

def decodeBool (t : String) : Option Bool :=
  if t = "1" then some true else if t = "0" then some false else none

/-- UD3 body tokens (after the method) : item, request id, snapshot flag, events. -/
def decodeUpdate : List String → Option (Dec × Dec × Bool × List (Dec × FieldVal))
  | "S" :: item :: "S" :: rid :: "B" :: b :: rest => do
    let snap ← decodeBool b
    let ev ← decodeEvents rest
    some (decodeString item, decodeString rid, snap, ev)
  | _ => none

/-- EOS / CLS body tokens. -/
def decodeItemEvent : List String → Option (Dec × Dec)
  | ["S", item, "S", rid] => some (decodeString item, decodeString rid)
  | _ => none

/-- NUS / NUA success body tokens: float token as written, flag. -/
def decodeNotifyUser : List String → Option (String × Bool)
  | ["D", f, "B", b] => (decodeBool b).map ((f, ·))
  | _ => none

/-- `S|key|S|value …` parameter list (RAC, init replies); keys are sent verbatim. -/
def decodeParams : List String → Option (List (String × Dec))
  | [] => some []
  | "S" :: k :: "S" :: v :: rest => (decodeParams rest).map ((k, decodeString v) :: ·)
  | _ => none

end Ari.Spec
