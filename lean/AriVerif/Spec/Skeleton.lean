/-
  Spec/Skeleton.lean — HAND-MAINTAINED record of the structure of the thread-facing code that the concurrent models assume
  (lock sections and what is read / written / called inside and outside them, in order; control structure; which methods
  assign each piece of shared state).  `harness/extract.py` regenerates the same structure from the CURRENT source on every
  run (`Gen/Skeleton.lean`: no local names, literals, logging or comments — a rename or a reworded log line changes
  nothing); the theorems in `Props/Skel*.lean` state that the two agree.  A statement moved across a lock boundary, a new
  writer of `_code` / `init_expected` / `_isrunning` …, a call moved into or out of a `try` breaks the theorem at build time;
  the check then searches the real code for a failing input (fine-grained co-simulation) like for any other broken tie.
  When the code's structure legitimately changes, this file and the model are to be revisited together.
-/
namespace Ari.Spec

/-- **Sub** — the per-item subscription machinery.  How `Conc.Item`'s atomic actions map onto it:
    `lockMgr` = the `with self._active_items_lock` section of `do_subscription` / `do_unsubscription` (lookup-or-create and
    `inc_queued` in ONE section); `addTask` = `add_task` (`with self._lock`: append, test-and-set `_isrunning`, submit);
    `pop` = the `with self._lock` section at the head of `_deque`'s loop (read persisted outcome on the first pass; empty ->
    clear `_isrunning`, persist outcome, leave; else popleft + islast); `setCode` / `clearCode` = the two `sync_items()` sections
    writing `_code`; `callBegin`/`callEnd` = `do_task` / `do_late_task` called OUTSIDE every lock; `dec` = the final
    `sync_items()` section calling `_dec_queued`; `lsnRead` = `get_active_item` (one manager-lock section), the enqueue
    (`lsnPut`) happening after the lock is released. -/
def expectedSub : List (String × List String) :=
 [("_ItemTaskManager.__init__", ["W self._item_name", "C deque", "W self._tasks_deq", "W self._code", "W self._isrunning", "C threading.Lock", "W self._lock", "W self._queued", "W self._last_subscribe_outcome", "W self._subscription_mgr"]),
  ("_ItemTaskManager.inc_queued", ["R self._queued", "W self._queued"]),
  ("_ItemTaskManager.add_task", ["L+ self._lock", "R self._tasks_deq", "C self._tasks_deq.append", "R self._isrunning", "IF not self._isrunning", "W self._isrunning", "R self._subscription_mgr", "R self._deque", "C self._subscription_mgr.execute_task", "END", "L- self._lock"]),
  ("_ItemTaskManager.code", ["R self._code", "RETURN"]),
  ("_ItemTaskManager._deque", ["WHILE True", "L+ self._lock", "IF _ == 0", "R self._last_subscribe_outcome", "END", "R self._tasks_deq", "IF len(self._tasks_deq) == 0", "W self._isrunning", "W self._last_subscribe_outcome", "BREAK", "END", "R self._tasks_deq", "C self._tasks_deq.popleft", "R self._tasks_deq", "L- self._lock", "TRY", "IF _.issubscribe", "IF not _", "C item_task.do_late_task", "ELSE", "L+ self._subscription_mgr.sync_items()", "W self._code", "L- self._subscription_mgr.sync_items()", "C item_task.do_task", "END", "ELSE", "IF _", "C item_task.do_task", "ELSE", "C item_task.do_late_task", "END", "L+ self._subscription_mgr.sync_items()", "W self._code", "L- self._subscription_mgr.sync_items()", "END", "EXCEPT RemotingException", "END", "END", "L+ self._subscription_mgr.sync_items()", "C self._dec_queued", "L- self._subscription_mgr.sync_items()"]),
  ("_ItemTaskManager._dec_queued", ["R self._queued", "W self._queued", "R self._code", "R self._queued", "IF not self._code and self._queued == 0", "R self._subscription_mgr", "R self._item_name", "C self._subscription_mgr.get_item_mgr", "IF not _", "ELSE", "IF _ != self", "ELSE", "R self._subscription_mgr", "R self._item_name", "C self._subscription_mgr.del_active_item", "END", "END", "END"]),
  ("ItemTask.__init__", ["W self._request_id", "W self._issubscribe", "W self._do_task", "W self._do_late_task"]),
  ("ItemTask.do_task", ["C self._do_task", "RETURN"]),
  ("ItemTask.do_late_task", ["C self._do_late_task"]),
  ("ItemTask.code", ["R self._request_id", "RETURN"]),
  ("ItemTask.issubscribe", ["R self._issubscribe", "RETURN"]),
  ("SubscriptionManager.__init__", ["W self._executor", "W self._active_items", "C threading.RLock", "W self._active_items_lock"]),
  ("SubscriptionManager.execute_task", ["R self._executor", "C self._executor.submit"]),
  ("SubscriptionManager.do_subscription", ["L+ self._active_items_lock", "R self._active_items", "IF _ not in self._active_items", "C _ItemTaskManager", "W self._active_items[]", "END", "R self._active_items", "C item_manager.inc_queued", "L- self._active_items_lock", "C item_manager.add_task"]),
  ("SubscriptionManager.do_unsubscription", ["L+ self._active_items_lock", "R self._active_items", "IF _ not in self._active_items", "RETURN", "END", "R self._active_items", "C item_manager.inc_queued", "L- self._active_items_lock", "C item_manager.add_task"]),
  ("SubscriptionManager.sync_items", ["L+ self._active_items_lock", "YIELD", "L- self._active_items_lock"]),
  ("SubscriptionManager.get_item_mgr", ["R self._active_items", "C self._active_items.get", "RETURN"]),
  ("SubscriptionManager.get_active_item", ["L+ self._active_items_lock", "R self._active_items", "IF _ in self._active_items", "R self._active_items", "RETURN", "END", "L- self._active_items_lock", "RETURN"]),
  ("SubscriptionManager.del_active_item", ["R self._active_items", "IF _ in self._active_items", "W self._active_items[]", "END"]),
  ("DataProviderServer._on_sub", ["C data_protocol.read_sub", "DEF do_task", "TRY", "R self._adapter", "C self._adapter.issnapshot_available", "IF _ is False", "C self.end_of_snapshot", "END", "R self._adapter", "C self._adapter.subscribe", "EXCEPT Exception", "C data_protocol.write_sub", "ELSE", "C data_protocol.write_sub", "END", "C self._send_reply", "RETURN", "END", "DEF do_late_task", "C SubscribeError", "C data_protocol.write_sub", "C self._send_reply", "END", "C ItemTask", "R self._subscription_mgr", "C self._subscription_mgr.do_subscription"]),
  ("DataProviderServer._on_usb", ["C data_protocol.read_usub", "DEF do_task", "TRY", "R self._adapter", "C self._adapter.unsubscribe", "EXCEPT Exception", "C data_protocol.write_unsub", "ELSE", "C data_protocol.write_unsub", "END", "C self._send_reply", "RETURN", "END", "DEF do_late_task", "C data_protocol.write_unsub", "C self._send_reply", "END", "C ItemTask", "R self._subscription_mgr", "C self._subscription_mgr.do_unsubscription"]),
  ("DataProviderServer.update", ["R self._subscription_mgr", "C self._subscription_mgr.get_active_item", "IF _", "TRY", "C data_protocol.write_update_map", "C self._send_notify", "EXCEPT RemotingException", "C self.on_exception", "END", "ELSE", "END"]),
  ("DataProviderServer.end_of_snapshot", ["R self._subscription_mgr", "C self._subscription_mgr.get_active_item", "IF _", "TRY", "C data_protocol.write_eos", "C self._send_notify", "EXCEPT RemotingException", "C self.on_exception", "END", "ELSE", "END"]),
  ("DataProviderServer.clear_snapshot", ["R self._subscription_mgr", "C self._subscription_mgr.get_active_item", "IF _", "TRY", "C data_protocol.write_cls", "C self._send_notify", "EXCEPT RemotingException", "C self.on_exception", "END", "ELSE", "END"]),
  ("DataProviderServer.failure", ["TRY", "C data_protocol.write_failure", "C self._send_notify", "EXCEPT RemotingException", "C self.on_exception", "END"]),
  ("DataProviderServer._send_notify", ["R self._request_manager", "C self._request_manager.send_notify"]),
  ("DataProviderServer._handle_exception", ["C traceback.print_exc", "TRY", "C data_protocol.write_failure", "C self._send_notify", "EXCEPT RemotingException", "END", "RETURN"])]

/-- **Sender** — the writer thread and the one queue every producer uses (`Sender.lean`: get with / without timeout decided per
    iteration from `_keepalive`, stop pill, keepalive pill, one `sendall` per message). -/
def expectedSender : List (String × List String) :=
 [("_Sender.__init__", ["W self._sock", "W self._server", "W self._name", "W self._log", "W self._keepalive", "W self._keep_alive_log", "W self._send_queue", "W self._send_thread", "W self._notification_log"]),
  ("_Sender.start", ["C queue.Queue", "W self._send_queue", "R self._do_run", "R self._name", "C Thread", "W self._send_thread", "R self._send_thread", "C self._send_thread.start"]),
  ("_Sender.send", ["IF _", "ELSE", "END", "R self._send_queue", "C self._send_queue.put"]),
  ("_Sender._do_run", ["WHILE True", "TRY", "R self._log", "R self._keepalive", "IF self._keepalive > 0", "TRY", "R self._send_queue", "R self._keepalive", "C self._send_queue.get", "EXCEPT queue.Empty", "R self._keep_alive_log", "END", "ELSE", "R self._send_queue", "C self._send_queue.get", "END", "IF _ == _Sender._STOP_WAITING_PILL", "BREAK", "END", "IF _ is None or _ == _Sender._KEEPALIVE_PILL", "R self._keep_alive_log", "END", "R self._sock", "C self._sock.sendall", "EXCEPT OSError", "R self._server", "C self._server.on_ioexception", "BREAK", "EXCEPT Exception", "R self._server", "C self._server.on_exception", "BREAK", "END", "END"]),
  ("_Sender.change_keep_alive", ["W self._keepalive", "IF _", "R self._send_queue", "C self._send_queue.put", "END"]),
  ("_Sender.quit", ["R self._send_queue", "C self._send_queue.put", "R self._send_thread"])]

/-- **Reader** — the reader loop (`Framing.lean`, `Dispatch.lean`): recv, EOF, splitlines, one `on_received_request` per complete
    line, the exception clauses and who handles what. -/
def expectedReader : List (String × List String) :=
 [("_RequestManager.__init__", ["C logging.getLogger", "W self._log", "W self._sock", "W self._server", "C logging.getLogger", "C logging.getLogger", "R self._server", "R self._server", "C _Sender", "W self._reply_sender", "R self._reply_sender", "W ._keep_alive_log", "C Event", "W self._stop_request", "R self._reply_sender", "C self._reply_sender.start"]),
  ("_RequestManager.startReceiving", ["R self._do_run", "R self._server", "R self._sock", "C Thread", "C thread.start"]),
  ("_RequestManager._do_run", ["R self._stop_request", "C self._stop_request.is_set", "WHILE not self._stop_request.is_set()", "TRY", "C sock.recv", "IF not _", "C EOFError", "RAISE", "END", "C buffer.splitlines", "FOR", "C token.endswith", "IF _.endswith('\\n')", "R self._server", "C self._server.on_received_request", "ELSE", "END", "END", "EXCEPT (OSError, EOFError)", "R self._stop_request", "C self._stop_request.is_set", "IF self._stop_request.is_set()", "BREAK", "END", "R self._server", "C self._server.on_ioexception", "BREAK", "EXCEPT Exception", "R self._server", "C self._server.on_exception", "BREAK", "END", "END"]),
  ("_RequestManager.send_reply", ["R self._reply_sender", "C self._reply_sender.send"]),
  ("_RequestManager.send_notify", ["R self._reply_sender", "C self._reply_sender.send"]),
  ("_RequestManager.change_keep_alive", ["R self._reply_sender", "C self._reply_sender.change_keep_alive"]),
  ("_RequestManager.quit", ["R self._stop_request", "C self._stop_request.set", "R self._reply_sender", "C self._reply_sender.quit"]),
  ("Server.on_received_request", ["TRY", "C protocol.parse_request", "IF _ is None", "RETURN", "END", "C self._handle_received_request", "EXCEPT RemotingException", "C self.on_exception", "END"]),
  ("Server.on_exception", ["R self._exception_handler", "IF self._exception_handler is not None", "R self._exception_handler", "C self._exception_handler.handle_exception", "IF not self._exception_handler.handle_exception(_)", "RETURN", "END", "END", "C self._handle_exception", "RETURN"]),
  ("Server.on_ioexception", ["R self._exception_handler", "IF self._exception_handler is not None", "R self._exception_handler", "C self._exception_handler.handle_ioexception", "IF not self._exception_handler.handle_ioexception(_)", "RETURN", "END", "END", "C self._handle_ioexception", "RETURN"]),
  ("Server._handle_exception", ["RETURN"]),
  ("Server._handle_ioexception", ["C os._exit", "RETURN"])]

/-- **Lifecycle** — `start()` (socket, request manager + writer, credentials, THEN the reader thread, then the hook) and
    `close()` (quit, pool shutdown, socket close) (`Startup.lean`, `Dispatch.act .closeOk`). -/
def expectedLifecycle : List (String × List String) :=
 [("Server.start", ["R self.keep_alive", "IF self.keep_alive > 0", "ELSE", "END", "R self._config", "R self._ssl_context", "C create_socket_and_connect", "W self._server_sock", "R self._server_sock", "R self.keep_alive", "C _RequestManager", "W self._request_manager", "C self._send_remote_credentials", "R self._request_manager", "C self._request_manager.startReceiving", "C self._on_request_manager_started"]),
  ("Server.close", ["R self._request_manager", "C self._request_manager.quit", "R self._executor", "C self._executor.shutdown", "R self._server_sock", "C self._server_sock.close"]),
  ("Server._send_remote_credentials", ["R self.remote_user", "R self.remote_password", "C protocol.write_credentials", "C self._send_reply"]),
  ("Server._send_reply", ["R self._request_manager", "C self._request_manager.send_reply"]),
  ("DataProviderServer.start", ["TRY", "C super(DataProviderServer, self).start", "EXCEPT (TypeError, OSError)", "C DataProviderError", "RAISE", "END"]),
  ("DataProviderServer._on_request_manager_started", ["C logging.getLogger", "R self._request_manager", "W ._notification_log"]),
  ("MetadataProviderServer.start", ["TRY", "C super(MetadataProviderServer, self).start", "EXCEPT (TypeError, OSError)", "C MetadataProviderError", "RAISE", "END"]),
  ("MetadataProviderServer._on_request_manager_started", [])]

/-- **MetaPool** — `_handle_request` of both servers: init gating on the reader thread, everything else of the Metadata server
    wrapped in `execute_and_reply` and submitted to the pool (`Conc/Pool.lean`), SUB/USB handed to the subscription manager. -/
def expectedMetaPool : List (String × List String) :=
 [("MetadataProviderServer._handle_request", ["R self.init_expected", "IF _ and (not self.init_expected)", "C RemotingException", "RAISE", "END", "R self.init_expected", "IF not _ and self.init_expected", "C RemotingException", "RAISE", "END", "IF _", "W self.init_expected", "C self._on_mpi", "C self._send_reply", "RETURN", "END", "C method_name.lower", "TRY", "EXCEPT (KeyError, AttributeError)", "RETURN", "END", "C on_method", "DEF execute_and_reply", "TRY", "C async_func", "C self._send_reply", "EXCEPT Exception", "C self.on_exception", "END", "END", "R self._executor", "C self._executor.submit"]),
  ("DataProviderServer._handle_request", ["R self.init_expected", "IF _ and (not self.init_expected)", "C RemotingException", "RAISE", "END", "R self.init_expected", "IF not _ and self.init_expected", "C RemotingException", "RAISE", "END", "IF _", "W self.init_expected", "C self._on_dpi", "C self._send_reply", "ELSE", "IF _ == 'SUB'", "C self._on_sub", "ELSE", "IF _ == 'USB'", "C self._on_usb", "ELSE", "END", "END", "END"])]

/-- which methods assign each piece of shared state (nothing else in the package may). -/
def expectedWriters : List (String × List String) :=
 [("init_expected", ["MetadataProviderServer.__init__", "MetadataProviderServer._handle_request", "DataProviderServer.__init__", "DataProviderServer._handle_request"]),
  ("_close_expected", ["Server.__init__", "Server._on_init"]),
  ("_code", ["_ItemTaskManager.__init__", "_ItemTaskManager._deque"]),
  ("_queued", ["_ItemTaskManager.__init__", "_ItemTaskManager.inc_queued", "_ItemTaskManager._dec_queued"]),
  ("_isrunning", ["_ItemTaskManager.__init__", "_ItemTaskManager.add_task", "_ItemTaskManager._deque"]),
  ("_last_subscribe_outcome", ["_ItemTaskManager.__init__", "_ItemTaskManager._deque"]),
  ("_active_items", ["SubscriptionManager.__init__", "SubscriptionManager.do_subscription", "SubscriptionManager.del_active_item"]),
  ("_tasks_deq", ["_ItemTaskManager.__init__"]),
  ("_keepalive", ["_Sender.__init__", "_Sender.change_keep_alive"]),
  ("_configured_keep_alive", ["Server.__init__"]),
  ("_send_queue", ["_Sender.__init__", "_Sender.start"]),
  ("_request_manager", ["Server.__init__", "Server.start"]),
  ("_server_sock", ["Server.__init__", "Server.start"]),
  ("_executor", ["SubscriptionManager.__init__", "Server.__init__"])]

end Ari.Spec

namespace Ari
/-- rows of a table for the given keys (absent = `none`). -/
def rowsOf (t : List (String × List String)) (keys : List String) : List (Option (List String)) :=
  keys.map fun k => (t.find? (·.1 = k)).map (·.2)
end Ari
