import AriVerif.Codec
/-
  Py/Value.lean — dynamically typed values an adapter may hand to the library.
-/
namespace Ari

/-- a Python value as far as the writers can tell values apart.
    `float` carries CPython's `repr` (floats are opaque, DESIGN §2.2); `mode` is a `Mode` enum
    member given by its one-letter `.value`; `other` is any object of another type (tag = type
    name, `truthy` = its truth value). -/
inductive PyVal
  | none
  | str (s : String)
  | bytes (b : Bytes)
  | int (i : Int)
  | bool (b : Bool)
  | float (repr : String) (isZero : Bool)
  | mode (code : Char)
  | list (xs : List PyVal)
  | other (tag : String) (truthy : Bool)
deriving Repr

/-- Python truth value. -/
def PyVal.truthy : PyVal → Bool
  | .none => false
  | .str s => s != ""
  | .bytes b => !b.isEmpty
  | .int i => i != 0
  | .bool b => b
  | .float _ z => !z
  | .mode _ => true
  | .list xs => !xs.isEmpty
  | .other _ t => t

end Ari
