/-
  Py/Text.lean — the pieces of Python's `str` API the library uses, for ASCII text
  (the reader decodes the wire as ASCII): `isspace`, `rstrip`, `split('|')`, `'|'.join`, `int()`.
-/
namespace Ari

/-- `str.isspace` on an ASCII character: TAB LF VT FF CR FS GS RS US SPACE. -/
def isSpace (c : Char) : Bool :=
  let n := c.toNat
  (9 ≤ n && n ≤ 13) || (28 ≤ n && n ≤ 32)

/-- `s.rstrip()` on a character list. -/
def rstripL : List Char → List Char
  | [] => []
  | c :: cs =>
    match rstripL cs with
    | [] => if isSpace c then [] else [c]
    | r => c :: r

def lstripL : List Char → List Char
  | [] => []
  | c :: cs => if isSpace c then lstripL cs else c :: cs

/-- `s.split('|')` on a character list (never returns `[]`). -/
def splitBarL : List Char → List (List Char)
  | [] => [[]]
  | c :: cs =>
    if c = '|' then [] :: splitBarL cs
    else match splitBarL cs with
      | [] => [[c]]          -- unreachable
      | t :: ts => (c :: t) :: ts

/-- `'|'.join(tokens)` on character lists. -/
def joinBarL : List (List Char) → List Char
  | [] => []
  | [t] => t
  | t :: ts => t ++ '|' :: joinBarL ts

def splitBar (s : String) : List String := (splitBarL s.toList).map String.ofList
def joinBar (ts : List String) : String := String.ofList (joinBarL (ts.map String.toList))
def rstrip (s : String) : String := String.ofList (rstripL s.toList)

/-- digits with single underscores between them (`int()` grammar), most significant first. -/
def digitsVal? : List Char → Option Nat
  | [] => none
  | c :: cs =>
    if c.isDigit then go (c.toNat - 48) cs else none
where
  go (acc : Nat) : List Char → Option Nat
    | [] => some acc
    | '_' :: d :: rest => if d.isDigit then go (acc * 10 + (d.toNat - 48)) rest else none
    | d :: rest => if d.isDigit then go (acc * 10 + (d.toNat - 48)) rest else none

/-- `int(token)` for an ASCII token: surrounding whitespace, optional sign, decimal digits with
    single underscores. `none` = ValueError. (CPython's 4300-digit limit is outside the model.) -/
def pyInt? (s : String) : Option Int :=
  match lstripL (rstripL s.toList) with
  | '-' :: ds => (digitsVal? ds).map fun n => -(Int.ofNat n)
  | '+' :: ds => (digitsVal? ds).map Int.ofNat
  | ds => (digitsVal? ds).map Int.ofNat

/-- `str(i)` for an int. -/
def pyStrInt (i : Int) : String := toString i

end Ari

namespace Ari
/-- `s.startswith(p)` -/
def pyStartsWith (s p : String) : Bool := p.toList.isPrefixOf s.toList
end Ari
