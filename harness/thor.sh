cd lean && lake build AriVerif driver >/dev/null 2>&1; cd ..
for p in "$@"; do VERIF_SEED=11 /venv/bin/python harness/check.py $p --tier thorough > thor_$p.out 2>thor_$p.err; echo "$p RC=$?"; grep -h "VIOLATION" thor_$p.out; done
