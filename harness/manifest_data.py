SOURCE_COMMITS = []   # no hook commits; fix: commits in /repo are listed in known_findings.json
NOTES = ("Every check: (1) regenerates lean/AriVerif/Gen from /repo, (2) lake-builds the property's theorems and audits "
         "axioms, (3) runs the model's executable definitions and the real code on the same inputs / schedules, (4) on a "
         "broken obligation or correspondence searches the real code for a failing input. Exit 2 = infrastructure. "
         "Five genuine defects were found by these checks and repaired by 'fix:' commits in /repo (known_findings.json, all "
         "'fixed'; the fifth, C10: a request named 'mpi' re-initialised the Metadata adapter, commit b6252c9).")
_PENDING = "machinery for this property is still being built in this session (Lean model + correspondence); no claim yet"
NOT_YET = {("C%02d" % i): _PENDING for i in range(1, 21)}

CHECKS = {
 "C05": {
  "text": "Lean theorems c05_charset/no_sep/special/roundtrip/injective/accepts_alternatives hold for every String, '' and None "
          "over the model Ari.encodeString/decodeString; the model is tied to protocol.encode_string/decode_string by a "
          "differential over all code points (thorough: all 1,112,064), all short special strings, random strings, "
          "alternative encodings and malformed tokens, and the same statements are evaluated on the real functions. End to end: every text token the real DataProviderServer writes for item names that arrived in any standard URL-encoding (java.net.URLEncoder's literal * included) is over the property's alphabet and decodes to the adapter's value (stream outbound-token-conformance).",
  "ref": "DESIGN.md §5 C05",
  "note": "trusted: Lean kernel + 3 standard axioms; harness; CPython's quote_plus/unquote_plus are what is being compared (modelled, not verified)",
  "technique": "Lean 4 proof (induction + decide +kernel over 256 bytes) + pure differential correspondence"},
 "C08": {
  "text": "Lean theorems over tables regenerated from the source on every run: c08_table (all 18 methods x all library classes, decide "
          "+kernel against the hand-written ARI designation table), c08_generic (every unrelated class, any MRO), c08_user_subclass, "
          "c08_line (exact token shape of every error reply), c08_doc_sound / c08_doc_complete (the designation table agrees with the :raises "
          "clauses of interfaces/*.py and the adapter calls of the _on_* handlers, both regenerated each run); tied by the full 18x16 matrix differential of the real error writers "
          "and by the Metadata closures run with raising adapters; payload recovery evaluated on the real lines by a conforming decoder.",
  "ref": "DESIGN.md §5 C08",
  "note": "trusted: Lean kernel; translator for Gen/Exc.lean; Spec.ariCode written by hand from the property text; Python's except-clause matching modelled as MRO membership",
  "technique": "Lean 4 proof over generated tables (decide +kernel) + full-matrix differential correspondence"},
 "C11": {
  "text": "Lean theorems c11_meta / c11_data (all version strings, absent version) over version functions regenerated from server.py on every "
          "run, c11_epilogue, c11_no_init_on_refusal, c11_params, c11_error_type, c11_close, c11_hint_independent over the hand-written "
          "composition Ari.onInit; tied by a differential of the real _on_init on both server kinds over a version grid x parameter maps x "
          "adapter outcomes, with the compatibility table evaluated on the real replies and initialize arguments.",
  "ref": "DESIGN.md §5 C11",
  "note": "trusted: Lean kernel; translator for Gen/Version.lean; Ari.onInit tied by differential only; Python dict semantics modelled",
  "technique": "Lean 4 proof over definitions translated from the source each run + grid differential correspondence"},
 "C12": {
  "text": "Lean theorems c12_rule (the whole decision rule, every configured value and hint in Rat), c12_no_hint, c12_nonpositive, c12_honoured "
          "over Gen.useHint / configuredMs / initialKeepAlive / changeKeepAlive regenerated from server.py on every run; grid differential "
          "of the real _use_keep_alive_hint on both server kinds; the rule evaluated on the real code.",
  "ref": "DESIGN.md §5 C12",
  "note": "trusted: Lean kernel; translator for Gen/KeepAlive.lean; float arithmetic vs exact Rat on exactly representable grid values",
  "technique": "Lean 4 proof (grind over core Rat) over a decision tree translated from the source each run + grid differential"},
 "C06": {
  "text": "Lean theorems c06_tokenize (both terminators), c06_encoder_tokens_clean, c06_generic (any layout, all argument values), "
          "c06_all (all 18 layouts: whole line -> id, method, exactly the encoded arguments) over the model of parse_request and the 18 "
          "read_* functions; tied by a differential over structured requests with distinct values per slot and by running the real "
          "_on_* closures with a scripted adapter (arguments received = values sent), and end to end: conforming lines with CRLF and bare LF "
          "through the real reader loop, parse_request and read_*.",
  "ref": "DESIGN.md §5 C06",
  "note": "trusted: Lean kernel; Spec/Ari.lean conforming encoder (hand-written); layouts/wiring tables tied by differential only",
  "technique": "Lean 4 proof (induction over token lists / layouts) + pure differential correspondence"},
 "C09": {
  "text": "Lean theorems: the decoder's error names the method; any token list shorter than the fixed fields, any wrong marker, any "
          "non-integer / unknown mode / unknown platform in a typed fixed slot, odd list or map tails and partial table lists are rejected "
          "(for every token list, not only mutations); a rejected request makes no adapter call and no reply (closure level). Tied by the "
          "malformed-stream differential (the real read_* raise only the protocol error naming the method). Server part (Props/C09S): a "
          "rejected request leaves the state unchanged and produces exactly one handler notification iff a handler is installed plus one "
          "FAL for a Data server under default handling (c09_reported_once), and later lines are processed as if it had not been there "
          "(c09_continues); tied by the reader-dispatch differential on the real on_received_request of both kinds.",
  "ref": "DESIGN.md §5 C09",
  "note": "trusted: Lean kernel; layouts hand-written; the decorator's catch-all is modelled and compared on every malformed input",
  "technique": "Lean 4 proof + malformed-stream differential correspondence + structural skeleton of the concurrent code regenerated from the source (translator) and compared by theorem"},
 "C07": {
  "text": "Lean theorems per writer (names, per-item data, notify-user, update events incl. base64 round trip for any bytes, EOS/CLS, "
          "failure, credentials, init replies): the line is joinBar of an explicit token list whose length depends only on the shape "
          "(c07_shape), no token contains the separator/CR/LF so the line splits back (c07_tokens_ok, c07_line_splits), the conforming "
          "decoder recovers exactly the supplied data (…_decode), and any value of an unsupported type in a scalar slot or list element "
          "yields the protocol error and no line (…_type_guard, c07_scalar_guards, c07_text_slot_guard, c07_value_guard). Tied by the "
          "writers differential incl. a type-confusion stream; decoding evaluated on the real lines by the harness's conforming decoder.",
  "ref": "DESIGN.md §5 C07",
  "note": "trusted: Lean kernel; Spec/Reply.lean hand-written; floats opaque (repr carried verbatim, round trip is CPython's contract, tested)",
  "technique": "Lean 4 proof (induction, decide +kernel over the base64 alphabet) + pure differential correspondence"},
 "C15": {
  "text": "Lean theorems c15_segmentation (every stream of well-formed lines + unterminated remainder, every list of chunks whose "
          "concatenation is the stream: exactly the lines are dispatched, in order, unmodified, and exactly the remainder is held), c15_hom, "
          "c15_hold over the model of the reader loop's framing; tied by running the real _RequestManager._do_run on a scripted socket "
          "over exhaustive <=2/3-cut segmentations, byte-at-a-time and random segmentations, and malformed streams for fidelity.",
  "ref": "DESIGN.md §5 C15",
  "note": "trusted: Lean kernel; str.splitlines modelled (compared, not verified); parse_request's terminator stripping is C06",
  "technique": "Lean 4 proof (induction over chunks with a buffer invariant) + exhaustive-segmentation differential + structural skeleton of the concurrent code regenerated from the source (translator) and compared by theorem"},
 "C13": {
  "text": "Lean theorems over the timed model of the writer loop: c13_full_silence (a timeout KEEPALIVE comes exactly one interval after the "
          "previous write, the interval read when that wait began), c13_gap (after every write followed by a wait with positive interval "
          "the next write is at most that interval later, up to the horizon), c13_disabled, c13_transparent (non-keepalive lines = the "
          "submitted messages, in order, at their submission times), c13_monotone — for every time-ordered history and both tie policies. "
          "Tied by running the real _Sender thread under the scheduler with virtual time and comparing (time, line) sequences.",
  "ref": "DESIGN.md §5 C13",
  "note": "trusted: Lean kernel; scheduler shim incl. virtual clock; real timers not modelled (bounds exact in virtual time only)",
  "technique": "Lean 4 proof (induction over timed event histories) + virtual-time co-simulation of the real writer thread + structural skeleton of the concurrent code regenerated from the source (translator) and compared by theorem"},
 "C14": {
  "text": "Lean theorems c14_first (every interleaving of start(), writer and all reader-side producers: the first message queued/written "
          "is the credentials message with id 1), c14_others_later, c14_content (via C07's credentials theorems), c14s_first (the same on the "
          "whole-Data-server model of the co-simulation: every schedule of starting thread, reader, writer, pool and application threads); tied by the Data co-simulation "
          "(start-up chunks of the starting thread / writer / reader compared in lock-step, request bytes readable before start()) and the "
          "writers differential of write_credentials; the first wire line checked on every real run.",
  "ref": "DESIGN.md §5 C14",
  "note": "trusted: Lean kernel; scheduler shim; Startup.lean's guard ('other producers exist only after the reader started') validated by co-simulation",
  "technique": "Lean 4 proof (invariant over all interleavings of a start-up model) + lock-step co-simulation + structural skeleton of the concurrent code regenerated from the source (translator) and compared by theorem"},
 "C16": {
  "text": "Lean theorems c16_fifo (lines written that are not keepalives = messages enqueued, in order, none lost or duplicated — from C13's "
          "writer model), c16_append_only (every step of an item's machine only appends to the outbound sequence), c16_inside (an adapter "
          "call can end, hence its reply be enqueued, only when the calling worker has no listener enqueue pending), and on the whole-server "
          "models of the co-simulation c16s_data_fifo / c16s_meta_fifo (written ++ held ++ queued = everything enqueued by any thread, in "
          "order), c16s_item_order / c16s_item_written (each item's outbound sequence embedded in order in the wire order). Tied by the Data "
          "co-simulation (written byte stream vs enqueue events on every run) and the writer co-simulation.",
  "ref": "DESIGN.md §5 C16",
  "note": "trusted: Lean kernel; scheduler shim (Queue FIFO); one sendall = one contiguous line is the OS's",
  "technique": "Lean 4 proof + lock-step co-simulation + structural skeleton of the concurrent code regenerated from the source (translator) and compared by theorem"},
 "C10": {
  "text": "Lean theorems over the model of the (sequential) reader thread: c10_once (initialize at most once over any line sequence), "
          "c10_initialize_only_first (only for an init request, only while awaited, slot consumed), c10_init_order (initialize, then "
          "set_listener, then the reply), c10_work_after_init / c10_work_needs_earlier_init (no request reaches pool or subscription manager "
          "before an init request was processed), c10_reject_before_init, c10_reject_second_init; tied by a sequential differential of the "
          "real Server.on_received_request (both kinds) with recording stubs, the statements also evaluated on the real action log.",
  "ref": "DESIGN.md §5 C10",
  "note": "trusted: Lean kernel; Dispatch.lean hand-written, tied by differential; DESIGN I-1 (a malformed/refused first init consumes the slot)",
  "technique": "Lean 4 proof (case analysis + induction over line sequences) + sequential differential of the real reader code + structural skeleton of the concurrent code regenerated from the source (translator) and compared by theorem"},
 "C20": {
  "text": "Lean theorems c20_close (honoured close request: exactly quit, pool shutdown, socket close; no handler), c20_ignored, c20_bad_id, "
          "c20_io_failure (handler notified exactly once iff installed; exit iff absent or true), c20_read_after_close, "
          "c20_closed_only_by_close over Dispatch.lean; on the whole-Metadata-server model (Conc/MetaClose.lean) the thread-level course of "
          "close(): CloseInv inductive over every schedule, c20s_closed (writer stopped, every accepted task done, socket closed, reader gone), "
          "c20s_writer_flushed, mstep_close_no_handler, c20s_close_progress, and I/O failures (Conc/MetaFault.lean): mstep_io_only_on_fault, "
          "mstep_read_fault / mstep_write_fault (handler told once iff installed, exit iff absent or true), mreach_nio, mreach_exited, "
          "mstep_fault_isolated, and the same for the Data server model (Conc/DataClose.lean, Conc/DataFault.lean: DCloseInv, DPoolInv, "
          "c20d_closed, greach_nio, …); tied by lock-step co-simulation of close and failure scenarios on both server kinds, by fault-injection co-simulation of both real servers under the scheduler (EOF / "
          "reset at every inbound offset class, each write index up to 8, close requests by id and agreed version, close() twice, handler "
          "absent/True/False/None, pool tasks in flight) and by the reader-dispatch differential. The application's own close() from "
          "another thread, called any number of times, is the model Conc/AppClose.lean with Props/C20A.lean proved for every schedule, "
          "inbound stream, fault position and handler: c20a_own_close_not_reported (a reader report implies stop flag clear, socket not "
          "closed by close(), peer failed), c20a_no_fault_no_report, c20a_writer_never_writes_closed, c20a_again (every step of a repeated "
          "close() is enabled at once and changes nothing but one more stop pill), c20a_closed, c20a_tasks_accounted, c20a_fifo, "
          "c20a_flushed, c20a_nothing_after_pill (what is written is always a prefix of what was enqueued before the first stop pill), c20a_app_progress, c20a_reader_ends, c20a_report_once, c20a_exit_iff, c20a_exc_only_after_shutdown; tied by trace "
          "acceptance of the real event log (both server kinds, 1-3 close() calls at a random moment, peer failures, failing writes).",
  "ref": "DESIGN.md §5 C20",
  "note": "trusted: Lean kernel; scheduler shim with scripted socket; os._exit substituted; real socket/exit semantics are the OS's",
  "technique": "Lean 4 proof (case analysis) + fault-injection co-simulation + sequential differential + structural skeleton of the concurrent code regenerated from the source (translator) and compared by theorem"},
 "C04": {
  "text": "Lean theorems over the pool model for every interleaving of submissions, task starts (any pool size), adapter call begins/ends "
          "with every outcome, and reply enqueues: c04_once (an unfinished task has produced nothing; a finished one exactly one of {one "
          "reply, one handler notification}), c04_reply_is_result, c04_notified_only_without_reply, c04_call_is_next, c04_isolation, "
          "c04_out_count, c04_progress; Conc/MetaProj + Props/C04S lift them to the whole-server model of the co-simulation (the pool moves "
          "only by pool steps; every pool reply is enqueued and, once the queue is drained, written; the reader hands each decodable "
          "request to the pool exactly once). Tied by lock-step co-simulation of the real MetadataProviderServer under the scheduler (effects incl. "
          "adapter calls with decoded arguments, enabled threads, state after every chunk), a fine-grained (line-level preemption) run with "
          "oracles, and the closures differential for dispatch and reply kind.",
  "ref": "DESIGN.md §5 C04",
  "note": "trusted: Lean kernel; scheduler shim; metaExec hand-written (tied by differential)",
  "technique": "Lean 4 proof (invariant over all interleavings of the pool model) + lock-step co-simulation + differential + structural skeleton of the concurrent code regenerated from the source (translator) and compared by theorem"},
 "C18": {
  "text": "Lean theorems: c18_size (pool size from the constructor argument, over Gen.poolSize regenerated from the source each run), c18_bound "
          "(running = started unfinished tasks <= n), c18_one_sequential (n = 1: at most one active task), c18_fifo_start (tasks start in "
          "submission order), c18_submit_nonblocking, c18_free_worker_takes, c18_calls_only_in_tasks. Tied by the Metadata and Data "
          "co-simulations (thread identity of every adapter call, enabled-set comparison, blocking adapter calls) and the constructor differential.",
  "ref": "DESIGN.md §5 C18",
  "note": "trusted: Lean kernel; translator for Gen/Pool.lean; scheduler shim's pool = ThreadPoolExecutor; cpu_count is a parameter",
  "technique": "Lean 4 proof (invariant over the pool model; generated sizing function) + lock-step co-simulation + structural skeleton of the concurrent code regenerated from the source (translator) and compared by theorem"},
 "C01": {
  "text": "Lean theorems c01_at_most_once (no id answered twice), c01_reply_for_request, c01_never_lost (an unsubscription always finds its bookkeeping), c01_quiescent (at quiescence every arrived request is answered), c01_progress (no deadlock), and the one-step theorems fixing what each reply says (late SUB -> SubscribeError 'too late'; subscribe/unsubscribe returned -> V, raised -> the adapter's error; nothing to undo -> V). Proof: Conc/InvProof.lean shows the ~45-clause invariant Inv inductive for every action of the per-item machine (inv_reach: every "
          "state reachable by any schedule / arrival timing / adapter outcomes with a well-formed history satisfies Inv); the property theorems "
          "are corollaries. Tie: lock-step co-simulation of the real DataProviderServer under a deterministic scheduler (state, effects, "
          "enabled threads and the invariant compared after every chunk), fine-grained line-level-preemption runs with trace oracles.",
  "ref": "DESIGN.md §0a, §3, §5 C01",
  "note": "trusted: Lean kernel; Conc/Item.lean hand-written (tied by co-simulation); scheduler shim; WF hypothesis on the request history",
  "technique": "Lean 4 proof (inductive invariant over all schedules of a small-step model) + lock-step co-simulation of the real server + structural skeleton of the concurrent code regenerated from the source (translator) and compared by theorem"},
 "C02": {
  "text": "Lean theorems c02_no_overlap (at most one thread inside an adapter call per item), c02_order (processing strictly in arrival order), c02_paired (unsubscribe begins only after the preceding request's subscribe returned normally), c02_usb_after_failure, c02_skip_only_if_later, c02_latest_executed. Proof: Conc/InvProof.lean shows the ~45-clause invariant Inv inductive for every action of the per-item machine (inv_reach: every "
          "state reachable by any schedule / arrival timing / adapter outcomes with a well-formed history satisfies Inv); the property theorems "
          "are corollaries. Tie: lock-step co-simulation of the real DataProviderServer under a deterministic scheduler (state, effects, "
          "enabled threads and the invariant compared after every chunk), fine-grained line-level-preemption runs with trace oracles.",
  "ref": "DESIGN.md §0a, §3, §5 C02",
  "note": "trusted: Lean kernel; Conc/Item.lean hand-written (tied by co-simulation); scheduler shim; WF hypothesis on the request history",
  "technique": "Lean 4 proof (inductive invariant over all schedules of a small-step model) + lock-step co-simulation of the real server + structural skeleton of the concurrent code regenerated from the source (translator) and compared by theorem"},
 "C03": {
  "text": "Lean theorems c03_tag (an id read by a listener call is the id of an executed subscription of this item), c03_forward (while the forwarding window of r is open every listener read returns r), c03_window_opens, c03_drop (never subscribed / unsubscription fully processed => dropped), c03_not_stale (an id read is always the most recently published one), c03_read_builds_line. Proof: Conc/InvProof.lean shows the ~45-clause invariant Inv inductive for every action of the per-item machine (inv_reach: every "
          "state reachable by any schedule / arrival timing / adapter outcomes with a well-formed history satisfies Inv); the property theorems "
          "are corollaries. Tie: lock-step co-simulation of the real DataProviderServer under a deterministic scheduler (state, effects, "
          "enabled threads and the invariant compared after every chunk), fine-grained line-level-preemption runs with trace oracles.",
  "ref": "DESIGN.md §0a, §3, §5 C03",
  "note": "trusted: Lean kernel; Conc/Item.lean hand-written (tied by co-simulation); scheduler shim; WF hypothesis on the request history",
  "technique": "Lean 4 proof (inductive invariant over all schedules of a small-step model) + lock-step co-simulation of the real server + structural skeleton of the concurrent code regenerated from the source (translator) and compared by theorem"},
 "C17": {
  "text": "Lean theorems c17_emits (after a False availability answer the next steps are forced: the id read is the executing subscription's, the EOS line is built with it and enqueued before subscribe() begins), c17_branch (only False leads there), c17_raises (query raises => error reply, no subscribe), c17_executor_is_current. Proof: Conc/InvProof.lean shows the ~45-clause invariant Inv inductive for every action of the per-item machine (inv_reach: every "
          "state reachable by any schedule / arrival timing / adapter outcomes with a well-formed history satisfies Inv); the property theorems "
          "are corollaries. Tie: lock-step co-simulation of the real DataProviderServer under a deterministic scheduler (state, effects, "
          "enabled threads and the invariant compared after every chunk), fine-grained line-level-preemption runs with trace oracles.",
  "ref": "DESIGN.md §0a, §3, §5 C17",
  "note": "trusted: Lean kernel; Conc/Item.lean hand-written (tied by co-simulation); scheduler shim; WF hypothesis on the request history",
  "technique": "Lean 4 proof (inductive invariant over all schedules of a small-step model) + lock-step co-simulation of the real server + structural skeleton of the concurrent code regenerated from the source (translator) and compared by theorem"},
 "C19": {
  "text": "Lean theorems c19_unsub (at quiescence, last request an unsubscription => item not registered), c19_dead_generations_empty (every unregistered generation of bookkeeping is empty and unreferenced, in every reachable state), c19_probe_dropped, c19_live (last request a subscription => exactly its id is published). Thorough tier adds a real-thread census test over 5,000 one-shot items. Proof: Conc/InvProof.lean shows the ~45-clause invariant Inv inductive for every action of the per-item machine (inv_reach: every "
          "state reachable by any schedule / arrival timing / adapter outcomes with a well-formed history satisfies Inv); the property theorems "
          "are corollaries. Tie: lock-step co-simulation of the real DataProviderServer under a deterministic scheduler (state, effects, "
          "enabled threads and the invariant compared after every chunk), fine-grained line-level-preemption runs with trace oracles.",
  "ref": "DESIGN.md §0a, §3, §5 C19",
  "note": "trusted: Lean kernel; Conc/Item.lean hand-written (tied by co-simulation); scheduler shim; WF hypothesis on the request history",
  "technique": "Lean 4 proof (inductive invariant over all schedules of a small-step model) + lock-step co-simulation of the real server + structural skeleton of the concurrent code regenerated from the source (translator) and compared by theorem"},
}
