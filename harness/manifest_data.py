SOURCE_COMMITS = []
NOTES = ("Every check: (1) regenerates lean/AriVerif/Gen from /repo, (2) lake-builds the property's theorems and audits "
         "axioms, (3) runs the model's executable definitions and the real code on the same inputs / schedules, (4) on a "
         "broken obligation or correspondence searches the real code for a failing input. Exit 2 = infrastructure.")
_PENDING = "machinery for this property is still being built in this session (Lean model + correspondence); no claim yet"
NOT_YET = {("C%02d" % i): _PENDING for i in range(1, 21)}

CHECKS = {
 "C05": {
  "text": "Lean theorems c05_charset/no_sep/special/roundtrip/injective/accepts_alternatives hold for every String, '' and None "
          "over the model Ari.encodeString/decodeString; the model is tied to protocol.encode_string/decode_string by a "
          "differential over all code points (thorough: all 1,112,064), all short special strings, random strings, "
          "alternative encodings and malformed tokens, and the same statements are evaluated on the real functions.",
  "ref": "DESIGN.md §5 C05",
  "note": "trusted: Lean kernel + 3 standard axioms; harness; CPython's quote_plus/unquote_plus are what is being compared (modelled, not verified)",
  "technique": "Lean 4 proof (induction + decide +kernel over 256 bytes) + pure differential correspondence"},
}
