"""C05 — pure differential of protocol.encode_string / decode_string against Ari.Codec."""
import itertools
from urllib import parse as _up
import common as C
from streams import Result, diff

ALPHABET = set("ABCDEFGHIJKLMNOPQRSTUVWXYZabcdefghijklmnopqrstuvwxyz0123456789_.-~+%")
SPECIAL = list("|#$%+ *~\r\n\t&=/?:;,'\"\\@") + ["\x00", "\x7f", "é", "€", "\U0001F600"]
assert len(SPECIAL) == 27


def _protocol():
    import importlib
    import lightstreamer_adapter.protocol as p
    return importlib.reload(p) if False else p


def enc_answer(p, v):
    try:
        return "ok " + C.hx(p.encode_string(v))
    except p.RemotingException:
        return "err remoting"
    except Exception as e:  # anything else escaping is itself a finding (C07/C09)
        return "err other " + type(e).__name__


def safe_decode(p, t):
    """decode_string(t), or the exception it raised (the code under test may reject a token)"""
    try:
        return p.decode_string(t)
    except Exception as e:
        return e


def dec_answer(p, t):
    r = safe_decode(p, t)
    if isinstance(r, Exception):
        return "err " + ("remoting" if isinstance(r, p.RemotingException) else "other " + type(r).__name__)
    if r is None:
        return "ok n"
    try:
        strict = _up.unquote_to_bytes(t.replace("+", " ")).decode("utf-8")
    except UnicodeDecodeError:
        return "invalid" if "�" in r else "ok s:" + C.hx(r)
    if t in ("#", "$"):
        return "ok s:" + C.hx(r)
    return "ok s:" + C.hx(r) + ("" if strict == r else " strict-differs")


# code points that text-handling code is known to treat specially (byte order mark, non-characters, replacement
# character, separators, zero-width and bidi controls, private use, last code point)
NOTORIOUS = [0xFEFF, 0xFFFE, 0xFFFF, 0xFFFD, 0x2028, 0x2029, 0x85, 0xA0, 0xAD, 0x200B, 0x200D, 0x200E, 0x202E, 0x2060,
             0xE000, 0xF8FF, 0xFDD0, 0x1FFFE, 0x1FFFF, 0xE0001, 0xF0000, 0x10FFFD, 0x10FFFF, 0x1F600, 0x0130, 0x0131, 0x1E9E, 0xDF]


def codepoints(tier, R):
    if tier == "thorough":
        return [c for c in range(0x110000) if not 0xD800 <= c <= 0xDFFF], True
    cps = set(range(0x800))
    for b in (0x80, 0x800, 0x10000, 0xD800, 0xE000, 0x110000):
        cps.update(range(max(0, b - 3), min(0x110000, b + 3)))
    cps.update(R.randrange(0x110000) for _ in range(5000))
    cps.update(NOTORIOUS)
    return sorted(c for c in cps if not 0xD800 <= c <= 0xDFFF), False


def rand_string(R):
    n = R.choice([1, 1, 2, 3, 5, 8, 13, 40])
    out = []
    for _ in range(n):
        k = R.random()
        if k < 0.04:
            out.append(chr(R.choice(NOTORIOUS)))
        elif k < 0.35:
            out.append(R.choice("abcXYZ019_.-~"))
        elif k < 0.65:
            out.append(R.choice(SPECIAL))
        elif k < 0.75:
            out.append(chr(R.randrange(0x20)))
        elif k < 0.9:
            c = R.randrange(0x80, 0x10000)
            out.append(chr(c) if not 0xD800 <= c <= 0xDFFF else "퟿")
        else:
            out.append(chr(R.randrange(0x10000, 0x110000)))
    return "".join(out)


def alt_encoding(R, s):
    """A random standard URL-encoding of s (the kinds a conforming Proxy Adapter may produce)."""
    out = []
    for b in s.encode("utf-8"):
        k = R.random()
        ch = chr(b)
        if b < 0x80 and ch not in "%+" and k < 0.45:
            out.append(ch)                      # literal (incl. '*', '|' is never sent but legal here)
        elif b == 0x20 and k < 0.7:
            out.append("+")
        elif k < 0.85:
            out.append("%%%02X" % b)
        else:
            h = "%%%02x" % b
            out.append(h if R.random() < 0.5 else h[0] + h[1].upper() + h[2])   # mixed case
    return "".join(out)


def malformed_token(R):
    return "".join(R.choice(["%", "%", "%f", "%F", "%e2", "%82", "%ac", "%c3", "%80", "%ff", "%zz", "%4", "+", "a", "Z",
                             "0", "~", "*", "#", "$", "%25", "%2", "g", "%%"]) for _ in range(R.randrange(1, 7)))


def stream(tier):
    p = _protocol()
    R = C.rng("codec")
    res = Result("codec-differential")
    quick = tier == "quick"
    values = [None, ""]
    cps, exhaustive_cp = codepoints(tier, R)
    values += [chr(c) for c in cps]
    maxlen = 2 if quick else 3
    for n in range(1, maxlen + 1):
        values += ["".join(t) for t in itertools.product(SPECIAL, repeat=n)]
    nrand = {"quick": 5000, "search": 20000, "thorough": 200000}[tier]
    rnd = [rand_string(R) for _ in range(nrand)]
    values += rnd
    res.distribution["codepoints"] = len(cps)
    res.distribution["codepoints_exhaustive"] = int(exhaustive_cp)
    res.distribution["special_strings_maxlen"] = maxlen
    res.distribution["random_strings"] = nrand
    # ---- encode: model vs code, and the property's oracle on the code's own output ----
    ops, impl = [], []
    seen_tokens = {}
    for v in values:
        ops.append("enc n" if v is None else "enc s:" + C.hx(v))
        a = enc_answer(p, v)
        impl.append(a)
        if not a.startswith("ok "):
            res.violation("encode_string:raises", "encode_string raised on a text value", repr(v))
            continue
        tok = C.unhx(a[3:]).decode("utf-8")
        bad = None
        if tok == "":
            bad = "empty token"
        elif (tok == "#") != (v is None) or (tok == "$") != (v == ""):
            bad = "reserved token misuse"
        elif v and not set(tok) <= ALPHABET:
            bad = "character outside the token alphabet"
        elif safe_decode(p, tok) != v:
            bad = "round trip differs: %r" % (safe_decode(p, tok),)
        elif tok in seen_tokens and seen_tokens[tok] != v:
            bad = "collision with %r" % (seen_tokens[tok],)
        seen_tokens[tok] = v
        if bad:
            res.violation("codec:" + bad.split(":")[0], bad, {"value": repr(v), "token": tok})
        if v is None or v == "" or not set(v) <= ALPHABET - set("+%"):
            res.nontrivial.add(v)
    res.sample({"op": ops[2], "impl": impl[2]})
    res.sample({"op": ops[-1], "impl": impl[-1]})
    # ---- decode: alternative encodings (oracle: decodes to the same value) ----
    nalt = {"quick": 5000, "search": 20000, "thorough": 200000}[tier]
    for i in range(nalt):
        s = rnd[i % len(rnd)] if i % 3 else rand_string(R)
        t = alt_encoding(R, s)
        if t in ("#", "$", ""):
            continue
        ops.append("dec " + C.hx(t))
        impl.append(dec_answer(p, t))
        got = safe_decode(p, t)
        if got != s:
            res.violation("codec:alternative encoding rejected", "decode_string(%r) %s, the value is %r" % (
                t, "raises %r" % (got,) if isinstance(got, Exception) else "= %r" % (got,), s), {"token": t, "value": repr(s)})
        res.nontrivial.add("alt:" + t)
        res.distribution["alt_encodings"] += 1
    res.sample({"op": ops[-1], "impl": impl[-1]})
    # ---- decode: malformed / invalid UTF-8 tokens (model fidelity only, no oracle) ----
    nmal = {"quick": 3000, "search": 3000, "thorough": 50000}[tier]
    for _ in range(nmal):
        t = malformed_token(R)
        ops.append("dec " + C.hx(t))
        a = dec_answer(p, t)
        impl.append(a)
        res.distribution["malformed_" + a.split(" ")[0]] += 1
    res.sample({"op": ops[-1], "impl": impl[-1]})
    diff(res, ops, impl)
    res.exhaustive = False
    return res


# ------------------------------------------------------------------ what the SERVER writes for values that arrived encoded
import re as _re
_TOKEN = _re.compile(r"[A-Za-z0-9_.\-~+%]+\Z")


def stream_outbound_tokens(tier):
    """C05 end to end: item names arrive in a SUB request in any standard URL-encoding (java.net.URLEncoder's: '*' literal,
    '~' escaped, '+' for space; or any other mix of literal and escaped bytes) and come back on every line the server writes
    about that item (replies, updates, end-of-snapshot, clear-snapshot).  Whatever the request looked like, every token the
    real DataProviderServer writes is over the property's alphabet and decodes to the value the adapter was given.  The
    server runs without threads of its own here (recording request manager, pool of one, drained before looking)."""
    import ari
    import lightstreamer_adapter.server as S
    from lightstreamer_adapter.interfaces.data import DataProvider
    R = C.rng("codec-outbound")
    res = Result("outbound-token-conformance")
    n = {"quick": 150, "search": 600, "thorough": 6000}[tier]
    specials = ["*", "a*b", "quotes *.EUR~spot", "~", "a b", "a+b", "100%", "é*", "item|1", "#", "$", "x#y", "-_.~", "**", " * "]
    for i in range(n):
        names = []
        for _ in range(R.choice([1, 2, 3])):
            nm = R.choice(specials) if R.random() < 0.5 else rand_string(R)
            if nm and nm not in names and "\ud800" <= "\ud800" and not any(0xD800 <= ord(c) <= 0xDFFF for c in nm):
                names.append(nm)
        if not names:
            continue
        lines = []

        class RM:
            def send_reply(self, rid, body): lines.append(("reply", rid + "|" + body))
            def send_notify(self, body): lines.append(("notify", body))
            def change_keep_alive(self, *a, **k): pass
            def quit(self): pass

        class A(DataProvider):
            def initialize(self, p, c=None): pass
            def set_listener(self, l): self.l = l
            def issnapshot_available(self, item): return R.random() < 0.5
            def subscribe(self, item):
                seen.append(item)
                self.l.update(item, {"f*": item, "g": b"*", "h": None}, True)
                self.l.end_of_snapshot(item)
                self.l.clear_snapshot(item)
                self.l.update(item, {item: "v"}, False)
            def unsubscribe(self, item): pass
        seen = []
        srv = S.DataProviderServer(A(), ("h", 1), keep_alive=0, thread_pool_size=1)
        srv._request_manager = RM()
        toks = {}
        escaped = []
        try:
            srv.on_received_request("1|DPI|S|ARI.version|S|1.9.1\r\n")
            for k, nm in enumerate(names):
                t = ari.enc_text(nm, R) if R.random() < 0.6 else alt_encoding(R, nm)
                if "|" in t or "\n" in t or "\r" in t or t in ("#", "$") or t.strip() != t or not t:
                    t = ari.enc_text(nm)
                toks[nm] = t
                srv.on_received_request("s%d|SUB|S|%s\r\n" % (k, t))
            srv._executor.shutdown(wait=True)
        except Exception as e:
            escaped.append(repr(e))
        finally:
            srv._executor.shutdown(wait=False)
        res.traces += 1
        res.evaluations += len(lines)
        res.distribution["names_with_star"] += sum("*" in nm for nm in names)
        res.nontrivial.add(tuple(sorted(toks.items())))
        inp = {"item_names": names, "request_tokens": toks}
        if escaped:
            res.violation("outbound:raises", "handling the requests raised %s" % escaped[0], inp)
            continue
        if sorted(seen, key=repr) != sorted(names, key=repr):
            res.violation("outbound:item-name-decoded-wrong", "the adapter was asked to subscribe %r for the requested items %r" % (seen, names), inp)
            continue
        for kind, line in lines:
            parts = line.split("|")
            if parts[-1][:0] != "" or "\n" in line or "\r" in line:
                res.violation("outbound:not-one-line", "%r" % line[:120], inp)
                break
            # tokens after the head (request id / timestamp and method) are typed values: marker, value, marker, value ...
            # text tokens are the ones behind an `S` marker (bytes travel as base64 behind `Y`, error texts behind `E…`)
            bad = [t for j, t in enumerate(parts) if j > 0 and parts[j - 1] == "S" and not (_TOKEN.match(t) or t in ("#", "$"))]
            if bad:
                res.violation("outbound:token-alphabet", "line %r carries the token %r, outside A-Za-z0-9_.-~+%% (the request spelt the item %r)" % (
                    line[:120], bad[0][:60], toks), inp)
                break
            if parts[1:2] == ["UD3"] or (kind == "notify" and len(parts) > 2 and parts[1] in ("UD3", "EOS", "CLS")):
                item_tok = parts[3]
                if ari.dec_text(item_tok) not in names:
                    res.violation("outbound:item-does-not-decode", "line %r names %r, none of the subscribed items %r" % (line[:120], ari.dec_text(item_tok), names), inp)
                    break
        if i < 2:
            res.sample({"item_names": names, "request_tokens": toks, "lines": [l for _, l in lines][:6]})
    return res
