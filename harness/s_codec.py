"""C05 — pure differential of protocol.encode_string / decode_string against Ari.Codec."""
import itertools
from urllib import parse as _up
import common as C
from streams import Result, diff

ALPHABET = set("ABCDEFGHIJKLMNOPQRSTUVWXYZabcdefghijklmnopqrstuvwxyz0123456789_.-~+%")
SPECIAL = list("|#$%+ *~\r\n\t&=/?:;,'\"\\@") + ["\x00", "\x7f", "é", "€", "\U0001F600"]
assert len(SPECIAL) == 27


def _protocol():
    import importlib
    import lightstreamer_adapter.protocol as p
    return importlib.reload(p) if False else p


def enc_answer(p, v):
    try:
        return "ok " + C.hx(p.encode_string(v))
    except p.RemotingException:
        return "err remoting"
    except Exception as e:  # anything else escaping is itself a finding (C07/C09)
        return "err other " + type(e).__name__


def safe_decode(p, t):
    """decode_string(t), or the exception it raised (the code under test may reject a token)"""
    try:
        return p.decode_string(t)
    except Exception as e:
        return e


def dec_answer(p, t):
    r = safe_decode(p, t)
    if isinstance(r, Exception):
        return "err " + ("remoting" if isinstance(r, p.RemotingException) else "other " + type(r).__name__)
    if r is None:
        return "ok n"
    try:
        strict = _up.unquote_to_bytes(t.replace("+", " ")).decode("utf-8")
    except UnicodeDecodeError:
        return "invalid" if "�" in r else "ok s:" + C.hx(r)
    if t in ("#", "$"):
        return "ok s:" + C.hx(r)
    return "ok s:" + C.hx(r) + ("" if strict == r else " strict-differs")


# code points that text-handling code is known to treat specially (byte order mark, non-characters, replacement
# character, separators, zero-width and bidi controls, private use, last code point)
NOTORIOUS = [0xFEFF, 0xFFFE, 0xFFFF, 0xFFFD, 0x2028, 0x2029, 0x85, 0xA0, 0xAD, 0x200B, 0x200D, 0x200E, 0x202E, 0x2060,
             0xE000, 0xF8FF, 0xFDD0, 0x1FFFE, 0x1FFFF, 0xE0001, 0xF0000, 0x10FFFD, 0x10FFFF, 0x1F600, 0x0130, 0x0131, 0x1E9E, 0xDF]


def codepoints(tier, R):
    if tier == "thorough":
        return [c for c in range(0x110000) if not 0xD800 <= c <= 0xDFFF], True
    cps = set(range(0x800))
    for b in (0x80, 0x800, 0x10000, 0xD800, 0xE000, 0x110000):
        cps.update(range(max(0, b - 3), min(0x110000, b + 3)))
    cps.update(R.randrange(0x110000) for _ in range(5000))
    cps.update(NOTORIOUS)
    return sorted(c for c in cps if not 0xD800 <= c <= 0xDFFF), False


def rand_string(R):
    n = R.choice([1, 1, 2, 3, 5, 8, 13, 40])
    out = []
    for _ in range(n):
        k = R.random()
        if k < 0.04:
            out.append(chr(R.choice(NOTORIOUS)))
        elif k < 0.35:
            out.append(R.choice("abcXYZ019_.-~"))
        elif k < 0.65:
            out.append(R.choice(SPECIAL))
        elif k < 0.75:
            out.append(chr(R.randrange(0x20)))
        elif k < 0.9:
            c = R.randrange(0x80, 0x10000)
            out.append(chr(c) if not 0xD800 <= c <= 0xDFFF else "퟿")
        else:
            out.append(chr(R.randrange(0x10000, 0x110000)))
    return "".join(out)


def alt_encoding(R, s):
    """A random standard URL-encoding of s (the kinds a conforming Proxy Adapter may produce)."""
    out = []
    for b in s.encode("utf-8"):
        k = R.random()
        ch = chr(b)
        if b < 0x80 and ch not in "%+" and k < 0.45:
            out.append(ch)                      # literal (incl. '*', '|' is never sent but legal here)
        elif b == 0x20 and k < 0.7:
            out.append("+")
        elif k < 0.85:
            out.append("%%%02X" % b)
        else:
            h = "%%%02x" % b
            out.append(h if R.random() < 0.5 else h[0] + h[1].upper() + h[2])   # mixed case
    return "".join(out)


def malformed_token(R):
    return "".join(R.choice(["%", "%", "%f", "%F", "%e2", "%82", "%ac", "%c3", "%80", "%ff", "%zz", "%4", "+", "a", "Z",
                             "0", "~", "*", "#", "$", "%25", "%2", "g", "%%"]) for _ in range(R.randrange(1, 7)))


def stream(tier):
    p = _protocol()
    R = C.rng("codec")
    res = Result("codec-differential")
    quick = tier == "quick"
    values = [None, ""]
    cps, exhaustive_cp = codepoints(tier, R)
    values += [chr(c) for c in cps]
    maxlen = 2 if quick else 3
    for n in range(1, maxlen + 1):
        values += ["".join(t) for t in itertools.product(SPECIAL, repeat=n)]
    nrand = {"quick": 5000, "search": 20000, "thorough": 200000}[tier]
    rnd = [rand_string(R) for _ in range(nrand)]
    values += rnd
    res.distribution["codepoints"] = len(cps)
    res.distribution["codepoints_exhaustive"] = int(exhaustive_cp)
    res.distribution["special_strings_maxlen"] = maxlen
    res.distribution["random_strings"] = nrand
    # ---- encode: model vs code, and the property's oracle on the code's own output ----
    ops, impl = [], []
    seen_tokens = {}
    for v in values:
        ops.append("enc n" if v is None else "enc s:" + C.hx(v))
        a = enc_answer(p, v)
        impl.append(a)
        if not a.startswith("ok "):
            res.violation("encode_string:raises", "encode_string raised on a text value", repr(v))
            continue
        tok = C.unhx(a[3:]).decode("utf-8")
        bad = None
        if tok == "":
            bad = "empty token"
        elif (tok == "#") != (v is None) or (tok == "$") != (v == ""):
            bad = "reserved token misuse"
        elif v and not set(tok) <= ALPHABET:
            bad = "character outside the token alphabet"
        elif safe_decode(p, tok) != v:
            bad = "round trip differs: %r" % (safe_decode(p, tok),)
        elif tok in seen_tokens and seen_tokens[tok] != v:
            bad = "collision with %r" % (seen_tokens[tok],)
        seen_tokens[tok] = v
        if bad:
            res.violation("codec:" + bad.split(":")[0], bad, {"value": repr(v), "token": tok})
        if v is None or v == "" or not set(v) <= ALPHABET - set("+%"):
            res.nontrivial.add(v)
    res.sample({"op": ops[2], "impl": impl[2]})
    res.sample({"op": ops[-1], "impl": impl[-1]})
    # ---- decode: alternative encodings (oracle: decodes to the same value) ----
    nalt = {"quick": 5000, "search": 20000, "thorough": 200000}[tier]
    for i in range(nalt):
        s = rnd[i % len(rnd)] if i % 3 else rand_string(R)
        t = alt_encoding(R, s)
        if t in ("#", "$", ""):
            continue
        ops.append("dec " + C.hx(t))
        impl.append(dec_answer(p, t))
        got = safe_decode(p, t)
        if got != s:
            res.violation("codec:alternative encoding rejected", "decode_string(%r) %s, the value is %r" % (
                t, "raises %r" % (got,) if isinstance(got, Exception) else "= %r" % (got,), s), {"token": t, "value": repr(s)})
        res.nontrivial.add("alt:" + t)
        res.distribution["alt_encodings"] += 1
    res.sample({"op": ops[-1], "impl": impl[-1]})
    # ---- decode: malformed / invalid UTF-8 tokens (model fidelity only, no oracle) ----
    nmal = {"quick": 3000, "search": 3000, "thorough": 50000}[tier]
    for _ in range(nmal):
        t = malformed_token(R)
        ops.append("dec " + C.hx(t))
        a = dec_answer(p, t)
        impl.append(a)
        res.distribution["malformed_" + a.split(" ")[0]] += 1
    res.sample({"op": ops[-1], "impl": impl[-1]})
    diff(res, ops, impl)
    res.exhaustive = False
    return res
