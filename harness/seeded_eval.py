#!/venv/bin/python
"""Apply a seeded change (seeded/<id>/patch.diff) to /repo, run the registered quick checks against it and
undo it straight afterwards.  usage: seeded_eval.py <seeded-dir> [prop ...]   (default: all registered)"""
import json, os, subprocess, sys, time
V = os.path.dirname(os.path.dirname(os.path.abspath(__file__)))
d = os.path.abspath(sys.argv[1])
props = sys.argv[2:] or [c["property_id"] for c in json.load(open(os.path.join(V, "MANIFEST.json")))["checks"]]
patch = os.path.join(d, "patch.diff")
assert subprocess.run(["git", "-C", "/repo", "status", "--porcelain"], capture_output=True, text=True).stdout.strip() == "", "/repo not clean"
subprocess.run(["git", "-C", "/repo", "apply", patch], check=True)
res = {}
try:
    for p in props:
        t0 = time.time()
        r = subprocess.run(["/venv/bin/python", os.path.join(V, "harness", "check.py"), p, "--tier", os.environ.get("TIER", "quick")],
                           capture_output=True, text=True, cwd=V, env=dict(os.environ, VERIF_SEED=os.environ.get("VERIF_SEED", "1")))
        lines = [l for l in r.stdout.split("\n") if l.startswith(("VIOLATION", "KNOWN-FINDING"))]
        detail = None
        for l in lines:
            if "replay=" in l:
                path = l.split("replay=")[1].split()[0]
                try:
                    j = json.load(open(path))
                    v = j.get("violation") or {}
                    detail = {"signature": v.get("signature"), "what": (v.get("what") or "")[:300],
                              "no_longer_checks": [b.get("kind") + ":" + str(b.get("name"))[:80] for b in j.get("no_longer_checks", j.get("broken", []))][:4]}
                except Exception as e:
                    detail = {"error": str(e)}
        res[p] = {"exit": r.returncode, "lines": lines, "detail": detail, "secs": round(time.time() - t0, 1),
                  "stderr_tail": r.stderr[-300:] if r.returncode == 2 else ""}
        print(p, r.returncode, lines[:1], (detail or {}).get("signature"), flush=True)
finally:
    subprocess.run(["git", "-C", "/repo", "checkout", "--", "."], check=True)
    # the evidence files written while the change was applied describe the changed tree: put the committed ones back
    subprocess.run(["git", "-C", V, "checkout", "--", "evidence"], check=False)
    subprocess.run(["/venv/bin/python", os.path.join(V, "harness", "extract.py")], capture_output=True, cwd=V)
json.dump(res, open(os.path.join(d, "results.json"), "w"), indent=1)
caught = [p for p, r in res.items() if r["exit"] == 1]
print("CAUGHT BY:", caught)
