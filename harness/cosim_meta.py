"""Lock-step co-simulation of the REAL MetadataProviderServer under the scheduler against Conc/MetaSrv.lean,
and the oracles of C04 / C18 on the real trace."""
import re
import common as C
import ari
import shim
from s_wire import gen_request, gen_script, script_toks, ADAPTER_METHODS, unsupported_in_script
from cosim_data import Run, strip_ts


def gen_scenario(R):
    n = R.choice([1, 2, 3, 5, 8, 12])
    reqs = []
    # half of the connections carry the requests of one or two users / sessions (as real connections do: a session's NNS, NNT, GIS,
    # NSC follow each other): anything the library keys by user or session id meets repeated keys, pipelined
    shared = None
    if R.random() < 0.5:
        shared = {"user": [gen_request("NUS", R)[0][0] for _ in range(R.choice([1, 2]))],
                  "session": [gen_request("NSC", R)[0][0] for _ in range(R.choice([1, 1, 2]))]}
    for i in range(n):
        m = R.choice(ari.META_POST_INIT if shared is None or R.random() < 0.5 else ["NNS", "NSC", "NNS", "NSC", "NNT", "NTC", "GIS", "NUM"])
        fixed, tail = gen_request(m, R)
        if shared is not None:
            for j, (name, ty) in enumerate(ari.LAYOUT[m][0]):
                if ty == "S" and (name == "user" or (name or "").lower().startswith("session") or (m == "NSC" and j == 0)):
                    fixed[j] = R.choice(shared["user" if name == "user" else "session"])
        if m in ("GIT", "GUI") and tail and len(tail) > 2:
            tail = tail[:2]
        toks = ari.encode_args(m, fixed, tail)
        nitems = len(tail) if m in ("GIT", "GUI") and tail else 0
        script, kind = gen_script(m, nitems, R)
        reqs.append({"id": "q%d" % (i + 1), "method": m, "tokens": toks, "script": script, "kind": kind, "nitems": nitems})
    lines = ["1|MPI|S|ARI.version|S|1.9.1\r\n"] + ["|".join([r["id"], r["method"]] + r["tokens"]) + R.choice(["\r\n", "\n"]) for r in reqs]
    # some connections end with an honoured close request (the agreed version supports close packets): `Server.close()` runs
    # on the reader thread while pool tasks may still be queued or running
    close = R.random() < 0.3
    if close:
        lines.append("0|CLOSE%s\r\n" % R.choice(["", "|S|reason|S|shutdown"]))
        if R.random() < 0.2:
            # the Proxy Adapter closes at once: close packets are honoured before the init request too
            lines, reqs, n = lines[-1:], [], 0
    mode = R.choice(["line", "all", "merge", "split", "split"])
    if mode == "line":
        chunks = lines
    elif mode == "all":
        chunks = ["".join(lines)]
    elif mode == "split":
        # reads cut anywhere, often several times inside one line (a request delivered in three or more reads)
        stream = "".join(lines)
        k = min(len(stream) - 1, R.choice([2, 3, 5, 9, 14]))
        cuts = sorted(R.sample(range(1, len(stream)), k)) if k > 0 else []
        chunks = [stream[a:b] for a, b in zip([0] + cuts, cuts + [len(stream)])]
    else:
        chunks, i = [], 0
        while i < len(lines):
            k = R.choice([1, 2, 4])
            chunks.append("".join(lines[i:i + k]))
            i += k
    chunks = [c[j:j + 1000] for c in chunks for j in range(0, len(c), 1000)]
    pool_arg = R.choice([1, 1, 2, 3, None, 0, -2])
    pool = pool_arg if pool_arg and pool_arg > 0 else 8
    block = None
    if pool >= 2 and n >= 2 and R.random() < 0.35:
        i = R.randrange(0, n - 1)
        j = R.randrange(i + 1, n)
        # request i's first adapter call returns only after the reply to the later request j has been written
        if reqs[j]["kind"] in ("ok", "raise"):
            block = (i, reqs[j]["id"], reqs[j]["method"])
    if close:
        block = None          # a call waiting for a reply that the stopped writer will never write would never return
    # some connections fail instead: the peer closes / resets after a prefix of the bytes (any offset: before the init request,
    # inside a line, between requests, after everything), or the k-th write raises
    end, fail_write_at = None, None
    if not close and R.random() < 0.3:
        block = None
        if R.random() < 0.6:
            stream = "".join(chunks)
            cut = R.choice([0, len(stream), R.randrange(0, len(stream) + 1), len(lines[0])])
            out, left = [], cut
            for c in chunks:
                if left <= 0:
                    break
                out.append(c[:left])
                left -= len(c)
            chunks = out
            end = R.choice(["eof", "reset", "reset", "timedout", "unreach", "bare"])
        else:
            fail_write_at = R.randrange(1, 9)
    return {"kind": "meta", "pool_arg": pool_arg, "pool": pool, "requests": reqs, "chunks": chunks,
            "handler": R.choice(["absent", True, False]), "block": block, "close": close, "end": end, "fail_write_at": fail_write_at}


def run_real(scn, choose):
    import lightstreamer_adapter.server as S
    from lightstreamer_adapter.interfaces.metadata import MetadataProvider
    sched = shim.Sched(choose)
    if scn.get("fine_seed") is not None:
        import random as _random
        sched.fine = _random.Random(scn["fine_seed"])
        sched.fine_p = scn.get("fine_p", 0.15)
        sched.fine_focus = set(scn.get("fine_focus") or []) or None
        if scn.get("fine_files"):
            sched.fine_files = tuple(sorted(set(sched.fine_files) | set(scn["fine_files"])))
        sched.max_chunks = 200000
    sock = shim.Socket()
    saved = shim.install(sched, sock, cpu=8)
    run = Run()
    run.scn, run.sched, run.sock = scn, sched, sock
    cursor = {}

    def mk(name):
        def f(self, *args, **kw):
            me = sched.me()
            call = "%s( %s )" % (name, " ".join(ari.c_av(a) for a in args))
            sched.park(("abegin", name))
            # the request a pool task works for: the k-th task the READER submitted is the k-th request; a task submitted by
            # another pool task works for its submitter's request
            root = me
            while root.kind == "task" and root.meta.get("submitter") not in (None, "R") and root.meta["submitter"] in sched.threads:
                root = sched.threads[root.meta["submitter"]]
            k = None
            if root.kind == "task":
                rid = root.meta.get("rid")
                ids = [r["id"] for r in scn["requests"]]
                k = ids.index(rid) if rid in ids else None
            script = scn["requests"][k]["script"] if k is not None and k < len(scn["requests"]) else []
            i = cursor.get(root.name, 0)
            cursor[root.name] = i + 1
            sched.event("ab", root.name, " ".join(call.split()))        # attributed to the request's own task
            o = script[i] if i < len(script) else ("ret", None)
            blk = scn.get("block")
            if blk and k == blk[0] and i == 0:
                pre = ("%s|%s" % (blk[1], blk[2])).encode()
                sched.park(("aend", name, o), cond=lambda: any(b.startswith(pre) for _, b in sock.sent))
            else:
                sched.park(("aend", name, o))
            sched.event("ae", root.name, name, o)
            if o[0] == "raise":
                raise o[1]
            return o[1]
        return f
    body = {n: mk(n) for n in ADAPTER_METHODS}
    body["initialize"] = lambda self, p, c=None: sched.event("adapter-sync", "initialize")
    adapter = type("CoMeta", (MetadataProvider,), body)()

    class H(S.ExceptionHandler):
        def handle_exception(self, e):
            sched.event("handler", sched.me().name, type(e).__name__)
            return scn["handler"]
        def handle_ioexception(self, e):
            sched.event("iohandler", sched.me().name, type(e).__name__)
            return scn["handler"]
    srv = S.MetadataProviderServer(adapter, ("proxy", 6663), keep_alive=0, thread_pool_size=scn["pool_arg"])
    # which request a pool task works for: the id of the request line being handled when the reader submitted it
    orig_handle = srv._handle_request

    def handle_request(request_id, data, method_name):
        try:
            return orig_handle(request_id, data, method_name)
        finally:
            for t in sched.threads.values():
                if t.kind == "task" and t.meta.get("submitter") == "R" and "rid" not in t.meta:
                    t.meta["rid"] = request_id
    srv._handle_request = handle_request
    if scn["handler"] != "absent":
        srv.set_exception_handler(H())
    run.srv = srv

    def snapshot():
        ex = srv._executor
        sq = srv._request_manager._reply_sender._send_queue if srv._request_manager else None
        done = sum(1 for t in sched.threads.values() if t.kind == "task" and t.done)
        return "pool:q=%s;run=%d|sendq=%d|init=%s|done=%d|sock=%s" % (",".join(ex.workq), ex.running, len(sq.items) if sq else 0,
                                                                      "t" if srv.init_expected else "f", done, "closed" if sock.closed else "open")

    def main():
        srv.start()

    sock.fail_write_at = scn.get("fail_write_at")
    sock.fail_write_kind = ["pipe", "reset", "timedout", "unreach", "bare"][(scn.get("fail_write_at") or 0) % 5]

    def proxy():
        for c in scn["chunks"]:
            sched.park(("deliver", c))
            sock.inbound.append(c.encode("ascii"))
        if scn.get("end"):
            sched.park(("eoi",))
            sock.in_eof = scn["end"]
    try:
        sched.spawn("M", main)
        sched.spawn("P", proxy)
        hard_limit = 200000 if scn.get("fine_seed") is not None else 6000
        while True:
            before = len(sched.chunks)
            if before >= hard_limit:
                status = "limit"
                break
            sched.max_chunks = before + 1
            status = sched.run()
            if len(sched.chunks) == before:
                break
            sched.chunks[-1]["snap"] = snapshot()
            sched.chunks[-1]["blocked_after"] = [t.name for t in sched.threads.values()
                                                 if not t.done and t.op[0] == "aend" and t.cond is not None and not t.cond()]
            if status in ("quiescent", "exited", "stopped"):
                break
        for a, b in zip(sched.chunks, sched.chunks[1:]):
            b["blocked"] = a.get("blocked_after", [])
        run.status = status
        run.final_blocked = sched.chunks[-1].get("blocked_after", []) if sched.chunks else []
        run.final_enabled = sorted(t.name for t in sched.enabled())
        run.chunks = sched.chunks
        run.sent = list(sock.sent)
        run.errors = [(t.name, repr(t.error)) for t in sched.threads.values() if t.error is not None]
        run.pool_size = srv._executor._max_workers
        run.task_of = {t.meta["rid"]: t.name for t in sched.threads.values() if t.kind == "task" and "rid" in t.meta}
        # who is still alive, and which pool tasks ran to completion, BEFORE the scenario is torn down
        run.alive = {t.name: t.op for t in sched.threads.values() if not t.done}
        run.tasks_unfinished = [t.name for t in sched.threads.values() if t.kind == "task" and not (t.started and t.done)]
    finally:
        sched.teardown()
        shim.uninstall(saved)
    return run


LIB = re.compile(r"^(R|W|T\d+)$")


def driver_lines(run):
    scn = run.scn
    hk = {"absent": "n", True: "t", False: "f"}[scn["handler"]]
    lines = ["cosim meta %d %s %s" % (run.pool_size, hk, hk)]
    chunks = run.chunks
    for n, ch in enumerate(chunks):
        tid, op = ch["tid"], ch["op"]
        kind = op[0]
        if kind == "start":
            if tid in ("R", "W", "M"):
                o = "tstart"
            else:
                continue
        elif kind == "after-start":
            continue              # the creator continues after Thread.start(): no model-relevant operation of its own
        elif kind == "task-start":
            o = "start"
        elif kind == "put":
            o = "put"
        elif kind == "abegin":
            o = "abegin"
        elif kind == "aend":
            out = op[2]
            o = "aend " + ("R " + ari.py_tok(out[1]) if out[0] == "ret" else "E " + ari.exc_tok(out[1]))
        elif kind == "send" and any(e[0] == "send-fails" for e in ch["events"]):
            o = "sendfail"
        elif kind in ("recv", "get", "send"):
            o = kind
        elif kind == "eoi":
            o = "eoi"
        elif kind == "join":
            o = "join"
        elif kind == "pool-shutdown":
            o = "poolwait"
        elif kind == "deliver":
            o = "deliver " + C.hx(op[1])
        else:
            o = "unknown-" + str(kind)
        effs = []
        for e in ch["events"]:
            if e[0] == "enqueue":
                effs.append("enq:" + C.hx(e[2]))
            elif e[0] == "submit":
                effs.append("sub:" + e[1][1:])
            elif e[0] == "ab":
                effs.append("ab:" + C.hx(e[2]))
            elif e[0] == "ae":
                effs.append("ae:" + e[2])
            elif e[0] == "handler":
                effs.append("handler")
            elif e[0] == "sent":
                effs.append("sent:" + C.hx(e[1].decode("utf-8")))
            elif e[0] == "socket-close":
                effs.append("sockclose")
            elif e[0] == "iohandler":
                effs.append("iohandler")
            elif e[0] == "exit":
                effs.append("exit")
        nxt = list(chunks[n + 1]["enabled"] if n + 1 < len(chunks) else run.final_enabled)
        # a task whose adapter call is held back by the environment is "inside the call" for the model
        nxt += [b for b in (chunks[n + 1].get("blocked", []) if n + 1 < len(chunks) else run.final_blocked) if b not in nxt]
        if "exit" in effs:
            nxt = []              # the process is gone
        en = ",".join(sorted((x for x in nxt if LIB.match(x)), key=lambda x: (0, 0) if x == "R" else (2, 0) if x == "W" else (1, int(x[1:]))))
        lines.append("km %s %s ; %s ; %s ; %s" % (tid, o, " ".join(effs), en, C.hx(ch["snap"])))
    return lines


# ------------------------------------------------------------------------------------- oracles
def analyse(run):
    A = Run()
    A.calls, A.handler, A.enq, A.start = [], [], [], {}
    open_call = {}
    for t, ch in enumerate(run.chunks):
        if ch["op"][0] == "task-start":
            A.start[ch["tid"]] = t
        for e in ch["events"]:
            if e[0] == "ab":
                c = {"tid": e[1], "call": e[2], "begin": t, "end": None}
                A.calls.append(c)
                open_call[e[1]] = c
            elif e[0] == "ae":
                open_call[e[1]]["end"] = t
            elif e[0] == "handler":
                A.handler.append((t, e[1], e[2]))
            elif e[0] == "enqueue":
                A.enq.append((t, e[1], e[2]))
    A.lines = "".join(b.decode("utf-8") for _, b in run.sent).split("\r\n")
    return A


def oracle_c04(run, A, V):
    if run.status != "quiescent":
        return
    if run.scn.get("end") or run.scn.get("fail_write_at"):
        return            # the connection fails: requests may never arrive / the process may exit (C20's business)
    scn = run.scn
    for k, r in enumerate(scn["requests"]):
        tid = run.task_of.get(r["id"], "<no task>")
        reps = [l for l in A.lines if l.startswith("%s|%s" % (r["id"], r["method"])) and (len(l) == len(r["id"]) + 4 or l[len(r["id"]) + 4] == "|")]
        hs = [h for h in A.handler if h[1] == tid]
        calls = [c for c in A.calls if c["tid"] == tid]
        wrong = unsupported_in_script(r["method"], r["script"])
        # container-shape returns (DESIGN I-5, since the repair of F4): handler as well
        shape = r["kind"] == "wrong" and not wrong and any(
            kd == "ret" and r["method"] in ("GIS", "GSC") and v and not isinstance(v, (list, tuple, str)) for kd, v in r["script"])
        want_h = 0 if scn["handler"] == "absent" else 1
        if scn.get("close") or scn.get("end") or scn.get("fail_write_at"):
            # the connection is being closed by the Proxy Adapter, or fails (outside C04's quantifier): a task that finishes after the
            # writer has stopped is not answered any more — every accepted task still runs to completion (C20), which the
            # dispatch checks below and the lock-step comparison cover
            pass
        elif wrong or shape:
            if reps or len(hs) != want_h:
                V("wrong-typed-return", "request %s (%s) with a wrong-typed return: %d replies, %d handler notifications" % (r["id"], r["method"], len(reps), len(hs)))
        else:
            if len(reps) != 1 or hs:
                if r["kind"] == "wrong":
                    continue      # str/bytes where a list is expected: iterated (duck typing), outside the property
                V("reply-count:%s" % r["method"], "request %s (%s, %s): %d replies, %d handler notifications" % (r["id"], r["method"], r["kind"], len(reps), len(hs)))
        # dispatched once: the calls of this task are those scripted (cut at the first raise)
        want = len(r["script"]) if r["kind"] == "raise" else None
        # (fewer calls than the script up to its raise = a call was skipped; MORE calls — e.g. per-item queries that are not
        # short-circuited by an earlier item's exception — do not contradict "each invoked once" and are not flagged here;
        # a repeated first call is `dispatch-method`'s)
        if want is not None and len(calls) < want:
            V("dispatch-count", "request %s: %d adapter calls, script has %d up to the raise" % (r["id"], len(calls), want))
        names = [c["call"].split("(")[0] for c in calls]
        first = {"NUS": "notify_user", "NUA": "notify_user_with_principal", "NNS": "notify_new_session", "NSC": "notify_session_close",
                 "GIS": "get_items", "GSC": "get_schema", "NUM": "notify_user_message", "NNT": "notify_new_tables", "NTC": "notify_tables_close",
                 "MDA": "notify_mpn_device_access", "MSA": "notify_mpn_subscription_activation", "MDC": "notify_mpn_device_token_change"}.get(r["method"])
        if first and (not names or names[0] != first or names.count(first) != 1):
            V("dispatch-method", "request %s (%s): adapter calls %r" % (r["id"], r["method"], names))


def oracle_c18(run, A, V):
    scn = run.scn
    want = scn["pool_arg"] if scn["pool_arg"] and scn["pool_arg"] > 0 else 8
    if run.pool_size != want:
        V("pool-size", "thread_pool_size=%r gives %d workers (cpu_count=8)" % (scn["pool_arg"], run.pool_size))
    for c in A.calls:
        if not c["tid"].startswith("T"):
            V("adapter-call-off-pool", "adapter method %s invoked on thread %s" % (c["call"][:40], c["tid"]))
    # at most pool_size calls in flight
    for c in A.calls:
        inflight = {d["tid"] for d in A.calls if d["begin"] <= c["begin"] and (d["end"] is None or d["end"] > c["begin"])}
        if len(inflight) > run.pool_size:
            V("pool-overcommitted", "%d adapter calls in flight with a pool of %d" % (len(inflight), run.pool_size))
            break
    if run.pool_size == 1:
        for a, b in zip(A.calls, A.calls[1:]):
            if a["end"] is None or a["end"] > b["begin"]:
                V("pool-of-one-overlap", "adapter calls overlap with a pool of one")
                break
        order = sorted(A.start, key=lambda t: A.start[t])
        if order != sorted(order, key=lambda t: int(t[1:])):
            V("pool-of-one-order", "requests handled out of arrival order with a pool of one: %r" % order)
        # arrival order as the Proxy Adapter sees it: with one worker the replies come back in the order the requests were sent
        ids = [r["id"] for r in scn["requests"]]
        answered = [l.split("|", 1)[0] for l in A.lines if l.split("|", 1)[0] in ids]
        if answered != [i for i in ids if i in answered]:
            V("pool-of-one-order", "with a pool of one the requests %r were answered in the order %r" % ([i for i in ids if i in answered], answered))
    # a blocked adapter call does not stop the library: with a free worker the later request is answered and the run completes
    if scn.get("block"):
        if run.status != "quiescent" or run.final_blocked:
            V("blocked-call-stops-server", "an adapter call waiting for the reply to a later request never returned although %d workers exist" % run.pool_size)


def oracle_c20_fault(run, A, V):
    """the connection fails: EOF / reset at some inbound offset, or the k-th write raises"""
    scn = run.scn
    ev = [(t, ch["tid"]) + tuple(e) for t, ch in enumerate(run.chunks) for e in ch["events"]]
    ioh = [e for e in ev if e[2] == "iohandler"]
    exits = [e for e in ev if e[2] == "exit"]
    read_failed = [e for e in ev if e[2] in ("recv-eof", "recv-reset")]
    write_failed = [e for e in ev if e[2] == "send-fails"]
    nfail = (1 if read_failed else 0) + (1 if write_failed else 0)
    h = scn["handler"]
    if nfail == 0:
        if ioh or exits:
            V("spurious-io-report", "no read or write failed but the I/O handler / exit was invoked: %r" % (ioh + exits,))
        return
    if h == "absent" or h is True:
        # the first failure is reported (to the handler if installed) and the process exits: nothing happens afterwards
        if len(exits) != 1 or len(ioh) != (0 if h == "absent" else 1):
            V("io-failure-reporting", "handler=%r, %d failing thread(s): %d handler notifications, %d exits (expected %d and 1)" % (
                h, nfail, len(ioh), len(exits), 0 if h == "absent" else 1))
        elif ev and ev[-1][2] != "exit" and any(e[0] > exits[0][0] for e in ev):
            V("runs-after-exit", "library activity after the process exit")
    else:
        if exits or len(ioh) != nfail:
            V("io-failure-reporting", "handler returns False, %d failing thread(s): %d handler notifications, %d exits (expected %d and 0)" % (
                nfail, len(ioh), len(exits), nfail))
    for e in ioh:
        src = "R" if read_failed and e[1] == "R" else "W" if write_failed and e[1] == "W" else None
        if src is None:
            V("io-failure-wrong-thread", "I/O handler invoked from thread %s" % e[1])


def oracle_c20(run, A, V):
    """an honoured close request (id 0, agreed version with close packets) as the last line of the connection"""
    scn = run.scn
    if scn.get("end") or scn.get("fail_write_at"):
        return oracle_c20_fault(run, A, V)
    if not scn.get("close"):
        return
    if run.status != "quiescent":
        V("close-does-not-finish", "after the close request the run ended with status %s" % run.status)
        return
    for name in ("R", "W"):
        if name in run.alive:
            V("close-threads", "thread %s still alive after an honoured close request (parked at %r)" % (name, run.alive[name]))
    if run.sock.close_calls != 1:
        V("close-socket", "socket closed %d times on an honoured close request" % run.sock.close_calls)
    if run.tasks_unfinished:
        V("close-pool", "accepted pool tasks did not complete: %r" % run.tasks_unfinished)
    hs = [e for ch in run.chunks for e in ch["events"] if e[0] == "handler" and e[1] == "R"]
    if hs:
        V("close-invokes-handler", "the exception handler was invoked on the reader thread while closing: %r" % hs)
    io = [e for ch in run.chunks for e in ch["events"] if e[0] in ("exit", "send-on-closed", "recv-on-closed")]
    if io:
        V("own-close-reported", "the server's own close() surfaced as an I/O problem: %r" % io[:3])
    # the writer stopped before the socket was closed, and the pool was idle then
    t_close = next((t for t, ch in enumerate(run.chunks) if any(e[0] == "socket-close" for e in ch["events"])), None)
    if t_close is not None:
        later_sends = [t for t, ch in enumerate(run.chunks) if t > t_close and ch["tid"] == "W"]
        if later_sends:
            V("writer-after-close", "the writer thread ran after the socket had been closed")


ORACLES = {"C04": oracle_c04, "C18": oracle_c18, "C20": oracle_c20}
