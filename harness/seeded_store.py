#!/usr/bin/env python3
"""Copy a confirmed seeded change from a scratch worktree into /verif/seeded/<name>/ and write meta.json.
usage: seeded_store.py <worktree-dir> <name> <property> "<needs>" "<verify line>" """
import json, os, shutil, sys
src, name, prop, needs, verify = sys.argv[1:6]
V = os.path.dirname(os.path.dirname(os.path.abspath(__file__)))
dst = os.path.join(V, "seeded", name)
os.makedirs(dst, exist_ok=True)
for f in ("patch.diff", "demo.py", "NOTES.md"):
    if os.path.exists(os.path.join(src, f)):
        shutil.copy2(os.path.join(src, f), os.path.join(dst, f))
results = {}
if os.path.exists(os.path.join(src, "results.json")):
    results = json.load(open(os.path.join(src, "results.json")))
meta = {
    "breaks_property": prop,
    "needs_to_manifest": needs,
    "written_by": "independent sub-agent given only the property text and a scratch worktree of /repo (nothing from /verif)",
    "confirmed_by_main_session": verify,
    "checks_run": {p: {"exit": r["exit"], "violation_lines": r["lines"], "signature": (r.get("detail") or {}).get("signature"),
                       "what": (r.get("detail") or {}).get("what")} for p, r in results.items()},
    "caught_by": sorted(p for p, r in results.items() if r["exit"] == 1),
    "how_to_rerun": "git -C /repo apply /verif/seeded/%s/patch.diff && /venv/bin/python harness/check.py <Cxx>; git -C /repo checkout -- ." % name,
}
json.dump(meta, open(os.path.join(dst, "meta.json"), "w"), indent=1)
print("stored", dst, "caught_by", meta["caught_by"])
