#!/usr/bin/env python3
"""MAINTENANCE TOOL (never run by a check): re-record lean/AriVerif/Spec/Skeleton.lean from the skeleton of the current source,
keeping the hand-written doc comments.  To be used only after the structural change has been reviewed and the models revisited;
`--diff` only shows what differs."""
import os, re, sys
V = os.path.dirname(os.path.dirname(os.path.abspath(__file__)))
gen = open(os.path.join(V, "lean/AriVerif/Gen/Skeleton.lean"), encoding="utf-8").read()
spec_path = os.path.join(V, "lean/AriVerif/Spec/Skeleton.lean")
spec = open(spec_path, encoding="utf-8").read()


def bodies(text, prefix):
    out = {}
    for m in re.finditer(r"^def (%s\w*) : List \(String × List String\) :=\n(.*?)\n\n" % prefix, text, re.M | re.S):
        out[m.group(1)] = m.group(2)
    return out


g = bodies(gen, "skel")
g.update(bodies(gen, "writers"))
s = bodies(spec, "expected")
changed = False
for name, body in g.items():
    ename = "expected" + (name[4:] if name.startswith("skel") else "Writers")
    if ename not in s:
        print("no definition", ename, "in the record"); continue
    if s[ename] != body:
        changed = True
        old, new = s[ename].split("\n"), body.split("\n")
        for a in old:
            if a not in new:
                print("- " + a[:220])
        for b in new:
            if b not in old:
                print("+ " + b[:220])
        spec = spec.replace(s[ename], body)
if "--diff" in sys.argv:
    sys.exit(1 if changed else 0)
if changed:
    open(spec_path, "w", encoding="utf-8").write(spec)
    print("recorded")
