"""C13 / C16 — the REAL writer thread (_Sender._do_run) under the scheduler with virtual time, against the
Lean timed model `Ari.senderRun`; keepalive spacing and transparency evaluated on the real output."""
import logging
import common as C
import shim
from streams import Result


def stream_lines(writes):
    """the byte stream as the peer sees it: complete CRLF lines, each stamped with the time of the write that completed it;
    returns (lines, trailing incomplete bytes).  How the stream is cut into writes is not observable by the peer."""
    lines, buf = [], ""
    for t, b in writes:
        buf += b
        while "\r\n" in buf:
            l, buf = buf.split("\r\n", 1)
            lines.append((t, l + "\r\n"))
    return lines, buf


def run_real(k0_ms, events, horizon_ms, tie_timeout_first, send_limit=65536, due_first=False, slow=None):
    """events: list of (t_ms, ('p', msg) | ('pill', k_ms) | ('k', k_ms) | ('stop',)). Returns [(t_ms, line)]."""
    import lightstreamer_adapter.server as S
    # simultaneous events: `due_first` lets a producer whose time has come run BEFORE the writer's next operation (the writer
    # has just timed out, or just been woken, at that same instant), the default lets the writer go on first
    sched = shim.Sched((lambda names, ops: ([n for n in names if n in ("D", "X")] or names)[0]) if due_first else (lambda names, ops: names[0]))
    sched.wake_due = due_first
    sock = shim.Socket()
    sock.send_limit = send_limit
    if slow:
        sock.slow_write_at, sock.slow_delay = slow[0], slow[1] / 1000      # a write the slowly reading peer takes that long to accept
    saved = shim.install(sched, sock)
    try:
        class Srv:
            name = "S"
            io, exc = [], []

            def on_ioexception(self, e):
                self.io.append(e)

            def on_exception(self, e):
                self.exc.append(e)
        srv = Srv()
        sender = S._Sender(name="S", sock=sock, server=srv, keepalive=k0_ms / 1000, log=logging.getLogger("x"))

        def driver():
            now = 0
            for t, a in events:
                if t > now:
                    shim.TimeShim.sleep((t - now) / 1000)
                    now = t
                if a[0] == "p":
                    sender.send(a[1], False)
                elif a[0] == "pill":
                    sender.change_keep_alive(a[1] / 1000, also_interrupt=True)
                elif a[0] == "k":
                    sender.change_keep_alive(a[1] / 1000)
                elif a[0] == "stop":
                    sender.quit()

        def horizon():
            shim.TimeShim.sleep((horizon_ms + 0.5) / 1000)
        # the writer is started first (as in Server.start); names decide ties at equal deadlines
        def main():
            sender.start()
        sched.spawn("A", main)
        sched.run(until=lambda: "W" in sched.threads)
        d = sched.spawn("X" if tie_timeout_first else "D", driver)
        h = sched.spawn("Z", horizon)
        sched.run(until=lambda: h.done)
        out = [(int(round(t * 1000)), b.decode("utf-8")) for t, b in sock.sent]
        return out, srv, [t.error for t in sched.threads.values() if t.error]
    finally:
        sched.teardown()
        shim.uninstall(saved)


def gen_history(R):
    k0 = R.choice([0, 0, 250, 1000, 2500, 10000])
    n = R.choice([0, 1, 3, 6, 12])
    t = 0
    events = []
    k = k0
    for i in range(n):
        base = k if k > 0 else 1000
        gap = R.choice([0, 0, 1, base - 1, base, base + 1, 2 * base, 3 * base + 7, R.randrange(0, 3 * base + 1), base // 2])
        t += max(0, gap)
        c = R.random()
        if c < 0.75:
            events.append((t, ("p", "m%d|payload %d" % (i, R.randrange(1000)))))
        elif c < 0.87:
            k = R.choice([0, 250, 1000, 2500, 7000])
            events.append((t, ("k", k)))
            events.append((t, ("p", "init-reply%d" % i)))          # as at init: change, then the reply at the same instant
        elif c < 0.95:
            k = R.choice([250, 1000, 2500])
            events.append((t, ("pill", k)))
        else:
            events.append((t, ("stop",)))
            break
    horizon = t + R.choice([0, 1, 3000, 25000])
    return k0, events, horizon


def model_op(tie, k0, events, horizon):
    toks = []
    for t, a in events:
        if a[0] == "p":
            toks.append("%d:p:%s" % (t, C.hx(a[1])))
        elif a[0] == "pill":
            toks.append("%d:k:%d" % (t, a[1]))
            toks.append("%d:pill" % t)
        elif a[0] == "k":
            toks.append("%d:k:%d" % (t, a[1]))
        else:
            toks.append("%d:stop" % t)
    return "sender %s %d %d %s" % ("t" if tie else "f", k0, horizon, " ".join(toks))


def oracle(res, k0, events, horizon, out, tie, limit=65536):
    """C13 on the real output: spacing, full silence, disabled, transparency."""
    inp = {"k0_ms": k0, "events": events, "horizon_ms": horizon, "tie_timeout_first": tie, "send_limit": limit}
    puts = [a[1] for t, a in events if a[0] == "p"]
    stop_at = next((t for t, a in events if a[0] == "stop"), None)
    if stop_at is not None:
        i = [j for j, (t, a) in enumerate(events) if a[0] == "stop"][0]
        puts = [a[1] for t, a in events[:i] if a[0] == "p"]
    msgs = [l for t, l in out if l != "KEEPALIVE\r\n"]
    if msgs != [p + "\r\n" for p in puts]:
        res.violation("sender:not-transparent", "non-keepalive lines written %r differ from the messages submitted %r" % (msgs[:5], puts[:5]), inp)
    # the interval in force over time
    changes = [(0, k0)] + [(t, a[1]) for t, a in events if a[0] in ("k", "pill")]

    def k_at(t, strict):
        v = k0
        for tc, kc in changes:
            if tc < t or (tc == t and not strict):
                v = kc
        return v
    prev = 0
    put_times = {}
    for t, a in events:
        if a[0] == "p":
            put_times[a[1] + "\r\n"] = t
    for t, l in out:
        if l != "KEEPALIVE\r\n" and put_times.get(l) != t:
            res.violation("sender:delayed-message", "message written at %d ms, submitted at %s" % (t, put_times.get(l)), inp)
    pills = [t for t, a in events if a[0] == "pill"]
    ever_positive = any(k > 0 for _, k in changes)
    for t, l in out:
        if l == "KEEPALIVE\r\n":
            if not ever_positive:
                res.violation("sender:keepalive-while-disabled", "KEEPALIVE written at %d ms with keepalives disabled" % t, inp)
            elif t not in pills:
                # a full interval of silence: the wait began at `prev` (previous write) with the interval in force then
                kw = k_at(prev, strict=False)
                kw2 = k_at(prev, strict=True)
                if t - prev not in (kw, kw2):
                    res.violation("sender:keepalive-without-full-silence", "KEEPALIVE at %d ms, previous write at %d ms, interval %s ms" % (t, prev, kw), inp)
        prev = t
    # never silent longer than the interval: between consecutive writes (and up to the horizon)
    times = [0] + [t for t, _ in out] + [horizon if stop_at is None else stop_at]
    end = stop_at if stop_at is not None else horizon
    for a, b in zip(times, times[1:]):
        if a >= end:
            break
        kw = k_at(a, strict=False)       # the wait after the write at `a` begins with the interval set by then
        if kw > 0 and min(b, end) - a > kw:
            res.violation("sender:silent-too-long", "no write between %d and %d ms although the interval is %d ms" % (a, b, kw), inp)


def stream(tier):
    R = C.rng("sender")
    res = Result("sender-virtual-time-cosim")
    n = {"quick": 400, "search": 1500, "thorough": 20000}[tier]
    ops, impl = [], []
    for i in range(n):
        k0, events, horizon = gen_history(R)
        tie = bool(i % 2)
        # some peers read slowly: a single send() then accepts only a few bytes (sendall is unaffected)
        limit = R.choice([65536, 65536, 4, 7, 1])
        due_first = bool(tie and i % 4 == 1)
        writes, srv, errors = run_real(k0, events, horizon, tie, limit, due_first)
        res.distribution["producer_between_timeout_and_next_writer_step"] += int(due_first)
        out, rest = stream_lines(writes)
        res.distribution["send_limit_%d" % limit] += 1
        if rest:
            res.violation("sender:partial-line", "the bytes written end in an incomplete line %r (a send() accepting %d bytes at a time)" % (rest[:40], limit),
                          {"k0_ms": k0, "events": events, "horizon_ms": horizon, "send_limit": limit})
        ops.append(model_op(tie, k0, events, horizon))
        impl.append("ok " + " ".join("%d:%s" % (t, C.hx(l[:-2] if l.endswith("\r\n") else l + "<noCRLF>")) for t, l in out))
        res.traces += 1
        res.distribution["keepalives_written"] += sum(1 for _, l in out if l == "KEEPALIVE\r\n")
        res.distribution["messages_written"] += sum(1 for _, l in out if l != "KEEPALIVE\r\n")
        res.distribution["k0_%d" % k0] += 1
        if any(l == "KEEPALIVE\r\n" for _, l in out) and any(a[0] == "p" for _, a in events):
            res.nontrivial.add((k0, tuple(events), horizon, tie))
        if errors or srv.exc or srv.io:
            res.violation("sender:thread-died", "writer thread failed: %r %r %r" % (errors, srv.exc, srv.io), {"k0": k0, "events": events})
        oracle(res, k0, events, horizon, out, tie, limit)
        if i < 3:
            res.sample({"k0_ms": k0, "events": events, "horizon_ms": horizon, "written": out[:10]})
    # a peer that reads slowly: one write takes longer than the keepalive interval to be accepted (no model comparison: the
    # timed model writes instantaneously) — everything submitted must still reach the wire, in order, and the writer survive
    for i in range({"quick": 60, "search": 150, "thorough": 1500}[tier]):
        k0, events, horizon = gen_history(R)
        puts = [a[1] for t, a in events if a[0] == "p"]
        if not puts or any(a[0] == "stop" for t, a in events):
            continue
        delay = R.choice([300, 1200, 2600, 11000])
        slow = (R.randrange(1, len(puts) + 1), delay)
        if i % 4 == 0:
            # a backlog: dozens of lines are submitted while the peer accepts nothing (an adapter pushing a burst of updates to a
            # slow connection) — whatever the writer does to catch up, every line reaches the wire once, in order
            nb = R.choice([33, 40, 70, 130])
            t0 = events[0][0]
            events = [(t0, ("p", "first|line"))] + [(t0 + (j // 16), ("p", "burst%d|payload %d" % (j, R.randrange(1000)))) for j in range(nb)]
            puts = [a[1] for t, a in events]
            slow = (1, delay)
            res.distribution["backlog_runs"] += 1
        writes, srv, errors = run_real(k0, events, horizon + delay + 30000, False, 65536, False, slow)
        out, rest = stream_lines(writes)
        res.traces += 1
        res.distribution["slow_write_runs"] += 1
        inp = {"k0_ms": k0, "events": events, "slow_write": {"index": slow[0], "takes_ms": delay}}
        if errors or srv.exc or srv.io:
            res.violation("sender:thread-died", "a write that takes %d ms kills the writer thread: %r %r %r" % (delay, errors, srv.exc, srv.io), inp)
        msgs = [l for t, l in out if l != "KEEPALIVE\r\n"]
        if msgs != [p + "\r\n" for p in puts]:
            res.violation("sender:not-transparent", "after a write that took %d ms the lines written %r differ from the messages submitted %r" % (
                delay, msgs[:5], puts[:5]), inp)
    model = C.run_driver(ops)
    for op, m, i2 in zip(ops, model, impl):
        res.evaluations += 1
        if " ".join(m.split()) != " ".join(i2.split()):
            res.mismatch(op, m, i2)
    return res


# ------------------------------------------------------------------ end to end: negotiated interval reaches the writer
def run_server_e2e(kind, ka, hint, t_init_ms, horizon_ms, init_takes_ms=0, slow=None, concurrent=None):
    """A real server under the scheduler: init request (with hint) delivered at t_init, `initialize()` taking init_takes_ms of
    virtual time, then idle. Returns [(t_ms, line)], keep_alive afterwards, [(t_ms, interval the writer was given)]."""
    import lightstreamer_adapter.server as S
    from lightstreamer_adapter.interfaces.data import DataProvider
    from lightstreamer_adapter.interfaces.metadata import MetadataProvider
    sched = shim.Sched(lambda names, ops: names[0])
    sock = shim.Socket()
    if slow:
        sock.slow_write_at, sock.slow_delay = slow[0], slow[1] / 1000
    saved = shim.install(sched, sock)
    changes = []
    orig_change = S._Sender.change_keep_alive

    def change(self, keepalive, *a, **k):
        changes.append((int(round(sched.clock * 1000)), keepalive))
        return orig_change(self, keepalive, *a, **k)
    S._Sender.change_keep_alive = change

    def slow():
        if init_takes_ms:
            shim.TimeShim.sleep(init_takes_ms / 1000)
    try:
        class D(DataProvider):
            def initialize(self, p, c=None): slow()
            def set_listener(self, l): pass
            def issnapshot_available(self, i): return True
            def subscribe(self, i): pass
            def unsubscribe(self, i): pass

        class M(MetadataProvider):
            def initialize(self, p, c=None): slow()
        srv = (S.DataProviderServer(D(), ("p", 1), keep_alive=ka, thread_pool_size=1) if kind == "data"
               else S.MetadataProviderServer(M(), ("p", 1), keep_alive=ka, thread_pool_size=1))
        line = "7|%s|S|ARI.version|S|1.9.1%s\r\n" % ("DPI" if kind == "data" else "MPI",
                                                       "" if hint is None else "|S|keepalive_hint.millis|S|" + hint)

        def proxy():
            shim.TimeShim.sleep(t_init_ms / 1000)
            sock.inbound.append(line.encode())

        def horizon():
            shim.TimeShim.sleep((horizon_ms + 0.5) / 1000)
        sched.spawn("A", srv.start)
        sched.spawn("D", proxy)
        h = sched.spawn("Z", horizon)
        sched.run(until=lambda: h.done)
        if concurrent is not None:
            concurrent.extend(e for ch in sched.chunks for e in ch["events"] if e[0] == "concurrent-send")
        return [(int(round(t * 1000)), b.decode()) for t, b in sock.sent], srv.keep_alive, changes
    finally:
        S._Sender.change_keep_alive = orig_change
        sched.teardown()
        shim.uninstall(saved)


def stream_e2e(tier):
    """C12 + C13 end to end: configured interval x hint -> the interval the WRITER really uses afterwards."""
    from fractions import Fraction
    from s_keepalive import spec, fr
    R = C.rng("sender-e2e")
    res = Result("keepalive-end-to-end-cosim")
    n = {"quick": 60, "search": 200, "thorough": 2500}[tier]
    ops, impl = [], []
    for i in range(n):
        kind = R.choice(["data", "meta"])
        ka = R.choice([None, 0, -1, 0.25, 0.5, 1, 2.5, 5, 12])
        hint = R.choice([None, "0", "-5", "300", "999.5", "1000", "2500", "7000", "10000", "12000", "60000"])
        t_init = R.choice([0, 100, 400, 1500])
        init_takes = R.choice([0, 0, 700, 3200])                     # a slow `initialize()` is legal
        horizon = t_init + init_takes + R.choice([3000, 12000, 25000])
        out, ka_after, changes = run_server_e2e(kind, ka, hint, t_init, horizon, init_takes)
        t_init += init_takes                                         # when the init request has been processed
        res.traces += 1
        res.evaluations += 1
        res.nontrivial.add((kind, ka, hint, t_init, horizon))
        cfg = None if ka is None else Fraction(ka)
        hx_ = None if hint is None else Fraction(float(hint))
        want_s = spec(cfg, hx_)                                   # the property's rule (seconds)
        k0 = int((Fraction(10) if ka is None else max(Fraction(0), cfg)) * 1000)
        keff = int(want_s * 1000)
        M = "DPI" if kind == "data" else "MPI"
        events = ["0:p:" + C.hx("1|RAC|S|enableClosePacket|S|true|S|SDK|S|Python+Adapter+SDK"),
                  "%d:k:%d" % (t_init, keff), "%d:p:%s" % (t_init, C.hx("7|%s|S|ARI.version|S|1.8.3" % M))]
        ops.append("sender f %d %d %s" % (k0, horizon, " ".join(events)))
        impl.append("ok " + " ".join("%d:%s" % (t, C.hx(l[:-2])) for t, l in out))
        inp = {"kind": kind, "keep_alive": ka, "hint": hint, "init_processed_at_ms": t_init, "initialize_takes_ms": init_takes, "horizon_ms": horizon}
        # oracle: from the moment the writer is given a positive interval K, the connection is never silent longer than K
        for tc, k in changes:
            kms = int(round(k * 1000))
            later = [c for c in changes if c[0] > tc]
            until = min([horizon] + [c[0] for c in later])
            if kms > 0:
                nxt = min([t for t, _ in out if t >= tc] + [horizon])
                if min(nxt, until) - tc > kms:
                    res.violation("silent-after-interval-change", "the writer was given the interval %d ms at %d ms (keep_alive=%r, hint=%r, initialize() takes "
                                  "%d ms) but nothing was written until %d ms" % (kms, tc, ka, hint, init_takes, nxt), inp)
                    break
        # oracle: after the init reply, consecutive writes are at most the negotiated interval apart
        after = [t for t, l in out if t >= t_init]
        if keff > 0:
            times = after + [horizon]
            for a, b in zip(times, times[1:]):
                if b - a > keff:
                    res.violation("e2e-keepalive-not-in-force", "interval negotiated %d ms (keep_alive=%r, hint=%r) but no write between %d and %d ms"
                                  % (keff, ka, hint, a, b), inp)
                    break
        else:
            if any(l == "KEEPALIVE\r\n" for t, l in out if t > t_init):
                res.violation("e2e-keepalive-while-disabled", "KEEPALIVE written although keepalives are disabled (keep_alive=%r, hint=%r)" % (ka, hint), inp)
        if i < 2:
            res.sample(dict(inp, written=out[:6], keep_alive_after=ka_after))
    # a peer that accepts the very first bytes slowly (TLS handshake still settling, a congested link): the first line takes
    # longer than the keepalive interval to go out. Whoever writes it, nobody else may write meanwhile — a KEEPALIVE (or any
    # line) landing inside it splits it. No model comparison (the timed model writes instantaneously).
    for i in range({"quick": 24, "search": 60, "thorough": 600}[tier]):
        kind = R.choice(["data", "meta"])
        ka = R.choice([0.25, 0.5, 1, 2.5])
        delay = int(ka * 1000) * R.choice([2, 3]) + R.choice([0, 150])
        conc = []
        out, ka_after, changes = run_server_e2e(kind, ka, None, 100, delay + 4000, 0, slow=(R.choice([1, 1, 2]), delay), concurrent=conc)
        res.traces += 1
        res.distribution["slow_first_write_runs"] += 1
        if conc:
            res.violation("sender:two-writers", "while a line was taking %d ms to be accepted by the peer another thread wrote to the connection "
                          "(%r): a keepalive or message can land inside the line" % (delay, conc[:2]),
                          {"kind": kind, "keep_alive": ka, "slow_write": delay})
        lines = "".join(l for _, l in out).split("\r\n")
        if lines and lines[0] and not lines[0].startswith("1|RAC|"):
            res.violation("sender:first-line", "first line written is %r" % lines[0][:60], {"kind": kind, "keep_alive": ka, "slow_write": delay})
    model = C.run_driver(ops)
    for op, m, i2 in zip(ops, model, impl):
        if " ".join(m.split()) != " ".join(i2.split()):
            res.mismatch(op, m[:500], i2[:500])
    return res
