#!/usr/bin/env python3
"""Regenerates /verif/MANIFEST.json from harness/manifest_data.py (kept in one place so it stays valid)."""
import json, os, sys
sys.path.insert(0, os.path.dirname(os.path.abspath(__file__)))
from manifest_data import CHECKS, NOT_YET, NOTES, SOURCE_COMMITS

V = os.path.dirname(os.path.dirname(os.path.abspath(__file__)))
checks = []
for pid, c in sorted(CHECKS.items()):
    checks.append({
        "property_id": pid,
        "quick_cmd": "/venv/bin/python harness/check.py %s --tier quick" % pid,
        "thorough_cmd": "/venv/bin/python harness/check.py %s --tier thorough" % pid,
        "evidence_file": "/verif/evidence/%s.json" % pid,
        "replay_cmd_template": "/venv/bin/python harness/check.py %s --replay {path}" % pid,
        "engine": "lean4-proof+correspondence",
        "level_claimed": {"category": "proof", "text": c["text"], "design_ref": c["ref"]},
        "level_note": c["note"],
        "technique": c["technique"] + " + purity / instance-ownership assumption of the models regenerated from the source (Gen/State) and compared with the record by theorem",
    })
m = {
    "version": 1,
    "setup_cmd": "cd /verif/lean && lake build AriVerif driver",
    "hooks": {"guard": "LS_ADAPTER_VERIF",
              "enable": "no source hooks: the harness monkey-patches module attributes in-process (threading/queue/socket/time shims) when it imports /repo",
              "baseline_off_cmd": "cd /repo && /venv/bin/python -m pytest -ra -q -p no:cacheprovider --timeout=900 --continue-on-collection-errors",
              "source_commits": SOURCE_COMMITS, "add_only": True},
    "engines": [{"name": "lean4-proof+correspondence", "path": "/verif/harness/check.py",
                 "serves_properties": sorted(CHECKS),
                 "kind_free_text": "Lean 4 theorems over an executable model (lake build + #print axioms audit), model regenerated from source by harness/extract.py where translated, otherwise tied by differential / co-simulation against the real code through a compiled line-protocol driver"}],
    "checks": checks,
    "notes": NOTES,
    "not_applicable": [{"property_id": p, "reason": r} for p, r in sorted(NOT_YET.items()) if p not in CHECKS],
}
json.dump(m, open(os.path.join(V, "MANIFEST.json"), "w"), indent=1)
print("MANIFEST.json:", len(checks), "checks,", len(m["not_applicable"]), "not_applicable")
