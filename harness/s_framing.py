"""C15 — differential of the REAL reader loop (_RequestManager._do_run, run in-process on a scripted socket)
against Ari.feedAllL, over exhaustive and random segmentations; the property evaluated on the real loop."""
import itertools
import logging
import threading
import common as C
from streams import Result, diff


class _Sock:
    def __init__(self, chunks):
        self.chunks = list(chunks)

    def recv(self, n):
        """at most n bytes of the next scripted chunk (the rest stays for the next read); b"" once the script is exhausted"""
        if not self.chunks:
            return b""
        c = self.chunks[0]
        if len(c) > n:
            self.chunks[0] = c[n:]
            return c[:n]
        return self.chunks.pop(0)


class _Srv:
    name = "framing"

    def __init__(self):
        self.lines, self.io, self.exc = [], [], []

    def on_received_request(self, tok):
        self.lines.append(tok)

    def on_ioexception(self, e):
        self.io.append(e)

    def on_exception(self, e):
        self.exc.append(e)


def real_loop(chunks):
    """Runs the library's reader loop over the chunks; returns dispatched strings."""
    import lightstreamer_adapter.server as S
    rm = object.__new__(S._RequestManager)
    rm._log = logging.getLogger("x")
    rm._server = _Srv()
    rm._stop_request = threading.Event()
    rm._do_run(_Sock([c.encode("ascii") for c in chunks if c != ""]))
    return rm._server


def segmentations(stream, maxcuts):
    n = len(stream)
    for k in range(0, maxcuts + 1):
        for cuts in itertools.combinations(range(1, n), k):
            b = [0] + list(cuts) + [n]
            yield [stream[x:y] for x, y in zip(b, b[1:])]


def gen_stream(R, nlines):
    from s_wire import gen_request
    import ari
    out = []
    for i in range(nlines):
        m = R.choice(["SUB", "USB", "NUS", "GIS", "NNT", "GIT"])
        fixed, tail = gen_request(m, R)
        toks = ari.encode_args(m, fixed, tail)[:12]
        out.append("|".join(["%x" % R.randrange(1 << 20), m] + toks) + R.choice(["\r\n", "\n"]))
    return out


def stream(tier):
    R = C.rng("framing")
    res = Result("framing-differential")
    ops, impl = [], []
    nstreams = {"quick": 3, "search": 4, "thorough": 6}[tier]
    maxcuts = {"quick": 2, "search": 2, "thorough": 3}[tier]
    nrand = {"quick": 300, "search": 800, "thorough": 5000}[tier]

    def one(chunks, lines, oracle=True):
        srv = real_loop(chunks)
        ops.append("frame " + " ".join(C.hx(c) for c in chunks if c != ""))
        total = "".join(chunks)
        rem = total[len("".join(srv.lines)):] if total.startswith("".join(srv.lines)) else "?"
        # the loop's final buffer is not observable from outside; the model's is compared only through the lines
        impl.append("ok " + " ".join(C.hx(l) for l in srv.lines))
        if oracle and srv.lines != lines:
            res.violation("framing:segmentation-dependent", "dispatched %r for the stream %r cut as %r" % (srv.lines, lines, chunks),
                          {"chunks": chunks})
        if srv.exc:
            res.violation("framing:reader-died", "reader loop raised %r" % (srv.exc,), {"chunks": chunks})
        res.nontrivial.add(tuple(chunks))
    for si in range(nstreams):
        if maxcuts == 3:
            # exhaustive 3-cut enumeration: 3-5 short request lines (40-75 bytes), both terminators mixed
            lines = ["%s|%s|S|%s%s" % (R.choice(["a1", "7", "10c3"]), R.choice(["SUB", "USB", "NSC", "GIT"]), R.choice(["i1", "x+y", "%7C", "$"]),
                                        R.choice(["\r\n", "\n"])) for _ in range(R.choice([3, 4, 5]))]
        else:
            lines = gen_stream(R, R.choice([2, 3, 4]))
        s = "".join(lines)
        for seg in segmentations(s, maxcuts):
            one(seg, lines)
            res.distribution["exhaustive_segmentations"] += 1
        one(list(s), lines)                           # one byte at a time
        res.distribution["byte_at_a_time"] += 1
        # with an unterminated remainder
        one([s + "9|SUB|S|x"], lines)
        one([s[:5], s[5:] + "9|SUB|S|x\r"], lines)
    # long streams: reads that fill the reader's 1024-byte request exactly, or nearly (a full read says nothing about what is
    # still to come), and lines longer than one read
    for _ in range({"quick": 12, "search": 30, "thorough": 300}[tier]):
        lines = gen_stream(R, R.choice([20, 40, 60]))
        if R.random() < 0.5:
            lines.insert(R.randrange(len(lines)), "b16|SUB|S|" + "y" * R.choice([1010, 2047, 3000]) + R.choice(["\r\n", "\n"]))
        s = "".join(lines)
        size = R.choice([1024, 1024, 1023, 1025, 2048, 512])
        # cut so that complete lines END exactly at a read boundary where possible: pad the stream with a final short line
        pad = (-len(s)) % size
        if pad >= 8 and R.random() < 0.7:
            filler = "c1|USB|S|" + "z" * (pad - 8 - 2)
            lines.append(filler[:pad - 2] + "\r\n")
            s = "".join(lines)
        one([s[i:i + size] for i in range(0, len(s), size)], lines)
        one([s], lines)                                   # everything available at once: the reader takes 1024 at a time
        res.distribution["full_read_streams"] += 2
    for _ in range(nrand):
        lines = gen_stream(R, R.choice([1, 2, 3, 6]))
        s = "".join(lines)
        k = R.choice([1, 2, 5, 10, len(s) // 2])
        cuts = sorted(set(R.randrange(1, len(s)) for _ in range(k)))
        b = [0] + cuts + [len(s)]
        one([s[x:y] for x, y in zip(b, b[1:])], lines)
        res.distribution["random_segmentations"] += 1
    # malformed streams (lone CR, VT, FF, FS..RS inside): model fidelity only (DESIGN I-7)
    for _ in range({"quick": 200, "search": 300, "thorough": 3000}[tier]):
        s = "".join(R.choice(["a", "b|c", "\r", "\n", "\r\n", "\x0b", "\x0c", "\x1c", "\x1d", "\x1e", "1|S", " ", "\x1f", "\t"]) for _ in range(R.randrange(1, 9)))
        k = R.choice([0, 1, 2, 3])
        cuts = sorted(set(R.randrange(1, len(s)) for _ in range(k))) if len(s) > 1 else []
        b = [0] + cuts + [len(s)]
        one([s[x:y] for x, y in zip(b, b[1:])], None, oracle=False)
        res.distribution["malformed_streams"] += 1
    res.sample({"op": ops[0], "impl": impl[0]})
    res.sample({"op": ops[-1], "impl": impl[-1]})
    model = C.run_driver(ops)
    for op, m, i in zip(ops, model, impl):
        res.evaluations += 1
        if " ".join(m.split(" ; ")[0].split()) != " ".join(i.split()):
            res.mismatch(op, m, i)
    res.exhaustive = True
    return res
