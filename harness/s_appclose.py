"""C20 — the application's own close() from another thread (once, twice, three times) against the REAL servers under the
scheduler, tied to the Lean model Conc/AppClose.lean by *trace acceptance*: the real event log (stop flag set / tested,
enqueues, reads, writes, submits, pool shutdown, joins, socket close) is mapped to the model's actions, the compiled model
must accept every action in that order, and its final state must equal what the real server shows (threads ended, socket
closed, tasks accepted / finished, lines written, reports, exit).  The property's clauses are evaluated on the real log."""
import random
import common as C
import s_fault
from streams import Result

HND = {"absent": "a", True: "y", False: "n", None: "n"}


def gen(R):
    kind = R.choice(["data", "meta"])
    M = "DPI" if kind == "data" else "MPI"
    ver = R.choice(["1.9.1"] if kind == "data" else [None, "1.8.2", "1.8.3", "1.9.1"])
    lines = ["1|%s%s\r\n" % (M, "" if ver is None else "|S|ARI.version|S|" + ver)]
    for i in range(R.choice([0, 1, 2, 3, 5])):
        if kind == "data":
            lines.append("r%d|%s|S|item%d\r\n" % (i, "SUB" if i % 2 == 0 else "USB", i // 2))
        else:
            lines.append("r%d|NSC|S|session%d\r\n" % (i, i))
    # cut into reads at line boundaries
    chunks, cur = [], ""
    for ln in lines:
        cur += ln
        if R.random() < 0.5:
            chunks.append(cur)
            cur = ""
    if cur:
        chunks.append(cur)
    scn = {"kind": kind, "pool": R.choice([1, 2, 3]), "handler": R.choice(["absent", True, False, None]), "version": ver,
           "chunks": chunks, "app_close": True, "closes": R.choice([1, 2, 2, 3]), "app_after": R.choice([0, 0, 5, 10, 20, 40]),
           "fault": ("app-close",)}
    if scn["closes"] >= 2 and R.random() < 0.04:
        scn["flood"] = R.choice([5, 40])      # oracle-only runs (the model has no producer outside the pool)
        scn["fault"] = ("app-close", "flood")
        return scn
    x = R.random()
    if x < 0.2:
        scn["end"] = R.choice(["eof", "reset", "timedout", "bare"])
        scn["fault"] = ("app-close", "peer-" + scn["end"])
    elif x < 0.35:
        scn["fail_write_at"] = R.randrange(1, 5)
        scn["fault"] = ("app-close", "write-fails")
    return scn


def to_actions(scn, out):
    """map the real event log to the model's action letters; returns (acts, lines, problems)"""
    acts, lines, problems = [], [], []
    pills = 0
    st = {"w_done": False, "r_fail": False, "r_exc": False, "r_exc_closed": False}
    first = True
    for e in out["events"]:
        tid, kind = e[1], e[2]
        if kind == "enqueue":
            who, msg = e[3], e[4]
            if msg == "STOP_WAITING_PILL":
                if who != "A":
                    problems.append("stop pill enqueued by %s" % who)
                acts.append("a")
                continue
            lines.append(msg)
            if first:
                first = False
                if who != "M":
                    problems.append("first enqueue by %s" % who)
                continue
            if who == "R":
                acts.append("f" if st["r_exc"] else "r")
            elif who.startswith("T"):
                acts.append("e")
            else:
                problems.append("enqueue by %s" % who)
        elif kind == "event-set":
            acts.append("a" if tid == "A" else "?")
        elif kind == "event-test":
            if tid != "R":
                continue
            if st["r_fail"]:
                st["r_fail"] = False
            else:
                acts.append("r")
        elif kind == "recv":
            acts.append("r")
        elif kind in ("recv-eof", "recv-reset", "recv-on-closed"):
            acts.append("r")
            st["r_fail"] = True
        elif kind == "submit":
            acts.append("r")
        elif kind == "submit-refused":
            acts.append("r")
            st["r_exc"] = True
        elif kind in ("sent", "send-fails"):
            acts.append("ww")
            if kind == "send-fails":
                st["w_done"] = True
        elif kind == "joined":
            if tid == "A":
                if not st["w_done"]:
                    acts.append("w")      # the writer took the stop pill (no event of its own)
                    st["w_done"] = True
                acts.append("a")
        elif kind in ("shutdown-flag", "shutdown-done", "socket-close"):
            acts.append("a" if tid == "A" else "?")
        elif kind == "task-done":
            acts.append("d")
    if st["r_exc"] and out["threads"].get("R", (False,))[0]:
        acts.append("r")                  # on_exception returned, the reader left its loop
    if not st["w_done"] and out["threads"].get("W", (False,))[0] and not out["exited"]:
        acts.append("w")
    return "".join(acts), lines, problems


def model_op(scn, acts, out):
    inb = []
    for c in scn["chunks"]:
        reqs = [ln for ln in c.split("\r\n") if ln]
        inb.append("".join("i" if ("|DPI" in ln or "|MPI" in ln) else "t" for ln in reqs) or "-")
    if scn["kind"] == "data":
        # a Data request for an item whose dequeuer is already running submits no task of its own (it is appended to the
        # item's queue: C01/C02's business): the chunks the reader did read are taken as what it dispatched to the pool
        seen, cur = [], None
        for e in out["events"]:
            if e[1] != "R":
                continue
            if e[2] == "recv":
                cur = []
                seen.append(cur)
            elif cur is not None and e[2] == "enqueue" and not any(x[2] == "submit-refused" for x in out["events"] if x[0] <= e[0]):
                cur.append("i")
            elif cur is not None and e[2] in ("submit", "submit-refused"):
                cur.append("t")
        for k, c in enumerate(seen):
            if k < len(inb):
                if len(c) > len(inb[k]):
                    c = c + ["?"]
                inb[k] = "".join(c) or "-"
    return "appclose %s %s %d %d %s %s" % (HND[scn["handler"]], scn.get("fail_write_at") or "-", scn["closes"], 1 if scn.get("end") else 0,
                                           ",".join(inb) if inb else ".", acts or "-")


def real_obs(scn, out, lines):
    th = out["threads"]
    ev = out["events"]
    ioh = [e for e in ev if e[2] == "iohandler"]
    return {"r_done": th.get("R", (False,))[0], "w_done": th.get("W", (False,))[0], "closed": out["close_calls"] > 0,
            "acc": out["pool_submitted"], "fin": out["pool_finished"], "exited": bool(out["exited"]),
            "sent": out["sent"], "ioh": [e[3] for e in ioh]}


def stream(tier):
    R = C.rng("appclose")
    res = Result("app-close-trace-acceptance")
    n = {"quick": 400, "search": 2500, "thorough": 20000}[tier]
    ops, ctx = [], []
    for i in range(n):
        scn = gen(R)
        seed = R.getrandbits(40)
        out = s_fault.run(scn, seed)
        res.traces += 1
        res.evaluations += 1
        inp = {"scenario": dict(scn), "seed": seed, "stream": "appclose"}
        ev = out["events"]
        ioh = [e for e in ev if e[2] == "iohandler"]
        exits = [e for e in ev if e[2] == "exit"]
        died = {n_: err for n_, (d, err) in out["threads"].items() if err}
        res.distribution["fault_" + "-".join(map(str, scn["fault"]))] += 1
        res.distribution["closes_%d" % scn["closes"]] += 1
        res.distribution["status_%s" % out["status"]] += 1
        res.nontrivial.add((scn["kind"], str(scn["handler"]), scn["fault"], scn.get("fail_write_at"), tuple(scn["chunks"]), scn["closes"], scn["app_after"], seed % 64))
        # ---- the property's clauses on the real log
        if died:
            res.violation("thread-died", "a thread died with %r" % died, inp)
        if out["double_close_error"]:
            res.violation("close-raises", "close() x%d raised %s" % (scn["closes"], out["double_close_error"]), inp)
        peer = bool(scn.get("end"))
        wfail = any(e[2] == "send-fails" for e in ev)
        if (ioh or exits) and not peer and not wfail:
            res.violation("own-close-reported", "no peer failure, no failing write, yet the I/O handler / exit was invoked: %r" % (ioh + exits,), inp)
        if any(e[2] == "recv-on-closed" for e in ev) and any(e[3] == "R" for e in ioh) and not any(e[2] in ("recv-eof", "recv-reset") for e in ev):
            res.violation("own-close-reported", "the read failure caused by close() was reported", inp)
        if wfail and not peer:
            # a failing write is never of close()'s making (the writer has ended before the socket is closed): it is reported
            # to the installed handler exactly once, from the writer thread, and the process exits iff no handler is installed or
            # it answered True — whether or not a close() is under way
            h = scn["handler"]
            w_ioh = [e for e in ioh if e[3] == "W"]
            want_exit = h == "absent" or h is True
            if len(w_ioh) != (0 if h == "absent" else 1) or bool(exits) != want_exit:
                res.violation("write-failure-reporting-during-close", "write #%s failed with handler=%r while the application was closing: %d handler "
                              "notifications from the writer, %d exits" % (scn.get("fail_write_at"), h, len(w_ioh), len(exits)), inp)
        a_done = out["threads"].get("A", (False,))[0]
        if a_done and not out["exited"]:
            if out["close_calls"] != scn["closes"]:
                res.violation("close-socket", "socket closed %d times for %d close() calls" % (out["close_calls"], scn["closes"]), inp)
            if not out["threads"].get("W", (True,))[0]:
                res.violation("close-threads", "writer still alive after close() returned", inp)
            if out["pool_running"] or out["pool_queue"] or out["pool_finished"] != out["pool_submitted"]:
                res.violation("close-pool", "close() returned with accepted tasks unfinished: submitted=%d finished=%d" % (out["pool_submitted"], out["pool_finished"]), inp)
            if out["status"] == "quiescent" and not out["threads"].get("R", (True,))[0]:
                res.violation("close-threads", "reader still alive at quiescence after close() returned", inp)
        if a_done and not out["exited"] and out["status"] == "quiescent" and not wfail:
            # "already accepted worker tasks complete": every request the reader dispatched (it was read and, if it needed a pool
            # task of its own, the pool took it) is worked off — its reply is produced (whether the stopped writer still writes it
            # is another matter)
            # a chunk counts once the reader is back at its loop test after dispatching all of it (a request whose `submit` the
            # shut-down pool refused was never accepted, and ends the reader)
            read, cur = [], []
            for e in ev:
                if e[1] != "R":
                    continue
                if e[2] == "recv":
                    cur = [ln.split("|")[0] for ln in e[3].decode("ascii").split("\n") if ln.strip() and "|" in ln]
                elif e[2] == "event-test":
                    read += cur
                    cur = []
                elif e[2] == "submit-refused":
                    break
            answered = {e[4].split("|")[0] for e in ev if e[2] == "enqueue" and e[4] != "STOP_WAITING_PILL"}
            dropped = [r for r in read if r not in answered]
            if dropped and not peer:
                res.violation("accepted-request-dropped", "close() returned, nothing is left to run, but the accepted request(s) %r were never worked off "
                              "(no reply was ever produced)" % dropped, inp)
        if not a_done and not out["exited"] and out["status"] == "quiescent":
            res.violation("close-hangs", "close() never returned (nothing left to run)", inp)
        want_h = 0 if scn["handler"] == "absent" else 1
        # ---- the tie
        if scn.get("flood"):
            continue
        acts, lines, problems = to_actions(scn, out)
        if "?" in acts or problems:
            res.mismatch("appclose-map", "every stop-flag / shutdown / socket-close operation is the application thread's", "; ".join(problems) or acts)
            continue
        ops.append(model_op(scn, acts, out))
        ctx.append((scn, out, lines, inp))
        if i < 2:
            res.sample({"scenario": scn, "actions": acts, "io_handler_calls": len(ioh), "exits": len(exits)})
    model = C.run_driver(ops) if ops else []
    for op, m, (scn, out, lines, inp) in zip(ops, model, ctx):
        f = m.split()
        if not f or f[0] != "ok":
            res.mismatch(op, "the model accepts every action of the real run", m)
            continue
        o = real_obs(scn, out, lines)
        app, r, w, stop, shut, closed, tasks, fin, acc, qlen, exc, exited = f[1:13]
        rep = f[13][4:]
        wrote = [int(x) for x in f[14][6:].split(",") if x]
        exp = {"r_done": r == "done", "w_done": w == "done", "closed": closed == "true", "acc": int(acc), "fin": int(fin),
               "exited": exited == "true"}
        got = {k: o[k] for k in exp}
        if o["exited"]:
            # the process is gone: only the reports are comparable
            exp = {"exited": exp["exited"]}
            got = {"exited": True}
        if exp != got:
            res.mismatch(op, str(exp), str(got))
            continue
        try:
            msent = [lines[k] + "\r\n" for k in wrote]
        except IndexError:
            msent = None
        if msent != o["sent"]:
            res.mismatch(op, "written lines %r" % (msent,), "written lines %r" % (o["sent"],))
            continue
        if scn["handler"] != "absent" and sorted(rep) != sorted(o["ioh"]):
            res.mismatch(op, "I/O reports by %r" % rep, "I/O handler called from %r" % o["ioh"])
    return res
