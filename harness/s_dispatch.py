"""C09 (server part) / C10 / C20 (close logic) — sequential differential of the REAL Server.on_received_request
(reader-thread code, run in-process with recording stubs for request manager, executor, socket,
subscription manager, adapter and exception handler) against Ari.dispatchAll; the properties' statements
are evaluated on the real action log."""
from fractions import Fraction
import logging
import threading
import common as C
import ari
from streams import Result
from s_wire import gen_request, gen_text, exc_classes, make_exc, script_toks, malform
from s_keepalive import fr
from s_init import c_dict


class Log(list):
    def cur(self):
        return self[-1]


def build(kind, exc_handler, init_out, lsn_out, log, ka=None):
    import lightstreamer_adapter.server as S
    from lightstreamer_adapter.interfaces.data import DataProvider
    from lightstreamer_adapter.interfaces.metadata import MetadataProvider

    def outcome(o):
        if o[0] == "raise":
            raise o[1]
        return o[1]
    acts = log

    class D(DataProvider):
        def initialize(self, p, c=None):
            acts.cur().append("init:%s:%s" % (c_dict(p).replace(" ", ",").replace("d{,", "d{").replace(",}", "}"), ari.c_optstr(c)))
            return outcome(init_out)
        def set_listener(self, l):
            acts.cur().append("listener")
            return outcome(lsn_out)
        def issnapshot_available(self, i): return False
        def subscribe(self, i): acts.cur().append("ADAPTER:subscribe")
        def unsubscribe(self, i): acts.cur().append("ADAPTER:unsubscribe")

    valid = {"get_allowed_max_bandwidth": 1.5, "wants_tables_notification": True, "get_items": ["i1"], "get_schema": ["f1"],
             "mode_may_be_allowed": True, "ismode_allowed": True, "get_distinct_snapshot_length": 3, "get_min_source_frequency": 0.5,
             "get_allowed_buffer_size": 4, "get_allowed_max_item_frequency": 2.0}
    from s_wire import ADAPTER_METHODS

    def mk(name):
        def f(self, *a, **k):
            acts.calls.append(name)
            return valid.get(name)
        return f
    body = {n: mk(n) for n in ADAPTER_METHODS}

    def minit(self, p, c=None):
        acts.cur().append("init:%s:%s" % (c_dict(p).replace(" ", ",").replace("d{,", "d{").replace(",}", "}"), ari.c_optstr(c)))
        return outcome(init_out)
    body["initialize"] = minit
    M = type("M", (MetadataProvider,), body)

    class RM(S._RequestManager):
        """the REAL reader loop (`_do_run` is inherited) with recording stand-ins for everything that leaves the reader thread"""
        def __init__(self):
            self._log = logging.getLogger("verif-dispatch")
            self._stop_request = threading.Event()
            self._server = None
        def send_reply(self, rid, resp):
            acts.cur().append("reply:" + C.hx("%s|%s" % (rid, resp)))
        def send_notify(self, n):
            acts.cur().append("fal" if "|FAL|" in n else "notify:" + n)
        def change_keep_alive(self, k):
            acts.sender_ka = k
        def quit(self):
            acts.cur().append("quit")
            self._stop_request.set()

    class Ex:
        def submit(self, fn):
            acts.pending.append((len(acts) - 1, fn))
        def shutdown(self, wait=True, *, cancel_futures=False):
            # the model's `poolShutdown` is the waiting, non-cancelling shutdown; anything else is a different action
            acts.cur().append("poolshutdown" + ("" if wait else ":nowait") + (":cancel" if cancel_futures else ""))

    class Sock:
        def close(self):
            acts.cur().append("sockclose")

    class SM:
        def do_subscription(self, item, task):
            acts.cur().append("data:SUB:%s:%s" % (C.hx(task.code), ari.c_val("S", item)))
        def do_unsubscription(self, item, task):
            acts.cur().append("data:USB:%s:%s" % (C.hx(task.code), ari.c_val("S", item)))

    class H(S.ExceptionHandler):
        def handle_exception(self, e):
            acts.cur().append("handler")
            return None if exc_handler == "returns-None" else exc_handler
        def handle_ioexception(self, e):
            acts.cur().append("iohandler")
            return True
    srv = S.DataProviderServer(D(), ("h", 1), keep_alive=ka, thread_pool_size=1) if kind == "data" else \
        S.MetadataProviderServer(M(), ("h", 1), keep_alive=ka, thread_pool_size=1)
    srv._executor.shutdown(wait=False)
    srv._request_manager, srv._executor, srv._server_sock = RM(), Ex(), Sock()
    srv._request_manager._server = srv
    if kind == "data":
        srv._subscription_mgr = SM()
    if exc_handler is not None:
        srv.set_exception_handler(H())
    S.traceback = type("TB", (), {"print_exc": staticmethod(lambda *a, **k: None)})
    return srv


class _ScriptSock:
    """recv(n) returns at most n bytes of the next scripted chunk; b'' once the script is exhausted"""
    def __init__(self, chunks):
        self.chunks = [c.encode("ascii") for c in chunks if c]

    def recv(self, n):
        if not self.chunks:
            return b""
        c = self.chunks[0]
        if len(c) > n:
            self.chunks[0] = c[n:]
            return c[:n]
        self.chunks.pop(0)
        return c


def gen_lines(kind, R):
    M = "DPI" if kind == "data" else "MPI"
    own = ["SUB", "USB"] if kind == "data" else ari.META_POST_INIT
    other = ari.META_POST_INIT if kind == "data" else ["SUB", "USB"]
    n = R.choice([1, 2, 4, 6, 9])
    init_positions = set(R.sample(range(n), R.choice([0, 1, 1, 1, 2, 3]) if n > 2 else R.choice([0, 1])))
    lines, hint = [], None
    for i in range(n):
        rid = "%x" % (0x10000 + i)
        if i in init_positions:
            pairs = []
            v = R.choice([None, "1.8.0", "1.8.1", "1.8.2", "1.8.3", "1.9.0", "1.9.1", "1.10.0", "2.0"])
            if v is not None:
                pairs.append(("ARI.version", v))
            if hint is None and R.random() < 0.4:
                hint = R.choice(["300", "2500", "0", "12000"])
                pairs.append(("keepalive_hint.millis", hint))
            if R.random() < 0.3:
                pairs.append(("p", gen_text(R)))
            toks = []
            for k, x in pairs:
                toks += ["S", ari.enc_text(k), "S", ari.enc_text(x)]
            if R.random() < 0.12:
                toks = toks[:-1] if toks else ["S"]
            lines.append("|".join([rid, M] + toks))
            continue
        c = R.random()
        if c < 0.55:
            m = R.choice(own)
            fixed, tail = gen_request(m, R)
            toks = ari.encode_args(m, fixed, tail)
            if R.random() < 0.25:
                toks, _, _ = malform(m, toks, R)
                toks = [t for t in toks if t.strip() != ""]        # parse_request drops blank tokens anyway
            lines.append("|".join([rid, m] + toks))
        elif c < 0.65:
            m = R.choice(other)
            fixed, tail = gen_request(m, R)
            lines.append("|".join([rid, m] + ari.encode_args(m, fixed, tail)))
        elif c < 0.72:
            # unknown methods, half of them near misses of real ones (a substring / superstring / other case of an init, close or
            # request method must be as unknown as any other name)
            near = ["PI", "DP", "MP", "D", "M", "P", "I", "DPIX", "XMPI", "DPI2", "dpi", "mpi", "Mpi", "SU", "UB", "US", "SUBS", "CLOS",
                    "LOSE", "CLOSED", "close", "NU", "GI", "NUSX", "DPI MPI", "DPI,MPI", M[:2], M[1:], M.lower(), M + M]
            lines.append("|".join([rid, R.choice(["XYZ", "KEEPALIVE", "RAC", "sub", "FAL"]) if R.random() < 0.5 else R.choice(near), "S", "x"]))
        elif c < 0.8:
            lines.append(R.choice(["", "|", rid, rid + "|", "  ", "|||"]))
        else:
            cid = R.choice(["0", "0", "0", "1", rid])
            toks = R.choice([[], ["S", "reason", "S", "bye+bye"], ["S", "reason", "S", "#"], ["S", "reason"], ["S", "a", "S", "b", "X"], ["I", "reason", "S", "x"]])
            lines.append("|".join([cid, "CLOSE"] + toks))
    return [l + R.choice(["\r\n", "\n"]) for l in lines], hint


def stream(tier):
    R = C.rng("dispatch")
    res = Result("reader-dispatch-differential")
    n = {"quick": 700, "search": 2500, "thorough": 30000}[tier]
    lib, other, userdef = exc_classes()
    ops, impl = [], []
    for i in range(n):
        kind = R.choice(["data", "meta"])
        exh = R.choice([None, None, True, False, "returns-None"])
        lines, hint = gen_lines(kind, R)
        init_out = ("ret", None) if R.random() < 0.75 else ("raise", make_exc(R.choice(lib + other), R))
        lsn_out = ("ret", None)
        ka = R.choice([None, 0, 5])
        log = Log()
        log.calls, log.pending, log.sender_ka = [], [], None
        srv = build(kind, exh, init_out, lsn_out, log, ka)
        M = "DPI" if kind == "data" else "MPI"
        # ---- drive the REAL reader loop over a scripted socket: everything in one burst, or one line per read
        sent_lines = list(lines)
        burst = R.random() < 0.5
        sock = _ScriptSock(["".join(lines)] if burst else list(lines))
        log.read, log.escaped, log.eof = [], [], []
        orig = srv.on_received_request

        def on_line(tok, orig=orig, log=log):
            log.append([])
            log.read.append(tok)
            try:
                return orig(tok)
            except BaseException as e:
                log.escaped.append((tok, e))
                raise
        srv.on_received_request = on_line
        srv.on_ioexception = lambda e, log=log: log.eof.append(e)       # the script's end (EOF) is not part of the comparison
        log.append([])                                                   # actions before any line (none expected)
        srv._request_manager._do_run(sock)
        pre = log.pop(0)
        log.pending = [(idx - 1, fn) for idx, fn in log.pending]
        quit_seen = any("quit" in l for l in log)
        died = None
        if pre:
            died = ("<before any line>", "actions %r" % (pre,))
        elif log.read != sent_lines[:len(log.read)]:
            died = ("framing", "lines dispatched %r differ from the lines sent %r" % (log.read[:3], sent_lines[:3]))
        elif len(log.read) < len(sent_lines) and not quit_seen:
            j = len(log.read)
            why = ("after on_received_request(%r) raised %r" % (log.escaped[-1][0][:60], log.escaped[-1][1])) if log.escaped else "no exception escaped"
            died = (sent_lines[j], "request line %d of %d was never dispatched although the connection is up and no close request was honoured (%s; %s)" % (
                j + 1, len(sent_lines), why, "all lines in one read" if burst else "one line per read"))
        lines = sent_lines[:len(log.read)]
        # run the submitted closures (as the pool would) to learn which request each belongs to
        for idx, fn in log.pending:
            before = len(log[idx])
            log.append([])
            try:
                fn()
            except Exception as e:
                log.cur().append("TASKRAISED:" + type(e).__name__)
            produced = log.pop()
            rep = [a for a in produced if a.startswith("reply:")]
            if len(rep) == 1:
                rid, m = C.unhx(rep[0][6:]).decode().split("|")[:2]
                log[idx].append("submit:%s:%s" % (m, C.hx(rid)))
            else:
                log[idx].append("submit:?:%r" % (produced,))
        if died:
            res.violation("request-not-dispatched", "%r: %s" % died, {"kind": kind, "lines": sent_lines, "one_read": burst, "exception_handler": exh})
            continue
        res.distribution["burst" if burst else "line_per_read"] += 1
        if quit_seen and len(lines) < len(sent_lines):
            res.distribution["lines_unread_after_close"] += len(sent_lines) - len(lines)
        # canonicalise version-refusal replies (message text not modelled)
        shown = []
        init_called = any(a.startswith("init:") for l in log for a in l)
        for l in log:
            row = []
            for a in l:
                if a.startswith("reply:"):
                    txt = C.unhx(a[6:]).decode()
                    parts = txt.split("|")
                    if len(parts) >= 3 and parts[1] == M and parts[2] == "E" and not any(x.startswith("init:") for x in l):
                        a = "reply:" + C.hx("|".join(parts[:3] + ["*"]))
                row.append(a)
            shown.append(",".join(row))
        hexact = None if hint is None else Fraction(float(hint))
        ops.append("dispatch %s %s %s %s %s -- %s" % (kind, {None: "n", True: "t", False: "f", "returns-None": "f"}[exh], fr(None if ka is None else Fraction(ka)),
                                                      fr(hexact), script_toks([init_out, lsn_out]), " ".join(C.hx(l) for l in lines)))
        impl.append("ok %s ; init=%s close=%s closed=%s ka=%s" % (" | ".join(shown), "t" if srv.init_expected else "f",
                                                                    "t" if srv._close_expected else "f",
                                                                    "t" if any("quit" in l for l in log) else "f", fr(Fraction(srv.keep_alive))))
        res.nontrivial.add((kind, exh, tuple(lines)))
        res.distribution["kind_" + kind] += 1
        res.distribution["lines"] += len(lines)
        # ---------------- the properties on the real log
        inp = {"kind": kind, "exception_handler": exh, "lines": lines, "initialize": repr(init_out)}
        flat = [(j, a) for j, l in enumerate(log) for a in l]
        inits = [j for j, a in flat if a.startswith("init:")]
        if len(inits) > 1:
            res.violation("initialize-twice", "initialize invoked %d times" % len(inits), inp)
        first_init_line = next((j for j, ln in enumerate(lines) if (ln.rstrip().split("|") + ["", ""])[1] == M and len([t for t in ln.rstrip().split("|") if t.strip()]) > 1), None)
        if inits and inits[0] != first_init_line:
            res.violation("initialize-not-first-init-request", "initialize ran for line %d, first init request is line %s" % (inits[0], first_init_line), inp)
        for j, a in flat:
            if a.startswith("submit:") or a.startswith("data:"):
                if first_init_line is None or j <= first_init_line:
                    res.violation("request-before-init-dispatched", "line %d dispatched (%s) before any init request was processed" % (j, a), inp)
        for j, l in enumerate(log):
            toks = [t for t in lines[j].rstrip().split("|") if t.strip()]
            is_init = len(toks) > 1 and toks[1] == M
            is_close = len(toks) > 1 and toks[1] == "CLOSE"
            rejected = False
            if len(toks) > 1 and not is_close and (first_init_line is None or j < first_init_line) and not is_init:
                rejected = True          # before init
            if is_init and first_init_line is not None and j > first_init_line:
                rejected = True          # second init
            if rejected:
                bad = [a for a in l if a.startswith(("init:", "listener", "reply:", "submit:", "data:"))]
                want = (["handler"] if exh is not None else []) + (["fal"] if kind == "data" and exh in (None, True) else [])
                if bad or l != want:
                    res.violation("rejected-request-handling", "line %d (%r) must be rejected with exactly %s, got %s" % (j, lines[j][:40], want, l), inp)
                res.distribution["rejected_lines"] += 1
    res.sample({"op": ops[0][:300], "impl": impl[0][:300]})
    res.sample({"op": ops[1][:300], "impl": impl[1][:300]})
    model = C.run_driver(ops)
    for op, m, i2 in zip(ops, model, impl):
        res.evaluations += 1
        if " ".join(m.split()) != " ".join(i2.split()):
            res.mismatch(op[:600], m[:600], i2[:600])
    return res
