"""C20 — fault injection and teardown on the REAL servers (both kinds) under the scheduler: EOF / reset at
every inbound offset class, failure of the k-th write, close requests (id 0 / other, agreed versions with and
without close packets), close() called twice; reactions compared with Ari.readerFault / writerFault /
dispatch and the property evaluated on the real event log."""
import random
import common as C
import shim
from streams import Result


def run(scn, seed):
    import lightstreamer_adapter.server as S
    from lightstreamer_adapter.interfaces.data import DataProvider
    from lightstreamer_adapter.interfaces.metadata import MetadataProvider
    SR = random.Random(seed)
    sched = shim.Sched(lambda names, ops: SR.choice(names))
    sched.yield_on_flags = True      # setting the stop flag and closing the socket are scheduling points of their own here
    sock = shim.Socket()
    saved = shim.install(sched, sock)
    log = []
    try:
        class D(DataProvider):
            def initialize(self, p, c=None): log.append(("adapter", "initialize"))
            def set_listener(self, l): self.l = l
            def issnapshot_available(self, i): return True
            def subscribe(self, i):
                sched.park(("abegin", "sub", i)); log.append(("adapter", "subscribe", i)); sched.park(("aend", "sub", i))
            def unsubscribe(self, i):
                sched.park(("abegin", "usb", i)); log.append(("adapter", "unsubscribe", i)); sched.park(("aend", "usb", i))

        class M(MetadataProvider):
            def initialize(self, p, c=None): log.append(("adapter", "initialize"))
            def notify_session_close(self, sid):
                sched.park(("abegin", "nsc", sid)); log.append(("adapter", "nsc-begin", sid))
                sched.park(("aend", "nsc", sid)); log.append(("adapter", "nsc-end", sid))

        class H(S.ExceptionHandler):
            def handle_ioexception(self, e):
                sched.event("iohandler", sched.me().name, type(e).__name__)
                return scn["handler"]
            def handle_exception(self, e):
                sched.event("exchandler", sched.me().name, str(e)[:60])
                return scn["handler"]
        kind = scn["kind"]
        srv = (S.DataProviderServer(D(), ("p", 1), keep_alive=0, thread_pool_size=scn["pool"]) if kind == "data"
               else S.MetadataProviderServer(M(), ("p", 1), keep_alive=0, thread_pool_size=scn["pool"]))
        if scn["handler"] != "absent":
            srv.set_exception_handler(H())
        sock.fail_write_at = scn.get("fail_write_at")
        sock.fail_write_kind = ["pipe", "reset", "timedout", "unreach", "bare"][(scn.get("fail_write_at") or 0) % 5]
        double_close = {"err": None}

        def main():
            srv.start()

        def proxy():
            for c in scn["chunks"]:
                sched.park(("deliver", c))
                sock.inbound.append(c.encode("ascii"))
            if scn.get("end"):
                sched.park(("deliver-end",))
                sock.in_eof = scn["end"]

        def app():
            # the application closes the server itself, twice
            sched.park(("app-close",))
            try:
                for k in range(scn.get("closes", 2)):
                    srv.close()
                    if k == 0 and scn.get("flood"):
                        # the Remote Adapter is not stopped by close(): it keeps reporting (failure notifications are enqueued
                        # whatever is subscribed) into a queue nobody reads any more — more lines than a bounded queue would hold
                        q = getattr(getattr(getattr(srv, "_request_manager", None), "_reply_sender", None), "_send_queue", None)
                        bound = getattr(q, "maxsize", 0) or 0           # sizing of the scenario only
                        for j in range(bound + 1 if bound else scn["flood"]):
                            if kind == "data":
                                lsn = getattr(srv._adapter, "l", None)
                                if lsn is None:
                                    break                                   # closed before the init request was processed
                                lsn.failure(RuntimeError("still alive %d" % j))
                            else:
                                srv._send_reply("late%d" % j, "NUS|V")
            except BaseException as e:
                if isinstance(e, (shim.Abort, shim.ProcessExit)):
                    raise
                double_close["err"] = repr(e)
        sched.spawn("M", main)
        sched.spawn("P", proxy)
        if scn.get("app_close"):
            sched.run(until=lambda: "R" in sched.threads and len(sched.chunks) >= scn.get("app_after", 0))
            sched.spawn("A", app)
        status = sched.run()
        ev = [(t, ch["tid"]) + e for t, ch in enumerate(sched.chunks) for e in ch["events"]]
        threads = {n: (t.done, repr(t.error) if t.error else None) for n, t in sched.threads.items()}
        return {"status": status, "events": ev, "threads": threads, "sent": [b.decode() for _, b in sock.sent], "log": log,
                "close_calls": sock.close_calls, "double_close_error": double_close["err"], "exited": sched.exited,
                "pool_running": srv._executor.running, "pool_queue": len(srv._executor.workq),
                "pool_submitted": srv._executor.count, "pool_cancelled": srv._executor.cancelled,
                "pool_finished": sum(1 for t in sched.threads.values() if t.kind == "task" and t.started and t.done),
                "close_expected": srv._close_expected}
    finally:
        sched.teardown()
        shim.uninstall(saved)


def gen(R):
    kind = R.choice(["data", "meta"])
    M = "DPI" if kind == "data" else "MPI"
    ver = R.choice(["1.9.1"] if kind == "data" else [None, "1.8.2", "1.8.3", "1.9.1"])
    init = "1|%s%s\r\n" % (M, "" if ver is None else "|S|ARI.version|S|" + ver)
    reqs = []
    for i in range(R.choice([0, 1, 2, 4])):
        if kind == "data":
            reqs.append("r%d|%s|S|item%d\r\n" % (i, "SUB" if i % 2 == 0 else "USB", i // 2))
        else:
            reqs.append("r%d|NSC|S|session%d\r\n" % (i, i))
    scn = {"kind": kind, "pool": R.choice([1, 2, 3]), "handler": R.choice(["absent", True, False, None]), "version": ver}
    mode = R.choice(["read-fault", "read-fault", "write-fault", "close", "close", "app-close"])
    stream = init + "".join(reqs)
    if mode == "read-fault":
        cls = R.choice(["before-init", "mid-line", "between", "after-all"])
        if cls == "before-init":
            data = ""
        elif cls == "mid-line":
            cut = R.randrange(1, len(stream))
            while stream[cut - 1] == "\n":
                cut = R.randrange(1, len(stream))
            data = stream[:cut]
        elif cls == "between":
            k = R.randrange(0, len(reqs) + 1)
            data = init + "".join(reqs[:k])
        else:
            data = stream
        scn.update(chunks=[data] if data else [], end=R.choice(["eof", "reset", "timedout", "unreach", "bare"]), fault=("read", cls))
    elif mode == "write-fault":
        scn.update(chunks=[stream], fail_write_at=R.randrange(1, 9), fault=("write",))
    elif mode == "close":
        cid = R.choice(["0", "0", "0", "7"])
        tail = R.choice(["", "|S|reason|S|shutdown"])
        scn.update(chunks=[stream + "%s|CLOSE%s\r\n" % (cid, tail)], fault=("close", cid))
    else:
        scn.update(chunks=[stream], app_close=True, fault=("app-close",))
    return scn


def stream(tier):
    R = C.rng("fault")
    res = Result("fault-injection-cosim")
    n = {"quick": 500, "search": 2000, "thorough": 20000}[tier]
    ops, impl = [], []
    for i in range(n):
        scn = gen(R)
        seed = R.getrandbits(40)
        out = run(scn, seed)
        res.traces += 1
        res.evaluations += 1
        ev = out["events"]
        ioh = [e for e in ev if e[2] == "iohandler"]
        exits = [e for e in ev if e[2] == "exit"]
        exch = [e for e in ev if e[2] == "exchandler"]
        died = {n_: err for n_, (d, err) in out["threads"].items() if err}
        inp = {"scenario": {k: v for k, v in scn.items()}, "seed": seed}
        res.distribution["fault_" + "-".join(map(str, scn["fault"]))] += 1
        res.distribution["handler_%s" % (scn["handler"],)] += 1
        res.nontrivial.add((scn["kind"], str(scn["handler"]), scn["fault"], scn.get("fail_write_at"), tuple(scn["chunks"])))
        if i < 3:
            res.sample({"scenario": scn, "io_handler_calls": len(ioh), "exit_calls": len(exits), "socket_close_calls": out["close_calls"]})
        if died:
            res.violation("thread-died", "a library thread died with %r" % died, inp)
        h = scn["handler"]
        want_h = 0 if h == "absent" else 1
        want_exit = 1 if (h == "absent" or h is True) else 0
        f = scn["fault"]
        closed_by_request = f[0] == "close" and f[1] == "0" and out["close_expected_before"] if "close_expected_before" in out else None
        # which side failed?
        if f[0] == "read":
            # the reader sees EOF / reset exactly once; the server was not closed
            ops.append("iofault %s f reader" % ({"absent": "n", True: "t", False: "f", None: "f"}[h]))
            impl.append("ok " + " ".join(["iohandler"] * len(ioh) + ["exit"] * len(exits)))
            if len(ioh) != want_h or len(exits) != want_exit:
                res.violation("read-failure-reporting", "read failure (%s) with handler=%r: %d handler notifications, %d exits" % (f[1], h, len(ioh), len(exits)), inp)
            if any(e[3] != "R" for e in ioh):
                res.violation("read-failure-wrong-thread", "handler invoked from %r" % [e[3] for e in ioh], inp)
        elif f[0] == "write":
            nw = len(out["sent"]) + 1
            failed = any(e[2] == "send-fails" for e in ev)
            if failed:
                ops.append("iofault %s f writer" % ({"absent": "n", True: "t", False: "f", None: "f"}[h]))
                impl.append("ok " + " ".join(["iohandler"] * len(ioh) + ["exit"] * len(exits)))
                if len(ioh) != want_h or len(exits) != want_exit:
                    res.violation("write-failure-reporting", "failure of write #%d with handler=%r: %d handler notifications, %d exits" % (scn["fail_write_at"], h, len(ioh), len(exits)), inp)
                if any(b for b in out["sent"][scn["fail_write_at"] - 1:]) and not exits:
                    res.violation("write-after-failure", "the writer kept writing after a failed write", inp)
            elif ioh or exits:
                res.violation("spurious-io-report", "no write failed but the I/O handler / exit was invoked", inp)
        elif f[0] == "close":
            honoured_version = scn["version"] not in (None, "1.8.2") or scn["kind"] == "data"
            if f[1] == "0" and honoured_version:
                if ioh or exits or exch:
                    res.violation("close-invokes-handler", "an honoured close request invoked a handler / exit: %r" % (ioh + exits + exch,), inp)
                if out["close_calls"] != 1:
                    res.violation("close-socket", "socket closed %d times on an honoured close request" % out["close_calls"], inp)
                if not out["threads"].get("W", (True,))[0] or not out["threads"].get("R", (True,))[0]:
                    res.violation("close-threads", "reader / writer still alive after an honoured close request", inp)
                if out["pool_running"] or out["pool_queue"] or out["pool_finished"] != out["pool_submitted"]:
                    res.violation("close-pool", "accepted pool tasks did not complete: submitted=%d finished=%d running=%d queued=%d dropped=%d" % (
                        out["pool_submitted"], out["pool_finished"], out["pool_running"], out["pool_queue"], out["pool_cancelled"]), inp)
                begun = [l for l in out["log"] if l[1] in ("nsc-begin",)]
                ended = [l for l in out["log"] if l[1] in ("nsc-end",)]
                if len(begun) != len(ended):
                    res.violation("close-task-interrupted", "a pool task was interrupted by close", inp)
            elif f[1] == "0":
                if out["close_calls"] or ioh or exits or exch:
                    res.violation("close-not-ignored", "a close request under an agreed version without close packets was not ignored", inp)
            elif not honoured_version:
                if out["close_calls"] or ioh or exits or exch:
                    res.violation("close-not-ignored", "a close request under an agreed version without close packets was not ignored", inp)
            else:
                want_ex = 0 if h == "absent" else 1
                if out["close_calls"] or len(exch) != want_ex:
                    res.violation("close-bad-id", "close request with id %s: socket closed %d times, %d exception notifications (expected %d)" % (f[1], out["close_calls"], len(exch), want_ex), inp)
                fal = [s for s in out["sent"] if "|FAL|" in s]
                want_fal = 1 if (scn["kind"] == "data" and (h == "absent" or h is True)) else 0
                if len(fal) != want_fal:
                    res.violation("close-bad-id-failure-notification", "%d FAL notifications (expected %d)" % (len(fal), want_fal), inp)
        else:
            if out["double_close_error"]:
                res.violation("double-close-raises", "close(); close() raised %s" % out["double_close_error"], inp)
            if out["status"] == "quiescent" and not out["exited"] and out["pool_finished"] != out["pool_submitted"]:
                res.violation("close-pool", "the application's close() dropped accepted pool tasks: submitted=%d finished=%d dropped=%d" % (
                    out["pool_submitted"], out["pool_finished"], out["pool_cancelled"]), inp)
            if ioh or exits:
                res.violation("own-close-reported", "the server's own close() was reported as an I/O failure: %r" % (ioh + exits,), inp)
            ops.append("iofault %s t reader" % ({"absent": "n", True: "t", False: "f", None: "f"}[h]))
            impl.append("ok " + " ".join(["iohandler"] * len(ioh) + ["exit"] * len(exits)))
    model = C.run_driver(ops) if ops else []
    for op, m, i2 in zip(ops, model, impl):
        if " ".join(m.split()) != " ".join(i2.split()):
            res.mismatch(op, m, i2)
    return res
