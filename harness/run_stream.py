#!/venv/bin/python
"""Developer helper: run one stream function and print its summary.  usage: run_stream.py module.func [tier]"""
import sys, os, json, importlib, logging
sys.path.insert(0, os.path.dirname(os.path.abspath(__file__)))
logging.disable(logging.CRITICAL)
import common as C
mod, fn = sys.argv[1].rsplit(".", 1)
tier = sys.argv[2] if len(sys.argv) > 2 else "quick"
import time
t0 = time.time()
r = getattr(importlib.import_module(mod), fn)(tier)
print("stream", r.name, "evals", r.evaluations, "nontrivial", len(r.nontrivial), "mismatches", len(r.mismatches),
      "violations", len(r.violations), "traces", r.traces, "secs %.1f" % (time.time() - t0))
for m in r.mismatches[:int(os.environ.get("SHOW", "5"))]:
    print("MISMATCH", json.dumps(m, default=str)[:1500])
for v in r.violations[:int(os.environ.get("SHOW", "5"))]:
    print("VIOLATION", json.dumps(v, default=str)[:1200])
if os.environ.get("DIST"):
    print(json.dumps(r.distribution, indent=0, sort_keys=True))
