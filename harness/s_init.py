"""C11 / C18(size) — differential of the real Server._on_init (both kinds) and pool sizing against the
Lean models composed from generated definitions; the compatibility table evaluated on the real code."""
from fractions import Fraction
import common as C
import ari
from streams import Result, diff
from s_wire import gen_text, exc_classes, make_exc, script_toks, mods
from s_keepalive import _RM, fr, spec

VERSIONS = [None, "1.8.0", "1.8.1", "1.8.2", "1.8.3", "1.8.4", "1.8.10", "1.8.", "1.8", "1.9.0", "1.9.1", "1.9.00", "1.9",
            "1.10.0", "1.10.1", "2.0.0", "2.1", "10.8.0", "0.9", "1.7.9", "1.8.x", "01.8.0", " 1.8.0", "1.8.0 ", "text", "1.9.0.1",
            "v1.8.3", "1", "1.8.3.0", "1.80.0", "1.9.0-beta", "", "١.٨.٠"]


def table(kind, v):
    """The compatibility table of C11, from the property text: returns None (refused) or the reply version
    ('' = bare success)."""
    if kind == "meta":
        if v in ("1.8.1", "1.8.0"):
            return None
        if v is None:
            return ""
        return "1.8.2" if v == "1.8.2" else "1.8.3"
    if v is None or v.startswith("1.8.") or v == "1.9.0":
        return None
    return "1.8.3"


def make_server(kind, ka, log, init_out, lsn_out):
    from lightstreamer_adapter.server import DataProviderServer, MetadataProviderServer
    from lightstreamer_adapter.interfaces.data import DataProvider
    from lightstreamer_adapter.interfaces.metadata import MetadataProvider

    def outcome(o):
        if o[0] == "raise":
            raise o[1]
        return o[1]

    class D(DataProvider):
        def initialize(self, p, c=None):
            log.append(("initialize", p, c))
            return outcome(init_out)
        def set_listener(self, l):
            log.append(("set_listener", l))
            return outcome(lsn_out)
        def issnapshot_available(self, i): return False
        def subscribe(self, i): pass
        def unsubscribe(self, i): pass

    class M(MetadataProvider):
        def initialize(self, p, c=None):
            log.append(("initialize", p, c))
            return outcome(init_out)
    if kind == "data":
        return DataProviderServer(D(), ("h", 1), keep_alive=ka, thread_pool_size=1)
    return MetadataProviderServer(M(), ("h", 1), keep_alive=ka, thread_pool_size=1)


def c_dict(d):
    out = []
    for k, v in d.items():
        out += [ari.c_val("S", k), ari.c_val("S", v)]
    return "d{ " + " ".join(out) + " }"


def stream_init(tier, keepalive_oracle=False):
    p, dp, mp = mods()
    R = C.rng("init")
    res = Result("init-differential")
    lib, other, userdef = exc_classes()
    reps = {"quick": 6, "search": 20, "thorough": 200}[tier]
    ops, impl = [], []
    for kind in ("data", "meta"):
        M = "DPI" if kind == "data" else "MPI"
        for v in VERSIONS:
            for r in range(reps):
                # ---- Proxy parameter map, local map, config file, adapter outcomes
                pairs = []
                if v is not None:
                    pairs.append(("ARI.version", v))
                hint = R.choice([None, None, "300", "2500", "999.5", "0", "-5", "10000", "7000"])
                if hint is not None:
                    pairs.append(("keepalive_hint.millis", hint))
                for q in range(R.choice([0, 0, 1, 2, 5])):
                    pairs.append((R.choice(["a", "b", "param1", "k%d" % q, gen_text(R, False) or "z"]), gen_text(R)))
                if r % 7 == 3 and v is not None:
                    pairs.append(("ARI.version", R.choice(VERSIONS[1:])))        # duplicate key: last wins
                    v_eff = pairs[-1][1]
                else:
                    v_eff = v
                R.shuffle(pairs) if r % 5 == 4 and r % 7 != 3 else None
                local = None
                if R.random() < 0.6:
                    local = {}
                    for q in range(R.choice([0, 1, 2, 3])):
                        local[R.choice(["a", "b", "param1", "local%d" % q, "ARI.version", "keepalive_hint.millis"])] = gen_text(R)
                cfgfile = R.choice([None, "adapters.xml", gen_text(R, False)])
                ka = R.choice([None, 0, 5, 0.5, 12])
                close_before = True
                io = R.random()
                init_out = ("ret", None) if io < 0.6 else ("raise", make_exc(R.choice(lib + other + userdef), R))
                lsn_out = ("ret", None) if R.random() < 0.9 else ("raise", make_exc(R.choice(other), R))
                toks = []
                for k, x in pairs:
                    toks += ["S", ari.enc_text(k), "S", ari.enc_text(x)]
                if r % 11 == 10:
                    toks = toks[:-1]                                           # malformed init request
                log = []
                srv = make_server(kind, ka, log, init_out, lsn_out)
                try:
                    srv._params = local
                    srv._config_file = cfgfile
                    srv._close_expected = close_before
                    rm = _RM()
                    rm.sender = srv.keep_alive
                    srv._request_manager = rm
                    try:
                        reply = srv._on_dpi(list(toks)) if kind == "data" else srv._on_mpi(list(toks))
                        if reply is not None and not isinstance(reply, str):
                            # the init handler no longer produces the reply itself (e.g. it hands back a task for the pool): not
                            # this stream's to judge — the tie to Init.lean is broken, the server-level streams (dispatch
                            # differential, co-simulations) decide whether the property still holds
                            ans = "ok init-handled-elsewhere:" + type(reply).__name__
                            reply = None
                    except p.RemotingException as e:
                        reply = None
                        ans = "err " + (M if ("parsing %s request" % M) in str(e) else "UNNAMED")
                    except Exception as e:
                        # nothing but the protocol error may escape the init handling: the reader thread would die
                        reply = None
                        ans = "err OTHER:" + type(e).__name__
                        res.violation("init-raises:" + type(e).__name__, "the init request makes _on_%s raise %r (local parameters %r)" % (M.lower(), e, local),
                                      {"kind": kind, "version": v_eff, "tokens": toks, "local": local})
                finally:
                    srv._executor.shutdown(wait=False)
                inits = [x for x in log if x[0] == "initialize"]
                lsn = [x for x in log if x[0] == "set_listener"]
                hexact = None if hint is None else Fraction(float(hint))
                if reply is not None:
                    shown = reply
                    if not inits and reply.startswith(M + "|E|"):
                        shown = M + "|E|*"
                    ans = "ok reply %s close %s init %s listener %s ka %s %s" % (
                        C.hx(shown), "t" if srv._close_expected else "f",
                        "none" if not inits else c_dict(inits[0][1]) + " " + ari.c_optstr(inits[0][2]),
                        "t" if lsn else "f", fr(Fraction(srv.keep_alive)), fr(Fraction(rm.sender)))
                loc_tok = "n" if local is None else "%d %s" % (len(local), " ".join(ari.c_optstr(k) + " " + ari.c_optstr(x) for k, x in local.items()))
                ops.append(" ".join(("init %s %s %s %s %s %s %d %s %s" % (
                    kind, "t" if close_before else "f", fr(None if ka is None else Fraction(ka)), fr(hexact), ari.c_optstr(cfgfile),
                    loc_tok, len(toks), " ".join(C.hx(t) for t in toks), script_toks([init_out, lsn_out]))).split()))
                impl.append(ans)
                res.nontrivial.add((kind, v_eff, r, ans))
                res.distribution["%s_%s" % (kind, "refused" if not inits else "raised" if init_out[0] == "raise" else "ok")] += 1
                if reply is None:
                    continue
                # ---- C12 on the real code: whatever the outcome, the interval in force is the rule's
                hdict = dict(pairs).get("keepalive_hint.millis")
                want_ka = spec(None if ka is None else Fraction(ka), None if hdict is None else Fraction(float(hdict)))
                if keepalive_oracle and (float(Fraction(rm.sender)) != float(want_ka) or float(Fraction(srv.keep_alive)) != float(want_ka)):
                    res.violation("keepalive-after-init", "after a %s init request (version %r, initialize %s) the keepalive in force is %s s / published %s s "
                                  "(property: %s s) for keep_alive=%r hint=%r on the %s server" % (
                                      "refused" if not inits else "failed" if init_out[0] == "raise" else "successful", v_eff,
                                      "not called" if not inits else init_out[0], rm.sender, srv.keep_alive, float(want_ka), ka, hdict, kind),
                                  {"kind": kind, "version": v_eff, "tokens": toks, "keep_alive": ka, "hint": hdict, "initialize": repr(init_out)})
                # ---- the table on the real code
                inp = {"kind": kind, "version": v_eff, "tokens": toks, "local": local, "config_file": cfgfile,
                       "initialize": repr(init_out)}
                want = table(kind, v_eff)
                if len(inits) > 1:
                    res.violation("init:initialize-called-twice", "initialize invoked %d times" % len(inits), inp)
                if want is None:
                    if inits or not reply.startswith(M + "|E"):
                        res.violation("version-table:%s:%s" % (kind, v_eff), "version %r must be refused; reply %r, initialize called: %s" % (v_eff, reply, bool(inits)), inp)
                    continue
                if not inits:
                    res.violation("version-table:%s:%s" % (kind, v_eff), "version %r must be accepted; reply %r" % (v_eff, reply), inp)
                    continue
                merged = {k: x for k, x in dict(pairs).items() if k not in ("ARI.version", "keepalive_hint.millis")}
                merged.update(local or {})
                if inits[0][1] != merged or inits[0][2] != cfgfile:
                    res.violation("init-params", "initialize received %r / %r, expected %r / %r" % (inits[0][1], inits[0][2], merged, cfgfile), inp)
                if init_out[0] == "raise":
                    e = init_out[1]
                    prov = "DataProviderError" if kind == "data" else "MetadataProviderError"
                    sub = ("D" if kind == "data" else "M") if type(e).__name__ == prov else ""
                    d = ari.decode_reply(reply)
                    if d[1] != "error" or d[2][0] != sub or d[2][1] != str(e):
                        res.violation("init-error-reply", "failing initialize (%r) answered %r" % (e, reply), inp)
                    if srv._close_expected is not True:
                        res.violation("init-close-flag", "close flag changed although initialize failed", inp)
                elif kind == "meta" or lsn_out[0] == "ret":
                    exp = M + "|V" if want == "" else "%s|S|ARI.version|S|%s" % (M, want)
                    if reply != exp:
                        res.violation("version-reply:%s:%s" % (kind, v_eff), "reply %r, table says %r" % (reply, exp), inp)
                    if srv._close_expected != (want == "1.8.3"):
                        res.violation("init-close-flag", "close requests honoured=%s after agreeing %r" % (srv._close_expected, want or "1.8.0"), inp)
                    if kind == "data" and not lsn:
                        res.violation("init-listener", "set_listener not called after initialize", inp)
    # ---- one configuration object serving several servers (a Metadata and a Data server of one process, or two of a kind):
    # each initialize() still receives exactly its own Proxy's parameters overlaid by the local ones
    for r in range({"quick": 40, "search": 120, "thorough": 1200}[tier]):
        shared = {}
        for q in range(R.choice([0, 1, 2])):
            shared[R.choice(["a", "param1", "local%d" % q])] = gen_text(R)
        kinds = R.choice([("meta", "data"), ("data", "meta"), ("data", "data"), ("meta", "meta")])
        before = dict(shared)
        for n, kind in enumerate(kinds):
            pairs = [("ARI.version", "1.9.1")]
            for q in range(R.choice([1, 2, 3])):
                pairs.append((R.choice(["a", "b", "proxy.instance_id", "k%d" % q]), "srv%d-%s" % (n, gen_text(R, False) or "z")))
            toks = []
            for k, x in pairs:
                toks += ["S", ari.enc_text(k), "S", ari.enc_text(x)]
            log = []
            srv = make_server(kind, None, log, ("ret", None), ("ret", None))
            try:
                srv.adapter_params = shared
                srv._close_expected = True
                rm = _RM()
                rm.sender = srv.keep_alive
                srv._request_manager = rm
                handed = srv._on_dpi(list(toks)) if kind == "data" else srv._on_mpi(list(toks))
            finally:
                srv._executor.shutdown(wait=False)
            if handed is not None and not isinstance(handed, str):
                res.mismatch("init-shared-config", "the init handler produces the reply itself", "it returned a %s" % type(handed).__name__)
                break                  # handled elsewhere (see above): nothing to judge here
            inits = [x for x in log if x[0] == "initialize"]
            merged = {k: x for k, x in dict(pairs).items() if k != "ARI.version"}
            merged.update(before)
            res.evaluations += 1
            res.distribution["shared_config_inits"] += 1
            if len(inits) != 1 or inits[0][1] != merged:
                res.violation("init-params-shared-config", "server %d of %r configured with one shared parameter dictionary %r: initialize received %r, expected %r"
                              % (n + 1, kinds, before, inits[0][1] if inits else None, merged),
                              {"kinds": kinds, "shared": before, "server": n + 1, "tokens": toks})
                break
    res.sample({"op": ops[0], "impl": impl[0]})
    res.sample({"op": ops[len(ops) // 2], "impl": impl[len(ops) // 2]})
    diff(res, ops, impl)
    return res


def stream_init_keepalive(tier):
    """the init differential with C12's rule evaluated on the interval in force after every init outcome."""
    return stream_init(tier, keepalive_oracle=True)


def stream_pool(tier):
    """C18 (size): real constructors vs Gen.poolSize, with cpu_count patched."""
    import lightstreamer_adapter.server as S
    res = Result("pool-size-differential")
    ops, impl = [], []
    real = S.cpu_count
    try:
        for cpu in (1, 2, 8, 64, None):
            def fake():
                if cpu is None:
                    raise NotImplementedError
                return cpu
            S.cpu_count = fake
            for size in (None, -7, -2, -1, 0, 1, 2, 3, 4, 17, 1000):
                for kind in ("data", "meta"):
                    srv = make_server(kind, None, [], ("ret", None), ("ret", None)) if size == "x" else None
                    from lightstreamer_adapter.server import DataProviderServer, MetadataProviderServer
                    log = []
                    base = make_server(kind, None, log, ("ret", None), ("ret", None))
                    base._executor.shutdown(wait=False)
                    cls = type(base)
                    srv = cls(base._adapter, ("h", 1), thread_pool_size=size)
                    got = srv.thread_pool_size
                    workers = srv._executor._max_workers
                    srv._executor.shutdown(wait=False)
                    ops.append("pool %s %s" % ("n" if size is None else size, "n" if cpu is None else cpu))
                    impl.append("ok %d" % got)
                    res.nontrivial.add((size, cpu, kind))
                    want = size if (size is not None and size >= 1) else (cpu if cpu is not None else 4)
                    if got != want or workers != want:
                        res.violation("pool-size", "thread_pool_size=%r with cpu_count=%r gives a pool of %r workers (property: %r)" % (size, cpu, workers, want),
                                      {"thread_pool_size": size, "cpu_count": cpu, "kind": kind})
    finally:
        S.cpu_count = real
    res.exhaustive = True
    res.sample({"op": ops[0], "impl": impl[0]})
    diff(res, ops, impl)
    return res
