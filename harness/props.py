"""Registry: property id -> Lean modules, generated inputs, correspondence streams, trusted base."""
import s_codec
import s_keepalive
import s_wire
import s_init
import s_framing
import s_sender
import s_conc
import s_dispatch
import s_fault
import s_appclose
import s_real

KERNEL = "Lean 4.33.0 kernel; axioms limited to propext, Classical.choice, Quot.sound (audited with #print axioms on every run)"
HARNESS = "the correspondence harness (generators, canonicalisation) in /verif/harness"

PROPS = {
    "C05": {
        "lean": ["AriVerif.Props.C05"],
        "gen": [],
        "streams": [s_codec.stream, s_codec.stream_outbound_tokens],
        "trusted": [KERNEL, HARNESS,
                    "modelled, not verified: CPython's urllib.parse.quote_plus/unquote_plus and str.encode/decode "
                    "(their behaviour is what the differential compares with Ari.quotePlus / Ari.unq)"],
        "assumptions": ["Python str without lone surrogates = Lean String",
                        "decode_string is modelled for ASCII tokens (the reader decodes the wire as ASCII)",
                        "the model's `invalid` stands for Python's U+FFFD substitution; no property speaks about it"],
        "rule": "values = None, '', every code point of the tier's set, all strings up to the tier's length over a "
                "27-character reserved/special alphabet, random mixed strings, random alternative URL-encodings, "
                "malformed tokens; non-trivial = value needs at least one escape or is None/'' (distinct values), "
                "plus distinct alternative-encoding tokens",
    },
    "C12": {
        "lean": ["AriVerif.Props.C12", "AriVerif.Props.C12S"],
        "gen": ["KeepAlive", "Version"],
        "streams": [s_keepalive.stream, s_init.stream_init_keepalive, s_sender.stream_e2e],
        "trusted": [KERNEL, HARNESS, "harness/extract.py (Python-subset -> Lean translator) for Gen/KeepAlive.lean, "
                    "mitigated by the grid differential of the generated definitions against the real method",
                    "modelled, not verified: float arithmetic of CPython (the model is exact over Rat; the grid uses "
                    "exactly representable values, where float ordering and correctly-rounded division agree with Rat)"],
        "assumptions": ["the hint token parses with float(); non-numeric hints (ValueError on the reader thread) are outside the property",
                        "Server._change_keep_alive reaches the writer through _RequestManager.change_keep_alive (checked by the C13 co-simulation)"],
        "rule": "grid: configured in {None,-1,-0.5,0,1/8,1/2,1,1.5,5,10,12,3600} x hints {absent, negative, 0, boundaries around "
                "1000/10000/configured*1000, large, decimal-string forms, random k/8}; both server kinds; non-trivial = positive hint (distinct (kind,cfg,hint))",
    },
    "C08": {
        "lean": ["AriVerif.Props.C08"],
        "gen": ["Exc", "Docs"],
        "streams": [s_wire.stream_exc, s_wire.stream_meta],
        "trusted": [KERNEL, HARNESS, "harness/extract.py for Gen/Exc.lean (tables read off the AST: _EXCEPTIONS_MAP, class statements, "
                    "designated classes per write_* function), mitigated by the full-matrix differential",
                    "Spec.ariCode (the designation table) is hand-written from the property text; c08_doc_sound/c08_doc_complete tie it to the :raises "
                    "clauses of interfaces/*.py and the adapter calls of server.py's _on_* handlers (Gen/Docs.lean, regenerated every run); MDA is the one "
                    "documented exception (docstring lists no exception)",
                    "modelled, not verified: Python's `except (classes)` matching = 'some class of the MRO is designated'; str(type(e)) lookup = exact class"],
        "assumptions": ["single inheritance among exception classes (the translator rejects multiple inheritance in interfaces/*.py)",
                        "exception payload attributes are well-typed (int code, str/None messages)"],
        "rule": "every (method, class) pair of the 18 x 16 matrix (10 library classes, RuntimeError, ValueError, KeyError, a user-defined "
                "Exception subclass, user-defined subclasses of CreditsError and SubscribeError) x payload samples from the C05 domain; "
                "plus the Metadata closures with raising adapters; non-trivial = distinct (method, class, line)",
    },
    "C11": {
        "lean": ["AriVerif.Props.C11"],
        "gen": ["Version", "KeepAlive"],
        "streams": [s_init.stream_init],
        "trusted": [KERNEL, HARNESS, "harness/extract.py for Gen/Version.lean (both getSupportedVersion, prologue and epilogue of _on_init, "
                    "shape checks of the statements in between), mitigated by the version-grid differential",
                    "Ari.onInit (hand-written composition: dict handling, order of calls) is tied by the init differential only",
                    "modelled, not verified: Python dict semantics (insertion order, update), str.startswith"],
        "assumptions": ["version-refusal replies are compared up to their message text (generic error `<M>|E|...`)",
                        "the hint token's numeric value is supplied to the model by the harness (float() is CPython's)"],
        "rule": "33 version strings (absent, 1.8.x / 1.9.x / 1.10.x / 2.x patterns, near-misses, text, non-ASCII) x both kinds x random Proxy maps "
                "(0-5 extra pairs, duplicate and shuffled reserved keys), local maps incl. reserved keys, config file set or not, initialize / "
                "set_listener outcomes {ok, provider error, other library errors, other exceptions}, malformed init requests; "
                "non-trivial = distinct (kind, version, outcome line)",
    },
    "C06": {
        "lean": ["AriVerif.Props.C06"],
        "gen": ["Layouts"],
        "streams": [s_wire.stream_requests, s_wire.stream_decode_pure, s_wire.stream_lines_e2e, s_wire.stream_meta],
        "trusted": [KERNEL, HARNESS, "Spec/Ari.lean (the conforming ARI request encoder) is hand-written from the protocol, "
                    "cross-checked with request literals of the repository's tests (examples in Props/C06.lean)",
                    "the request layouts (Requests.schemas) and the adapter wiring (Meta.metaExec) are hand-written tables tied by the "
                    "differential with pairwise-distinct values in every slot",
                    "modelled, not verified: str.split / rstrip / int() / unquote_plus of CPython on ASCII input"],
        "assumptions": ["inbound bytes are ASCII (the reader decodes with 'ascii')", "integers below CPython's 4300-digit limit"],
        "rule": "per method: structured requests with distinct values per slot (strings of the C05 domain incl. None/empty, ints incl. 0, "
                "negatives and > 2^64, every mode/platform code incl. null, maps/lists/table lists of 0..6 entries, duplicate map keys), "
                "encoded by a java.net.URLEncoder-like encoder and by random standard variants, both terminators; malformed variants; "
                "the Metadata closures with scripted adapters; non-trivial = distinct (method, token list)",
    },
    "C09": {
        "lean": ["AriVerif.Props.C09", "AriVerif.Props.C09S", "AriVerif.Props.C06", "AriVerif.Props.SkelReader"],
        "gen": ["Layouts", "Skeleton"],
        "streams": [s_wire.stream_requests, s_wire.stream_meta, s_dispatch.stream, s_wire.stream_concurrent_decode],
        "trusted": [KERNEL, HARNESS, "request layouts hand-written (Requests.schemas), tied by the malformed-stream differential",
                    "modelled, not verified: the remoting_exception_on_parse decorator (every exception inside read_* becomes the "
                    "protocol error naming the method) — compared on every malformed input"],
        "assumptions": ["DESIGN I-2 (mode = first character), I-3 (a dangling S|k at the end of a map is tolerated by the code)"],
        "rule": "per method: truncation at every position, every type marker replaced, every typed slot corrupted, token deletion / "
                "duplication, appended tokens, random token lists; non-trivial = distinct (method, token list); server part: line "
                "sequences with malformed requests at random positions on both server kinds, with and without exception handler "
                "(returning True/False), followed by well-formed requests",
    },
    "C07": {
        "lean": ["AriVerif.Props.C07"],
        "gen": [],
        "streams": [s_wire.stream_writers, s_wire.stream_meta, s_conc.data_stream(["C07"], "data-cosim-illtyped-events")],
        "trusted": [KERNEL, HARNESS, "Spec/Reply.lean (the conforming reply decoder incl. base64) is hand-written from the protocol",
                    "floats are opaque: the line carries CPython's repr verbatim; float(repr(x)) == x is CPython's contract, tested on "
                    "random doubles of all binades by the writers differential (repr compared), not proved",
                    "modelled, not verified: base64.b64encode, str(int), isinstance-based type guards of CPython"],
        "assumptions": ["text slots accept str and bytes (the repository's tests fix bytes as text: test_gis_tobe_quoted_from_bytes)",
                        "container-shape errors (a non-iterable where a list is expected, DESIGN I-5) are outside the property; the model "
                        "reproduces them as `pyType` and the differential compares them"],
        "rule": "every writer with C05-domain strings in every text slot, bytes of all values and lengths 0..300, None, 0..8 elements, ints "
                "over magnitudes, floats over all binades (random bit patterns), every order of modes, booleans, and a type-confusion "
                "stream placing {int, bool, float, bytes, str, None, list, dict, tuple, object} in every slot; non-trivial = distinct operation",
    },
    "C15": {
        "lean": ["AriVerif.Props.C15", "AriVerif.Props.SkelReader"],
        "gen": ["Skeleton"],
        "streams": [s_framing.stream],
        "trusted": [KERNEL, HARNESS, "modelled, not verified: str.splitlines(keepends=True) of CPython on ASCII text (compared on every "
                    "segmentation incl. malformed streams with lone CR / VT / FF / FS / GS / RS)"],
        "assumptions": ["inbound bytes are ASCII; recv never returns an empty chunk before EOF",
                        "well-formed stream = lines whose content has no raw control characters (values are percent-encoded)"],
        "rule": "streams of 1-6 request lines with mixed CRLF / LF terminators: exhaustively every placement of up to 2 (thorough: 3) cut "
                "points, byte-at-a-time, with unterminated remainders (incl. a cut between CR and LF), random many-cut segmentations; the "
                "real _RequestManager._do_run is run in-process on a scripted socket; non-trivial = distinct segmentation",
    },
    "C13": {
        "lean": ["AriVerif.Props.C13", "AriVerif.Props.SkelSender"],
        "gen": ["KeepAlive", "Skeleton"],
        "streams": [s_sender.stream, s_sender.stream_e2e],
        "trusted": [KERNEL, HARNESS, "the scheduler shim (harness/shim.py): its semantics for Lock/RLock, Queue (FIFO, unbounded), Event, Thread, ThreadPoolExecutor (FIFO work queue, <= n running, shutdown waits), socket (recv returns a non-empty prefix, b'' at EOF; sendall all-or-exception), virtual clock; the real code runs unmodified, module attributes are patched from the harness",
                    "real timers and scheduling latency are not modelled: bounds are exact in virtual time only"],
        "assumptions": ["an interval change takes effect at the writer's next wait (as at init, where the init reply is enqueued at the same instant)",
                        "a submission at exactly the instant a wait expires may be served either way (both tie policies are co-simulated)"],
        "rule": "timed histories: K in {off, 250, 1000, 2500, 10000} ms, 0-12 events with gaps {0, 1, K-1, K, K+1, 2K, 3K+7, random}, interval "
                "changes followed by a message at the same instant, explicit pills, stop, idle horizons up to 25 s; both tie policies; "
                "non-trivial = history in which at least one KEEPALIVE and one message are written (distinct histories)",
    },
    "C14": {
        "lean": ["AriVerif.Props.C14", "AriVerif.Props.C16S", "AriVerif.Props.SkelLifecycle", "AriVerif.Props.SkelSender"],
        "gen": ["Skeleton"],
        "streams": [s_conc.data_stream(["C14"], "data-cosim-startup"),
                    s_conc.data_stream(["C14"], "data-cosim-startup-close", tails=(None, "close", "close-first", "close-first")), s_wire.stream_writers],
        "trusted": [KERNEL, HARNESS, "the scheduler shim (harness/shim.py): its semantics for Lock/RLock, Queue (FIFO, unbounded), Event, Thread, ThreadPoolExecutor (FIFO work queue, <= n running, shutdown waits), socket (recv returns a non-empty prefix, b'' at EOF; sendall all-or-exception), virtual clock; the real code runs unmodified, module attributes are patched from the harness",
                    "Startup.lean abstracts every reader-side producer as an `.enqueue` guarded by 'reader started'; that the real "
                    "start() follows the modelled order is what the M/W/R start-up chunks of the co-simulation compare"],
        "assumptions": ["Metadata servers share Server.start with Data servers (same code path; the Metadata co-simulation of C04 also checks the first line)"],
        "rule": "Data-server scenarios with user/password each None, empty or a C05 string, request bytes delivered before start() in ~30% of "
                "the runs, random schedules of the starting thread against writer, reader and proxy; non-trivial = scenario with pipelined requests",
    },
    "C16": {
        "lean": ["AriVerif.Props.C16", "AriVerif.Props.C16S", "AriVerif.Conc.DataFifo", "AriVerif.Props.C04S", "AriVerif.Props.SkelSub", "AriVerif.Props.SkelSender"],
        "gen": ["Skeleton"],
        "streams": [s_conc.data_stream(["C16"], "data-cosim-outbound"), s_sender.stream, s_real.stream_outbound],
        "trusted": [KERNEL, HARNESS, "the scheduler shim (harness/shim.py): its semantics for Lock/RLock, Queue (FIFO, unbounded), Event, Thread, ThreadPoolExecutor (FIFO work queue, <= n running, shutdown waits), socket (recv returns a non-empty prefix, b'' at EOF; sendall all-or-exception), virtual clock; the real code runs unmodified, module attributes are patched from the harness",
                    "contiguity of one sendall on a real socket is the OS's; queue.Queue being FIFO is CPython's"],
        "assumptions": ["messages are written by the single writer thread only"],
        "rule": "Data-server scenarios with 0-2 adapter-owned threads and events submitted from inside subscribe/unsubscribe, all schedules "
                "sampled; written lines compared with the enqueue order; non-trivial = scenario with pipelined requests",
    },
    "C10": {
        "lean": ["AriVerif.Props.C10", "AriVerif.Props.C10S", "AriVerif.Props.SkelLifecycle", "AriVerif.Props.SkelMetaPool"],
        "gen": ["Version", "Skeleton"],
        "streams": [s_dispatch.stream, s_conc.init_race_stream],
        "trusted": [KERNEL, HARNESS, "Dispatch.lean (classify / act) is hand-written and tied by the reader-dispatch differential only: the real "
                    "Server.on_received_request of both kinds is run in-process with recording stubs (request manager, executor, socket, "
                    "subscription manager, adapter, exception handler)",
                    "that every adapter method other than initialize / set_listener runs in a pool task created by a submit / dataReq "
                    "action (hence after it) is C18's co-simulation"],
        "assumptions": ["DESIGN I-1: a malformed or refused first init request consumes the init slot (the repository's tests fix this); "
                        "c10_work_after_init is stated for 'init slot consumed', c10_initialize_only_first says when initialize actually ran",
                        "DESIGN I-7: request methods that collide with private attributes (INIT, REQUEST_MANAGER_STARTED) are outside the domain"],
        "rule": "line sequences of 1-9 lines per connection: init request at zero, one or several random positions (all version strings, "
                "malformed variants), requests of the kind's own methods (a quarter malformed), of the other kind's methods, unknown methods, blank / "
                "garbage lines, CLOSE lines (id 0 / other, well- and ill-formed), exception handler absent / True / False, adapter initialize "
                "ok / raising; non-trivial = distinct (kind, handler, line sequence)",
    },
    "C20": {
        "lean": ["AriVerif.Props.C20", "AriVerif.Props.C20A", "AriVerif.Props.C20AMovers", "AriVerif.Props.SkelReader", "AriVerif.Props.SkelLifecycle", "AriVerif.Conc.MetaClose", "AriVerif.Conc.MetaFault", "AriVerif.Conc.DataClose", "AriVerif.Conc.DataFault"],
        "gen": ["Skeleton"],
        "streams": [s_fault.stream, s_appclose.stream, s_dispatch.stream, s_conc.meta_stream(["C20"], "meta-cosim-close"),
                    s_conc.data_stream(["C20"], "data-cosim-close", tails=True)],
        "trusted": [KERNEL, HARNESS, "the scheduler shim (harness/shim.py): Lock/RLock, Queue, Event, Thread, ThreadPoolExecutor, scripted socket with fault injection, virtual clock",
                    "os._exit is substituted by the shim (recorded, thread unwound); real process exit and real socket shutdown semantics are the OS's",
                    "Dispatch.lean's close handling tied by the reader-dispatch differential; readerFault / writerFault tied by the fault-injection co-simulation",
                    "Conc/AppClose.lean (the application's own close() from another thread, any number of calls) tied by trace acceptance: the real event log mapped to model actions must be accepted step by step and end in the same observable state (s_appclose.py); the mapping infers the writer's dequeue from its write and places it there (dequeues commute with later enqueues)"],
        "assumptions": ["the close request is the last line the Proxy Adapter sends (lines after it would hit a shut-down pool, DESIGN I-7)",
                        "a blocked recv on a socket closed by another thread raises OSError (the shim's choice; platform-dependent in reality)"],
        "rule": "fault injection on both server kinds under the scheduler: EOF / reset before init, mid-line, between requests, after all; failure "
                "of write #1..#8; close request id 0 / 7 with agreed versions {none, 1.8.2, 1.8.3, 1.9.1}; close(); close() from the application "
                "thread; handler absent / True / False / None; pool 1-3 with pool tasks in flight; random schedules; non-trivial = distinct scenario",
    },
    "C04": {
        "lean": ["AriVerif.Props.C04", "AriVerif.Props.C04S", "AriVerif.Conc.MetaProj", "AriVerif.Props.SkelMetaPool", "AriVerif.Props.SkelReader", "AriVerif.Conc.Progress"],
        "gen": ["Skeleton"],
        "streams": [s_conc.meta_stream(["C04"], "meta-cosim"), s_wire.stream_meta, s_conc.meta_fine_stream(["C04"])],
        "trusted": [KERNEL, HARNESS, "the scheduler shim (harness/shim.py): Lock/RLock, Queue, Event, Thread, ThreadPoolExecutor (FIFO work queue, <= n running), scripted socket, virtual clock; line-level preemption via sys.settrace in the fine-grained streams",
                    "Meta.metaExec (which adapter methods, arguments, order, reply) is hand-written and tied by the closures differential "
                    "(real _on_* closures with scripted adapters) and by the adapter-call effects compared in every co-simulation chunk"],
        "assumptions": ["'a return value of the wrong type' = a value of an unsupported type in a type-guarded slot, or (since the repair of F4) "
                        "a non-iterable where a list is expected; a str/bytes where a list is expected is iterated (duck typing, DESIGN I-5)",
                        "requests are well-formed (malformed ones are C09)"],
        "rule": "Metadata scenarios: 1-12 requests over the 14 post-init methods with structured random arguments, per adapter call outcome in "
                "{valid return, wrong-typed return, each library exception class, other exceptions}, thread_pool_size in {1, 2, 3, None, 0, -2} "
                "(cpu_count patched to 8), exception handler absent / True / False, all lines in one chunk / one per chunk / merged, adapter calls "
                "that return only after the reply to a later request was written; random schedules; lock-step comparison of effects, enabled "
                "library threads and state after every chunk; non-trivial = scenario with more than one request or concurrent adapter calls",
    },
    "C18": {
        "lean": ["AriVerif.Props.C18", "AriVerif.Props.C10S", "AriVerif.Props.SkelSub", "AriVerif.Props.SkelMetaPool", "AriVerif.Conc.Progress"],
        "gen": ["Pool", "Skeleton"],
        "streams": [s_conc.meta_stream(["C18"], "meta-cosim"), s_conc.data_stream(["C18", "C02"], "data-cosim-threads"), s_init.stream_pool],
        "trusted": [KERNEL, HARNESS, "the scheduler shim (harness/shim.py): Lock/RLock, Queue, Event, Thread, ThreadPoolExecutor (FIFO work queue, <= n running), scripted socket, virtual clock; line-level preemption via sys.settrace in the fine-grained streams",
                    "harness/extract.py for Gen/Pool.lean (pool sizing), mitigated by the constructor differential with cpu_count patched",
                    "concurrent.futures.ThreadPoolExecutor behaves as the shim's pool; cpu_count() is a parameter"],
        "assumptions": ["'does not block' is stated on the pool model (submission always enabled; a free worker always takes the oldest waiting "
                        "request) and checked on the real server by the enabled-set comparison of every chunk"],
        "rule": "as C04, plus Data scenarios (adapter calls only on pool-task threads: compared as effects per thread in lock-step) and the "
                "constructor grid thread_pool_size in {None, -7..1000} x cpu_count in {1, 2, 8, 64, NotImplementedError} on both kinds",
    },
    "C01": {
        "lean": ["AriVerif.Props.C01", "AriVerif.Conc.DataProj", "AriVerif.Props.SkelSub", "AriVerif.Props.SkelReader", "AriVerif.Conc.Progress"],
        "gen": ["Skeleton"],
        "streams": [s_conc.data_stream(["C01"], "data-cosim"), s_conc.data_fine_stream(["C01"])],
        "trusted": [KERNEL, HARNESS, "the scheduler shim (harness/shim.py): Lock/RLock, Queue, Event, Thread, ThreadPoolExecutor (FIFO work queue, <= n running), scripted socket, virtual clock; line-level preemption via sys.settrace in the fine-grained streams",
                    "Conc/Item.lean is hand-written; it is tied to the real DataProviderServer / SubscriptionManager / _ItemTaskManager by lock-step "
                    "co-simulation: after every atomic chunk of the real run the model must take the same step with the same effects, the same "
                    "enabled library threads and the same abstract state (every manager generation: queue, id, running flag, counter, persisted "
                    "outcome; registered generation; reader-held task; pool queue; send queue), and the invariant Inv (executable mirror "
                    "Conc/InvCheck.lean) is evaluated on every state reached",
                    "the Data server is the item-indexed product of Conc.Item machines (Conc/Data.lean routes chunks per item); theorems are per item",
                    "atomicity of lock-protected sections (reduction) is exercised by the fine-grained stream (line-level preemption, oracles only)"],
        "assumptions": ["request ids pairwise distinct and SUB/USB alternating per item, SUB first (WF) — the property's own hypothesis",
                        "adapter calls return (for the quiescence / progress statements)",
                        "listener payloads are well-typed in the co-simulation (ill-typed ones: C07/C09)"],
        "rule": "Data-server scenarios: 1-3 items, per item 1-12 alternating requests merged in random wire order, pool 1-4, inbound stream cut per line / merged / at random byte offsets (both terminators), snapshot availability in {True, False, None, raises}, subscribe / unsubscribe outcomes in {ok, SubscribeError, FailureError, RuntimeError}, 0-2 events submitted from inside adapter calls (any item), 0-2 adapter-owned threads with 1-4 listener calls each, probe events after quiescence, credentials and early delivery; every run under a seeded random schedule; lock-step comparison after every chunk; plus fine-grained runs (line-level preemption inside subscription.py / server.py); non-trivial = a request arrived while its item's dequeuer was working, or a skipped subscription (chunk-level), every run (fine-grained)",
    },
    "C02": {
        "lean": ["AriVerif.Props.C02", "AriVerif.Props.SkelSub"],
        "gen": ["Skeleton"],
        "streams": [s_conc.data_stream(["C02"], "data-cosim"), s_conc.data_fine_stream(["C02"])],
        "trusted": [KERNEL, HARNESS, "the scheduler shim (harness/shim.py): Lock/RLock, Queue, Event, Thread, ThreadPoolExecutor (FIFO work queue, <= n running), scripted socket, virtual clock; line-level preemption via sys.settrace in the fine-grained streams",
                    "Conc/Item.lean is hand-written; it is tied to the real DataProviderServer / SubscriptionManager / _ItemTaskManager by lock-step "
                    "co-simulation: after every atomic chunk of the real run the model must take the same step with the same effects, the same "
                    "enabled library threads and the same abstract state (every manager generation: queue, id, running flag, counter, persisted "
                    "outcome; registered generation; reader-held task; pool queue; send queue), and the invariant Inv (executable mirror "
                    "Conc/InvCheck.lean) is evaluated on every state reached",
                    "the Data server is the item-indexed product of Conc.Item machines (Conc/Data.lean routes chunks per item); theorems are per item",
                    "atomicity of lock-protected sections (reduction) is exercised by the fine-grained stream (line-level preemption, oracles only)"],
        "assumptions": ["request ids pairwise distinct and SUB/USB alternating per item, SUB first (WF) — the property's own hypothesis",
                        "adapter calls return (for the quiescence / progress statements)",
                        "listener payloads are well-typed in the co-simulation (ill-typed ones: C07/C09)"],
        "rule": "Data-server scenarios: 1-3 items, per item 1-12 alternating requests merged in random wire order, pool 1-4, inbound stream cut per line / merged / at random byte offsets (both terminators), snapshot availability in {True, False, None, raises}, subscribe / unsubscribe outcomes in {ok, SubscribeError, FailureError, RuntimeError}, 0-2 events submitted from inside adapter calls (any item), 0-2 adapter-owned threads with 1-4 listener calls each, probe events after quiescence, credentials and early delivery; every run under a seeded random schedule; lock-step comparison after every chunk; plus fine-grained runs (line-level preemption inside subscription.py / server.py); non-trivial = a request arrived while its item's dequeuer was working, or a skipped subscription (chunk-level), every run (fine-grained)",
    },
    "C03": {
        "lean": ["AriVerif.Props.C03", "AriVerif.Props.SkelSub"],
        "gen": ["Skeleton"],
        "streams": [s_conc.data_stream(["C03"], "data-cosim"), s_conc.data_fine_stream(["C03"])],
        "trusted": [KERNEL, HARNESS, "the scheduler shim (harness/shim.py): Lock/RLock, Queue, Event, Thread, ThreadPoolExecutor (FIFO work queue, <= n running), scripted socket, virtual clock; line-level preemption via sys.settrace in the fine-grained streams",
                    "Conc/Item.lean is hand-written; it is tied to the real DataProviderServer / SubscriptionManager / _ItemTaskManager by lock-step "
                    "co-simulation: after every atomic chunk of the real run the model must take the same step with the same effects, the same "
                    "enabled library threads and the same abstract state (every manager generation: queue, id, running flag, counter, persisted "
                    "outcome; registered generation; reader-held task; pool queue; send queue), and the invariant Inv (executable mirror "
                    "Conc/InvCheck.lean) is evaluated on every state reached",
                    "the Data server is the item-indexed product of Conc.Item machines (Conc/Data.lean routes chunks per item); theorems are per item",
                    "atomicity of lock-protected sections (reduction) is exercised by the fine-grained stream (line-level preemption, oracles only)"],
        "assumptions": ["request ids pairwise distinct and SUB/USB alternating per item, SUB first (WF) — the property's own hypothesis",
                        "adapter calls return (for the quiescence / progress statements)",
                        "listener payloads are well-typed in the co-simulation (ill-typed ones: C07/C09)"],
        "rule": "Data-server scenarios: 1-3 items, per item 1-12 alternating requests merged in random wire order, pool 1-4, inbound stream cut per line / merged / at random byte offsets (both terminators), snapshot availability in {True, False, None, raises}, subscribe / unsubscribe outcomes in {ok, SubscribeError, FailureError, RuntimeError}, 0-2 events submitted from inside adapter calls (any item), 0-2 adapter-owned threads with 1-4 listener calls each, probe events after quiescence, credentials and early delivery; every run under a seeded random schedule; lock-step comparison after every chunk; plus fine-grained runs (line-level preemption inside subscription.py / server.py); non-trivial = a request arrived while its item's dequeuer was working, or a skipped subscription (chunk-level), every run (fine-grained)",
    },
    "C17": {
        "lean": ["AriVerif.Props.C17", "AriVerif.Props.SkelSub"],
        "gen": ["Skeleton"],
        "streams": [s_conc.data_stream(["C17"], "data-cosim"), s_conc.data_fine_stream(["C17"])],
        "trusted": [KERNEL, HARNESS, "the scheduler shim (harness/shim.py): Lock/RLock, Queue, Event, Thread, ThreadPoolExecutor (FIFO work queue, <= n running), scripted socket, virtual clock; line-level preemption via sys.settrace in the fine-grained streams",
                    "Conc/Item.lean is hand-written; it is tied to the real DataProviderServer / SubscriptionManager / _ItemTaskManager by lock-step "
                    "co-simulation: after every atomic chunk of the real run the model must take the same step with the same effects, the same "
                    "enabled library threads and the same abstract state (every manager generation: queue, id, running flag, counter, persisted "
                    "outcome; registered generation; reader-held task; pool queue; send queue), and the invariant Inv (executable mirror "
                    "Conc/InvCheck.lean) is evaluated on every state reached",
                    "the Data server is the item-indexed product of Conc.Item machines (Conc/Data.lean routes chunks per item); theorems are per item",
                    "atomicity of lock-protected sections (reduction) is exercised by the fine-grained stream (line-level preemption, oracles only)"],
        "assumptions": ["request ids pairwise distinct and SUB/USB alternating per item, SUB first (WF) — the property's own hypothesis",
                        "adapter calls return (for the quiescence / progress statements)",
                        "listener payloads are well-typed in the co-simulation (ill-typed ones: C07/C09)"],
        "rule": "Data-server scenarios: 1-3 items, per item 1-12 alternating requests merged in random wire order, pool 1-4, inbound stream cut per line / merged / at random byte offsets (both terminators), snapshot availability in {True, False, None, raises}, subscribe / unsubscribe outcomes in {ok, SubscribeError, FailureError, RuntimeError}, 0-2 events submitted from inside adapter calls (any item), 0-2 adapter-owned threads with 1-4 listener calls each, probe events after quiescence, credentials and early delivery; every run under a seeded random schedule; lock-step comparison after every chunk; plus fine-grained runs (line-level preemption inside subscription.py / server.py); non-trivial = a request arrived while its item's dequeuer was working, or a skipped subscription (chunk-level), every run (fine-grained)",
    },
    "C19": {
        "lean": ["AriVerif.Props.C19", "AriVerif.Props.SkelSub"],
        "gen": ["Skeleton"],
        "streams": [s_conc.data_stream(["C19"], "data-cosim"), s_conc.data_fine_stream(["C19"]), s_real.stream_census],
        "trusted": [KERNEL, HARNESS, "the scheduler shim (harness/shim.py): Lock/RLock, Queue, Event, Thread, ThreadPoolExecutor (FIFO work queue, <= n running), scripted socket, virtual clock; line-level preemption via sys.settrace in the fine-grained streams",
                    "Conc/Item.lean is hand-written; it is tied to the real DataProviderServer / SubscriptionManager / _ItemTaskManager by lock-step "
                    "co-simulation: after every atomic chunk of the real run the model must take the same step with the same effects, the same "
                    "enabled library threads and the same abstract state (every manager generation: queue, id, running flag, counter, persisted "
                    "outcome; registered generation; reader-held task; pool queue; send queue), and the invariant Inv (executable mirror "
                    "Conc/InvCheck.lean) is evaluated on every state reached",
                    "the Data server is the item-indexed product of Conc.Item machines (Conc/Data.lean routes chunks per item); theorems are per item",
                    "atomicity of lock-protected sections (reduction) is exercised by the fine-grained stream (line-level preemption, oracles only)"],
        "assumptions": ["request ids pairwise distinct and SUB/USB alternating per item, SUB first (WF) — the property's own hypothesis",
                        "adapter calls return (for the quiescence / progress statements)",
                        "listener payloads are well-typed in the co-simulation (ill-typed ones: C07/C09)"],
        "rule": "Data-server scenarios: 1-3 items, per item 1-12 alternating requests merged in random wire order, pool 1-4, inbound stream cut per line / merged / at random byte offsets (both terminators), snapshot availability in {True, False, None, raises}, subscribe / unsubscribe outcomes in {ok, SubscribeError, FailureError, RuntimeError}, 0-2 events submitted from inside adapter calls (any item), 0-2 adapter-owned threads with 1-4 listener calls each, probe events after quiescence, credentials and early delivery; every run under a seeded random schedule; lock-step comparison after every chunk; plus fine-grained runs (line-level preemption inside subscription.py / server.py); non-trivial = a request arrived while its item's dequeuer was working, or a skipped subscription (chunk-level), every run (fine-grained)",
    },
}

# ---- the "no state outside the instances" tie (Gen/State.lean vs Spec/State.lean): which properties' models rest on it
_STATE = {
    "AriVerif.Props.StateCodec": ["C03", "C05", "C06", "C07", "C08", "C09", "C14", "C17"],
    "AriVerif.Props.StateSub": ["C01", "C02", "C03", "C17", "C19"],
    "AriVerif.Props.StateServer": ["C01", "C04", "C09", "C10", "C11", "C12", "C13", "C14", "C15", "C16", "C18", "C20"],
}
for _mod, _ps in _STATE.items():
    for _p in _ps:
        _P = PROPS[_p]
        _P["lean"] = list(_P["lean"]) + [_mod]
        _P["gen"] = list(_P.get("gen", [])) + (["State"] if "State" not in _P.get("gen", []) else [])
        _t = "purity of the codec layer / instance ownership of all state is itself extracted from the source (Gen.sharedState: writes to module-level or class-level state, caching decorators, mutable defaults, class-level containers, descriptors) and compared with the record Spec.sharedState by theorem"
        if _t not in _P["trusted"]:
            _P["trusted"] = list(_P["trusted"]) + [_t]
